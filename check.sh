#!/bin/sh
# usage: ./check.sh Cxx quick|thorough      run the static checks of one property against /repo
#        ./check.sh --replay <file>         re-decide the obligation recorded in a replay file
# The analysis type-checks /repo's current working tree on every run; nothing in /repo is executed.
cd "$(dirname "$0")" || exit 2
VERIF="$(pwd)"
REPO="${VERIF_REPO:-/repo}"
# go must pick the repository's own toolchain (go.mod says 1.23.7): leave GOTOOLCHAIN/GOSUMDB alone.
unset GOWORK GOTOOLCHAIN GOSUMDB
export GOFLAGS=-mod=mod GOPROXY=off
if [ ! -x "$VERIF/bin/nutcheck" ] || [ -n "$(find "$VERIF/checker" -name '*.go' -newer "$VERIF/bin/nutcheck" 2>/dev/null | head -1)" ]; then
  (cd "$VERIF/checker" && GOFLAGS=-mod=vendor GOPROXY=off go build -o "$VERIF/bin/nutcheck" ./cmd/nutcheck) || { echo "cannot build nutcheck"; exit 2; }
fi
if [ "$1" = "--replay" ]; then
  exec "$VERIF/bin/nutcheck" -repo "$REPO" -verif "$VERIF" -replay "$2"
fi
PROP="$1"; TIER="${2:-${VERIF_TIER:-quick}}"
exec "$VERIF/bin/nutcheck" -repo "$REPO" -verif "$VERIF" -property "$PROP" -tier "$TIER"
