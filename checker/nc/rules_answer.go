package nc

import (
	"fmt"
	"go/token"
	"go/types"
	"sort"
	"strings"

	"golang.org/x/tools/go/ssa"
)

// ruleAnswerReportsStored: an operation that writes a quote's state (and preimage) and then answers with the
// quote must answer with what it wrote. For every successful state write W(id, …, state) in the operation, in
// a helper that is new on this tree, or in an existing helper on the way (the internal settlement), and every
// success return of the enclosing function that returns the quote record and is reached from W's success
// edge with no further state write in between: the returned record's fields, computed over the paths that
// pass W only, equal the values bound to the statement's columns. A helper that performs the write and
// hands the record back is followed one level up: the caller returns the helper's record with these fields
// untouched. The write's own guards are the business of the decision-table rules; this rule is about the
// answer agreeing with storage (the client acts on the answer: a PAID answer without the stored PAID, or
// the reverse, is a melt/mint outcome the mint will not stand by).
//
// cols maps a column of the UPDATE statement to the record field that reports it.
func (c *Ctx) ruleAnswerReportsStored(rule string, ops []*ssa.Function, role, readRole string, cols map[string]string, min int) {
	R := c.R
	setMeths := c.V.MethodsWithRole(role)
	if len(setMeths) != 1 {
		R.Unresolved(rule, "storage method with role "+role, fmt.Sprintf("found %v", setMeths))
		return
	}
	params := map[string]int{}
	for col := range cols {
		p := c.paramOfColumn(setMeths[0], role, col)
		if p < 0 {
			R.Unresolved(rule, "parameter of "+setMeths[0]+" bound to column "+col, "not found")
			return
		}
		params[col] = p
	}
	// the record type: what the reader of the same table returns
	var recType types.Type
	if c.V.DBIface != nil {
		if it, ok := c.V.DBIface.Underlying().(*types.Interface); ok {
			for _, m := range c.V.MethodsWithRole(readRole) {
				for i := 0; i < it.NumMethods(); i++ {
					if f := it.Method(i); f.Name() == m {
						if sig, ok := f.Type().(*types.Signature); ok && sig.Results().Len() > 0 {
							if _, isStruct := sig.Results().At(0).Type().Underlying().(*types.Struct); isStruct {
								recType = sig.Results().At(0).Type()
							}
						}
					}
				}
			}
		}
	}
	if recType == nil {
		R.Unresolved(rule, "record type of "+readRole, "no reader found")
		return
	}
	resultIdx := func(f *ssa.Function) int {
		res := f.Signature.Results()
		for i := 0; i < res.Len(); i++ {
			if types.Identical(res.At(i).Type(), recType) {
				return i
			}
		}
		return -1
	}
	n := 0
	seen := map[string]bool{}
	writes := map[*ssa.Function]bool{}
	for _, op := range ops {
		if op == nil {
			continue
		}
		fk := c.P.FuncKey(op)
		sites := c.roleSites(op, role)
		isSet := map[ssa.Instruction]bool{}
		for _, s := range sites {
			isSet[s.Instr] = true
			isSet[s.Inner] = true
		}
		// check one function g at one call `at` (the write, or a helper performing it) against wanted field values
		check := func(g *ssa.Function, at ssa.CallInstruction, want map[string]*Ex, what string) {
			ri := resultIdx(g)
			if ri < 0 {
				return
			}
			key := fmt.Sprintf("%s|%s|%s", c.P.FuncKey(g), c.P.InstrPos(at), what)
			if seen[key] {
				return
			}
			seen[key] = true
			og := c.P.OriginsOf(g)
			// success edges of the call
			var starts []Point
			for _, e := range og.AllEdges() {
				f := og.EdgeFact(e)
				if f == nil || f.Kind != "errnil" || !f.Pos || f.A == nil {
					continue
				}
				all := true
				for _, a := range f.A.Alts() {
					if a.Call != at {
						all = false
					}
				}
				if all {
					starts = append(starts, Point{e.To(), 0})
				}
			}
			if len(starts) == 0 {
				// results passed on as they are (tail call) or no error result: everything behind the call
				starts = append(starts, Point{at.Block(), instrIndex(at) + 1})
			}
			// other writes end the stretch this write answers for
			stop := NewCut()
			for _, b := range g.Blocks {
				for _, in := range b.Instrs {
					if in == ssa.Instruction(at) {
						continue
					}
					if isSet[in] {
						stop.Barriers[in] = true
					} else if ci, ok := in.(ssa.CallInstruction); ok {
						// a call of a module function that performs such a write (a helper new on this tree is
						// listed with its inner site only)
						if callee := ci.Common().StaticCallee(); callee != nil && callee.Pkg != nil && c.P.InModule(callee.Pkg.Pkg.Path()) {
							w, known := writes[callee]
							if !known {
								w = len(c.roleSites(callee, role)) > 0
								writes[callee] = w
							}
							if w {
								stop.Barriers[in] = true
							}
						}
					}
				}
			}
			for _, r := range og.SuccessReturns() {
				if ri >= len(r.Results) {
					continue
				}
				reached := false
				region := map[*ssa.BasicBlock]bool{}
				for _, st := range starts {
					if ok, _ := Reach(st, PointOf(r), stop); ok {
						reached = true
					}
					for _, b := range g.Blocks {
						if ok, _ := Reach(st, Point{b, 0}, stop); ok || b == st.B {
							region[b] = true
						}
					}
				}
				if !reached {
					continue
				}
				// provenance over the paths through the write only: the stretch is entered from the write's
				// success edge (or, without one, through the block of the call)
				cut := map[Edge]bool{}
				entry := map[*ssa.BasicBlock]bool{}
				for _, st := range starts {
					entry[st.B] = true
				}
				for b := range region {
					for _, p := range b.Preds {
						if region[p] {
							continue
						}
						if entry[b] {
							// the edge must be a success edge of the call (or the call sits in b itself)
							if b == at.Block() {
								continue
							}
							okEdge := false
							for i, s := range p.Succs {
								if s == b {
									if f := og.EdgeFact(Edge{p, i}); f != nil && f.Kind == "errnil" && f.Pos && f.A != nil {
										okEdge = true
										for _, a := range f.A.Alts() {
											if a.Call != at {
												okEdge = false
											}
										}
									}
								}
							}
							if okEdge {
								continue
							}
						}
						for i, s := range p.Succs {
							if s == b {
								cut[Edge{p, i}] = true
							}
						}
					}
				}
				// paths through a later write are that write's business
				for in := range stop.Barriers {
					b := in.Block()
					if !region[b] && b != at.Block() {
						continue
					}
					for i := range b.Succs {
						cut[Edge{b, i}] = true
					}
				}
				val := og.WithCut(cut).Of(r.Results[ri])
				for col, field := range cols {
					w := want[col]
					if w == nil || (col != "state" && isConst(w, `""`)) {
						// nothing is written to the column (the statement stores an empty text next to a state
						// that has no preimage); the decision table decides which states carry one
						continue
					}
					got := project(val, field)
					// (a value that is itself one of several - the answer of whichever pay call was made - is the
					// same variable on both sides: every alternative of the answer is one of the written value)
					ok := true
					wa := map[string]bool{w.String(): true}
					for _, a := range w.Alts() {
						wa[a.String()] = true
					}
					for _, a := range got.Alts() {
						if !wa[a.String()] {
							ok = false
						}
					}
					n++
					R.Check(rule, fk, fmt.Sprintf("%s in %s: answered %s is the stored one", what, c.P.FuncKey(g), field), c.P.InstrPos(r), ok,
						"the record returned after a successful write carries the value written to column "+col,
						fmt.Sprintf("written: %s; answered %s: %s", short(w.String(), 120), field, short(got.String(), 200)))
				}
			}
		}
		for _, s := range sites {
			// the write itself, in the function that contains it
			f0 := s.Inner.Parent()
			of := c.P.OriginsOf(f0)
			d := c.P.Describe(s.Inner)
			want := map[string]*Ex{}
			for col, p := range params {
				if p < len(d.Args) {
					want[col] = of.Of(d.Args[p])
				}
			}
			check(f0, s.Inner, want, "write "+siteDescInner(c, s)+stateOf(want))
			if s.Direct {
				// a helper new on this tree that performs the write without returning the record: each caller
				// answers with the values it handed in
				if f0 != op && f0.Parent() == nil && c.P.IsNewFunc(f0) && resultIdx(f0) < 0 {
					for _, oc := range c.CtxsOf(s.Inner) {
						if oc.call == nil || oc.Fn != f0 {
							continue
						}
						want2 := map[string]*Ex{}
						for col, p := range params {
							if p < len(d.Args) {
								want2[col] = oc.Of(d.Args[p])
							}
						}
						check(oc.call.Parent(), oc.call, want2, "write through "+c.P.FuncKey(f0)+stateOf(want2))
					}
				}
				// a helper new on this tree that hands the record back: each caller passes it on untouched
				if f0 != op && f0.Parent() == nil && c.P.IsNewFunc(f0) && resultIdx(f0) >= 0 {
					for _, site := range c.callersOf(f0) {
						call, isCall := site.(*ssa.Call)
						if !isCall {
							continue
						}
						og := c.P.OriginsOf(site.Parent())
						rec := og.callEx(call, resultIdx(f0))
						if f0.Signature.Results().Len() == 1 {
							rec = og.callEx(call, -1)
						}
						want2 := map[string]*Ex{}
						for col, field := range cols {
							want2[col] = project(rec, field)
						}
						check(site.Parent(), site, want2, "write through "+c.P.FuncKey(f0)+stateOf(want))
					}
				}
				continue
			}
			// the helper on the way: the caller answers with the helper's record, or - when the helper does
			// not return one - with the values the helper was given to write
			callee := s.Instr.Common().StaticCallee()
			g := s.Instr.Parent()
			og := c.P.OriginsOf(g)
			want2 := map[string]*Ex{}
			if callee != nil && resultIdx(callee) >= 0 {
				call, isCall := s.Instr.(*ssa.Call)
				if !isCall {
					continue
				}
				rec := og.callEx(call, resultIdx(callee))
				if callee.Signature.Results().Len() == 1 {
					rec = og.callEx(call, -1)
				}
				for col, field := range cols {
					want2[col] = project(rec, field)
				}
			} else if callee != nil && s.Inner.Parent() == callee {
				args := c.innerArgs(s)
				off := 0
				if d.Recv != nil {
					off = 1
				}
				for col, p := range params {
					if off+p < len(args) {
						want2[col] = args[off+p]
					}
				}
			} else {
				continue
			}
			check(g, s.Instr, want2, "write through "+siteDesc(c, s)+stateOf(want))
		}
	}
	if n < min {
		R.Unresolved(rule, "answers checked", fmt.Sprintf("%d field comparisons, expected at least %d", n, min))
	}
}

func siteDescInner(c *Ctx, s EffectSite) string {
	return c.P.Describe(s.Inner).Name
}

func stateOf(want map[string]*Ex) string {
	if w := want["state"]; w != nil {
		return " [state " + short(w.String(), 40) + "]"
	}
	return ""
}

// ruleMeltEffectOperands: which proofs the melt operation and the melt-quote poll release or mark spent.
// The decision table decides *when* a release or a settle happens; this rule decides *what* it is applied to:
//   - melt operation: the unlock takes the Ys of the request's inputs, the spent-table insert the inputs;
//   - poll (the request is gone): the unlock takes the Y of every row the pending table holds for this
//     quote's id, the spent-table insert takes a proof rebuilt field by field from each of those rows.
//
// A release that names other proofs leaves the inputs locked for ever (or frees somebody else's); a settle
// that stores other secrets leaves the inputs spendable.
func (c *Ctx) ruleMeltEffectOperands(rule string) {
	R := c.R
	melt := c.op(rule, "/v1/melt/{method}")
	poll := c.op(rule, "/v1/melt/quote/{method}/{quote_id}")
	if melt != nil {
		fk := c.P.FuncKey(melt)
		inputs := c.inputsOf(rule, melt)
		c.OpContexts(melt) // scope: helpers shared with other operations are read from the melt's call sites
		for _, s := range c.roleSites(melt, roleUnlock) {
			ok, why := true, ""
			for _, args := range c.siteArgs(s) {
				if !(len(args) >= 2 && isYsOf(args[1], inputs)) {
					ok, why = false, "argument: "+short(argStr(args, 1), 200)
				}
			}
			R.Check(rule, fk, "UNLOCK "+siteDesc(c, s)+" takes the Ys of the inputs", c.P.InstrPos(s.Instr), ok, "melt: what is unlocked is the request's inputs", why)
		}
		for _, s := range c.roleSites(melt, roleMarkSpent) {
			ok, why := true, ""
			for _, args := range c.siteArgs(s) {
				if !(len(args) >= 2 && exprIs(args[1], inputs)) {
					ok, why = false, "argument: "+short(argStr(args, 1), 200)
				}
			}
			R.Check(rule, fk, "MARK_SPENT "+siteDesc(c, s)+" takes the inputs", c.P.InstrPos(s.Instr), ok, "melt: what is marked spent is the request's inputs", why)
		}
	}
	if poll != nil && len(poll.Params) >= 2 {
		fk := c.P.FuncKey(poll)
		// the quote's id: the poll's string parameter, or the Id of the quote read with it
		var idParam string
		for _, p := range poll.Params[1:] {
			if bt, ok := p.Type().Underlying().(*types.Basic); ok && bt.Kind() == types.String {
				idParam = "P:" + p.Name()
			}
		}
		isQuoteId := func(e *Ex) bool {
			if e == nil {
				return false
			}
			if e.String() == idParam {
				return true
			}
			return isField(e, "Id") && e.Args[0].K == "call" && e.Args[0].Idx == 0 && c.dbCallWithRole(e.Args[0], roleReadMelt) && exprIs(arg(e.Args[0], 1), idParam)
		}
		// rows of the pending table for this quote
		isRows := func(e *Ex) bool {
			return e != nil && e.K == "call" && e.Idx == 0 && c.dbCallWithRole(e, roleReadLocked) && isQuoteId(arg(e, 1))
		}
		c.OpContexts(poll)
		for _, s := range c.roleSites(poll, roleUnlock) {
			ok, why := true, ""
			for _, args := range c.siteArgs(s) {
				okA := false
				if len(args) >= 2 {
					a := args[1]
					okA = a.K == "map" && isRows(a.Args[0]) && isField(a.Args[1], "Y") && a.Args[1].Args[0].K == "elem" && a.Args[1].Args[0].Args[0].String() == a.Args[0].String()
				}
				if !okA {
					ok, why = false, "argument: "+short(argStr(args, 1), 240)
				}
			}
			R.Check(rule, fk, "UNLOCK "+siteDesc(c, s)+" takes the Y of every pending row of the quote", c.P.InstrPos(s.Instr), ok, "poll: what is unlocked is every proof the pending table holds for this quote's id", why)
		}
		for _, s := range c.roleSites(poll, roleMarkSpent) {
			o := c.CtxOf(s.Instr)
			d := c.P.Describe(s.Instr)
			ok := false
			why := ""
			if s.Direct && len(d.Args) >= 1 {
				a := o.Of(d.Args[0])
				// the list handed back by a helper of the poll is read in the helper
				if a.K == "call" && a.Call != nil {
					if callee := a.Call.Common().StaticCallee(); callee != nil && callee.Pkg != nil && c.P.InModule(callee.Pkg.Pkg.Path()) {
						oc := o.Enter(callee, a.Call)
						var alts []*Ex
						for _, r := range oc.SuccessReturns() {
							if a.Idx < len(r.Results) && a.Idx >= 0 {
								alts = append(alts, oc.Of(r.Results[a.Idx]))
							}
						}
						if len(alts) == 1 {
							a = alts[0]
						}
					}
				}
				why = short(a.String(), 300)
				if a.K == "map" && isRows(a.Args[0]) {
					el := "elem(" + a.Args[0].String() + ")"
					ok = true
					for _, f := range []string{"Amount", "Id", "Secret", "C"} {
						if v := project(a.Args[1], f); v.String() != el+"."+f {
							ok = false
							why = f + " = " + short(v.String(), 160)
						}
					}
				}
			} else {
				why = "the spent-table insert is not a direct call of the poll"
			}
			R.Check(rule, fk, "MARK_SPENT "+siteDesc(c, s)+" takes the proofs rebuilt from the pending rows of the quote", c.P.InstrPos(s.Instr), ok,
				"poll: what is marked spent is, field by field (amount, keyset id, secret, C), every proof the pending table holds for this quote's id", why)
		}
	}
}

func argStr(args []*Ex, i int) string {
	if i < len(args) {
		return args[i].String()
	}
	return "<missing>"
}

// ruleNoTypedNilError: a nil pointer of a type that implements error, converted to the error interface, is a
// non-nil error whose methods run on a nil receiver (the handlers' `err.(*cashu.Error)` then reads through
// nil). Every conversion of a pointer to an error value in the given packages therefore converts a pointer
// that is never nil: the address of a fresh value, or the result of a module function all of whose returns
// are such pointers.
func (c *Ctx) ruleNoTypedNilError(rule string, pkgs []string, min int) {
	R := c.R
	errT := types.Universe.Lookup("error").Type().Underlying().(*types.Interface)
	n := 0
	for _, fn := range c.P.Funcs {
		top := EnclosingTop(fn)
		if top.Pkg == nil || fn.Blocks == nil {
			continue
		}
		in := false
		for _, p := range pkgs {
			if c.P.Rel(top.Pkg.Pkg.Path()) == p {
				in = true
			}
		}
		if !in {
			continue
		}
		for _, b := range fn.Blocks {
			for _, ins := range b.Instrs {
				mi, ok := ins.(*ssa.MakeInterface)
				if !ok {
					continue
				}
				if _, isPtr := mi.X.Type().Underlying().(*types.Pointer); !isPtr || !types.Implements(mi.X.Type(), errT) {
					continue
				}
				if it, ok := mi.Type().Underlying().(*types.Interface); !ok || !types.Identical(it, errT) {
					continue
				}
				n++
				ok2, why := ptrNeverNil(mi.X, 0)
				R.Check(rule, c.P.FuncKey(fn), "error value made from "+typeShort(c.P, mi.X.Type())+" <- "+ptrSourceName(mi.X), c.P.InstrPos(mi), ok2,
					"a pointer converted to error is never nil (a nil pointer inside an error value is a non-nil error)", why)
			}
		}
	}
	if n < min {
		R.Unresolved(rule, "pointer-to-error conversions", fmt.Sprintf("%d found, at least %d were confirmed by hand on the reference tree", n, min))
	}
}

func ptrNeverNil(v ssa.Value, depth int) (bool, string) {
	if depth > 3 {
		return false, "too deep"
	}
	switch x := v.(type) {
	case *ssa.Alloc:
		return true, ""
	case *ssa.Const:
		return false, "the constant nil"
	case *ssa.Phi:
		for _, e := range x.Edges {
			if ok, why := ptrNeverNil(e, depth+1); !ok {
				return false, why
			}
		}
		return true, ""
	case *ssa.ChangeType:
		return ptrNeverNil(x.X, depth)
	case *ssa.Extract:
		if call, ok := x.Tuple.(*ssa.Call); ok {
			return resultNeverNil(call, x.Index, depth)
		}
	case *ssa.Call:
		return resultNeverNil(x, 0, depth)
	}
	return false, "not the address of a fresh value or the result of a function that never returns nil"
}

func resultNeverNil(call *ssa.Call, idx int, depth int) (bool, string) {
	callee := call.Call.StaticCallee()
	if callee == nil || callee.Blocks == nil {
		return false, "result of a call that cannot be read"
	}
	for _, r := range Returns(callee) {
		if idx >= len(r.Results) {
			return false, "result index"
		}
		if ok, why := ptrNeverNil(r.Results[idx], depth+1); !ok {
			return false, callee.Name() + " can return " + why
		}
	}
	return true, ""
}

func ptrSourceName(v ssa.Value) string {
	switch x := v.(type) {
	case *ssa.Alloc:
		return "address of a fresh value"
	case *ssa.Phi:
		return "one of several values"
	case *ssa.Extract:
		if call, ok := x.Tuple.(*ssa.Call); ok {
			if f := call.Call.StaticCallee(); f != nil {
				return "result of " + f.Name()
			}
		}
	case *ssa.Call:
		if f := x.Call.StaticCallee(); f != nil {
			return "result of " + f.Name()
		}
	}
	return "a value"
}

// c17ForeignProofsStayOut: a token received from an untrusted mint with swap-to-trusted is melted there and
// minted at the trusted mint; its proofs (and those of the SIG_ALL pre-swap at the untrusted mint) are never
// the wallet's own. No wallet-storage write reachable from swapToTrusted - through shared helpers, read in
// the context of this caller - takes proofs that derive from them: a failed melt must not leave the token's
// value in the balance while the caller still holds the token.
func (c *Ctx) c17ForeignProofsStayOut(rule string) {
	R := c.R
	f := c.fn(rule, "wallet.(*Wallet).swapToTrusted")
	if f == nil {
		return
	}
	fk := c.P.FuncKey(f)
	var taints []string
	for _, p := range f.Params[1:] {
		if n, ok := p.Type().(*types.Named); ok && n.Obj().Name() == "Proofs" {
			taints = append(taints, "P:"+p.Name())
		}
	}
	if len(taints) == 0 {
		R.Unresolved(rule, "proofs parameter of "+fk, "not found")
		return
	}
	nWrites := 0
	seen := map[*ssa.Function]bool{}
	var walk func(o *Origins, g *ssa.Function, depth int)
	walk = func(o *Origins, g *ssa.Function, depth int) {
		for _, ci := range Calls(g) {
			d := c.P.Describe(ci)
			if d.Iface != nil && (d.Iface.Name() == "SaveProofs" || strings.HasPrefix(d.Iface.Name(), "AddPendingProofs")) && len(d.Args) > 0 {
				nWrites++
				ae := o.Of(d.Args[0])
				a := ae.String()
				bad := ""
				if foreignProofs(ae, taints, 0) {
					bad = taints[0]
				}
				R.Check(rule, fk, "storage write "+d.Iface.Name()+" in "+c.P.FuncKey(g)+" does not take the token's proofs", c.P.InstrPos(ci), bad == "",
					"no proofs of the untrusted mint are written into the wallet's buckets on the swap-to-trusted path", "argument derives from "+bad+": "+short(a, 160))
				continue
			}
			callee := ci.Common().StaticCallee()
			if callee == nil || callee.Blocks == nil || callee.Pkg == nil || !c.P.InModule(callee.Pkg.Pkg.Path()) || depth >= 3 || seen[callee] {
				continue
			}
			// only helpers that are handed tainted proofs can write them
			handed := false
			for _, arg := range ci.Common().Args {
				if foreignProofs(o.Of(arg), taints, 0) {
					handed = true
				}
			}
			if !handed {
				continue
			}
			seen[callee] = true
			walk(o.Enter(callee, ci), callee, depth+1)
			delete(seen, callee)
		}
	}
	walk(c.P.OriginsOf(f), f, 0)
	R.Check(rule, fk, "swap-to-trusted path examined", c.P.Pos(f.Pos()), true, "the helpers that receive the token's proofs were read in this caller's context", fmt.Sprintf("%d storage writes met", nWrites))
}

// foreignProofs: the expression is the list of foreign proofs itself, the result of the pre-swap at the
// untrusted mint, or a list built from their elements (a copy, a filtered or stripped list, one of several).
// A value merely computed from them (an amount, a quote id) is not.
func foreignProofs(e *Ex, taints []string, depth int) bool {
	if e == nil || depth > 5 {
		return false
	}
	for _, t := range taints {
		if e.String() == t {
			return true
		}
	}
	switch e.K {
	case "call":
		return e.S == "wallet.swap" && e.Idx == 0
	case "phi", "map", "slice", "acc", "append", "elem", "with", "spread":
		for _, a := range e.Args {
			if foreignProofs(a, taints, depth+1) {
				return true
			}
		}
	}
	return false
}

// ruleStoredRecordShape: the wallet's bbolt storage keeps each kind of record (keyset, proof, pending proof,
// mint quote, melt quote) as JSON. Every method that writes or reads one kind must agree on the JSON members
// of the record: a method that re-writes a record through a narrower type (a read-modify-write of the counter
// through a struct without the fee) silently drops the members it does not name. Per kind - taken from the
// noun in the method's name - all struct types handed to json.Marshal / json.Unmarshal in the methods (with
// their closures and helpers new on this tree) have the same set of JSON member names.
func (c *Ctx) ruleStoredRecordShape(rule string, pkg string, min int) {
	R := c.R
	nouns := []string{"PendingProof", "Proof", "Keyset", "MintQuote", "MeltQuote"}
	type use struct {
		fn   *ssa.Function
		t    *types.Named
		at   ssa.Instruction
		keys map[string]bool
		w    bool
	}
	groups := map[string][]use{}
	structOf := func(t types.Type) *types.Named {
		for i := 0; i < 4; i++ {
			switch x := t.(type) {
			case *types.Pointer:
				t = x.Elem()
				continue
			case *types.Slice:
				t = x.Elem()
				continue
			case *types.Named:
				if _, ok := x.Underlying().(*types.Struct); ok {
					return x
				}
				return nil
			}
			break
		}
		return nil
	}
	jsonKeys := func(n *types.Named) map[string]bool {
		out := map[string]bool{}
		st := n.Underlying().(*types.Struct)
		for i := 0; i < st.NumFields(); i++ {
			f := st.Field(i)
			if !f.Exported() {
				continue
			}
			name := f.Name()
			if tag := reflectTagJSON(st.Tag(i)); tag != "" {
				if tag == "-" {
					continue
				}
				name = tag
			}
			out[strings.ToLower(name)] = true
		}
		return out
	}
	for _, f := range c.P.Funcs {
		if f.Parent() != nil || f.Pkg == nil || c.P.Rel(f.Pkg.Pkg.Path()) != pkg || f.Blocks == nil || f.Signature.Recv() == nil || c.P.IsNewFunc(f) {
			continue
		}
		noun := ""
		for _, nn := range nouns {
			if strings.Contains(f.Name(), nn) {
				noun = nn
				break
			}
		}
		if noun == "" {
			continue
		}
		for _, g := range c.OpFuncs(f) {
			for _, ci := range Calls(g) {
				d := c.P.Describe(ci)
				var arg ssa.Value
				write := false
				switch d.Name {
				case "encoding/json.Marshal":
					arg, write = d.Args[0], true
				case "encoding/json.Unmarshal":
					arg = d.Args[1]
				default:
					continue
				}
				if mi, ok := arg.(*ssa.MakeInterface); ok {
					arg = mi.X
				}
				if n := structOf(arg.Type()); n != nil {
					groups[noun] = append(groups[noun], use{f, n, ci, jsonKeys(n), write})
				}
			}
		}
	}
	total := 0
	for _, noun := range nouns {
		us := groups[noun]
		if len(us) == 0 {
			continue
		}
		// reference: the type used most often
		count := map[*types.Named]int{}
		for _, u := range us {
			count[u.t]++
		}
		var ref *types.Named
		for t, k := range count {
			if ref == nil || k > count[ref] || (k == count[ref] && t.Obj().Name() < ref.Obj().Name()) {
				ref = t
			}
		}
		refKeys := jsonKeys(ref)
		for _, u := range us {
			if !u.w {
				continue // a reader that names fewer members loses nothing
			}
			total++
			var diff []string
			for k := range refKeys {
				if !u.keys[k] {
					diff = append(diff, "-"+k)
				}
			}
			for k := range u.keys {
				if !refKeys[k] {
					diff = append(diff, "+"+k)
				}
			}
			sort.Strings(diff)
			R.Check(rule, c.P.FuncKey(u.fn), noun+" record has the members of "+ref.Obj().Name(), c.P.InstrPos(u.at), len(diff) == 0,
				"every method that stores or loads a "+noun+" record uses a type with the same JSON members (a narrower type drops members on re-write)",
				fmt.Sprintf("%s differs from %s in members %v", u.t.Obj().Name(), ref.Obj().Name(), diff))
		}
	}
	if total < min {
		R.Unresolved(rule, "JSON records of "+pkg, fmt.Sprintf("%d marshal / unmarshal sites in methods named after a record, expected at least %d", total, min))
	}
}

// ruleNoAppendIntoLivePrefix: `append(x[:k], ...)` writes behind position k of x's backing array whenever
// it has room - into the elements that x[k:] (or x itself) still names. In the packages given no append takes
// a proper prefix of a list (upper bound set, not len(x), not 0, no capacity bound) while that list or another
// slice of it is used afterwards. (Proof selection keeps two candidate lists it moves elements between;
// a proof written over another is selected twice or lost.)
func (c *Ctx) ruleNoAppendIntoLivePrefix(rule string, pkgs []string) {
	R := c.R
	nAppend := 0
	for _, f := range c.P.Funcs {
		top := EnclosingTop(f)
		if top.Pkg == nil || f.Blocks == nil {
			continue
		}
		in := false
		for _, p := range pkgs {
			if c.P.Rel(top.Pkg.Pkg.Path()) == p {
				in = true
			}
		}
		if !in {
			continue
		}
		for _, ci := range Calls(f) {
			call, ok := ci.(*ssa.Call)
			if !ok {
				continue
			}
			bi, ok := call.Call.Value.(*ssa.Builtin)
			if !ok || bi.Name() != "append" || len(call.Call.Args) == 0 {
				continue
			}
			nAppend++
			sl, ok := call.Call.Args[0].(*ssa.Slice)
			if !ok || sl.High == nil || sl.Max != nil {
				continue
			}
			if k, isC := constInt(sl.High); isC && k == 0 {
				continue // x[:0]: the in-place filter idiom, x is rebuilt from its start
			}
			if lenArg(sl.High) == sl.X {
				continue
			}
			if _, isArr := sl.X.Type().Underlying().(*types.Pointer); isArr {
				continue // a prefix of a local array used as a buffer
			}
			// is the base (or another slice of it) used after the append?
			live := ""
			if refs := sl.X.Referrers(); refs != nil {
				for _, r := range *refs {
					if r == ssa.Instruction(sl) || r == ssa.Instruction(call) {
						continue
					}
					if _, isDbg := r.(*ssa.DebugRef); isDbg {
						continue
					}
					if reach, _ := Reach(Point{call.Block(), instrIndex(call) + 1}, PointOf(r), NewCut()); reach {
						live = c.P.InstrPos(r)
					}
				}
			}
			R.Check(rule, c.P.FuncKey(top), "append into a prefix of a list that stays in use", c.P.InstrPos(call), live == "",
				"no append takes a proper prefix x[:k] of a list while x or another slice of x is used afterwards (the append overwrites the elements behind k)",
				"the list is used again at "+live)
		}
	}
	R.Check(rule, "-", "appends examined", "", nAppend >= 20, "the rule looked at the append calls of the packages", fmt.Sprintf("%d appends", nAppend))
}

// ruleNullableDLEQ: a blind-signature row written before the DLEQ columns existed has NULL in e and s. The
// readers hand such a row out without a DLEQ (the JSON member is omitted), never with an empty one: every store
// of a non-nil DLEQ into the result built from nullable columns lies behind `Valid` of each of those columns.
func (c *Ctx) ruleNullableDLEQ(rule string) {
	R := c.R
	n := 0
	isNull := func(t types.Type) bool {
		return strings.HasPrefix(strings.TrimPrefix(typeShort(c.P, t), "*"), "sql.Null")
	}
	for _, m := range c.V.MethodsWithRole(roleReadSigs) {
		for _, t := range c.V.DBImpls {
			f := c.P.MethodOf(t, m)
			if f == nil || f.Blocks == nil {
				continue
			}
			for _, g := range c.OpFuncs(f) {
				for _, b := range g.Blocks {
					for _, in := range b.Instrs {
						lit, ok := in.(*ssa.Alloc)
						if !ok || !strings.HasSuffix(typeShort(c.P, lit.Type()), "DLEQProof") || lit.Referrers() == nil {
							continue
						}
						// where the literal is handed on: stored into a DLEQ member, or returned by a helper
						var sinks []ssa.Instruction
						bases := map[ssa.Value]string{} // nullable local (its address) or parameter -> name
						for _, r := range *lit.Referrers() {
							switch x := r.(type) {
							case *ssa.Store:
								if x.Val == ssa.Value(lit) {
									if fa, ok := x.Addr.(*ssa.FieldAddr); ok && fieldName(fa) == "DLEQ" {
										sinks = append(sinks, x)
									}
								}
							case *ssa.Return:
								sinks = append(sinks, x)
							case *ssa.FieldAddr:
								for _, r2 := range *x.Referrers() {
									s2, ok := r2.(*ssa.Store)
									if !ok || s2.Addr != ssa.Value(x) {
										continue
									}
									switch v := s2.Val.(type) {
									case *ssa.UnOp: // load of local.String
										if src, ok := v.X.(*ssa.FieldAddr); ok {
											if al, ok := src.X.(*ssa.Alloc); ok && isNull(al.Type()) {
												bases[al] = al.Comment
											}
										}
									case *ssa.Field: // param.String
										if isNull(v.X.Type()) {
											bases[v.X] = v.X.Name()
										}
									}
								}
							}
						}
						for _, sink := range sinks {
							for base, name := range bases {
								n++
								cut := NewCut()
								for _, bb := range g.Blocks {
									if len(bb.Instrs) == 0 {
										continue
									}
									ifi, ok := bb.Instrs[len(bb.Instrs)-1].(*ssa.If)
									if !ok {
										continue
									}
									cond, neg := ifi.Cond, false
									if un, ok := cond.(*ssa.UnOp); ok && un.Op == token.NOT {
										cond, neg = un.X, true
									}
									isValid := false
									switch v := cond.(type) {
									case *ssa.UnOp:
										if vfa, ok := v.X.(*ssa.FieldAddr); ok && v.Op == token.MUL && vfa.X == base && fieldName(vfa) == "Valid" {
											isValid = true
										}
									case *ssa.Field:
										if st, ok := v.X.Type().Underlying().(*types.Struct); ok && v.X == base && st.Field(v.Field).Name() == "Valid" {
											isValid = true
										}
									}
									if isValid {
										cut.Edges[Edge{bb, boolInt(neg)}] = true
									}
								}
								reach, path := ReachFromEntry(g, sink, cut)
								why := ""
								if reach {
									why = "the DLEQ is set on a path that never found " + name + ".Valid true: " + c.P.PathString(path)
								}
								R.Check(rule, c.P.FuncKey(f), "DLEQ set only when nullable column "+name+" is valid", c.P.InstrPos(sink), !reach,
									"a signature row whose DLEQ columns are NULL is returned without a DLEQ (the member is omitted, not sent empty)", why)
							}
						}
					}
				}
			}
		}
	}
	if n < 4 {
		R.Unresolved(rule, "DLEQ literals fed by nullable columns in the signature readers", fmt.Sprintf("%d found, 4 on the reference tree", n))
	}
}

// ruleRefusalCarriesError: a return that hands out nothing (every non-error result is the zero value) is a
// refusal and must carry an error. When its error is computed by a function of the module, that function
// never returns nil: `return nil, stateErr(state)` with a stateErr that has no case for one state answers
// that state with (nothing, nil) - the handler then writes a 200 with an empty body and caches it.
func (c *Ctx) ruleRefusalCarriesError(rule string, pkgs []string, min int) {
	R := c.R
	n := 0
	var mayBeNil func(f *ssa.Function, depth int) (bool, string)
	mayBeNil = func(f *ssa.Function, depth int) (bool, string) {
		if f == nil || f.Blocks == nil || depth > 3 {
			return false, ""
		}
		for _, r := range Returns(f) {
			if len(r.Results) == 0 {
				continue
			}
			last := r.Results[len(r.Results)-1]
			if isNilConst(last) {
				return true, c.P.InstrPos(r)
			}
			if call, ok := last.(*ssa.Call); ok {
				if h := call.Call.StaticCallee(); h != nil && h.Pkg != nil && c.P.InModule(h.Pkg.Pkg.Path()) && h.Signature.Results().Len() == 1 {
					if nb, at := mayBeNil(h, depth+1); nb {
						return true, at
					}
				}
			}
		}
		return false, ""
	}
	errT := types.Universe.Lookup("error").Type()
	nRet := 0
	for _, f := range c.P.Funcs {
		top := EnclosingTop(f)
		if top.Pkg == nil || f.Blocks == nil {
			continue
		}
		in := false
		for _, p := range pkgs {
			if c.P.Rel(top.Pkg.Pkg.Path()) == p {
				in = true
			}
		}
		res := f.Signature.Results()
		if !in || res.Len() < 2 || !types.Identical(res.At(res.Len()-1).Type(), errT) {
			continue
		}
		for _, r := range Returns(f) {
			nRet++
			call, ok := r.Results[len(r.Results)-1].(*ssa.Call)
			if !ok {
				continue
			}
			h := call.Call.StaticCallee()
			if h == nil || h.Pkg == nil || !c.P.InModule(h.Pkg.Pkg.Path()) || h.Signature.Results().Len() != 1 || h.Blocks == nil {
				continue
			}
			allZero := true
			for _, v := range r.Results[:len(r.Results)-1] {
				cst, isC := v.(*ssa.Const)
				if !isC || !(cst.Value == nil || cst.IsNil() || cst.Value.ExactString() == "0" || cst.Value.ExactString() == `""` || cst.Value.ExactString() == "false") {
					allZero = false
				}
			}
			if !allZero {
				continue
			}
			// `err := h(); if err != nil { return nil, err }` is the tested form
			tested := &Cond{Name: "the error was tested non-nil", Match: func(ft *Fact, _ *Origins) bool {
				if ft.Kind != "errnil" || ft.Pos || ft.A == nil {
					return false
				}
				for _, a := range ft.A.Alts() {
					if a.Call != ssa.CallInstruction(call) {
						return false
					}
				}
				return true
			}}
			if okT, _ := c.P.OriginsOf(f).Requires(r, tested); okT {
				continue
			}
			n++
			nb, at := mayBeNil(h, 0)
			R.Check(rule, c.P.FuncKey(top), "refusal returns the error of "+h.Name()+", which is never nil", c.P.InstrPos(r), !nb,
				"a return that hands out nothing carries an error: the function that computes it has no path returning nil", h.Name()+" returns nil at "+at)
		}
	}
	if n < min {
		R.Unresolved(rule, "refusal returns with a computed error", fmt.Sprintf("%d found, at least %d on the reference tree", n, min))
	}
	R.Check(rule, "-", "returns examined", "", nRet >= 100, "the rule looked at the returns of the value-and-error functions of the packages", fmt.Sprintf("%d returns, %d of them untested refusals with a computed error", nRet, n))
}

// c03LockStored: NUT-20. A mint quote requested with a public key is stored with that key: on the paths where
// the request's key is not empty, the record handed to the quote insert carries the parsed request key - no
// path stores "no key" for a request that named one (such a quote could be minted by anyone who learns its id).
func (c *Ctx) c03LockStored(rule string) {
	R := c.R
	op := c.op(rule, "/v1/mint/quote/{method}")
	if op == nil {
		return
	}
	fk := c.P.FuncKey(op)
	n := 0
	for _, s := range c.roleSites(op, roleNewMint) {
		if !s.Direct {
			continue
		}
		g := s.Instr.Parent()
		og := c.CtxOf(s.Instr)
		// the edges that say "no key requested"
		cut := map[Edge]bool{}
		for _, e := range og.AllEdges() {
			if x := lenZero(og.EdgeFact(e)); x != nil && strings.HasSuffix(x.String(), ".Pubkey") && strings.HasPrefix(x.String(), "P:") {
				cut[e] = true
			}
		}
		d := c.P.Describe(s.Instr)
		if len(d.Args) == 0 {
			continue
		}
		n++
		if len(cut) == 0 {
			R.Check(rule, fk, "quote requested with a key is stored with it", c.P.InstrPos(s.Instr), false, "a requested NUT-20 key is stored with the quote", "no test of the request's key for being empty in "+c.P.FuncKey(g))
			continue
		}
		key := project(og.WithCut(cut).Of(d.Args[0]), "Pubkey")
		ok, why := true, ""
		for _, a := range key.Alts() {
			if !(isCall(a, "secp256k1.ParsePubKey") && a.Idx == 0 && strings.Contains(a.String(), ".Pubkey")) {
				ok, why = false, "with a key requested the stored key can be "+short(a.String(), 100)
			}
		}
		R.Check(rule, fk, "quote requested with a key is stored with it", c.P.InstrPos(s.Instr), ok,
			"on every path with a non-empty request key the stored quote carries the key parsed from the request", why)
	}
	if n == 0 {
		R.Unresolved(rule, "mint quote insert in "+fk, "no direct call with role "+roleNewMint)
	}
}
