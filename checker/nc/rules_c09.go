package nc

import (
	"fmt"
	"go/types"
	"strings"

	"golang.org/x/tools/go/ssa"
)

const fnGenKeyset = "crypto.GenerateKeyset"

func init() {
	register("C09", "Decides (R1) that nothing reachable in the module from keyset generation / path derivation / id derivation calls a "+
		"randomness, time, environment or file leaf (keys are a function of master key, index only); (R2) start-up regenerates every "+
		"stored keyset from (master(seed), row.index, row.fee, row.active), the first start uses index 0 / active and persists exactly the "+
		"generated id, unit, index and fee with the seed that was saved before use; rotation derives index = active index + 1, persists "+
		"the new keyset's own fields, and moves the active pointer only after the old keyset was marked inactive in storage, returning "+
		"success only after the new row was saved; (R3) the active pointer is assigned only at start-up and rotation and the keyset map is "+
		"never deleted from; (R4) the signer signs only for the active keyset, per message (shared with C02.R5); (R5) inputs are looked up "+
		"in the map of all keysets and charged their own keyset's fee (shared with C04.R1 / C02.R4); (R6) 60 keys, amounts 2^i, hardened "+
		"child index i, the id computed from the complete key map. Numerical agreement with NUT-02 is C11's and is pinned by vectors; "+
		"concurrent rotation is not decided.", rulesC09)
}

func rulesC09(c *Ctx) {
	R := c.R
	R.Rule("R1", "keyset derivation reaches no randomness/time/environment leaf", 3)
	R.Rule("R2", "start-up and rotation wiring of GenerateKeyset arguments, persisted row and ordering", 11)
	R.Rule("R3", "active pointer assigned only in start-up/rotation; keyset map never deleted from; every keyset is stored whole under its own id; the active pointer receives only an active keyset", 5)
	R.Rule("R4", "signer per-message guards and key wiring (active keyset only)", 6)
	R.Rule("R5", "inputs: all-keysets lookup and own-keyset fee", 2)
	R.Rule("R6", "60 keys, amounts 2^i, hardened index i, id from the complete map", 4)
	R.Rule("R7", "the key endpoints serve what the mint holds: each store into the keyset cache uses the key of the same request's look-up and holds that route's own keyset", 4)
	c.c09KeysetCache("R7")
	c.vocabProblems("R2")

	// ---- R1
	deny := []string{"crypto/rand.", "math/rand.", "math/rand/v2.", "time.Now", "time.Since", "os.Getenv", "os.ReadFile", "os.Open", "os.Hostname", "net/http."}
	for _, key := range []string{fnGenKeyset, "crypto.DeriveKeysetPath", "crypto.DeriveKeysetId"} {
		f := c.fn("R1", key)
		if f == nil {
			continue
		}
		scope := c.ModuleReach([]*ssa.Function{f})
		var bad []string
		n := 0
		for g := range scope {
			for _, ci := range Calls(g) {
				n++
				name := c.P.Describe(ci).Name
				for _, d := range deny {
					if strings.HasPrefix(name, d) {
						bad = append(bad, name+" at "+c.P.InstrPos(ci))
					}
				}
			}
		}
		R.Check("R1", key, "no nondeterministic leaf", c.P.Pos(f.Pos()), len(bad) == 0,
			fmt.Sprintf("none of the %d call sites reachable in the module from %s is a randomness/time/environment/file leaf", n, key), strings.Join(bad, "; "))
	}

	c.ruleKeysetWiring("R2")

	// ---- R3
	ak := c.activeKeysetField("R3")
	ks := c.keysetsMapField("R3")
	if ak != "" && ks != "" && c.V.CoreType != nil {
		var writers []string
		var deletes []string
		for _, f := range c.P.Funcs {
			top := EnclosingTop(f)
			if top.Pkg == nil || c.P.Rel(top.Pkg.Pkg.Path()) == "testutils" {
				continue
			}
			for _, b := range f.Blocks {
				for _, in := range b.Instrs {
					switch x := in.(type) {
					case *ssa.Store:
						if fa, ok := x.Addr.(*ssa.FieldAddr); ok && fieldName(fa) == ak {
							if pt, ok := fa.X.Type().Underlying().(*types.Pointer); ok {
								if n, ok := pt.Elem().(*types.Named); ok && n == c.V.CoreType {
									writers = append(writers, c.P.FuncKey(top))
								}
							}
						}
					case *ssa.Call:
						if bi, ok := x.Call.Value.(*ssa.Builtin); ok && bi.Name() == "delete" {
							e := c.P.OriginsOf(f).Of(x.Call.Args[0])
							if strings.HasSuffix(e.String(), "."+ks) {
								deletes = append(deletes, c.P.InstrPos(in))
							}
						}
						if c.P.Describe(x).Name == "maps.Clear" || c.P.Describe(x).Name == "builtin.clear" {
							e := c.P.OriginsOf(f).Of(x.Call.Args[0])
							if strings.HasSuffix(e.String(), "."+ks) {
								deletes = append(deletes, c.P.InstrPos(in))
							}
						}
					}
				}
			}
		}
		allowedWriter := map[string]bool{}
		for _, k := range []string{"mint.LoadMint", "mint.(*Mint).RotateKeyset"} {
			if f := c.P.Func(k); f != nil {
				for _, g := range c.OpFuncs(f) {
					allowedWriter[c.P.FuncKey(g)] = true
				}
			}
		}
		okW := len(writers) > 0
		for _, w := range writers {
			if w != "mint.LoadMint" && w != "mint.(*Mint).RotateKeyset" && !allowedWriter[w] {
				okW = false
			}
		}
		R.Check("R3", "module", "writers of the active-keyset pointer", "mint/mint.go", okW, "the active keyset pointer is assigned only by start-up and rotation", "writers: "+strings.Join(writers, ", "))
		// what becomes the signing keyset is an active one: generated with active = true, or taken from the stored
		// rows only behind a test of its Active flag
		for _, f := range c.P.Funcs {
			top := EnclosingTop(f)
			if top.Pkg == nil || top.Pkg.Pkg != c.V.CoreType.Obj().Pkg() {
				continue
			}
			for _, b := range f.Blocks {
				for _, in := range b.Instrs {
					x, ok := in.(*ssa.Store)
					if !ok {
						continue
					}
					fa, ok := x.Addr.(*ssa.FieldAddr)
					if !ok || fieldName(fa) != ak {
						continue
					}
					if pt, ok := fa.X.Type().Underlying().(*types.Pointer); !ok || pt.Elem() != types.Type(c.V.CoreType) {
						continue
					}
					for _, o := range c.CtxsOf(x) {
						v := o.Of(x.Val)
						okA, why := true, ""
						for _, a := range v.Alts() {
							if isCall(a, fnGenKeyset) && len(a.Args) > 0 && isConst(a.Args[len(a.Args)-1], "true") {
								continue
							}
							flag := &Cond{Name: "the keyset's Active flag is set", Match: func(ft *Fact, _ *Origins) bool {
								return ft.Kind == "bool" && ft.Pos && isField(ft.A, "Active")
							}}
							if okF, _ := c.RequireAt(x, flag); okF {
								continue
							}
							okA, why = false, "assigned "+short(a.String(), 120)+" without a test of its Active flag"
						}
						R.Check("R3", c.P.FuncKey(top), "the active pointer receives an active keyset", c.P.InstrPos(x), okA,
							"the signing keyset is generated active or is a stored keyset whose Active flag was tested", why)
					}
				}
			}
		}
		R.Check("R3", "module", "keyset map never deleted from", "mint/mint.go", len(deletes) == 0, "no keyset is ever removed from the map of all keysets (old ecash stays valid)", strings.Join(deletes, ", "))
		// what is put into the map is a whole keyset under its own id: every field of the stored value is the
		// field of one generated keyset (only the Active flag may be set apart), never a partial copy
		var kst *types.Struct
		var mapT types.Type
		if fv, _, _ := types.LookupFieldOrMethod(c.V.CoreType, true, c.V.CoreType.Obj().Pkg(), ks); fv != nil {
			if m, ok := fv.Type().Underlying().(*types.Map); ok {
				kst, _ = m.Elem().Underlying().(*types.Struct)
				mapT = fv.Type()
			}
		}
		nUpd := 0
		for _, f := range c.P.Funcs {
			top := EnclosingTop(f)
			if top.Pkg == nil || top.Pkg.Pkg != c.V.CoreType.Obj().Pkg() || kst == nil {
				continue
			}
			for _, b := range f.Blocks {
				for _, in := range b.Instrs {
					mu, ok := in.(*ssa.MapUpdate)
					if !ok {
						continue
					}
					for _, o := range c.CtxsOf(mu) {
						// (the mint package has one map of this type: the field)
						if !types.Identical(mu.Map.Type(), mapT) {
							continue
						}
						nUpd++
						v, k := o.Of(mu.Value), o.Of(mu.Key)
						id := project(v, "Id")
						okAll, why := true, ""
						if k.String() != id.String() {
							okAll, why = false, "stored under "+short(k.String(), 80)+" but its Id is "+short(id.String(), 80)
						}
						if id.K != "field" || len(id.Args) != 1 {
							okAll, why = false, "the Id of the stored value is not the Id of a keyset: "+short(id.String(), 80)
						} else {
							src := id.Args[0]
							for i := 0; i < kst.NumFields(); i++ {
								fn := kst.Field(i).Name()
								if fn == "Active" {
									continue
								}
								if got := project(v, fn); got.String() != project(src, fn).String() {
									okAll, why = false, "field "+fn+" of the stored keyset is "+short(got.String(), 80)+", not that of the keyset whose Id it carries"
								}
							}
						}
						R.Check("R3", c.P.FuncKey(top), "keyset stored whole under its own id", c.P.InstrPos(mu), okAll, "a keyset put into the map of all keysets carries every field (keys, fee, derivation index, unit) of one generated keyset and is stored under that keyset's id", why)
					}
				}
			}
		}
		if nUpd < 3 {
			R.Unresolved("R3", "updates of the keyset map", fmt.Sprintf("%d found, 3 on the reference tree", nUpd))
		}
	}

	// ---- R4, R5 (shared)
	saved := R.Prop
	_ = saved
	c.signerRulesAs("R4", ks)
	for f := range c.feeOpsOfSwap() {
		c.feeFormulaAs("R5", f, ks)
	}
	c.allKeysetsLookupAs("R5")

	// ---- R6
	c.c09Constants()
}

// signerRulesAs re-uses the C02.R5 signer rule under another rule name.
func (c *Ctx) signerRulesAs(rule, ks string) {
	// c02Signer reports under "R5"; temporarily map by running it on a sub-report and renaming
	sub := NewReport(c.R.Prop, c.R.Tier)
	cc := &Ctx{P: c.P, V: c.V, R: sub, Opt: c.Opt}
	cc.c02Signer(ks)
	c.adopt(sub, "R5", rule)
}

func (c *Ctx) feeFormulaAs(rule string, f *ssa.Function, ks string) {
	sub := NewReport(c.R.Prop, c.R.Tier)
	cc := &Ctx{P: c.P, V: c.V, R: sub, Opt: c.Opt}
	cc.c02FeeFormula(f, ks)
	c.adopt(sub, "R4", rule)
}

// runAs runs a rule function that reports under rule name `from` and files its obligations under `to`.
func (c *Ctx) runAs(from, to string, fn func(cc *Ctx)) {
	sub := NewReport(c.R.Prop, c.R.Tier)
	cc := &Ctx{P: c.P, V: c.V, R: sub, Opt: c.Opt}
	fn(cc)
	c.adopt(sub, from, to)
}

// runOnly is runAs keeping only the obligations filed under rule `from` (fn may be a whole property).
func (c *Ctx) runOnly(from, to string, fn func(cc *Ctx)) {
	sub := NewReport(c.R.Prop, c.R.Tier)
	cc := &Ctx{P: c.P, V: c.V, R: sub, Opt: c.Opt}
	fn(cc)
	var keep []*Obligation
	for _, o := range sub.Obls {
		if strings.HasSuffix(o.Rule, "."+from) {
			keep = append(keep, o)
		}
	}
	sub.Obls = keep
	c.adopt(sub, from, to)
}

// adopt copies the obligations of a sub-report, renaming the rule.
func (c *Ctx) adopt(sub *Report, from, to string) {
	for _, o := range sub.Obls {
		o.Rule = strings.Replace(o.Rule, "."+from, "."+to, 1)
		o.Key = strings.Replace(o.Key, c.R.Prop+"."+from+"|", c.R.Prop+"."+to+"|", 1)
		c.R.keys[o.Key]++
		if n := c.R.keys[o.Key]; n > 1 {
			o.Key = fmt.Sprintf("%s#%d", o.Key, n)
		}
		c.R.Obls = append(c.R.Obls, o)
	}
	c.R.Assumptions = append(c.R.Assumptions, sub.Assumptions...)
}

// feeOpsOfSwap finds the fee operation used by the swap guard.
func (c *Ctx) feeOpsOfSwap() map[*ssa.Function]bool {
	out := map[*ssa.Function]bool{}
	swap := c.V.Op("/v1/swap")
	if swap == nil {
		return out
	}
	recv := coreRecv(swap)
	pt := c.P.NamedType("cashu", "Proofs")
	if pt == nil {
		return out
	}
	paths := paramPathsOfType(swap, pt)
	if len(paths) != 1 {
		return out
	}
	// in the operation itself or in a helper that is new on this tree (the body moved behind a thin wrapper),
	// read in its calling context
	saved := c.scope
	for _, o := range c.OpContexts(swap) {
		if o.Fn.Parent() != nil {
			continue
		}
		for _, ci := range Calls(o.Fn) {
			if v, ok := ci.(ssa.Value); ok {
				e := o.Of(v)
				if c.isFeeCall(e, recv, paths[0]) {
					out[ci.Common().StaticCallee()] = true
				}
			}
		}
	}
	c.scope = saved
	return out
}

// allKeysetsLookupAs: the validation looks the input's keyset up in the map of all keysets (subset of C04.R1).
func (c *Ctx) allKeysetsLookupAs(rule string) {
	R := c.R
	conds := c.c04ElemCondsQuiet()
	swap := c.V.Op("/v1/swap")
	if conds == nil || swap == nil {
		R.Unresolved(rule, "all-keysets lookup", "not resolvable")
		return
	}
	inputs := c.inputsOf(rule, swap)
	if inputs == "" {
		return
	}
	for _, ec := range conds {
		if !strings.Contains(ec.name, "keyset id found") {
			continue
		}
		cd := &Cond{Name: ec.name, ForAll: inputs, Match: ec.mk("elem("+inputs+")", coreRecv(swap))}
		for _, s := range c.signerSites(swap) {
			ok, why := c.RequireAt(s.Instr, cd)
			R.Check(rule, c.P.FuncKey(swap), "inputs validated against the map of all keysets", c.P.InstrPos(s.Instr), ok, "proofs of inactive keysets stay spendable: the lookup uses the map of all keysets", why)
		}
	}
}

func (c *Ctx) c04ElemCondsQuiet() []elemCond {
	sub := NewReport(c.R.Prop, c.R.Tier)
	cc := &Ctx{P: c.P, V: c.V, R: sub, Opt: c.Opt}
	return cc.c04ElemConds("R1")
}

func (c *Ctx) c09Constants() {
	R := c.R
	mo, ok := c.P.ConstVal("crypto", "MAX_ORDER")
	R.Check("R6", "crypto", "MAX_ORDER == 60", "crypto/keyset.go", ok && mo == "60", "a keyset has 60 keys", "MAX_ORDER is "+mo)
	f := c.fn("R6", fnGenKeyset)
	if f == nil {
		return
	}
	o := c.P.OriginsOf(f)
	fk := c.P.FuncKey(f)
	// loop bound, amount formula, child index, id over the complete map
	var keyUpd, pkUpd *ssa.MapUpdate
	for _, b := range f.Blocks {
		for _, in := range b.Instrs {
			if mu, ok := in.(*ssa.MapUpdate); ok {
				if strings.Contains(typeShort(c.P, mu.Map.Type()), "KeyPair") {
					keyUpd = mu
				} else {
					pkUpd = mu
				}
			}
		}
	}
	if keyUpd == nil || pkUpd == nil {
		R.Undecided("R6", fk, "key maps", c.P.Pos(f.Pos()), "keyset generation shape", "map updates not found")
		return
	}
	amt := o.Of(keyUpd.Key)
	// 2^i written as math.Pow(2, i) or as a shift of 1
	pow2 := strings.Contains(amt.String(), "math.Pow(#2, ") || (amt.K == "bin" && amt.S == "<<" && isConst(amt.Args[0], "1")) || strings.HasPrefix(amt.String(), "(#1 << ")
	okAmt := pow2 && o.Of(pkUpd.Key).String() == amt.String()
	R.Check("R6", fk, "amounts are 2^i", c.P.InstrPos(keyUpd), okAmt, "key i is for amount 2^i, the same in the private and the public map", short(amt.String(), 120))
	l := o.Loops.InnermostContaining(keyUpd.Block())
	okLoop := false
	if l != nil {
		if ifi, ok := l.Header.Instrs[len(l.Header.Instrs)-1].(*ssa.If); ok {
			ft := o.condFact(ifi.Cond, true)
			okLoop = ft != nil && ft.Kind == "cmp" && ft.Op.String() == "<" && isConst(ft.B, "60") && strings.HasPrefix(ft.A.String(), "acc(+; #0; #1")
		}
	}
	R.Check("R6", fk, "60 iterations", c.P.InstrPos(keyUpd), okLoop, "the generation loop runs i = 0..59", "")
	okChild := false
	for _, ci := range Calls(f) {
		d := c.P.Describe(ci)
		if strings.HasSuffix(d.Name, "hdkeychain.(*ExtendedKey).Derive") && l != nil && l.Blocks[ci.Block()] {
			e := o.Of(d.Args[0])
			okChild = strings.HasPrefix(e.String(), "(#2147483648 + ") && strings.Contains(e.String(), "acc(+; #0; #1")
		}
	}
	R.Check("R6", fk, "hardened child index i", c.P.InstrPos(keyUpd), okChild, "key i is the hardened child i of the keyset path", "")
	okID := false
	for _, ci := range Calls(f) {
		d := c.P.Describe(ci)
		if d.Name == "crypto.DeriveKeysetId" {
			okID = o.sameValue(d.Args[0], pkUpd.Map) && (l == nil || !l.Blocks[ci.Block()])
		}
	}
	R.Check("R6", fk, "id derived from the complete public key map", c.P.InstrPos(pkUpd), okID, "the keyset id is computed after the loop from the map that received every key", "")
}

// ruleKeysetWiring: start-up and rotation wiring of the keyset generator and of the persisted rows
// (C09.R2; shared with C07: "the keysets are unchanged after a restart" rests on the rows carrying the
// generated keyset's own index and fee and on start-up regenerating every keyset from its own row).
func (c *Ctx) ruleKeysetWiring(rule string) {
	R := c.R
	// ---- R2
	load := c.fn(rule, "mint.LoadMint")
	rot := c.fn(rule, "mint.(*Mint).RotateKeyset")
	isMaster := func(e *Ex, seedOK func(*Ex) bool) bool {
		return isCallSuffix(e, "hdkeychain.NewMaster") && e.Idx == 0 && seedOK(arg(e, 0))
	}
	rowOK := func(row *Ex, k *Ex, seedOK func(*Ex) bool) (bool, string) {
		fs := fieldsOfWith(row)
		want := map[string]string{"Id": k.String() + ".Id", "Unit": k.String() + ".Unit", "DerivationPathIdx": k.String() + ".DerivationPathIdx", "InputFeePpk": k.String() + ".InputFeePpk"}
		for f, w := range want {
			if fs[f] == nil || fs[f].String() != w {
				got := "<missing>"
				if fs[f] != nil {
					got = short(fs[f].String(), 100)
				}
				return false, "persisted " + f + " is " + got + ", expected the generated keyset's " + f
			}
		}
		if fs["Active"] == nil || !(isConst(fs["Active"], "true") || fs["Active"].String() == k.String()+".Active") {
			return false, "persisted Active is not true / the keyset's flag"
		}
		if fs["Seed"] == nil || !isCall(fs["Seed"], fnHexEncode) || !seedOK(arg(fs["Seed"], 0)) {
			return false, "persisted Seed is not the hex of the seed in use"
		}
		return true, ""
	}
	if load != nil {
		fk := c.P.FuncKey(load)
		o := c.P.OriginsOf(load)
		seedOK := func(e *Ex) bool {
			for _, a := range e.Alts() {
				if !(isCallSuffix(a, "hdkeychain.GenerateSeed") || isCallSuffix(a, ".GetSeed")) {
					return false
				}
			}
			return true
		}
		nFirst, nReload := 0, 0
		for _, ci := range c.opCalls(load) {
			d := c.P.Describe(ci)
			if d.Name != fnGenKeyset {
				continue
			}
			args := make([]*Ex, len(d.Args))
			for i, a := range d.Args {
				args[i] = c.CtxOf(ci).Of(a)
			}
			pos := c.P.InstrPos(ci)
			if !isMaster(args[0], seedOK) {
				R.Check(rule, fk, "master key from the stored/generated seed", pos, false, "keys are derived from the master key of the seed", short(args[0].String(), 160))
				continue
			}
			if isConst(args[1], "0") {
				nFirst++
				ok := isConst(args[3], "true") && strings.HasSuffix(args[2].String(), ".InputFeePpk") && args[2].K == "field" && paramRoot(args[2]) != ""
				R.Check(rule, fk, "first start: GenerateKeyset(master, 0, configured fee, active)", pos, ok, "the first keyset uses index 0, the configured fee and is active", short(args[2].String()+" / "+args[3].String(), 160))
				// generated seed saved before use
				saved := &Cond{Name: "seed read from storage, or generated seed saved", Match: func(ft *Fact, _ *Origins) bool {
					if ft.Kind != "errnil" || !ft.Pos || ft.A.K != "call" {
						return false
					}
					return (strings.HasSuffix(ft.A.S, ".GetSeed") && ft.A.Idx == 1) || (strings.HasSuffix(ft.A.S, ".SaveSeed") && isCallSuffix(arg(ft.A, 1), "hdkeychain.GenerateSeed"))
				}}
				okS, why := c.RequireAt(ci, saved)
				R.Check(rule, fk, "seed persisted before keys are derived from it", pos, okS, "a freshly generated seed is saved before any key is derived", why)
				// persisted row
				k := c.CtxOf(ci).Of(ci.(ssa.Value))
				kv := &Ex{K: "call", S: k.S, Args: k.Args, Call: k.Call, Idx: 0}
				for _, sc := range c.opCalls(load) {
					sd := c.P.Describe(sc)
					if strings.HasSuffix(sd.Name, ".SaveKeyset") {
						okR, whyR := rowOK(c.CtxOf(sc).Of(sd.Args[0]), kv, seedOK)
						R.Check(rule, fk, "first start: persisted row = generated keyset", c.P.InstrPos(sc), okR, "the row saved for the first keyset carries the generated id, unit, index, fee and the seed", whyR)
						for _, r := range o.SuccessReturns() {
							_ = r
						}
					}
				}
				continue
			}
			nReload++
			row := "elem("
			ok := strings.HasPrefix(args[1].String(), row) && strings.HasSuffix(args[1].String(), ".DerivationPathIdx") &&
				strings.HasSuffix(args[2].String(), ".InputFeePpk") && strings.HasSuffix(args[3].String(), ".Active")
			// all three from the same stored row of the keyset read
			base := strings.TrimSuffix(args[1].String(), ".DerivationPathIdx")
			ok = ok && args[2].String() == base+".InputFeePpk" && args[3].String() == base+".Active" && strings.Contains(base, ".GetKeysets#0(")
			R.Check(rule, fk, "reload: GenerateKeyset(master, row.index, row.fee, row.active)", pos, ok, "every stored keyset is regenerated from its own stored index, fee and active flag",
				short(args[1].String()+" / "+args[2].String()+" / "+args[3].String(), 240))
		}
		if nFirst == 0 || nReload == 0 {
			R.Check(rule, fk, "first-start and reload generation present", c.P.Pos(load.Pos()), false, "start-up generates the first keyset or regenerates the stored ones", fmt.Sprintf("first=%d reload=%d", nFirst, nReload))
		}
	}
	if rot != nil {
		fk := c.P.FuncKey(rot)
		o := c.P.OriginsOf(rot)
		ak := c.activeKeysetField(rule)
		recv := coreRecv(rot)
		seedOK := func(e *Ex) bool { return isCallSuffix(e, ".GetSeed") && e.Idx == 0 }
		var gen ssa.CallInstruction
		for _, ci := range c.opCalls(rot) {
			if c.P.Describe(ci).Name == fnGenKeyset {
				gen = ci
			}
		}
		if gen == nil {
			R.Check(rule, fk, "rotation generates the next keyset", c.P.Pos(rot.Pos()), false, "rotation derives a new keyset", "no call of "+fnGenKeyset)
		} else {
			d := c.P.Describe(gen)
			gctx := c.CtxOf(gen)
			a0, a1, a2, a3 := gctx.Of(d.Args[0]), gctx.Of(d.Args[1]), gctx.Of(d.Args[2]), gctx.Of(d.Args[3])
			okIdx := a1.String() == "("+recv+"."+ak+".DerivationPathIdx + #1)"
			R.Check(rule, fk, "rotation: index = active index + 1", c.P.InstrPos(gen), okIdx && isMaster(a0, seedOK), "the new keyset uses the next derivation index under the stored seed's master key", short(a1.String(), 120))
			R.Check(rule, fk, "rotation: fee parameter and active", c.P.InstrPos(gen), a2.K == "param" && isConst(a3, "true"), "the new keyset takes the requested fee and is active", short(a2.String()+" / "+a3.String(), 120))
			k := gctx.Of(gen.(ssa.Value))
			kv := &Ex{K: "call", S: k.S, Args: k.Args, Call: k.Call, Idx: 0}
			var save, deact ssa.CallInstruction
			for _, ci := range c.opCalls(rot) {
				dd := c.P.Describe(ci)
				if m, ok := c.V.IsDBCall(dd); ok {
					if c.V.HasRole(m, "INSERT keysets") {
						save = ci
					}
					if c.V.HasRole(m, "UPDATE keysets") {
						deact = ci
					}
				}
			}
			if save == nil || deact == nil {
				R.Check(rule, fk, "rotation persists both changes", c.P.Pos(rot.Pos()), false, "rotation marks the old keyset inactive and saves the new one", "storage calls not found")
			} else {
				okR, whyR := rowOK(c.CtxOf(save).Of(c.P.Describe(save).Args[0]), kv, seedOK)
				R.Check(rule, fk, "rotation: persisted row = new keyset", c.P.InstrPos(save), okR, "the saved row carries the new keyset's own id, unit, index and fee", whyR)
				dd := c.P.Describe(deact)
				dctx := c.CtxOf(deact)
				okD := dctx.Of(dd.Args[0]).String() == recv+"."+ak+".Id" && isConst(dctx.Of(dd.Args[1]), "false")
				R.Check(rule, fk, "rotation: old keyset marked inactive", c.P.InstrPos(deact), okD, "the previously active keyset is marked inactive in storage", short(dctx.Of(dd.Args[0]).String(), 100))
				// pointer moves only after the deactivation succeeded
				deactOK := &Cond{Name: "old keyset marked inactive in storage", Via: func(g *ssa.Function) bool { return c.P.IsNewFunc(g) }, Match: func(ft *Fact, _ *Origins) bool {
					return ft.Kind == "errnil" && ft.Pos && ft.A.K == "call" && ft.A.Call == deact
				}}
				var rotBlocks []*ssa.BasicBlock
				for _, g := range c.OpFuncs(rot) {
					rotBlocks = append(rotBlocks, g.Blocks...)
				}
				for _, b := range rotBlocks {
					for _, in := range b.Instrs {
						if st, ok := in.(*ssa.Store); ok {
							if fa, ok := st.Addr.(*ssa.FieldAddr); ok && fieldName(fa) == ak {
								ok2, why := c.RequireAt(st, deactOK)
								R.Check(rule, fk, "active pointer moves <= old keyset inactive in storage", c.P.InstrPos(st), ok2, "the active pointer is switched only after storage recorded the deactivation", why)
								sv := c.CtxOf(st).Of(st.Val)
								R.Check(rule, fk, "active pointer = new keyset", c.P.InstrPos(st), sv.String() == kv.String(), "the active pointer is set to the generated keyset", short(sv.String(), 100))
							}
						}
					}
				}
				// never two active rows: the new active row is written only after the old one was marked inactive
				// (the opposite window - no active row between the two writes - is the known finding of C07.T K1)
				okOrd, whyOrd := c.RequireAt(save, deactOK)
				R.Check(rule, fk, "new active row inserted <= old keyset inactive in storage", c.P.InstrPos(save), okOrd, "at no point are two keyset rows active: the insert of the new active keyset follows the successful deactivation of the old one", whyOrd)
				saveOK := &Cond{Name: "new keyset row saved", Match: func(ft *Fact, _ *Origins) bool {
					return ft.Kind == "errnil" && ft.Pos && ft.A.K == "call" && ft.A.Call == save
				}}
				saveOK.Via = func(g *ssa.Function) bool { return c.P.IsNewFunc(g) }
				for _, r := range o.SuccessReturns() {
					ok2, why := o.Requires(r, saveOK)
					R.Check(rule, fk, "success <= new keyset row saved", c.P.InstrPos(r), ok2, "rotation reports success only after the new keyset row was saved", why)
				}
			}
		}
	}

}

// opCalls lists the call instructions of an operation: its own and those of the helpers it calls that are new
// on this tree (closures are left to the rules that look at them explicitly).
func (c *Ctx) opCalls(op *ssa.Function) []ssa.CallInstruction {
	var out []ssa.CallInstruction
	for _, g := range c.OpFuncs(op) {
		if g.Parent() != nil {
			continue
		}
		out = append(out, Calls(g)...)
	}
	return out
}

// c09KeysetCache: R7. The key endpoints answer from a small cache. What /v1/keys serves as "the active
// keyset" must be what the mint calls active, and /v1/keys/{id} the keyset of that id: every store into the
// cache made while serving one of the two routes uses the key that the same request looked up, and the
// bytes stored are the marshalled answer of that route's own source (GetActiveKeyset / GetKeysetById of the
// requested id). Read per route, through helpers that are new on this tree (their parameters resolved from
// the route's call).
func (c *Ctx) c09KeysetCache(rule string) {
	R := c.R
	routes := map[string]string{"/v1/keys": "GetActiveKeyset", "/v1/keys/{id}": "GetKeysetById"}
	n := 0
	for _, rt := range c.V.Routes {
		src, ok := routes[rt.Path]
		if !ok || rt.Handler == nil {
			continue
		}
		h := rt.Handler
		hk := c.P.FuncKey(h)
		saved := c.scope
		c.OpContexts(h)
		var getKeys []string
		type setAt struct {
			ci  ssa.CallInstruction
			key *Ex
			val *Ex
		}
		var sets []setAt
		for _, ci := range c.opCalls(h) {
			d := c.P.Describe(ci)
			switch d.Name {
			case "mint.(*Cache).Get":
				for _, o := range c.CtxsOf(ci) {
					getKeys = append(getKeys, o.Of(d.Args[0]).String())
				}
			case "mint.(*Cache).Set":
				for _, o := range c.CtxsOf(ci) {
					val := o.Of(d.Args[1])
					// Marshal(&local): what is marshalled is the content of the local at the call
					if isCall(val, "encoding/json.Marshal") && val.Call != nil && len(val.Call.Common().Args) == 1 {
						arg := val.Call.Common().Args[0]
						if mi, ok := arg.(*ssa.MakeInterface); ok {
							arg = mi.X
						}
						if _, isPtr := arg.Type().Underlying().(*types.Pointer); isPtr {
							val = mk("call", "encoding/json.Marshal", o.ContentAt(arg, val.Call))
						}
					}
					sets = append(sets, setAt{ci, o.Of(d.Args[0]), val})
				}
			}
		}
		c.scope = saved
		for _, s := range sets {
			n++
			same := false
			for _, k := range getKeys {
				if k == s.key.String() {
					same = true
				}
			}
			R.Check(rule, hk, rt.Path+": the answer is cached under the key it is looked up with", c.P.InstrPos(s.ci), same, "a store into the keyset cache uses the key of the look-up of the same request (another route's entry is never overwritten)",
				fmt.Sprintf("store key %s, look-up keys %v", short(s.key.String(), 80), getKeys))
			// the route's source of keysets: the mint's own accessor, for the by-id route called with the cache key
			okV, whyV := false, "no call of "+src
			for _, g := range c.OpFuncs(h) {
				for _, ci := range Calls(g) {
					d := c.P.Describe(ci)
					if d.Static == nil || d.Static.Name() != src {
						if d.Static != nil && (d.Static.Name() == "GetActiveKeyset" || d.Static.Name() == "GetKeysetById") {
							okV, whyV = false, "the route also reads "+d.Static.Name()
							goto done
						}
						continue
					}
					if len(d.Args) == 0 {
						okV = true
						continue
					}
					for _, o := range c.CtxsOf(ci) {
						a := o.Of(d.Args[0]).String()
						// (a variable captured by the closure that fetches the keyset reads as "one of" its values)
						if strings.HasPrefix(a, "anyof:(") && strings.HasSuffix(a, ")") {
							a = strings.TrimSuffix(strings.TrimPrefix(a, "anyof:("), ")")
						}
						okV = a == s.key.String()
						if !okV {
							whyV = "keyset fetched for " + short(a, 80) + ", cached under " + short(s.key.String(), 80)
							goto done
						}
					}
				}
			}
		done:
			R.Check(rule, hk, rt.Path+": the cached bytes come from "+src, c.P.InstrPos(s.ci), okV && isCall(s.val, "encoding/json.Marshal"), "what is cached for the route is the marshalled keyset the mint itself names for it (by id: the id that is the cache key)",
				whyV+"; stored "+short(s.val.String(), 120))
		}
	}
	if n < 2 {
		R.Unresolved(rule, "keyset cache stores", fmt.Sprintf("%d stores found in the key routes, 2 on the reference tree", n))
	}
}
