package nc

import (
	"fmt"
	"go/types"
	"strconv"
	"strings"

	"golang.org/x/tools/go/ssa"
)

func init() {
	register("C04", "Decides, for every element of the input list of swap and melt and on every path to signature production / "+
		"payment / internal settlement, that the loop iteration passed: secret length <= 512; a hit in the map of ALL keysets for the "+
		"proof's id; a hit in that keyset's key map for the proof's amount; successful hex decoding and point parsing of C; and "+
		"crypto.Verify == true, called with exactly (that proof's secret, the private key of that keyset for that amount, the parsed C). "+
		"A `continue`/`break`/early exit that lets an element bypass any of these is a violation (whole-range loop rule). It does not "+
		"decide the algebra inside crypto.Verify (pinned by the repository's vectors) nor completeness (every honest proof accepted).", rulesC04)
}

// keysetsMapField finds the field of the core type that maps keyset ids to mint keysets.
func (c *Ctx) keysetsMapField(rule string) string {
	if c.V.CoreType == nil {
		return ""
	}
	st := c.V.CoreType.Underlying().(*types.Struct)
	var names []string
	for i := 0; i < st.NumFields(); i++ {
		m, ok := st.Field(i).Type().Underlying().(*types.Map)
		if !ok {
			continue
		}
		if n, ok := m.Elem().(*types.Named); ok && n.Obj().Name() == "MintKeyset" {
			names = append(names, st.Field(i).Name())
		}
	}
	if len(names) != 1 {
		c.R.Unresolved(rule, "map of all keysets in "+c.V.CoreType.Obj().Name(), fmt.Sprintf("expected one map[...]MintKeyset field, found %v", names))
		return ""
	}
	return names[0]
}

// coreRecvExpr: how the core receiver prints in an operation ("P:m").
func coreRecv(op *ssa.Function) string {
	if len(op.Params) == 0 {
		return ""
	}
	return "P:" + op.Params[0].Name()
}

type elemCond struct {
	name string
	mk   func(el, recv string) func(f *Fact, o *Origins) bool
}

func (c *Ctx) c04ElemConds(rule string) []elemCond {
	ks := c.keysetsMapField(rule)
	if ks == "" {
		return nil
	}
	maxLen, ok := c.P.ConstVal("cashu", "MAX_SECRET_LENGTH")
	if !ok {
		c.R.Unresolved(rule, "cashu.MAX_SECRET_LENGTH", "constant not found")
		return nil
	}
	if maxLen != "512" {
		c.R.Check(rule, "cashu", "MAX_SECRET_LENGTH == 512", "cashu/cashu.go", false, "secret length cap constant is 512", "constant is "+maxLen)
	} else {
		c.R.Check(rule, "cashu", "MAX_SECRET_LENGTH == 512", "cashu/cashu.go", true, "secret length cap constant is 512", "")
	}
	keysetOf := func(el, recv string) string { return recv + "." + ks + "[" + el + ".Id]" }
	keyOf := func(el, recv string) string { return keysetOf(el, recv) + ".Keys[" + el + ".Amount]" }
	parsedC := func(e *Ex, el string) bool {
		if !isCallSuffix(e, "secp256k1.ParsePubKey") && !isCallSuffix(e, "btcec.ParsePubKey") {
			return false
		}
		d := arg(e, 0)
		return isCall(d, fnHexDecode) && d.Idx == 0 && exprIs(arg(d, 0), el+".C")
	}
	return []elemCond{
		{"secret length <= 512", func(el, recv string) func(*Fact, *Origins) bool {
			return func(f *Fact, o *Origins) bool {
				if f.Kind != "cmp" || !f.Pos || f.A == nil || f.A.K != "len" || !exprIs(f.A.Args[0], el+".Secret") || f.B.K != "const" {
					return false
				}
				n, err := strconv.Atoi(f.B.S)
				if err != nil {
					return false
				}
				return (f.Op.String() == "<=" && n <= 512) || (f.Op.String() == "<" && n <= 513)
			}
		}},
		{"keyset id found in the map of all keysets", func(el, recv string) func(*Fact, *Origins) bool {
			want := "ok(" + keysetOf(el, recv) + ")"
			return func(f *Fact, o *Origins) bool { return f.Kind == "bool" && f.Pos && exprIs(f.A, want) }
		}},
		{"amount is a key of that keyset", func(el, recv string) func(*Fact, *Origins) bool {
			want := "ok(" + keyOf(el, recv) + ")"
			return func(f *Fact, o *Origins) bool { return f.Kind == "bool" && f.Pos && exprIs(f.A, want) }
		}},
		{"C hex-decodes", func(el, recv string) func(*Fact, *Origins) bool {
			return func(f *Fact, o *Origins) bool {
				return f.Kind == "errnil" && f.Pos && isCall(f.A, fnHexDecode) && f.A.Idx == 1 && exprIs(arg(f.A, 0), el+".C")
			}
		}},
		{"C parses as a curve point", func(el, recv string) func(*Fact, *Origins) bool {
			return func(f *Fact, o *Origins) bool {
				if f.Kind != "errnil" || !f.Pos || f.A.K != "call" || f.A.Idx != 1 {
					return false
				}
				e := *f.A
				e.Idx = 0
				e.str = ""
				return parsedC(&e, el)
			}
		}},
		{"crypto.Verify(secret, key[id][amount], C) == true", func(el, recv string) func(*Fact, *Origins) bool {
			wantKey := keyOf(el, recv) + ".PrivateKey"
			return func(f *Fact, o *Origins) bool {
				if f.Kind != "bool" || !f.Pos || !isCall(f.A, fnVerify) {
					return false
				}
				return exprIs(arg(f.A, 0), el+".Secret") && exprIs(arg(f.A, 1), wantKey) && parsedC(arg(f.A, 2), el)
			}
		}},
	}
}

func rulesC04(c *Ctx) {
	R := c.R
	R.Rule("R1", "for every input element: length cap, keyset hit (all keysets), key hit for the amount, C decodes and parses, crypto.Verify true with the right arguments — before signing (swap) and before paying/settling (melt)", 25)
	R.Rule("R2", "crypto.Verify compares the full point k*Y with C (shared with C10.R7)", 1)
	c.vocabProblems("R1")
	c.ruleFullPointCompare("R2")
	R.Rule("R3", "the keys a restart holds are the keys that signed: the keyset path is m/0'/0'/index' and key i its hardened child i for amount 2^i, re-derived from the stored seed and index only (shared with C11.R4 / C09.R6; a different derivation refuses every proof issued before)", 5)
	c.runOnly("R4", "R3", func(cc *Ctx) { rulesC11(cc) })
	c.runOnly("R6", "R3", func(cc *Ctx) { cc.c09Constants() })
	conds := c.c04ElemConds("R1")
	if conds == nil {
		return
	}
	swap := c.op("R1", "/v1/swap")
	melt := c.op("R1", "/v1/melt/{method}")
	type tgt struct {
		name   string
		op     *ssa.Function
		sites  []EffectSite
		inputs string
	}
	var ts []tgt
	if swap != nil {
		ts = append(ts, tgt{"swap", swap, c.signerSites(swap), c.inputsOf("R1", swap)})
	}
	if melt != nil {
		ts = append(ts, tgt{"melt", melt, append(c.paySites(melt), c.roleSites(melt, roleSetMint)...), c.inputsOf("R1", melt)})
	}
	for _, t := range ts {
		if t.inputs == "" {
			continue
		}
		if len(t.sites) == 0 {
			R.Unresolved("R1", "effect sites of "+t.name+" op", "none found")
			continue
		}
		el := "elem(" + t.inputs + ")"
		recv := coreRecv(t.op)
		for _, ec := range conds {
			cd := &Cond{Name: ec.name, ForAll: t.inputs, Match: ec.mk(el, recv)}
			for _, s := range t.sites {
				ok, why := c.RequireAt(s.Instr, cd)
				R.Check("R1", c.P.FuncKey(t.op), siteDesc(c, s)+" <= forall input: "+ec.name, c.P.InstrPos(s.Instr), ok,
					t.name+" op: for every element of "+t.inputs+" ["+ec.name+"] before "+siteDesc(c, s), why)
			}
		}
	}
	_ = strings.TrimSpace
}
