package nc

import (
	"fmt"
	"go/token"
	"go/types"
	"strings"

	"golang.org/x/tools/go/ssa"
)

func isBool(t types.Type) bool {
	b, ok := t.Underlying().(*types.Basic)
	return ok && b.Info()&types.IsBoolean != 0
}

// Cond is a condition that must be established on every path to a target.
// Match decides whether the fact of one conditional edge establishes it. Several shapes may be
// accepted by one Match (a disjunctive cut). When ForAll is non-empty the condition is a
// per-element condition over the collection whose provenance prints as ForAll; it is established
// at the exit edge of a whole-range loop over that collection whose every completed iteration
// passes a matching edge.
type Cond struct {
	Name   string
	Match  func(f *Fact, o *Origins) bool
	ForAll string
	// PerIteration: the condition must be established within the same iteration of every loop that encloses
	// the target (the back edges of those loops are cut as well, so that an accept edge passed in an earlier
	// iteration does not count).
	PerIteration bool
	// Via restricts interprocedural descent: when non-nil only callees for which it returns true
	// are looked into (default: every module function).
	Via func(callee *ssa.Function) bool
}

const maxSummaryDepth = 5

type summaryKey struct {
	fn   *ssa.Function
	cond string
	ctx  string
}

var summaryMemo = map[summaryKey]bool{}
var summaryBusy = map[summaryKey]bool{}

// ctxString identifies a calling context by the provenance of the arguments.
func (o *Origins) ctxString() string {
	if o.caller == nil || o.call == nil {
		return ""
	}
	var parts []string
	c := o.call.Common()
	if c.IsInvoke() {
		parts = append(parts, o.caller.Of(c.Value).String())
	}
	for _, a := range c.Args {
		parts = append(parts, o.caller.Of(a).String())
	}
	return strings.Join(parts, ",")
}

// AcceptEdges computes the edges of o.Fn on which cond is established.
func (o *Origins) AcceptEdges(cond *Cond) map[Edge]bool { return o.acceptEdges(cond, true) }

// TestEdges is AcceptEdges restricted to edges whose own branch condition establishes cond, so that the
// sibling edge is the condition's negation (facts derived from short-circuit booleans are conjunctions:
// the sibling of such an edge does not negate the individual operand).
func (o *Origins) TestEdges(cond *Cond) map[Edge]bool { return o.acceptEdges(cond, false) }

func (o *Origins) acceptEdges(cond *Cond, derived bool) map[Edge]bool {
	acc := map[Edge]bool{}
	for _, e := range o.AllEdges() {
		facts := o.EdgeFacts(e)
		if !derived {
			facts = nil
			if bf := o.EdgeFact(e); bf != nil {
				facts = []*Fact{bf}
			}
		}
		for _, f := range facts {
			if cond.ForAll == "" && cond.Match(f, o) {
				acc[e] = true
				break
			}
			// errnil(call g): g is a module function all of whose success returns establish cond
			if f.Kind == "errnil" && f.Pos {
				if o.calleesEstablish(f.A, cond, true) {
					acc[e] = true
					break
				}
			}
			// bool(call g) == want: boolean helper whose matching returns establish cond
			if f.Kind == "bool" && f.A != nil && f.A.K == "call" {
				if o.boolCalleeEstablishes(f.A, f.Pos, cond) {
					acc[e] = true
					break
				}
			}
			// the boolean result of a helper that is new on this tree (its provenance was expanded, so the
			// fact no longer names the call): decided on the helper's returns in the calling context
			if f.Kind == "bool" && f.Cond != nil {
				if o.newHelperBoolEstablishes(f.Cond, f.Pos, cond) {
					acc[e] = true
					break
				}
			}
		}
	}
	// disjunctions: the false edge of `ok := a && b; if ok` (or the true edge of `a || b`) is reached through one
	// of several inputs of the boolean phi; the edge establishes cond when every such input does
	if derived && cond.ForAll == "" {
		for _, e := range o.AllEdges() {
			if acc[e] {
				continue
			}
			n := len(e.From.Instrs)
			if n == 0 {
				continue
			}
			ifi, ok := e.From.Instrs[n-1].(*ssa.If)
			if !ok {
				continue
			}
			alts := o.altFacts(ifi.Cond, e.Succ == 0)
			if alts == nil {
				continue
			}
			all := true
			for _, fs := range alts {
				hit := false
				for _, f := range fs {
					if cond.Match(f, o) {
						hit = true
						break
					}
				}
				if !hit {
					all = false
					break
				}
			}
			if all {
				acc[e] = true
			}
		}
	}
	// tail calls: "return g(...)" passes g's error on untested. Such a return is a success return only
	// if g succeeded, so when "g's error is nil" establishes cond (directly, or through g's summary)
	// the return is behind the condition: recorded as a pseudo edge of the return's block.
	for _, r := range Returns(o.Fn) {
		n := len(r.Results)
		if n == 0 || !IsErrorType(r.Results[n-1].Type()) {
			continue
		}
		ev := o.Of(r.Results[n-1])
		alts := ev.Alts()
		if len(alts) == 0 {
			continue
		}
		all := true
		for _, a := range alts {
			if a.K != "call" || a.Call == nil || a.Call.Block() != r.Block() {
				all = false
				break
			}
		}
		if !all {
			continue
		}
		f := &Fact{Kind: "errnil", Pos: true, A: ev}
		if (cond.ForAll == "" && cond.Match(f, o)) || o.calleesEstablish(ev, cond, true) {
			acc[Edge{r.Block(), -1}] = true
		}
	}
	if cond.ForAll != "" {
		inner := &Cond{Name: cond.Name, Match: cond.Match, Via: cond.Via}
		for _, l := range o.Loops.Loops {
			if l.RangeOf == nil || o.Of(l.RangeOf).String() != cond.ForAll {
				continue
			}
			in := o.acceptEdges(inner, derived)
			// every completed iteration passes an accept edge: header not re-reachable from the body entry
			cut := NewCut()
			for e := range in {
				cut.Edges[e] = true
			}
			// edges leaving the loop are irrelevant for this test
			for b := range l.Blocks {
				for i, s := range b.Succs {
					if !l.Blocks[s] {
						cut.Edges[Edge{b, i}] = true
					}
				}
			}
			body := l.Header.Succs[l.BodySucc]
			reach, _ := Reach(Point{body, 0}, Point{l.Header, 0}, cut)
			if !reach {
				acc[Edge{l.Header, l.ExitSucc}] = true
			}
		}
	}
	return acc
}

func (o *Origins) viaOK(cond *Cond, callee *ssa.Function) bool {
	if callee == nil || callee.Blocks == nil {
		return false
	}
	if callee.Pkg == nil && callee.Parent() == nil {
		return false
	}
	top := EnclosingTop(callee)
	if top.Pkg == nil || !o.p.InModule(top.Pkg.Pkg.Path()) {
		return false
	}
	if cond.Via != nil && !cond.Via(callee) {
		return false
	}
	return true
}

// calleesEstablish: every alternative of the error expression is the error result of a module call
// whose success returns are all cut by cond's accept edges.
func (o *Origins) calleesEstablish(errEx *Ex, cond *Cond, successMeansNil bool) bool {
	if o.depth >= maxSummaryDepth {
		return false
	}
	alts := errEx.Alts()
	if len(alts) == 0 {
		return false
	}
	for _, a := range alts {
		if a.K != "call" || a.Call == nil {
			return false
		}
		callee := a.Call.Common().StaticCallee()
		if mc, ok := a.Call.Common().Value.(*ssa.MakeClosure); ok {
			callee, _ = mc.Fn.(*ssa.Function)
		}
		if !o.viaOK(cond, callee) {
			return false
		}
		// the call must belong to this function's context (same function or its closures handled by Enter)
		if a.Call.Parent() != o.Fn {
			// the error came from a call in an enclosing/other function: evaluate in that function's context
			if a.Call.Parent() == nil {
				return false
			}
			po := o.contextFor(a.Call.Parent())
			if po == nil {
				return false
			}
			if !po.Enter(callee, a.Call).SuccessCut(cond) {
				return false
			}
			continue
		}
		if !o.Enter(callee, a.Call).SuccessCut(cond) {
			return false
		}
	}
	return true
}

// contextFor finds the provenance context of an enclosing function on the context chain.
func (o *Origins) contextFor(fn *ssa.Function) *Origins {
	for c := o; c != nil; c = c.outer {
		if c.Fn == fn {
			return c
		}
	}
	for c := o; c != nil; c = c.caller {
		if c.Fn == fn {
			return c
		}
	}
	if o.caller == nil {
		return o.p.OriginsOf(fn)
	}
	return nil
}

func (o *Origins) boolCalleeEstablishes(callEx *Ex, want bool, cond *Cond) bool {
	if o.depth >= maxSummaryDepth || callEx.Call == nil || callEx.Call.Parent() != o.Fn {
		return false
	}
	callee := callEx.Call.Common().StaticCallee()
	if !o.viaOK(cond, callee) {
		return false
	}
	res := callee.Signature.Results()
	if res.Len() != 1 || !isBool(res.At(0).Type()) {
		return false
	}
	co := o.Enter(callee, callEx.Call)
	key := summaryKey{callee, cond.Name + fmt.Sprintf("/bool=%v/forall=%s", want, cond.ForAll), co.ctxString()}
	if v, ok := summaryMemo[key]; ok {
		return v
	}
	if summaryBusy[key] {
		return false
	}
	summaryBusy[key] = true
	defer delete(summaryBusy, key)
	acc := co.AcceptEdges(cond)
	cut := NewCut()
	for e := range acc {
		cut.Edges[e] = true
	}
	ok := true
	n := 0
	for _, r := range Returns(callee) {
		// returns that certainly yield !want are irrelevant
		if c, isC := r.Results[0].(*ssa.Const); isC && c.Value != nil {
			if (c.Value.ExactString() == "true") != want {
				continue
			}
		}
		n++
		if reach, _ := ReachFromEntry(callee, r, cut); reach {
			ok = false
			break
		}
	}
	if n == 0 {
		ok = false
	}
	summaryMemo[key] = ok
	return ok
}

// IsFailureReturn reports whether a return instruction certainly returns a non-nil error.
func (o *Origins) IsFailureReturn(r *ssa.Return) bool {
	n := len(r.Results)
	if n == 0 {
		return false
	}
	ev := r.Results[n-1]
	if !IsErrorType(ev.Type()) {
		return false
	}
	// functions with defers return through result cells: look at every value that may be stored there
	if ld, ok := ev.(*ssa.UnOp); ok && ld.Op == token.MUL {
		if cell, ok := ld.X.(*ssa.Alloc); ok {
			vals, complete := o.reachingValues(cell, ld)
			if complete && len(vals) > 0 {
				for _, v := range vals {
					if !o.isNonNilErrorAt(v, r) {
						return false
					}
				}
				return true
			}
		}
	}
	return o.isNonNilErrorAt(ev, r)
}

// isNonNilErrorAt: the error value ev, returned by r, is certainly non-nil.
func (o *Origins) isNonNilErrorAt(ev ssa.Value, r ssa.Instruction) bool {
	if isNilConst(ev) {
		return false
	}
	// an error parameter of a helper read in a calling context: the argument passed there
	if prm, ok := ev.(*ssa.Parameter); ok && o.caller != nil && o.call != nil && !o.call.Common().IsInvoke() {
		for i, p := range o.Fn.Params {
			if p == prm && i < len(o.call.Common().Args) {
				if o.caller.isNonNilErrorAt(o.call.Common().Args[i], o.call) {
					return true
				}
			}
		}
	}
	// package-level error variables initialised once with errors.New / fmt.Errorf / a struct value
	if ld, ok := ev.(*ssa.UnOp); ok && ld.Op == token.MUL {
		if g, ok := ld.X.(*ssa.Global); ok && o.p.globalNonNilError(g) {
			return true
		}
	}
	// a non-pointer value converted to the error interface is never nil
	if mi, ok := ev.(*ssa.MakeInterface); ok {
		if _, isPtr := mi.X.Type().Underlying().(*types.Pointer); !isPtr {
			return true
		}
		// pointer produced by a constructor that returns the address of a composite literal - directly or through
		// further constructors (dbError(...) wrapping BuildCashuError(...))
		if c, ok := mi.X.(*ssa.Call); ok {
			if f := c.Call.StaticCallee(); f != nil && returnsFreshPointer(f) {
				return true
			}
		}
		if okP, _ := ptrNeverNil(mi.X, 0); okP {
			return true
		}
	}
	if c, ok := ev.(*ssa.Call); ok {
		switch o.p.Describe(c).Name {
		case "errors.New", "fmt.Errorf":
			return true
		}
		// a helper that is new on this tree and returns an error on every way out: one it builds, or the one it was
		// handed (`return nil, m.restore(id, err)` behind `err != nil`)
		if callee := c.Call.StaticCallee(); callee != nil && callee.Blocks != nil && o.p.IsNewFunc(callee) && callee.Signature.Results().Len() == 1 && o.depth < 4 {
			oc := o.Enter(callee, c)
			all := true
			for _, r2 := range Returns(callee) {
				if len(r2.Results) != 1 || !oc.isNonNilErrorAt(r2.Results[0], r2) {
					all = false
				}
			}
			if all && len(Returns(callee)) > 0 {
				return true
			}
		}
	}
	if r == nil || r.Parent() != o.Fn {
		return false
	}
	// `if err != nil { return ..., err }`: the return is only reachable through !errnil(err)
	ex := o.Of(ev).String()
	cut := NewCut()
	for _, e := range o.AllEdges() {
		f := o.EdgeFact(e)
		if f != nil && f.Kind == "errnil" && !f.Pos && f.A.String() == ex {
			cut.Edges[e] = true
		}
	}
	if len(cut.Edges) == 0 {
		return false
	}
	reach, _ := ReachFromEntry(o.Fn, r, cut)
	return !reach
}

func returnsFreshPointer(f *ssa.Function) bool {
	if f.Blocks == nil {
		return false
	}
	rets := Returns(f)
	if len(rets) == 0 {
		return false
	}
	for _, r := range rets {
		if len(r.Results) != 1 {
			return false
		}
		if al, ok := r.Results[0].(*ssa.Alloc); !ok || !al.Heap {
			return false
		}
	}
	return true
}

// SuccessReturns lists the returns of o.Fn that may return a nil error
// (for functions without an error result: all returns).
func (o *Origins) SuccessReturns() []*ssa.Return {
	var out []*ssa.Return
	for _, r := range Returns(o.Fn) {
		if !o.IsFailureReturn(r) {
			out = append(out, r)
		}
	}
	return out
}

// SuccessCut: every success return of o.Fn is unreachable once cond's accept edges are removed.
func (o *Origins) SuccessCut(cond *Cond) bool {
	key := summaryKey{o.Fn, cond.Name + "/forall=" + cond.ForAll, o.ctxString()}
	if v, ok := summaryMemo[key]; ok {
		return v
	}
	if summaryBusy[key] {
		return false
	}
	summaryBusy[key] = true
	defer delete(summaryBusy, key)
	acc := o.AcceptEdges(cond)
	ok := len(acc) > 0
	if ok {
		cut := NewCut()
		for e := range acc {
			cut.Edges[e] = true
		}
		succ := o.SuccessReturns()
		if len(succ) == 0 {
			ok = false
		}
		for _, r := range succ {
			rc := NewCut()
			for e := range cut.Edges {
				rc.Edges[e] = true
			}
			o.cutFailureSide(r, rc)
			if reach, _ := ReachFromEntry(o.Fn, r, rc); reach {
				ok = false
				break
			}
		}
	}
	summaryMemo[key] = ok
	return ok
}

// Requires decides the obligation "every path from the entry of o.Fn to target passes an edge
// establishing cond". It returns a witness path when violated.
func (o *Origins) Requires(target ssa.Instruction, cond *Cond) (bool, string) {
	acc := o.AcceptEdges(cond)
	cut := NewCut()
	for e := range acc {
		cut.Edges[e] = true
	}
	if cond.PerIteration {
		for _, l := range o.Loops.Loops {
			if !l.Blocks[target.Block()] {
				continue
			}
			for _, lb := range l.Latches {
				for i, sb := range lb.Succs {
					if sb == l.Header {
						cut.Edges[Edge{lb, i}] = true
					}
				}
			}
		}
	}
	o.cutFailureSide(target, cut)
	reach, path := ReachFromEntry(o.Fn, target, cut)
	if !reach {
		return true, ""
	}
	if len(acc) == 0 {
		return false, fmt.Sprintf("no edge in %s establishes [%s]", o.p.FuncKey(o.Fn), cond.Name)
	}
	return false, fmt.Sprintf("path avoiding every [%s] edge: %s", cond.Name, o.p.PathString(path))
}

// RequiresAfter decides "every path from point `from` (exclusive) to target passes an accept edge or
// a barrier instruction".
func (o *Origins) ReachAvoiding(from ssa.Instruction, target ssa.Instruction, cut *Cut) (bool, string) {
	start := PointOf(from)
	start.Idx++
	reach, path := Reach(start, PointOf(target), cut)
	if !reach {
		return false, ""
	}
	return true, o.p.PathString(path)
}

// ResetSummaries clears memoised summaries (between program loads).
func ResetSummaries() {
	summaryMemo = map[summaryKey]bool{}
	summaryBusy = map[summaryKey]bool{}
}

// reachingValues lists the SSA values that may be stored in a whole local cell at the given load
// (backward search over the CFG). complete is false when something other than plain stores may
// write the cell.
func (o *Origins) reachingValues(cell *ssa.Alloc, at ssa.Instruction) ([]ssa.Value, bool) {
	var out []ssa.Value
	complete := true
	// the cell must only be used by loads and stores
	for _, r := range *cell.Referrers() {
		switch x := r.(type) {
		case *ssa.Store:
			if x.Addr != ssa.Value(cell) {
				complete = false
			}
		case *ssa.UnOp, *ssa.DebugRef:
		default:
			complete = false
		}
	}
	visited := map[*ssa.BasicBlock]bool{}
	var scan func(b *ssa.BasicBlock, upto int)
	scan = func(b *ssa.BasicBlock, upto int) {
		for i := upto - 1; i >= 0; i-- {
			if st, ok := b.Instrs[i].(*ssa.Store); ok && st.Addr == ssa.Value(cell) {
				out = append(out, st.Val)
				return
			}
			if b.Instrs[i] == ssa.Instruction(cell) {
				return
			}
		}
		if len(b.Preds) == 0 {
			complete = false
			return
		}
		for _, p := range b.Preds {
			if !visited[p] {
				visited[p] = true
				scan(p, len(p.Instrs))
			}
		}
	}
	scan(at.Block(), instrIndex(at))
	return out, complete
}

// globalNonNilError: every store to the package-level variable (they are in package initialisers)
// stores a certainly non-nil error.
func (p *Program) globalNonNilError(g *ssa.Global) bool {
	if v, ok := p.globalErr[g]; ok {
		return v
	}
	if p.globalErr == nil {
		p.globalErr = map[*ssa.Global]bool{}
	}
	n := 0
	ok := true
	var fns []*ssa.Function
	fns = append(fns, p.Funcs...)
	if g.Pkg != nil {
		if init := g.Pkg.Func("init"); init != nil {
			fns = append(fns, init)
		}
	}
	for _, f := range fns {
		for _, b := range f.Blocks {
			for _, in := range b.Instrs {
				st, isSt := in.(*ssa.Store)
				if !isSt || st.Addr != ssa.Value(g) {
					continue
				}
				n++
				switch v := st.Val.(type) {
				case *ssa.Call:
					if sc := v.Call.StaticCallee(); sc == nil || !(sc.String() == "errors.New" || sc.String() == "fmt.Errorf") {
						ok = false
					}
				case *ssa.MakeInterface:
					if _, isPtr := v.X.Type().Underlying().(*types.Pointer); isPtr {
						ok = false
					}
				default:
					ok = false
				}
			}
		}
	}
	res := ok && n > 0
	p.globalErr[g] = res
	return res
}

// newHelperBoolEstablishes: v is a boolean result (single result or one element of the result tuple) of a
// call to a module helper that does not exist on the reference tree; "v == want" establishes cond iff every
// return of the helper that can yield want either sits behind an accept edge of cond (in the calling
// context) or returns a value whose outcome want itself implies cond (a comparison, a short-circuit
// conjunction, or slices.Contains over a literal list, whose false outcome excludes every listed value).
func (o *Origins) newHelperBoolEstablishes(v ssa.Value, want bool, cond *Cond) bool {
	if o.depth >= maxSummaryDepth {
		return false
	}
	idx := 0
	var call *ssa.Call
	switch x := v.(type) {
	case *ssa.Extract:
		c, ok := x.Tuple.(*ssa.Call)
		if !ok {
			return false
		}
		call, idx = c, x.Index
	case *ssa.Call:
		call = x
	default:
		return false
	}
	callee := call.Call.StaticCallee()
	if callee == nil || callee.Blocks == nil || callee.Parent() != nil || !o.p.IsNewFunc(callee) || !o.viaOK(cond, callee) || call.Parent() != o.Fn {
		return false
	}
	res := callee.Signature.Results()
	if idx >= res.Len() || !isBool(res.At(idx).Type()) {
		return false
	}
	co := o.Enter(callee, call)
	key := summaryKey{callee, cond.Name + fmt.Sprintf("/newbool%d=%v/forall=%s", idx, want, cond.ForAll), co.ctxString()}
	if r, ok := summaryMemo[key]; ok {
		return r
	}
	if summaryBusy[key] {
		return false
	}
	summaryBusy[key] = true
	defer delete(summaryBusy, key)
	acc := co.AcceptEdges(cond)
	cut := NewCut()
	for e := range acc {
		cut.Edges[e] = true
	}
	ok, n := true, 0
	for _, r := range Returns(callee) {
		rv := r.Results[idx]
		if k, isC := rv.(*ssa.Const); isC && k.Value != nil {
			if (k.Value.ExactString() == "true") != want {
				continue
			}
		}
		n++
		if reach, _ := ReachFromEntry(callee, r, cut); !reach {
			continue
		}
		// the returned value's outcome implies the condition?
		if _, isC := rv.(*ssa.Const); !isC && cond.ForAll == "" {
			var fs []*Fact
			co.condFacts(rv, want, &fs, 0)
			fs = append(fs, co.containsFacts(rv, want)...)
			hit := false
			for _, f := range fs {
				if cond.Match(f, co) {
					hit = true
					break
				}
			}
			if hit {
				continue
			}
		}
		ok = false
		break
	}
	if n == 0 {
		ok = false
	}
	summaryMemo[key] = ok
	return ok
}

// containsFacts: slices.Contains(list, x) == false over a literal list of constants gives x != k for every
// listed k. The list may be a parameter bound to a variadic argument list of the calling context.
func (o *Origins) containsFacts(v ssa.Value, truth bool) []*Fact {
	c, ok := v.(*ssa.Call)
	if !ok || truth || o.p.Describe(c).Name != "slices.Contains" || len(c.Call.Args) != 2 {
		return nil
	}
	list, x := c.Call.Args[0], c.Call.Args[1]
	ctx := o
	for i := 0; i < 3; i++ {
		prm, isP := list.(*ssa.Parameter)
		if !isP || ctx.caller == nil || ctx.call == nil {
			break
		}
		found := false
		for j, p := range ctx.Fn.Params {
			if p == prm && j < len(ctx.call.Common().Args) && !ctx.call.Common().IsInvoke() {
				list, ctx, found = ctx.call.Common().Args[j], ctx.caller, true
				break
			}
		}
		if !found {
			break
		}
	}
	sl, ok := list.(*ssa.Slice)
	if !ok {
		return nil
	}
	al, ok := sl.X.(*ssa.Alloc)
	if !ok {
		return nil
	}
	arr, ok := al.Type().Underlying().(*types.Pointer).Elem().Underlying().(*types.Array)
	if !ok {
		return nil
	}
	var out []*Fact
	n := 0
	for _, ref := range *al.Referrers() {
		ia, ok := ref.(*ssa.IndexAddr)
		if !ok {
			continue
		}
		for _, r2 := range *ia.Referrers() {
			if st, ok := r2.(*ssa.Store); ok && st.Addr == ia {
				k := ctx.Of(st.Val)
				if k.K != "const" {
					return nil
				}
				n++
				out = append(out, &Fact{Kind: "cmp", Pos: false, Op: token.EQL, A: o.Of(x), B: k, Cond: v})
			}
		}
	}
	if int64(n) != arr.Len() {
		return nil
	}
	return out
}

// reachableOnSuccessSide: the return can be reached from the call without taking an edge on which the call's error
// is known to be non-nil.
func (o *Origins) reachableOnSuccessSide(call ssa.CallInstruction, r *ssa.Return) bool {
	cut := NewCut()
	for _, e := range o.AllEdges() {
		f := o.EdgeFact(e)
		if f != nil && f.Kind == "errnil" && !f.Pos && exIsCallResult(f.A, call) {
			cut.Edges[e] = true
		}
	}
	start := PointOf(call)
	start.Idx++
	reach, _ := Reach(start, PointOf(r), cut)
	return reach
}

// cutFailureSide: target is a return that hands back, as its error, exactly the error result of a call K made in the
// same function (`sigs, err := m.swap(..); log(err); return sigs, err`). Along a path through an edge on which K's
// error is known to be non-nil the return reports that failure, so such paths are not ways to report success: the
// edges are added to the cut.
func (o *Origins) cutFailureSide(target ssa.Instruction, cut *Cut) {
	r, ok := target.(*ssa.Return)
	if !ok || len(r.Results) == 0 || !IsErrorType(r.Results[len(r.Results)-1].Type()) {
		return
	}
	var call ssa.CallInstruction
	switch x := r.Results[len(r.Results)-1].(type) {
	case *ssa.Extract:
		if c2, ok := x.Tuple.(*ssa.Call); ok {
			call = c2
		}
	case *ssa.Call:
		call = x
	}
	if call == nil || call.Block() == r.Block() {
		return
	}
	for _, e := range o.AllEdges() {
		f := o.EdgeFact(e)
		if f != nil && f.Kind == "errnil" && !f.Pos && exIsCallResult(f.A, call) {
			cut.Edges[e] = true
		}
	}
}
