package nc

import (
	"fmt"
	"sort"
	"strings"

	"golang.org/x/tools/go/ssa"
)

func init() {
	register("C07", "Physical durability, SQLite's recovery and the adversarial follow-up are NOT decided. Decided, without executing anything, "+
		"is the abstract crash/fault table of every mint operation: (G) the operation's effect graph is extracted from the CFG - storage "+
		"writes (role and constant state argument read from the SQL and the call), Lightning calls, the signing step, returns, with the "+
		"helpers that contain effects inlined and the two outcomes of every fallible call separated by the edges that test its error; "+
		"(T) the graph is interpreted over an abstract store {inputs spent, inputs locked, signatures saved, mint/melt quote state, "+
		"payment status, number of active keysets}: a failing storage call leaves the store unchanged, a succeeding one applies its effect; "+
		"every reachable (position, store) is 'the process dies here' and every return is 'the operation ended here, possibly after a "+
		"storage error'; each must satisfy the safety invariants (signatures saved => inputs spent / quote ISSUED; payment possibly in "+
		"flight => inputs locked or spent; quote UNPAID again / inputs released only after a definitive failure; one active keyset) and the "+
		"recoverability / atomicity invariants (inputs spent => signatures saved; quote ISSUED => signatures saved; quote never left "+
		"PENDING; locked inputs => quote PENDING so that the poll resolves them); (M) the model's assumptions are checked on the storage "+
		"code: multi-row writes are one transaction, quote-state updates are unconditional (WHERE id = ? only); (R5) the melt decision "+
		"table (shared with C05). Windows that exist on the reference tree are genuine and recorded as known findings keyed by "+
		"(operation, invariant, last write, failed call); any other window is a violation.", rulesC07)
}

func (c *Ctx) c07Invariants(family string) []invariant {
	inflight := func(s absStore) bool { return s.pay == "inflight" || s.pay == "succeeded" }
	switch family {
	case "swap":
		return []invariant{
			{"S1", "signatures saved => inputs spent (otherwise restore + re-spend doubles the value)", "always", func(s absStore) bool { return !s.sigs || s.spent }},
			{"A1", "inputs spent => signatures saved (otherwise the outputs are not recoverable)", "always", func(s absStore) bool { return !s.spent || s.sigs }},
			{"D1", "answered with signatures => they are saved and the inputs are spent", "ok-return", func(s absStore) bool { return !s.signed || (s.sigs && s.spent) }},
		}
	case "mint":
		return []invariant{
			{"S2", "signatures saved => quote ISSUED (otherwise the quote can be minted again)", "always", func(s absStore) bool { return !s.sigs || s.mintQ == "ISSUED" }},
			{"A2", "quote ISSUED => signatures saved (otherwise the paid quote has no recoverable outputs)", "always", func(s absStore) bool { return s.mintQ != "ISSUED" || s.sigs }},
			{"A3", "quote is not left PENDING (no request is alive after a restart / after the operation returned)", "always", func(s absStore) bool { return s.mintQ != "PENDING" }},
			{"D2", "answered with signatures => they are saved and the quote is ISSUED", "ok-return", func(s absStore) bool { return !s.signed || (s.sigs && s.mintQ == "ISSUED") }},
		}
	case "melt":
		return []invariant{
			{"S3", "payment made or possibly in flight => inputs locked or spent", "always", func(s absStore) bool { return !inflight(s) || s.locked || s.spent }},
			{"S4", "inputs spent => payment succeeded", "always", func(s absStore) bool { return !s.spent || s.pay == "succeeded" }},
			{"S5", "quote UNPAID again => no payment or a definitive failure", "always", func(s absStore) bool { return s.meltQ != "UNPAID" || s.pay == "none" || s.pay == "failed" }},
			{"R3", "inputs locked and not paid for => quote PENDING (only then the poll resolves them)", "always", func(s absStore) bool { return !s.locked || s.meltQ == "PENDING" || s.pay == "succeeded" }},
			{"A4", "answered PAID => inputs spent and no longer locked", "ok-return", func(s absStore) bool { return s.meltQ != "PAID" || (s.spent && !s.locked) }},
			{"A5", "payment succeeded and answered => quote PAID", "ok-return", func(s absStore) bool { return s.pay != "succeeded" || s.meltQ == "PAID" }},
		}
	case "rotate":
		return []invariant{
			{"K1", "exactly one keyset is active in storage", "always", func(s absStore) bool { return s.active == 1 }},
		}
	}
	return nil
}

func rulesC07(c *Ctx) {
	R := c.R
	R.Rule("G", "effect graph extraction: every effect understood, state arguments constant, goroutine/deferred effects absent", 6)
	R.Rule("P", "payments that arrived while the mint was down are noticed: the mint-quote poll looks the invoice up for every UNPAID quote (shared with C03.R11)", 1)
	c.ruleMintPollCompleteness("P")
	R.Rule("T", "crash / storage-fault table: abstract-store invariants at every reachable position and return", 14)
	R.Rule("M", "model assumptions on the storage code: multi-row writes atomic, state updates unconditional", 8)
	R.Rule("R5", "melt decision table (shared with C05.R1)", 20)
	R.Rule("R6", "who may release locked inputs: only the melt operation and the melt-quote poll (shared with C05.R9) - a start-up or self-healing release does not know whether the payment went out", 3)
	R.Rule("K", "keysets survive a restart: persisted rows carry the generated keyset's own index, fee and seed; start-up regenerates every keyset from its own row (shared with C09.R2)", 11)
	c.ruleKeysetWiring("K")
	c.vocabProblems("G")

	swap := c.op("G", "/v1/swap")
	mint := c.op("G", "/v1/mint/{method}")
	mintPoll := c.op("G", "/v1/mint/quote/{method}/{quote_id}")
	melt := c.op("G", "/v1/melt/{method}")
	meltPoll := c.op("G", "/v1/melt/quote/{method}/{quote_id}")
	ops := []*traceOp{}
	add := func(name string, f *ssa.Function, family string, init absStore) {
		if f != nil {
			ops = append(ops, &traceOp{name: name, fn: f, family: family, init: init})
		}
	}
	add("swap-op", swap, "swap", absStore{pay: "none", mintQ: "-", meltQ: "-"})
	add("mint-op", mint, "mint", absStore{pay: "none", mintQ: "OPEN", meltQ: "-"})
	add("mint-quote-poll", mintPoll, "mint", absStore{pay: "none", mintQ: "OPEN", meltQ: "-"})
	add("melt-op", melt, "melt", absStore{pay: "none", mintQ: "-", meltQ: "UNPAID"})
	add("melt-quote-poll", meltPoll, "melt", absStore{pay: "inflight", locked: true, mintQ: "-", meltQ: "PENDING"})
	// rotation: every module function that itself deactivates a keyset row
	var rot []*ssa.Function
	for _, f := range c.P.Funcs {
		if !c.moduleFn(f) || f.Parent() != nil {
			continue
		}
		for _, ci := range Calls(f) {
			if c.V.DBRole(c.P.Describe(ci), "UPDATE keysets") {
				rot = append(rot, f)
				break
			}
		}
	}
	// a deactivating function that is new on this tree is a piece of its callers: the callers are the rotation
	for changed, rounds := true, 0; changed && rounds < 5; rounds++ {
		changed = false
		var next []*ssa.Function
		seenRot := map[*ssa.Function]bool{}
		for _, f := range rot {
			if c.P.IsNewFunc(f) {
				if sites := c.callersOf(f); len(sites) > 0 {
					for _, s := range sites {
						if top := EnclosingTop(s.Parent()); !seenRot[top] {
							seenRot[top] = true
							next = append(next, top)
						}
					}
					changed = true
					continue
				}
			}
			if !seenRot[f] {
				seenRot[f] = true
				next = append(next, f)
			}
		}
		rot = next
	}
	sort.Slice(rot, func(i, j int) bool { return c.P.FuncKey(rot[i]) < c.P.FuncKey(rot[j]) })
	for _, f := range rot {
		add("rotate:"+c.P.FuncKey(f), f, "rotate", absStore{pay: "none", mintQ: "-", meltQ: "-", active: 1})
	}
	if len(rot) == 0 {
		R.Unresolved("G", "keyset rotation", "no function deactivates a keyset row")
	}
	// background watcher(s): functions started with `go` from a core operation that write a quote state
	for _, f := range c.P.Funcs {
		if !c.moduleFn(f) {
			continue
		}
		for _, b := range f.Blocks {
			for _, in := range b.Instrs {
				g, ok := in.(*ssa.Go)
				if !ok {
					continue
				}
				callee := g.Call.StaticCallee()
				if callee == nil || !c.moduleFn(callee) || c.P.Rel(callee.Pkg.Pkg.Path()) != "mint" {
					continue
				}
				if len(c.roleSites(callee, roleSetMint))+len(c.roleSites(callee, roleSetMelt)) > 0 {
					add("watcher:"+c.P.FuncKey(callee), callee, "mint", absStore{pay: "none", mintQ: "OPEN", meltQ: "-"})
				}
			}
		}
	}

	for _, op := range ops {
		c.c07Op(op)
	}

	// the poll's initial store: every effect of the poll sits behind "stored state is PENDING"
	if meltPoll != nil {
		o := c.P.OriginsOf(meltPoll)
		pend, _ := c.P.ConstVal("cashu/nuts/nut05", "Pending")
		isPending := &Cond{Name: "stored melt quote state is PENDING", Match: func(ft *Fact, _ *Origins) bool {
			return ft.Kind == "cmp" && ft.Pos && ft.Op.String() == "==" && isField(ft.A, "State") && ft.A.Args[0].K == "call" && ft.A.Args[0].Idx == 0 &&
				c.dbCallWithRole(ft.A.Args[0], roleReadMelt) && isConst(ft.B, pend)
		}}
		tb := c.newTraceBuilder("G")
		n := 0
		for _, ci := range Calls(meltPoll) {
			if _, _, _, isEv := tb.eventLabel(ci, o); isEv || (tb.inlinable(ci) != nil && tb.hasEvents(tb.inlinable(ci), 0)) {
				n++
				ok, why := o.Requires(ci, isPending)
				R.Check("G", c.P.FuncKey(meltPoll), "effect only for a PENDING quote: "+c.P.Describe(ci).Name, c.P.InstrPos(ci), ok,
					"the poll acts only on a quote whose stored state is PENDING (justifies its initial store: inputs locked, payment possibly in flight)", why)
			}
		}
		if n == 0 {
			R.Check("G", c.P.FuncKey(meltPoll), "poll has effects", c.P.Pos(meltPoll.Pos()), false, "the melt-quote poll resolves pending payments", "no effect found in it")
		}
	}

	// ---- M: model assumptions
	for _, role := range []string{roleMarkSpent, roleLock, roleSaveSigs} {
		c.checkAtomicMultiRow("M", role)
	}
	c.ruleStateUpdatesKeyedOnly("M")

	// writer census: the abstract store changes only through the storage-interface methods that the effect
	// graphs model. Any other statement of the module that writes one of its tables (start-up code, a
	// clean-up job, another package) is outside the model.
	storeTables := map[string]bool{"proofs": true, "pending_proofs": true, "blind_signatures": true, "mint_quotes": true, "melt_quotes": true, "keysets": true}
	stray := c.V.StrayStatements()
	nStray := 0
	for _, st := range stray {
		fk := c.P.FuncKey(st.Fn)
		if st.SQL == nil {
			nStray++
			R.Check("M", fk, "statement outside the storage interface is readable", c.P.InstrPos(st.Exec), false,
				"every SQL statement executed outside the storage-interface methods can be read by the checker", st.Why)
			continue
		}
		if st.SQL.Verb == "SELECT" || !storeTables[st.SQL.Table] {
			continue
		}
		nStray++
		R.Check("M", fk, st.SQL.Role()+" outside the storage interface", c.P.InstrPos(st.Exec), false,
			"the tables of the abstract store are written only by storage-interface methods (whose effects the operations' graphs model)",
			"statement executed in "+fk+": "+short(st.SQL.Raw, 160))
	}
	if nStray == 0 {
		R.Check("M", "module", "no statement outside the storage interface writes a table of the abstract store", "-", true,
			fmt.Sprintf("the tables of the abstract store are written only by storage-interface methods (%d other statements examined)", len(stray)), "")
	}

	// ---- R5: decision table
	c.meltDecisionTable("R5", false)
	c.ruleUnlockCallers("R6")
}

func (c *Ctx) c07Op(op *traceOp) {
	R := c.R
	tb := c.newTraceBuilder("G")
	o := c.P.OriginsOf(op.fn)
	if op.family == "melt" {
		ln := c.lnFacts("G", nil)
		if ln == nil {
			return
		}
		tb.tags = []tagCond{
			{name: "payment-succeeded", cond: &Cond{Name: "payment succeeded", Match: func(f *Fact, o *Origins) bool {
				return ln.paySucceeded.Match(f, o) || ln.lookSucceeded.Match(f, o)
			}}, only: func(src *tNode, outcome string) bool {
				// a status read from a failed call is the zero value, not an answer
				return src != nil && !(src.ln && outcome == "fail")
			}},
			{name: "payment-definitely-failed", cond: ln.lookNotFound, only: func(src *tNode, outcome string) bool { return src != nil && src.label == "LN:PAYMENT-STATUS" }},
			{name: "payment-definitely-failed", cond: ln.lookFailed, only: func(src *tNode, outcome string) bool {
				return src != nil && src.label == "LN:PAYMENT-STATUS" && outcome == "ok"
			}},
		}
	}
	entry, rets := tb.inline(op.fn, o, c.P.FuncKey(op.fn), 0, map[*ssa.Function]bool{})
	for _, r := range rets {
		r.final = true
	}
	fk := op.name
	for _, p := range tb.problems {
		R.Check("G", fk, "effect placement: "+short(p, 80), c.P.Pos(op.fn.Pos()), false, "every effect of the operation has a position in its sequence", p)
	}
	invs := c.c07Invariants(op.family)
	res := tb.explore(op, entry, invs)
	nEv := 0
	for _, n := range tb.nodes {
		if n.kind == "event" {
			nEv++
		}
	}
	R.Check("G", fk, "effect graph extracted", c.P.Pos(op.fn.Pos()), nEv > 0 && len(res.unknownLabels) == 0, "the operation's effects are extracted and each is understood by the abstract store",
		fmt.Sprintf("events=%d not understood: %s", nEv, strings.Join(res.unknownLabels, "; ")))
	R.Note("C07 %s (%s): effect graph nodes=%d edges=%d events=%d, store/position pairs explored=%d, effects: %s", op.name, c.P.FuncKey(op.fn), res.nodes, res.edges, nEv, res.states, strings.Join(res.events, ", "))
	if c.Opt.Verbose {
		for _, l := range tb.dumpGraph(entry) {
			fmt.Println("    [graph " + op.name + "] " + l)
		}
	}
	// one obligation per (invariant) without finding, one per finding otherwise
	byInv := map[string][]*traceFinding{}
	var keys []string
	for k, f := range res.findings {
		byInv[f.inv.id] = append(byInv[f.inv.id], f)
		keys = append(keys, k)
	}
	sort.Strings(keys)
	for _, inv := range invs {
		if len(byInv[inv.id]) == 0 {
			R.Check("T", fk, inv.id+" "+inv.text, c.P.Pos(op.fn.Pos()), true, inv.text+" at every crash position and return of the operation", "")
		}
	}
	for _, k := range keys {
		f := res.findings[k]
		var sites []string
		for s := range f.sites {
			sites = append(sites, s)
		}
		sort.Strings(sites)
		site := c.P.Pos(op.fn.Pos())
		R.Check("T", fk, f.inv.id+" "+f.key, site, false, f.inv.text,
			fmt.Sprintf("violated with abstract store {%s} at: %s", f.state, strings.Join(sites, "; ")))
	}
}
