package nc

import (
	"fmt"
	"go/token"
	"go/types"
	"math/big"
	"sort"
	"strings"

	"golang.org/x/tools/go/ssa"
)

// Ex is a provenance expression: where an SSA value comes from, written over
// parameters, fields, call results, constants and a few structural operators.
type Ex struct {
	K    string // kind
	S    string // name / operator / constant text
	Args []*Ex
	V    ssa.Value           // representative SSA value, may be nil
	Call ssa.CallInstruction // for K == "call" / "out"
	Idx  int                 // result index for calls (-1: single result)
	str  string
}

func (e *Ex) String() string {
	if e == nil {
		return "<nil>"
	}
	if e.str != "" {
		return e.str
	}
	var s string
	args := func(sep string) string {
		ss := make([]string, len(e.Args))
		for i, a := range e.Args {
			ss[i] = a.String()
		}
		return strings.Join(ss, sep)
	}
	switch e.K {
	case "param":
		s = "P:" + e.S
	case "const":
		s = "#" + e.S
	case "global":
		s = "&G:" + e.S
	case "gval":
		s = "G:" + e.S
	case "alloc":
		s = "&L:" + e.S
	case "field":
		s = e.Args[0].String() + "." + e.S
	case "elem":
		s = "elem(" + e.Args[0].String() + ")"
	case "key":
		s = "key(" + e.Args[0].String() + ")"
	case "index":
		s = e.Args[0].String() + "[" + e.Args[1].String() + "]"
	case "lookup":
		s = e.Args[0].String() + "[" + e.Args[1].String() + "]"
	case "ok":
		s = "ok(" + e.Args[0].String() + ")"
	case "call":
		if e.Idx >= 0 {
			s = fmt.Sprintf("%s#%d(%s)", e.S, e.Idx, args(", "))
		} else {
			s = fmt.Sprintf("%s(%s)", e.S, args(", "))
		}
	case "out":
		s = fmt.Sprintf("out[%s](%s)", e.S, args(", "))
	case "phi":
		s = "phi{" + args(" | ") + "}"
	case "bin":
		s = "(" + e.Args[0].String() + " " + e.S + " " + e.Args[1].String() + ")"
	case "un":
		s = e.S + e.Args[0].String()
	case "len":
		s = "len(" + e.Args[0].String() + ")"
	case "acc":
		s = "acc(" + e.S + "; " + args("; ") + ")"
	case "map":
		s = "map(" + e.Args[0].String() + " => " + e.Args[1].String() + ")"
	case "with":
		s = "with(" + args("; ") + ")"
	case "set":
		s = e.S + "=" + e.Args[0].String()
	case "slice":
		s = e.Args[0].String() + "[" + e.Args[1].String() + ":" + e.Args[2].String() + "]"
	case "none":
		s = ""
	case "assert":
		s = e.Args[0].String() + ".(" + e.S + ")"
	case "deref":
		s = "*" + e.Args[0].String()
	case "addr":
		s = "&" + e.Args[0].String()
	case "conv":
		s = e.S + "(" + e.Args[0].String() + ")"
	default:
		// new, make, closure, func, opaque, zero, self, lit
		s = e.K + ":" + e.S
		if len(e.Args) > 0 {
			s += "(" + args(", ") + ")"
		}
	}
	e.str = s
	return s
}

// Walk visits e and all sub-expressions.
func (e *Ex) Walk(f func(*Ex) bool) {
	if e == nil || !f(e) {
		return
	}
	for _, a := range e.Args {
		a.Walk(f)
	}
}

// Has reports whether any sub-expression satisfies pred.
func (e *Ex) Has(pred func(*Ex) bool) bool {
	found := false
	e.Walk(func(x *Ex) bool {
		if found {
			return false
		}
		if pred(x) {
			found = true
			return false
		}
		return true
	})
	return found
}

// Alts returns the alternatives of a phi, or the expression itself.
func (e *Ex) Alts() []*Ex {
	if e != nil && e.K == "phi" {
		return e.Args
	}
	return []*Ex{e}
}

func mk(k, s string, args ...*Ex) *Ex { return &Ex{K: k, S: s, Args: args, Idx: -1} }

func mkPhi(alts []*Ex) *Ex {
	seen := map[string]*Ex{}
	var flat []*Ex
	var add func(a *Ex)
	add = func(a *Ex) {
		if a == nil {
			return
		}
		if a.K == "phi" {
			for _, b := range a.Args {
				add(b)
			}
			return
		}
		if a.K == "self" {
			return
		}
		k := a.String()
		if _, ok := seen[k]; !ok {
			seen[k] = a
			flat = append(flat, a)
		}
	}
	for _, a := range alts {
		add(a)
	}
	if len(flat) == 0 {
		return mk("opaque", "empty-phi")
	}
	if len(flat) == 1 {
		return flat[0]
	}
	sort.Slice(flat, func(i, j int) bool { return flat[i].String() < flat[j].String() })
	return mk("phi", "", flat...)
}

// Origins computes provenance expressions for the values of one function in one calling context.
type Origins struct {
	p     *Program
	Fn    *ssa.Function
	Loops *LoopInfo

	caller *Origins            // context of the caller (param substitution), nil at top level
	call   ssa.CallInstruction // the call in caller.Fn that enters Fn
	outer  *Origins            // for closures: context of the enclosing function
	mc     *ssa.MakeClosure

	memo       map[ssa.Value]*Ex
	busy       map[ssa.Value]bool
	derived    map[ssa.Value]map[ssa.Value]bool // root -> set of values derived from its address
	derivedEsc map[escKey]map[ssa.Value]bool
	depth      int

	// cutEdges: CFG edges assumed not taken (a path condition); reaching stores and phis ignore them.
	cutEdges map[Edge]bool

	idxMapMemo  map[*ssa.Lookup]*Ex
	idxMapElem  map[*ssa.Lookup]bool   // the index map stores the elements themselves
	idxMapField map[*ssa.Lookup]string // ... or one field of each element (m[key(x)] = x.F)
}

// WithCut returns a fresh context of the same function and calling context in which the given edges are
// assumed not taken. Values computed in it are the provenance restricted to the remaining paths.
func (o *Origins) WithCut(edges map[Edge]bool) *Origins {
	c := &Origins{p: o.p, Fn: o.Fn, Loops: o.Loops, caller: o.caller, call: o.call, outer: o.outer, mc: o.mc,
		memo: map[ssa.Value]*Ex{}, busy: map[ssa.Value]bool{}, derived: map[ssa.Value]map[ssa.Value]bool{},
		depth: o.depth, cutEdges: edges}
	return c
}

// predCut: every edge pred -> b is cut.
func (o *Origins) predCut(pred, b *ssa.BasicBlock) bool {
	if len(o.cutEdges) == 0 {
		return false
	}
	any := false
	for i, s := range pred.Succs {
		if s == b {
			if !o.cutEdges[Edge{pred, i}] {
				return false
			}
			any = true
		}
	}
	return any
}

// OriginsOf returns the top-level provenance context of fn.
func (p *Program) OriginsOf(fn *ssa.Function) *Origins {
	if o, ok := p.origins[fn]; ok {
		return o
	}
	o := &Origins{p: p, Fn: fn, Loops: FindLoops(fn), memo: map[ssa.Value]*Ex{}, busy: map[ssa.Value]bool{},
		derived: map[ssa.Value]map[ssa.Value]bool{}}
	p.origins[fn] = o
	if fn.Parent() != nil {
		o.outer = p.OriginsOf(fn.Parent())
		o.mc = FindMakeClosure(fn)
	}
	return o
}

// Enter returns the context for analysing callee as called from call (an instruction of o.Fn).
func (o *Origins) Enter(callee *ssa.Function, call ssa.CallInstruction) *Origins {
	c := &Origins{p: o.p, Fn: callee, Loops: o.p.OriginsOf(callee).Loops, caller: o, call: call,
		memo: map[ssa.Value]*Ex{}, busy: map[ssa.Value]bool{}, derived: map[ssa.Value]map[ssa.Value]bool{},
		depth: o.depth + 1}
	if callee.Parent() != nil {
		if callee.Parent() == o.Fn {
			c.outer = o
		} else {
			c.outer = o.p.OriginsOf(callee.Parent())
		}
		c.mc = FindMakeClosure(callee)
	}
	return c
}

// EnterClosure returns the context for reading a closure created in o.Fn: free variables resolve through o
// (and so through o's own calling context); the closure's parameters stay parameters.
func (o *Origins) EnterClosure(fn *ssa.Function) *Origins {
	if fn.Parent() != o.Fn {
		return o.p.OriginsOf(fn)
	}
	return &Origins{p: o.p, Fn: fn, Loops: o.p.OriginsOf(fn).Loops, outer: o, mc: FindMakeClosure(fn),
		memo: map[ssa.Value]*Ex{}, busy: map[ssa.Value]bool{}, derived: map[ssa.Value]map[ssa.Value]bool{},
		depth: o.depth + 1}
}

// Of computes the provenance of v.
func (o *Origins) Of(v ssa.Value) *Ex {
	if v == nil {
		return mk("none", "")
	}
	if e, ok := o.memo[v]; ok {
		return e
	}
	if o.busy[v] {
		return &Ex{K: "self", S: v.Name(), V: v, Idx: -1}
	}
	o.busy[v] = true
	e := o.compute(v)
	delete(o.busy, v)
	if e.V == nil {
		e.V = v
	}
	// do not memoise results that depend on an in-progress cycle marker
	if !e.Has(func(x *Ex) bool { return x.K == "self" }) {
		o.memo[v] = e
	}
	return e
}

func (o *Origins) compute(v ssa.Value) *Ex {
	switch x := v.(type) {
	case *ssa.Parameter:
		if o.caller != nil && o.call != nil {
			// substitute the caller's argument
			for i, prm := range o.Fn.Params {
				if prm == x {
					args := o.call.Common().Args
					if o.call.Common().IsInvoke() {
						// receiver is Value, params[0] is the receiver in the callee
						if i == 0 {
							return o.caller.Of(o.call.Common().Value)
						}
						if i-1 < len(args) {
							return o.caller.Of(args[i-1])
						}
					} else if i < len(args) {
						return o.caller.Of(args[i])
					}
				}
			}
		}
		return &Ex{K: "param", S: x.Name(), V: x, Idx: -1}
	case *ssa.FreeVar:
		if o.outer != nil && o.mc != nil {
			for i, fv := range o.Fn.FreeVars {
				if fv == x && i < len(o.mc.Bindings) {
					return o.outer.Of(o.mc.Bindings[i])
				}
			}
		}
		return mk("opaque", "freevar:"+x.Name())
	case *ssa.Const:
		return &Ex{K: "const", S: ConstString(x), V: x, Idx: -1}
	case *ssa.Global:
		return &Ex{K: "global", S: o.globalName(x), V: x, Idx: -1}
	case *ssa.Function:
		return mk("func", o.p.calleeName(x))
	case *ssa.Builtin:
		return mk("func", "builtin."+x.Name())
	case *ssa.Alloc:
		name := x.Comment
		if name == "" {
			name = x.Name()
		}
		return &Ex{K: "alloc", S: name + "@" + o.p.FuncKey(x.Parent()), V: x, Idx: -1}
	case *ssa.FieldAddr:
		return mk("addr", "", o.pathExpr(x))
	case *ssa.IndexAddr:
		return mk("addr", "", o.pathExpr(x))
	case *ssa.UnOp:
		if x.Op == token.MUL {
			return o.load(x)
		}
		if x.Op == token.ARROW {
			return mk("recv", "", o.Of(x.X))
		}
		return mk("un", x.Op.String(), o.Of(x.X))
	case *ssa.Field:
		st := x.X.Type().Underlying().(*types.Struct)
		return project(o.Of(x.X), st.Field(x.Field).Name())
	case *ssa.Index:
		return mk("index", "", o.Of(x.X), o.Of(x.Index))
	case *ssa.Lookup:
		return mk("lookup", "", o.Of(x.X), o.Of(x.Index))
	case *ssa.Extract:
		return o.extract(x)
	case *ssa.Call:
		return o.callEx(x, -1)
	case *ssa.BinOp:
		a, b := o.Of(x.X), o.Of(x.Y)
		// (X + c1) - c2 and (X + c1) + c2 read as X + c: `x + divisor - 1` with a named constant is `x + 999`
		if x.Op == token.SUB && b.K == "const" && a.K == "bin" && a.S == "+" && len(a.Args) == 2 && a.Args[1].K == "const" {
			c1, ok1 := new(big.Int).SetString(a.Args[1].S, 10)
			c2, ok2 := new(big.Int).SetString(b.S, 10)
			if ok1 && ok2 {
				r := new(big.Int)
				if x.Op == token.SUB {
					r.Sub(c1, c2)
				} else {
					r.Add(c1, c2)
				}
				if r.Sign() > 0 && r.BitLen() < 31 {
					return mk("bin", "+", a.Args[0], mk("const", r.String()))
				}
			}
		}
		return mk("bin", x.Op.String(), a, b)
	case *ssa.ChangeType:
		return o.Of(x.X)
	case *ssa.ChangeInterface:
		return o.Of(x.X)
	case *ssa.MakeInterface:
		return o.Of(x.X)
	case *ssa.Convert:
		// conversions between string and []byte change representation, not provenance,
		// numeric conversions keep the value (possible truncation is flagged by "conv")
		from, to := x.X.Type().Underlying(), x.Type().Underlying()
		if fb, ok := from.(*types.Basic); ok {
			if tb, ok := to.(*types.Basic); ok && fb.Info()&types.IsInteger != 0 && tb.Info()&types.IsInteger != 0 {
				if o.p.sizeof(tb) < o.p.sizeof(fb) {
					return mk("conv", tb.Name(), o.Of(x.X))
				}
				return o.Of(x.X)
			}
			if tb, ok := to.(*types.Basic); ok && (fb.Info()&types.IsFloat != 0) != (tb.Info()&types.IsFloat != 0) {
				return mk("conv", tb.Name(), o.Of(x.X))
			}
		}
		return o.Of(x.X)
	case *ssa.SliceToArrayPointer:
		return o.Of(x.X)
	case *ssa.Phi:
		return o.phi(x)
	case *ssa.Slice:
		if x.Low == nil && x.High == nil && x.Max == nil {
			// h[:] of a local byte array (hash results): the bytes are the cell's content at this point
			if al, ok := x.X.(*ssa.Alloc); ok {
				if arr, ok := al.Type().Underlying().(*types.Pointer).Elem().Underlying().(*types.Array); ok {
					if bt, ok := arr.Elem().Underlying().(*types.Basic); ok && bt.Kind() == types.Uint8 {
						return o.reaching(al, nil, x, x.Block(), instrIndex(x))
					}
				}
			}
			// x[:] of an array pointer or slice: same elements
			return o.Of(x.X)
		}
		return mk("slice", "", o.Of(x.X), o.Of(x.Low), o.Of(x.High))
	case *ssa.MakeSlice:
		return o.makeSlice(x)
	case *ssa.MakeMap:
		return &Ex{K: "make", S: typeShort(o.p, x.Type()) + "@" + o.p.InstrPos(x), V: x, Idx: -1}
	case *ssa.MakeChan:
		return &Ex{K: "make", S: typeShort(o.p, x.Type()), V: x, Idx: -1}
	case *ssa.MakeClosure:
		if f, ok := x.Fn.(*ssa.Function); ok {
			return mk("closure", o.p.FuncKey(f))
		}
		return mk("closure", "?")
	case *ssa.TypeAssert:
		if x.CommaOk {
			return mk("assert", typeShort(o.p, x.AssertedType), o.Of(x.X))
		}
		return mk("assert", typeShort(o.p, x.AssertedType), o.Of(x.X))
	case *ssa.Range:
		return mk("range", "", o.Of(x.X))
	case *ssa.Next:
		return mk("next", "", o.Of(x.Iter))
	case *ssa.Select:
		return mk("opaque", "select")
	}
	return mk("opaque", fmt.Sprintf("%T", v))
}

func (p *Program) sizeof(b *types.Basic) int64 {
	sz := types.SizesFor("gc", "amd64")
	return sz.Sizeof(b)
}

func (o *Origins) globalName(g *ssa.Global) string {
	pk := ""
	if g.Pkg != nil {
		if o.p.InModule(g.Pkg.Pkg.Path()) {
			pk = o.p.Rel(g.Pkg.Pkg.Path())
		} else {
			pk = shortPkg(g.Pkg.Pkg.Path())
		}
	}
	return pk + "." + g.Name()
}

func project(base *Ex, field string) *Ex {
	// project through "with" overrides and phis
	switch base.K {
	case "with":
		// Args[0] = base, others = set
		for i := len(base.Args) - 1; i >= 1; i-- {
			s := base.Args[i]
			if s.K == "set" && s.S == field {
				return s.Args[0]
			}
			if s.K == "set" && strings.HasPrefix(s.S, field+".") {
				// partial override of a nested field: keep conservative
				return mk("field", field, base)
			}
		}
		return project(base.Args[0], field)
	case "phi":
		alts := make([]*Ex, len(base.Args))
		for i, a := range base.Args {
			alts[i] = project(a, field)
		}
		return mkPhi(alts)
	case "lit":
		// struct literal: Args are set entries
		for _, s := range base.Args {
			if s.K == "set" && s.S == field {
				return s.Args[0]
			}
		}
		return mk("zero", field)
	case "zero":
		return mk("zero", base.S+"."+field)
	}
	return mk("field", field, base)
}

func (o *Origins) extract(x *ssa.Extract) *Ex {
	switch t := x.Tuple.(type) {
	case *ssa.Call:
		return o.callEx(t, x.Index)
	case *ssa.Lookup:
		if x.Index == 0 {
			if e := o.indexMapSearch(t); e != nil {
				if o.idxMapElem[t] {
					el := mk("index", "", e.Args[0], e) // the matching element itself
					if f := o.idxMapField[t]; f != "" {
						return project(el, f) // the stored field of the matching element
					}
					return el
				}
				return e
			}
		}
		l := mk("lookup", "", o.Of(t.X), o.Of(t.Index))
		if x.Index == 0 {
			return l
		}
		return mk("ok", "", l)
	case *ssa.TypeAssert:
		a := mk("assert", typeShort(o.p, t.AssertedType), o.Of(t.X))
		if x.Index == 0 {
			return a
		}
		return mk("ok", "", a)
	case *ssa.Next:
		rg, _ := t.Iter.(*ssa.Range)
		var src *Ex
		if rg != nil {
			src = o.Of(rg.X)
		} else {
			src = o.Of(t.Iter)
		}
		switch x.Index {
		case 0:
			return mk("ok", "", mk("next", "", src))
		case 1:
			return mk("key", "", src)
		default:
			return mk("elem", "", src)
		}
	case *ssa.UnOp:
		if t.Op == token.ARROW {
			if x.Index == 0 {
				return mk("recv", "", o.Of(t.X))
			}
			return mk("ok", "", mk("recv", "", o.Of(t.X)))
		}
	case *ssa.Select:
		return mk("opaque", fmt.Sprintf("select#%d", x.Index))
	}
	return mk("opaque", "extract")
}

// callEx builds the expression for result idx of a call.
func (o *Origins) callEx(c *ssa.Call, idx int) *Ex {
	d := o.p.Describe(c)
	if b, ok := c.Call.Value.(*ssa.Builtin); ok {
		switch b.Name() {
		case "len":
			return mk("len", "", o.Of(c.Call.Args[0]))
		case "append":
			args := make([]*Ex, len(c.Call.Args))
			for i, a := range c.Call.Args {
				args[i] = o.Of(a)
			}
			return mk("append", "", args...)
		}
	}
	var args []*Ex
	if d.Recv != nil {
		args = append(args, o.Of(d.Recv))
	}
	for _, a := range d.Args {
		args = append(args, o.Of(a))
	}
	name := d.Name
	if d.Static == nil && d.Iface == nil {
		// dynamic call through a function value
		name = "dyn:" + o.Of(c.Call.Value).String()
	}
	if e := o.newHelperResult(c, d, idx); e != nil {
		return e
	}
	if e := o.boundFuncParamResult(c, d, idx); e != nil {
		return e
	}
	if d.Name == "strings.(*Builder).String" || d.Name == "bytes.(*Buffer).String" || d.Name == "bytes.(*Buffer).Bytes" {
		if e := o.builderContent(c); e != nil {
			return e
		}
	}
	if c.Call.Signature().Results().Len() <= 1 {
		idx = -1
	}
	return &Ex{K: "call", S: name, Args: args, Call: c, Idx: idx, V: c}
}

// newHelperResult: a non-error result of a call to a module function that does not exist on the
// reference tree (a helper extracted later) is replaced by the provenance of what the helper returns
// on success, evaluated in the calling context. Rules name the functions of the reference tree as
// atoms; code moved into a new function keeps the provenance it had inline. The error result stays
// a call atom (guards on it are resolved by the nil-return summaries).
func (o *Origins) newHelperResult(c *ssa.Call, d *CallDesc, idx int) *Ex {
	callee := d.Static
	if callee == nil || callee.Blocks == nil || callee.Parent() != nil || !o.p.IsNewFunc(callee) || o.depth >= 4 {
		return nil
	}
	res := c.Call.Signature().Results()
	i := idx
	if res.Len() == 1 {
		i = 0
	}
	if i < 0 || i >= res.Len() || IsErrorType(res.At(i).Type()) {
		return nil
	}
	if o.p.expanding[callee] {
		return nil
	}
	o.p.expanding[callee] = true
	defer delete(o.p.expanding, callee)
	if e := o.searchHelperResult(c, callee); e != nil {
		return e
	}
	oc := o.Enter(callee, c)
	var rets []*ssa.Return
	if res.Len() > 0 && IsErrorType(res.At(res.Len()-1).Type()) {
		rets = oc.SuccessReturns()
	} else {
		rets = Returns(callee)
	}
	if len(rets) == 0 {
		return nil
	}
	var alts []*Ex
	for _, r := range rets {
		if i >= len(r.Results) {
			return nil
		}
		alts = append(alts, oc.Of(r.Results[i]))
	}
	return mkPhi(alts)
}

// boundFuncParamResult: inside a helper read in the context of one of its calls, a call of a function-valued
// parameter (`keyOf(item)` in `hasDuplicate(items, keyOf)`) is a call of the function literal the caller passed;
// its non-error result is what that literal returns, with the literal's parameters bound to the arguments here.
func (o *Origins) boundFuncParamResult(c *ssa.Call, d *CallDesc, idx int) *Ex {
	if d.Static != nil || d.Iface != nil || o.caller == nil || o.call == nil || o.depth >= 5 {
		return nil
	}
	prm, ok := c.Call.Value.(*ssa.Parameter)
	if !ok || o.call.Common().IsInvoke() {
		return nil
	}
	var fn *ssa.Function
	for i, p := range o.Fn.Params {
		if p != prm || i >= len(o.call.Common().Args) {
			continue
		}
		switch a := o.call.Common().Args[i].(type) {
		case *ssa.MakeClosure:
			fn, _ = a.Fn.(*ssa.Function)
		case *ssa.Function:
			fn = a
		}
	}
	if fn == nil || fn.Blocks == nil || o.p.expanding[fn] {
		return nil
	}
	res := fn.Signature.Results()
	i := idx
	if res.Len() == 1 {
		i = 0
	}
	if i < 0 || i >= res.Len() || IsErrorType(res.At(i).Type()) {
		return nil
	}
	o.p.expanding[fn] = true
	defer delete(o.p.expanding, fn)
	oc := o.Enter(fn, c)
	if fn.Parent() != nil && fn.Parent() == o.caller.Fn {
		oc.outer = o.caller
	}
	var alts []*Ex
	for _, r := range Returns(fn) {
		if i >= len(r.Results) {
			return nil
		}
		alts = append(alts, oc.Of(r.Results[i]))
	}
	if len(alts) == 0 {
		return nil
	}
	return mkPhi(alts)
}

// searchHelperResult: a new helper of the shape
//
//	func find(list []T, key ...) int { for i := range list { if P(list[i], key) { return i } }; return -1 }
//
// is the hand-written form of slices.IndexFunc(list, func(x T) bool { return P(x, key) }). Its result is
// given the same canonical expression, slices.IndexFunc(<list>, pred:(P)) with P in the caller's terms
// (the element printed as elem(<list>)), so that rules about "the first row that matches" see one idiom.
func (o *Origins) searchHelperResult(c *ssa.Call, callee *ssa.Function) *Ex {
	res := callee.Signature.Results()
	if res.Len() != 1 {
		return nil
	}
	if b, ok := res.At(0).Type().Underlying().(*types.Basic); !ok || b.Kind() != types.Int {
		return nil
	}
	oc := o.Enter(callee, c)
	var loop *Loop
	var pred *Ex
	nMinus := 0
	for _, r := range Returns(callee) {
		v := r.Results[0]
		if k, ok := constInt(v); ok {
			if k != -1 {
				return nil
			}
			nMinus++
			continue
		}
		l := oc.Loops.byIndex[v]
		if l == nil || l.RangeOf == nil || (loop != nil && loop != l) {
			return nil
		}
		if _, isParam := l.RangeOf.(*ssa.Parameter); !isParam {
			return nil
		}
		loop = l
		// the return block is entered from the loop body through exactly one conditional edge
		b := r.Block()
		if len(b.Preds) != 1 {
			return nil
		}
		p := b.Preds[0]
		idx := -1
		for i, s := range p.Succs {
			if s == b {
				idx = i
			}
		}
		f := oc.EdgeFact(Edge{p, idx})
		if f == nil || pred != nil {
			return nil
		}
		switch f.Kind {
		case "cmp":
			op := f.Op.String()
			if !f.Pos {
				switch op {
				case "==":
					op = "!="
				case "!=":
					op = "=="
				default:
					return nil
				}
			}
			pred = mk("bin", op, f.A, f.B)
		case "bool":
			if !f.Pos {
				return nil
			}
			pred = f.A
		default:
			return nil
		}
	}
	if loop == nil || pred == nil || nMinus == 0 {
		return nil
	}
	list := oc.Of(loop.RangeOf)
	return &Ex{K: "call", S: "slices.IndexFunc", Args: []*Ex{list, mk("pred", "", pred)}, Call: c, Idx: -1, V: c}
}

// SearchList returns the SSA value of the list searched by a (real or canonicalised) IndexFunc expression.
func (o *Origins) SearchList(e *Ex) ssa.Value {
	if e != nil && e.K == "call" && e.Call == nil && strings.HasSuffix(e.S, "slices.IndexFunc") {
		if ph, ok := e.V.(*ssa.Phi); ok {
			for _, in := range ph.Edges {
				if l := o.Loops.byIndex[in]; l != nil {
					return l.RangeOf
				}
			}
		}
		return nil
	}
	if e == nil || e.K != "call" || e.Call == nil || !strings.HasSuffix(e.S, "slices.IndexFunc") {
		return nil
	}
	cc := e.Call.Common()
	callee := cc.StaticCallee()
	if callee != nil && o.p.IsNewFunc(callee) && callee.Blocks != nil {
		// canonicalised helper: the argument bound to the parameter the helper ranges over
		oc := o.p.OriginsOf(callee)
		for _, r := range Returns(callee) {
			if l := oc.Loops.byIndex[r.Results[0]]; l != nil {
				if prm, ok := l.RangeOf.(*ssa.Parameter); ok {
					for i, p2 := range callee.Params {
						if p2 == prm && i < len(cc.Args) {
							return cc.Args[i]
						}
					}
				}
			}
		}
		return nil
	}
	if len(cc.Args) >= 1 {
		return cc.Args[0]
	}
	return nil
}

// builderContent models a local strings.Builder / bytes.Buffer as the concatenation it holds when read:
// acc(+; first write; per-iteration writes...), the same canonical form as `s := a; for ... { s += x }`.
// Only the simple discipline is modelled: the builder is a local that is used by nothing but
// Write*/String calls; the writes outside loops are unconditional (their block dominates the read) and
// come first; the writes inside a loop happen on every iteration of that loop (their block dominates
// the latches) and the loop ends before the read. Anything else keeps the opaque call expression.
func (o *Origins) builderContent(read *ssa.Call) *Ex {
	if len(read.Call.Args) == 0 {
		return nil
	}
	cell, ok := read.Call.Args[0].(*ssa.Alloc)
	if !ok || cell.Referrers() == nil {
		return nil
	}
	type write struct {
		call *ssa.Call
		loop *Loop
	}
	var writes []write
	for _, r := range *cell.Referrers() {
		call, ok := r.(*ssa.Call)
		if !ok || len(call.Call.Args) == 0 || call.Call.Args[0] != ssa.Value(cell) {
			if _, isDbg := r.(*ssa.DebugRef); isDbg {
				continue
			}
			return nil
		}
		name := o.p.Describe(call).Name
		switch {
		case call == read:
		case strings.HasSuffix(name, ").Grow") || strings.HasSuffix(name, ").Len") || strings.HasSuffix(name, ").Cap"):
			// capacity hints and size reads do not change the content
		case strings.HasSuffix(name, ").WriteString") || strings.HasSuffix(name, ").Write") || strings.HasSuffix(name, ").WriteByte") || strings.HasSuffix(name, ").WriteRune"):
			if len(call.Call.Args) != 2 {
				return nil
			}
			writes = append(writes, write{call, o.Loops.InnermostContaining(call.Block())})
		default:
			return nil
		}
	}
	if len(writes) == 0 || o.Loops.InnermostContaining(read.Block()) != nil {
		return nil
	}
	sort.Slice(writes, func(i, j int) bool {
		a, b := writes[i].call, writes[j].call
		if a.Block() != b.Block() {
			return a.Block().Index < b.Block().Index
		}
		return instrIndex(a) < instrIndex(b)
	})
	var init *Ex
	var steps []*Ex
	seenLoop := false
	for _, w := range writes {
		arg := o.Of(w.call.Call.Args[1])
		if w.loop == nil {
			if seenLoop || !w.call.Block().Dominates(read.Block()) {
				return nil
			}
			if init == nil {
				init = arg
			} else {
				init = mk("bin", "+", init, arg)
			}
			continue
		}
		seenLoop = true
		for _, latch := range w.loop.Latches {
			if !w.call.Block().Dominates(latch) {
				return nil
			}
		}
		if w.loop.Blocks[read.Block()] {
			return nil
		}
		steps = append(steps, arg)
	}
	if init == nil {
		init = mk("const", "\"\"")
	}
	if len(steps) == 0 {
		return init
	}
	return mk("acc", "+", append([]*Ex{init}, steps...)...)
}

func (o *Origins) phi(ph *ssa.Phi) *Ex {
	// loop accumulator?
	if l := o.loopOfHeader(ph.Block()); l != nil {
		var inits, steps []ssa.Value
		partial := false
		for i, e := range ph.Edges {
			if l.Blocks[ph.Block().Preds[i]] {
				if e != ph {
					steps = append(steps, e)
				} else {
					partial = true // an iteration can reach the latch without updating (continue)
				}
			} else {
				inits = append(inits, e)
			}
		}
		initEx := make([]*Ex, len(inits))
		for i, e := range inits {
			initEx[i] = o.Of(e)
		}
		init := mkPhi(initEx)
		if len(steps) == 0 {
			return init
		}
		// all steps of the form chain (+) E  or append(chain, E...), where chain is the phi itself or the
		// header phi of a nested loop that continues the same accumulation
		var stepEx []*Ex
		op := ""
		ok := true
		chain := map[ssa.Value]bool{ph: true}
		var gather func(vals []ssa.Value, depth int)
		gather = func(vals []ssa.Value, depth int) {
			for _, s := range vals {
				if !ok {
					return
				}
				s0 := s
				s = stripPassThroughChain(s, chain, l)
				if s != s0 {
					partial = true // conditional update
				}
				if chain[s] {
					continue
				}
				switch b := s.(type) {
				case *ssa.BinOp:
					if (b.Op == token.ADD || b.Op == token.OR) && chain[b.X] {
						if op != "" && op != b.Op.String() {
							ok = false
						}
						op = b.Op.String()
						stepEx = append(stepEx, o.Of(b.Y))
						continue
					}
				case *ssa.Call:
					if bi, isb := b.Call.Value.(*ssa.Builtin); isb && bi.Name() == "append" && len(b.Call.Args) >= 1 && chain[b.Call.Args[0]] {
						if op != "" && op != "append" {
							ok = false
						}
						op = "append"
						if len(b.Call.Args) == 2 {
							if elems, isLit := VarArgs(b.Call.Args[1]); isLit {
								for _, a := range elems {
									stepEx = append(stepEx, o.Of(a))
								}
								continue
							}
							stepEx = append(stepEx, mk("spread", "", o.Of(b.Call.Args[1])))
							continue
						}
						for _, a := range b.Call.Args[1:] {
							stepEx = append(stepEx, o.Of(a))
						}
						continue
					}
				case *ssa.Phi:
					// header phi of a nested loop whose outside edges all continue the chain
					if l2 := o.loopOfHeader(b.Block()); l2 != nil && l2 != l && l.Blocks[b.Block()] && depth < 4 {
						var inner []ssa.Value
						okOut := true
						for i, e := range b.Edges {
							if l2.Blocks[b.Block().Preds[i]] {
								if e != ssa.Value(b) {
									inner = append(inner, e)
								}
							} else if !chain[e] {
								okOut = false
							}
						}
						if okOut {
							chain[b] = true
							gather(inner, depth+1)
							continue
						}
					}
				}
				ok = false
			}
		}
		gather(steps, 0)
		if ok && op != "" {
			// `s := make([]T, 0, n) / nil; for _, x := range X { s = append(s, f(x)) }` with the append on every
			// iteration is the element-wise image of X, like `s := make([]T, len(X)); s[i] = f(x)`
			if op == "append" && !partial && len(stepEx) == 1 && stepEx[0].K != "spread" && l.RangeOf != nil && len(inits) == 1 && emptySliceInit(inits[0]) {
				return &Ex{K: "map", Args: []*Ex{o.Of(l.RangeOf), stepEx[0]}, V: ph, Idx: -1}
			}
			if partial {
				op += "?"
			}
			return mk("acc", op, append([]*Ex{init}, stepEx...)...)
		}
		// general loop-carried value
		alts := []*Ex{init}
		for _, s := range steps {
			alts = append(alts, o.Of(s))
		}
		r := mkPhi(alts)
		return mk("loopvar", "", r)
	}
	if e := o.inlineSearch(ph); e != nil {
		return e
	}
	alts := make([]*Ex, 0, len(ph.Edges))
	for i, e := range ph.Edges {
		if o.predCut(ph.Block().Preds[i], ph.Block()) {
			continue
		}
		alts = append(alts, o.Of(e))
	}
	return mkPhi(alts)
}

// inlineSearch: the hand-written first-match loop
//
//	idx := -1; for j := range list { if P(list[j]) { idx = j; break } }
//
// leaves, behind the loop, a phi of the constant -1 (list exhausted) and the range index (taken on the edge
// where P held). It is given the canonical expression of slices.IndexFunc(list, pred:(P)), like the search
// helpers above. V is the phi; there is no call.
func (o *Origins) inlineSearch(ph *ssa.Phi) *Ex {
	if len(ph.Edges) != 2 {
		return nil
	}
	if b, ok := ph.Type().Underlying().(*types.Basic); !ok || b.Kind() != types.Int {
		return nil
	}
	mi, ii := -1, -1
	for i, e := range ph.Edges {
		if k, ok := constInt(e); ok && k == -1 {
			mi = i
		} else if o.Loops.byIndex[e] != nil {
			ii = i
		}
	}
	if mi < 0 || ii < 0 {
		return nil
	}
	l := o.Loops.byIndex[ph.Edges[ii]]
	if l.RangeOf == nil || l.Blocks[ph.Block()] {
		return nil
	}
	// -1 arrives from the loop header (exhaustion); the index from a block entered through one conditional edge
	if ph.Block().Preds[mi] != l.Header {
		return nil
	}
	brk := ph.Block().Preds[ii]
	if !l.Blocks[brk] {
		// break blocks are often outside the natural loop: they have the body block as only predecessor
		if len(brk.Preds) != 1 || !l.Blocks[brk.Preds[0]] {
			return nil
		}
	}
	if len(brk.Preds) != 1 {
		return nil
	}
	p := brk.Preds[0]
	si := -1
	for i, sb := range p.Succs {
		if sb == brk {
			si = i
		}
	}
	f := o.EdgeFact(Edge{p, si})
	if f == nil {
		return nil
	}
	var pred *Ex
	switch f.Kind {
	case "cmp":
		op := f.Op.String()
		if !f.Pos {
			switch op {
			case "==":
				op = "!="
			case "!=":
				op = "=="
			default:
				return nil
			}
		}
		pred = mk("bin", op, f.A, f.B)
	case "bool":
		if !f.Pos {
			return nil
		}
		pred = f.A
	default:
		return nil
	}
	return &Ex{K: "call", S: "slices.IndexFunc", Args: []*Ex{o.Of(l.RangeOf), mk("pred", "", pred)}, Idx: -1, V: ph}
}

// stripPassThroughPhis follows phis inside the loop that merge "value unchanged" (ph itself)
// with one updated value, as produced by `continue` and conditional updates.
func stripPassThroughPhis(v ssa.Value, ph *ssa.Phi, l *Loop) ssa.Value {
	for i := 0; i < 4; i++ {
		p2, ok := v.(*ssa.Phi)
		if !ok || p2 == ph || !l.Blocks[p2.Block()] {
			return v
		}
		var other ssa.Value
		n := 0
		for _, e := range p2.Edges {
			if e == ph {
				continue
			}
			other = e
			n++
		}
		if n != 1 {
			return v
		}
		v = other
	}
	return v
}

func (o *Origins) loopOfHeader(b *ssa.BasicBlock) *Loop {
	for _, l := range o.Loops.Loops {
		if l.Header == b {
			return l
		}
	}
	return nil
}

// ---- memory ---------------------------------------------------------------

type pathElem struct {
	field string    // field name, or "" for an index step
	idx   ssa.Value // index value for index steps
}

func samePath(a, b []pathElem) bool {
	if len(a) != len(b) {
		return false
	}
	for i := range a {
		if a[i].field != b[i].field {
			return false
		}
	}
	return true
}

func isPrefix(pre, full []pathElem) bool {
	if len(pre) > len(full) {
		return false
	}
	return samePath(pre, full[:len(pre)])
}

// addrRoot decomposes an address into a root value and a path of field/index steps.
// IndexAddr on a slice value ends the decomposition (the backing array is not a local cell).
func addrRoot(a ssa.Value) (ssa.Value, []pathElem) {
	var rev []pathElem
	for {
		switch x := a.(type) {
		case *ssa.FieldAddr:
			st := x.X.Type().Underlying().(*types.Pointer).Elem().Underlying().(*types.Struct)
			rev = append(rev, pathElem{field: st.Field(x.Field).Name()})
			a = x.X
			continue
		case *ssa.IndexAddr:
			if _, isPtr := x.X.Type().Underlying().(*types.Pointer); isPtr {
				rev = append(rev, pathElem{idx: x.Index})
				a = x.X
				continue
			}
		}
		break
	}
	for i, j := 0, len(rev)-1; i < j; i, j = i+1, j-1 {
		rev[i], rev[j] = rev[j], rev[i]
	}
	return a, rev
}

// pathExpr renders the memory location denoted by an address as an expression of its content.
func (o *Origins) pathExpr(a ssa.Value) *Ex {
	switch x := a.(type) {
	case *ssa.FieldAddr:
		st := x.X.Type().Underlying().(*types.Pointer).Elem().Underlying().(*types.Struct)
		return project(o.pointee(x.X), st.Field(x.Field).Name())
	case *ssa.IndexAddr:
		base := o.Of(x.X)
		if _, isPtr := x.X.Type().Underlying().(*types.Pointer); isPtr {
			base = o.pointee(x.X)
		}
		if l := o.Loops.byIndex[x.Index]; l != nil && o.sameValue(l.RangeOf, x.X) {
			return mk("elem", "", base)
		}
		return mk("index", "", base, o.Of(x.Index))
	}
	return o.pointee(a)
}

// pointee renders "the thing p points to".
func (o *Origins) pointee(ptr ssa.Value) *Ex {
	switch x := ptr.(type) {
	case *ssa.FieldAddr, *ssa.IndexAddr:
		return o.pathExpr(x)
	case *ssa.Global:
		return &Ex{K: "gval", S: o.globalName(x), V: x, Idx: -1}
	}
	e := o.Of(ptr)
	switch e.K {
	case "addr":
		return e.Args[0]
	case "param", "call", "field", "lookup", "elem", "index", "phi", "gval", "key", "assert":
		// a pointer obtained from elsewhere: name the pointee by the pointer's own name
		return e
	}
	return mk("deref", "", e)
}

func (o *Origins) sameValue(a, b ssa.Value) bool {
	if a == b {
		return true
	}
	if a == nil || b == nil {
		return false
	}
	return o.Of(a).String() == o.Of(b).String()
}

// load computes the provenance of *addr at the position of the load instruction.
func (o *Origins) load(u *ssa.UnOp) *Ex {
	root, path := addrRoot(u.X)
	switch r := root.(type) {
	case *ssa.Alloc:
		return o.reaching(r, path, u, u.Block(), instrIndex(u))
	case *ssa.FreeVar:
		// captured variable (by reference)
		return o.reaching(r, path, u, u.Block(), instrIndex(u))
	case *ssa.Parameter:
		// read in the context of a call that passes the address of one of the caller's variables: the content the
		// variable has at the call, as long as this function does not itself write the part that is read
		if o.caller != nil && o.call != nil && !o.call.Common().IsInvoke() && o.caller.Fn == o.call.Parent() {
			for i, p := range o.Fn.Params {
				if p != r || i >= len(o.call.Common().Args) {
					continue
				}
				aroot, apath := addrRoot(o.call.Common().Args[i])
				if len(apath) == 0 && !o.writesPath(r, path) {
					// the pointer was handed back by another new helper (`conds, err := readConds(..); conds.check(x)`)
					if content := o.caller.helperReturnedContent(aroot); content != nil {
						for _, pe := range path {
							if pe.field == "" {
								content = nil
								break
							}
							content = project(content, pe.field)
						}
						if content != nil {
							return content
						}
					}
				}
				al, isLocal := aroot.(*ssa.Alloc)
				if !isLocal || al.Parent() != o.caller.Fn || o.writesPath(r, path) {
					break
				}
				full := append(append([]pathElem{}, apath...), path...)
				return o.caller.reaching(al, full, o.call, o.call.Block(), instrIndex(o.call))
			}
		}
		// a struct handed in by pointer whose field the function itself writes before it reads it back (and does
		// nothing else with the pointer): the read sees the written value
		if _, isPtr := r.Type().Underlying().(*types.Pointer); isPtr && len(path) > 0 && o.onlyFieldAccess(r) && o.writesPath(r, path) {
			return o.reaching(r, path, u, u.Block(), instrIndex(u))
		}
		// a scalar handed in by pointer (a counter, a flag) that the function itself writes: a read behind the
		// write sees the written value. (Only for pointers to basic types: a struct behind a pointer is written by
		// every method called on it, and the rules name its fields as atoms.)
		if pt, ok := r.Type().Underlying().(*types.Pointer); ok && len(path) == 0 {
			if _, isBasic := pt.Elem().Underlying().(*types.Basic); isBasic && o.storesThrough(r) {
				return o.reaching(r, path, u, u.Block(), instrIndex(u))
			}
		}
	case *ssa.Global:
		e := &Ex{K: "gval", S: o.globalName(r), V: r, Idx: -1}
		var res *Ex = e
		for _, pe := range path {
			if pe.field != "" {
				res = project(res, pe.field)
			} else {
				res = mk("index", "", res, o.Of(pe.idx))
			}
		}
		return res
	}
	return o.pathExpr(u.X)
}

// paramEntryContent: what the location path behind pointer parameter p holds when the function is entered.
func (o *Origins) paramEntryContent(p *ssa.Parameter, path []pathElem) *Ex {
	if o.caller != nil && o.call != nil && !o.call.Common().IsInvoke() && o.caller.Fn == o.call.Parent() {
		for i, q := range o.Fn.Params {
			if q != p || i >= len(o.call.Common().Args) {
				continue
			}
			aroot, apath := addrRoot(o.call.Common().Args[i])
			if al, ok := aroot.(*ssa.Alloc); ok && al.Parent() == o.caller.Fn {
				full := append(append([]pathElem{}, apath...), path...)
				return o.caller.reaching(al, full, o.call, o.call.Block(), instrIndex(o.call))
			}
		}
	}
	e := o.pathExpr(p)
	for _, pe := range path {
		if pe.field != "" {
			e = project(e, pe.field)
		}
	}
	return e
}

// onlyFieldAccess: the pointer parameter is used for field addresses that are loaded and stored, nothing else.
func (o *Origins) onlyFieldAccess(p *ssa.Parameter) bool {
	if p.Referrers() == nil {
		return false
	}
	for _, r := range *p.Referrers() {
		switch y := r.(type) {
		case *ssa.FieldAddr:
			if y.Referrers() == nil {
				continue
			}
			for _, r2 := range *y.Referrers() {
				switch z := r2.(type) {
				case *ssa.Store:
					if z.Addr != ssa.Value(y) {
						return false
					}
				case *ssa.UnOp, *ssa.DebugRef:
				default:
					return false
				}
			}
		case *ssa.UnOp, *ssa.DebugRef:
		default:
			return false
		}
	}
	return true
}

// writesPath: the function stores through the pointer parameter into the location path (or a part / a whole
// containing it), or hands the pointer (or a field address) to something other than a load or a store.
func (o *Origins) writesPath(p *ssa.Parameter, path []pathElem) bool {
	if p.Referrers() == nil {
		return false
	}
	var walk func(v ssa.Value, cur []pathElem) bool
	walk = func(v ssa.Value, cur []pathElem) bool {
		refs := v.Referrers()
		if refs == nil {
			return false
		}
		for _, r := range *refs {
			switch y := r.(type) {
			case *ssa.FieldAddr:
				st := y.X.Type().Underlying().(*types.Pointer).Elem().Underlying().(*types.Struct)
				if walk(y, append(append([]pathElem{}, cur...), pathElem{field: st.Field(y.Field).Name()})) {
					return true
				}
			case *ssa.Store:
				if y.Addr == v {
					if isPrefix(cur, path) || isPrefix(path, cur) {
						return true
					}
				} else {
					return true // the address itself is stored
				}
			case *ssa.UnOp, *ssa.DebugRef:
			default:
				return true
			}
		}
		return false
	}
	return walk(p, nil)
}

// storesThrough: the function stores directly through the pointer parameter.
func (o *Origins) storesThrough(p *ssa.Parameter) bool {
	if refs := p.Referrers(); refs != nil {
		for _, r := range *refs {
			if st, ok := r.(*ssa.Store); ok && st.Addr == ssa.Value(p) {
				return true
			}
		}
	}
	return false
}

func (o *Origins) derivedSet(root ssa.Value) map[ssa.Value]bool {
	if s, ok := o.derived[root]; ok {
		return s
	}
	s := map[ssa.Value]bool{root: true}
	work := []ssa.Value{root}
	for len(work) > 0 {
		v := work[len(work)-1]
		work = work[:len(work)-1]
		refs := v.Referrers()
		if refs == nil {
			continue
		}
		for _, r := range *refs {
			switch x := r.(type) {
			case *ssa.FieldAddr:
				if x.X == v && !s[x] {
					s[x] = true
					work = append(work, x)
				}
			case *ssa.IndexAddr:
				if x.X == v && !s[x] {
					s[x] = true
					work = append(work, x)
				}
			case *ssa.Slice:
				if x.X == v && !s[x] {
					s[x] = true
					work = append(work, x)
				}
			case *ssa.MakeInterface:
				if x.X == v && !s[x] {
					s[x] = true
					work = append(work, x)
				}
			case *ssa.ChangeType:
				if x.X == v && !s[x] {
					s[x] = true
					work = append(work, x)
				}
			}
		}
	}
	o.derived[root] = s
	return s
}

type reachPos struct {
	b   *ssa.BasicBlock
	idx int // scan instructions [0, idx) of b backwards
}

// reaching performs a backward search for the stores that may define root.path at (blk, idx).
func (o *Origins) reaching(root ssa.Value, path []pathElem, at ssa.Instruction, blk *ssa.BasicBlock, idx int) *Ex {
	der := o.escapeSet(root)
	type override struct {
		path []pathElem
		val  *Ex
	}
	var sources []*Ex
	visited := map[visitKey]bool{}
	var scan func(b *ssa.BasicBlock, upto int, ovs []override)
	finish := func(base *Ex, ovs []override) *Ex {
		if len(ovs) == 0 {
			return base
		}
		args := []*Ex{base}
		for i := len(ovs) - 1; i >= 0; i-- { // oldest first
			names := make([]string, 0, len(ovs[i].path))
			for _, pe := range ovs[i].path {
				if pe.field != "" {
					names = append(names, pe.field)
				} else {
					names = append(names, "[]")
				}
			}
			args = append(args, mk("set", strings.Join(names, "."), ovs[i].val))
		}
		return mk("with", "", args...)
	}
	scan = func(b *ssa.BasicBlock, upto int, ovs []override) {
		// partial writes collected around a loop grow with every turn: beyond a bound the content is unknown
		if len(ovs) > 24 {
			sources = append(sources, mk("opaque", "loop-carried partial writes"))
			return
		}
		for i := upto - 1; i >= 0; i-- {
			in := b.Instrs[i]
			switch x := in.(type) {
			case *ssa.Alloc:
				if ssa.Value(x) == root {
					sources = append(sources, finish(mk("zero", typeShort(o.p, x.Type().Underlying().(*types.Pointer).Elem())), ovs))
					return
				}
			case *ssa.Store:
				r2, p2 := addrRoot(x.Addr)
				if r2 != root {
					continue
				}
				if isPrefix(p2, path) {
					val := o.Of(x.Val)
					for _, pe := range path[len(p2):] {
						if pe.field != "" {
							val = project(val, pe.field)
						} else {
							val = mk("index", "", val, o.Of(pe.idx))
						}
					}
					// index steps are may-aliases unless the index value is identical
					must := true
					for k := range p2 {
						if p2[k].field == "" && p2[k].idx != path[k].idx {
							ci, ok1 := constInt(p2[k].idx)
							cj, ok2 := constInt(path[k].idx)
							if ok1 && ok2 && ci != cj {
								must = false
								val = nil
							} else if !(ok1 && ok2) {
								must = false
							}
						}
					}
					if val != nil {
						sources = append(sources, finish(val, ovs))
					}
					if must {
						return
					}
					continue
				}
				if isPrefix(path, p2) {
					// partial overwrite of a sub-location of what we load
					ovs = append(append([]override{}, ovs...), override{p2[len(path):], o.Of(x.Val)})
					continue
				}
			case ssa.CallInstruction:
				cc := x.Common()
				// range-over-func: seq(yield) with seq an iterator over a whole collection and yield the loop body
				// that accumulates into root: the value after the call is the accumulation over the collection
				if e := o.rangeFuncAcc(x, root, path, der); e != nil {
					sources = append(sources, finish(e, ovs))
					return
				}
				// closure called directly that captures root?
				if mc, ok := cc.Value.(*ssa.MakeClosure); ok {
					for bi, bnd := range mc.Bindings {
						if der[bnd] {
							if fn, ok := mc.Fn.(*ssa.Function); ok && bi < len(fn.FreeVars) {
								for _, e := range o.closureStores(fn, fn.FreeVars[bi], bnd, root, path, x) {
									sources = append(sources, finish(e, ovs))
								}
							}
						}
					}
				}
				// a helper that is new on this tree and receives the address of the variable: what it writes through
				// the pointer is read off its body (field stores that lie on every way to a success return, values in
				// the helper's calling context); the rest of the variable is what it was before the call
				if hovs, ok := o.newHelperWrites(x, root); ok {
					done := false
					for _, hv := range hovs {
						switch {
						case isPrefix(hv.path, path):
							// the helper writes the very location that is read (or a struct it is part of)
							val := hv.val
							for _, pe := range path[len(hv.path):] {
								if pe.field != "" {
									val = project(val, pe.field)
								}
							}
							sources = append(sources, finish(val, ovs))
							done = true
						case isPrefix(path, hv.path):
							dup := false
							for _, ov := range ovs {
								if samePath(ov.path, hv.path[len(path):]) && ov.val.String() == hv.val.String() {
									dup = true
								}
							}
							if !dup {
								ovs = append(append([]override{}, ovs...), override{hv.path[len(path):], hv.val})
							}
						}
					}
					if done {
						return
					}
					continue
				}
				// a function literal that captures the variable is handed to a call not understood above: it may
				// write the variable, what it holds afterwards is not known
				for _, a := range cc.Args {
					if mc, ok := a.(*ssa.MakeClosure); ok {
						for _, bnd := range mc.Bindings {
							if der[bnd] && closureStoresTo(mc, bnd) {
								sources = append(sources, finish(mk("opaque", "written-by-closure-argument"), ovs))
							}
						}
					}
				}
				for ai, a := range cc.Args {
					if der[a] {
						d := o.p.Describe(x)
						var args []*Ex
						// do not recurse into arguments that are the location itself
						for _, a2 := range cc.Args {
							if der[a2] {
								args = append(args, mk("opaque", "&self"))
							} else {
								args = append(args, o.Of(a2))
							}
						}
						e := &Ex{K: "out", S: fmt.Sprintf("%s@%d", d.Name, ai), Args: args, Call: x, Idx: ai}
						val := e
						for _, pe := range path {
							if pe.field != "" {
								val = project(val, pe.field)
							}
						}
						sources = append(sources, finish(val, ovs))
						break
					}
				}
			}
		}
		// reached block entry
		if len(b.Preds) == 0 {
			// function entry
			switch r := root.(type) {
			case *ssa.FreeVar:
				sources = append(sources, finish(o.capturedEntry(r, path), ovs))
			case *ssa.Parameter:
				sources = append(sources, finish(o.paramEntryContent(r, path), ovs))
			default:
				sources = append(sources, finish(mk("zero", "entry"), ovs))
			}
			return
		}
		for _, pr := range b.Preds {
			if o.predCut(pr, b) {
				continue
			}
			// a block is scanned once per distinct list of partial overwrites collected on the way to it:
			// two branches that set different fields reach their common ancestor with different lists
			k := visitKey{pr, ovsSig(len(ovs), func(i int) (string, string) {
				names := ""
				for _, pe := range ovs[i].path {
					names += "." + pe.field
				}
				return names, ovs[i].val.String()
			})}
			if visited[k] {
				continue
			}
			visited[k] = true
			scan(pr, len(pr.Instrs), ovs)
		}
	}
	scan(blk, idx, nil)
	return mkPhi(sources)
}

type helperWrite struct {
	path []pathElem
	val  *Ex
}

// newHelperWrites: call x passes exactly the address `root` (path empty) to a module function that is new on
// this tree; the function only stores through the parameter (fields), loads from it, and does not hand the
// pointer on. Returns the field overrides that hold after a successful return of the helper.
func (o *Origins) newHelperWrites(x ssa.CallInstruction, root ssa.Value) ([]helperWrite, bool) {
	if o.depth >= 4 {
		return nil, false
	}
	callee := x.Common().StaticCallee()
	if callee == nil || callee.Blocks == nil || callee.Parent() != nil || !o.p.IsNewFunc(callee) {
		return nil, false
	}
	var prm *ssa.Parameter
	for i, a := range x.Common().Args {
		if a == root {
			if prm != nil || i >= len(callee.Params) {
				return nil, false
			}
			prm = callee.Params[i]
		} else if root2, _ := addrRoot(a); root2 == root {
			return nil, false // a sub-address is passed as well
		}
	}
	if prm == nil || prm.Referrers() == nil {
		return nil, false
	}
	oc := o.Enter(callee, x)
	succ := oc.SuccessReturns()
	var out []helperWrite
	for _, r := range *prm.Referrers() {
		switch y := r.(type) {
		case *ssa.FieldAddr:
			if y.Referrers() == nil {
				continue
			}
			for _, r2 := range *y.Referrers() {
				switch z := r2.(type) {
				case *ssa.Store:
					if z.Addr != ssa.Value(y) {
						return nil, false // the field address itself is stored somewhere
					}
					// the store lies on every way to a success return
					for _, sr := range succ {
						cut := NewCut()
						cut.Barriers[z] = true
						if reach, _ := ReachFromEntry(callee, sr, cut); reach {
							return nil, false
						}
					}
					st := y.X.Type().Underlying().(*types.Pointer).Elem().Underlying().(*types.Struct)
					out = append(out, helperWrite{[]pathElem{{field: st.Field(y.Field).Name()}}, oc.Of(z.Val)})
				case *ssa.UnOp, *ssa.DebugRef:
				default:
					return nil, false
				}
			}
		case *ssa.UnOp, *ssa.DebugRef:
			// a load of the whole value
		default:
			return nil, false // stored, passed on, compared ...
		}
	}
	return out, true
}

type visitKey struct {
	b   *ssa.BasicBlock
	sig string
}

func ovsSig(n int, at func(i int) (string, string)) string {
	if n == 0 {
		return ""
	}
	var sb strings.Builder
	for i := 0; i < n; i++ {
		p, v := at(i)
		sb.WriteString(p)
		sb.WriteString("=")
		sb.WriteString(v)
		sb.WriteString(";")
	}
	return sb.String()
}

// rangeFuncAcc models `for v := range maps.Values(X) { root += g(v) }` (and maps.Keys / slices.Values): the
// compiler turns the body into a yield closure passed to the iterator. When the closure's only write to root
// is root = root + step on every call and it never stops the iteration (returns true only), the content of
// root after the call is acc(+; content before; step) with the closure's parameter read as elem(X) / key(X).
func (o *Origins) rangeFuncAcc(x ssa.CallInstruction, root ssa.Value, path []pathElem, der map[ssa.Value]bool) *Ex {
	cc := x.Common()
	if len(path) != 0 || len(cc.Args) != 1 || cc.IsInvoke() {
		return nil
	}
	// the iterator: a call of maps.Values / slices.Values / maps.Keys here, or a value (a parameter of a helper
	// read in its calling context) whose provenance is such a call
	var coll *Ex
	kind := ""
	if seq, ok := cc.Value.(*ssa.Call); ok && len(seq.Call.Args) == 1 {
		switch o.p.Describe(seq).Name {
		case "maps.Values", "slices.Values":
			kind = "elem"
		case "maps.Keys":
			kind = "key"
		}
		if kind != "" {
			coll = o.Of(seq.Call.Args[0])
		}
	}
	if kind == "" {
		if _, isParam := cc.Value.(*ssa.Parameter); isParam {
			if se := o.Of(cc.Value); se != nil && se.K == "call" && len(se.Args) == 1 {
				switch se.S {
				case "maps.Values", "slices.Values":
					kind = "elem"
				case "maps.Keys":
					kind = "key"
				}
				coll = se.Args[0]
			}
		}
	}
	if kind == "" || coll == nil {
		return nil
	}
	mc, ok := cc.Args[0].(*ssa.MakeClosure)
	if !ok {
		return nil
	}
	fn, ok := mc.Fn.(*ssa.Function)
	if !ok || len(fn.Params) != 1 || fn.Blocks == nil {
		return nil
	}
	var fv *ssa.FreeVar
	for bi, bnd := range mc.Bindings {
		if bnd == root && bi < len(fn.FreeVars) {
			fv = fn.FreeVars[bi]
		} else if der[bnd] {
			return nil
		}
	}
	if fv == nil {
		return nil
	}
	var st *ssa.Store
	for _, b := range fn.Blocks {
		for _, in := range b.Instrs {
			switch y := in.(type) {
			case *ssa.Store:
				if r2, _ := addrRoot(y.Addr); r2 == ssa.Value(fv) {
					if st != nil || y.Addr != ssa.Value(fv) {
						return nil
					}
					st = y
				}
			case *ssa.Return:
				if len(y.Results) != 1 || !isConstValue(y.Results[0], "true") {
					return nil // the body can stop the iteration
				}
			case *ssa.MakeClosure, *ssa.Go, *ssa.Defer:
				return nil
			case ssa.CallInstruction:
				for _, a := range y.Common().Args {
					if a == ssa.Value(fv) {
						return nil
					}
				}
			}
		}
	}
	if st == nil {
		return nil
	}
	for _, b := range fn.Blocks {
		if len(b.Instrs) > 0 {
			if _, isRet := b.Instrs[len(b.Instrs)-1].(*ssa.Return); isRet && !st.Block().Dominates(b) {
				return nil
			}
		}
	}
	bo, ok := st.Val.(*ssa.BinOp)
	if !ok || bo.Op.String() != "+" {
		return nil
	}
	isOld := func(v ssa.Value) bool {
		u, ok := v.(*ssa.UnOp)
		return ok && u.Op.String() == "*" && u.X == ssa.Value(fv)
	}
	var stepV ssa.Value
	switch {
	case isOld(bo.X):
		stepV = bo.Y
	case isOld(bo.Y):
		stepV = bo.X
	default:
		return nil
	}
	co := o.EnterClosure(fn)
	co.memo[fn.Params[0]] = mk(kind, "", coll)
	step := co.Of(stepV)
	before := o.reaching(root, path, x, x.Block(), instrIndex(x))
	if before.K == "zero" {
		if bt, ok := root.Type().Underlying().(*types.Pointer); ok {
			if b, ok := bt.Elem().Underlying().(*types.Basic); ok && b.Info()&types.IsInteger != 0 {
				before = mk("const", "0") // the zero value of an integer variable is the constant 0
			}
		}
	}
	return mk("acc", "+", before, step)
}

func isConstValue(v ssa.Value, lit string) bool {
	k, ok := v.(*ssa.Const)
	return ok && k.Value != nil && k.Value.ExactString() == lit
}

// closureStores lists the values stored by closure fn into the captured variable fv (sub-path path),
// evaluated in the closure's context.
func (o *Origins) closureStores(fn *ssa.Function, fv *ssa.FreeVar, binding, root ssa.Value, path []pathElem, call ssa.CallInstruction) []*Ex {
	if o.depth > 6 {
		return []*Ex{mk("opaque", "closure-depth")}
	}
	// binding may be a derived address of root (rare); only handle binding == root
	if binding != root {
		return []*Ex{mk("opaque", "closure-writes-subaddress")}
	}
	co := o.Enter(fn, call)
	var out []*Ex
	for _, b := range fn.Blocks {
		for _, in := range b.Instrs {
			st, ok := in.(*ssa.Store)
			if !ok {
				continue
			}
			r2, p2 := addrRoot(st.Addr)
			if r2 != ssa.Value(fv) {
				continue
			}
			if isPrefix(p2, path) {
				val := co.Of(st.Val)
				for _, pe := range path[len(p2):] {
					if pe.field != "" {
						val = project(val, pe.field)
					}
				}
				out = append(out, val)
			} else if isPrefix(path, p2) {
				out = append(out, mk("opaque", "closure-partial-write"))
			}
		}
	}
	// nested closures writing the same variable are not followed
	return out
}

// capturedEntry gives the value of a captured variable at closure entry.
func (o *Origins) capturedEntry(fv *ssa.FreeVar, path []pathElem) *Ex {
	if o.outer == nil || o.mc == nil {
		return mk("opaque", "captured:"+fv.Name())
	}
	var binding ssa.Value
	for i, f := range o.Fn.FreeVars {
		if f == fv && i < len(o.mc.Bindings) {
			binding = o.mc.Bindings[i]
		}
	}
	if binding == nil {
		return mk("opaque", "captured:"+fv.Name())
	}
	root, p0 := addrRoot(binding)
	full := append(append([]pathElem{}, p0...), path...)
	sites := ClosureCallSites(o.mc)
	switch root.(type) {
	case *ssa.Alloc, *ssa.FreeVar:
		if len(sites) == 1 {
			if _, isGo := sites[0].(*ssa.Go); !isGo {
				if _, isDefer := sites[0].(*ssa.Defer); !isDefer {
					return o.outer.reaching(root, full, sites[0], sites[0].Block(), instrIndex(sites[0]))
				}
			}
		}
		// escaping closure: any store in the parent may be visible
		return o.outer.anyStore(root, full)
	}
	return mk("opaque", "captured:"+fv.Name())
}

// anyStore is the flow-insensitive union of all stores to root.path in o.Fn.
func (o *Origins) anyStore(root ssa.Value, path []pathElem) *Ex {
	var out []*Ex
	for _, b := range o.Fn.Blocks {
		for _, in := range b.Instrs {
			st, ok := in.(*ssa.Store)
			if !ok {
				continue
			}
			r2, p2 := addrRoot(st.Addr)
			if r2 != root || !isPrefix(p2, path) {
				continue
			}
			val := o.Of(st.Val)
			for _, pe := range path[len(p2):] {
				if pe.field != "" {
					val = project(val, pe.field)
				}
			}
			out = append(out, val)
		}
	}
	if len(out) == 0 {
		return mk("zero", "captured")
	}
	return mk("anyof", "", mkPhi(out))
}

// makeSlice recognises `s := make([]T, len(X)); for i, x := range X { s[i] = f(x) }`.
func (o *Origins) makeSlice(m *ssa.MakeSlice) *Ex {
	generic := &Ex{K: "make", S: typeShort(o.p, m.Type()) + "@" + o.p.InstrPos(m), V: m, Idx: -1}
	x := lenArg(m.Len)
	var stores []*ssa.Store
	refs := m.Referrers()
	if refs == nil {
		return generic
	}
	// aliases of m: m itself and loads of local cells whose only store is m (variables that were
	// spilled to memory because a closure captures them or their address is taken)
	aliases := []ssa.Value{m}
	for _, r := range *refs {
		st, ok := r.(*ssa.Store)
		if !ok || st.Val != ssa.Value(m) {
			continue
		}
		cell, ok := st.Addr.(*ssa.Alloc)
		if !ok || !singleStoreCell(cell) {
			continue
		}
		for _, cr := range *cell.Referrers() {
			if ld, ok := cr.(*ssa.UnOp); ok && ld.Op == token.MUL && ld.X == ssa.Value(cell) {
				aliases = append(aliases, ld)
			}
		}
	}
	for _, al := range aliases {
		ar := al.Referrers()
		if ar == nil {
			continue
		}
		for _, r := range *ar {
			ia, ok := r.(*ssa.IndexAddr)
			if !ok || ia.X != al {
				continue
			}
			for _, r2 := range *ia.Referrers() {
				if st, ok := r2.(*ssa.Store); ok && st.Addr == ssa.Value(ia) {
					stores = append(stores, st)
				}
			}
		}
	}
	if x == nil || len(stores) != 1 {
		if len(stores) == 0 {
			return generic
		}
		// several store sites: describe as opaque collection of the stored values
		var vals []*Ex
		for _, st := range stores {
			vals = append(vals, o.Of(st.Val))
		}
		return &Ex{K: "make", S: typeShort(o.p, m.Type()) + "{" + mkPhi(vals).String() + "}", V: m, Idx: -1}
	}
	st := stores[0]
	ia := st.Addr.(*ssa.IndexAddr)
	l := o.Loops.byIndex[ia.Index]
	if l == nil || !o.sameValue(l.RangeOf, x) || !l.Blocks[st.Block()] {
		return &Ex{K: "make", S: typeShort(o.p, m.Type()) + "{" + o.Of(st.Val).String() + "}", V: m, Idx: -1}
	}
	return &Ex{K: "map", Args: []*Ex{o.Of(x), o.Of(st.Val)}, V: m, Idx: -1}
}

// singleStoreCell reports whether the local cell is written exactly once (in its own function) and
// never written by a closure that captures it.
func singleStoreCell(cell *ssa.Alloc) bool {
	n := 0
	for _, r := range *cell.Referrers() {
		switch x := r.(type) {
		case *ssa.Store:
			if x.Addr == ssa.Value(cell) {
				n++
			}
		case *ssa.MakeClosure:
			fn, ok := x.Fn.(*ssa.Function)
			if !ok {
				return false
			}
			for i, b := range x.Bindings {
				if b != ssa.Value(cell) || i >= len(fn.FreeVars) {
					continue
				}
				if closureWrites(fn, fn.FreeVars[i], 0) {
					return false
				}
			}
		case *ssa.UnOp, *ssa.DebugRef:
		case ssa.CallInstruction:
			// address passed to a call: may be written
			return false
		default:
			// FieldAddr/IndexAddr on a slice cell do not occur (cell holds a slice header)
		}
	}
	return n == 1
}

func closureWrites(fn *ssa.Function, fv *ssa.FreeVar, depth int) bool {
	if depth > 3 {
		return true
	}
	for _, r := range *fv.Referrers() {
		switch x := r.(type) {
		case *ssa.Store:
			if x.Addr == ssa.Value(fv) {
				return true
			}
		case *ssa.MakeClosure:
			inner, ok := x.Fn.(*ssa.Function)
			if !ok {
				return true
			}
			for i, b := range x.Bindings {
				if b == ssa.Value(fv) && i < len(inner.FreeVars) && closureWrites(inner, inner.FreeVars[i], depth+1) {
					return true
				}
			}
		case ssa.CallInstruction:
			return true
		}
	}
	return false
}

// stripPassThroughChain follows phis inside the loop that merge "value unchanged" (a chain member)
// with one updated value, as produced by `continue` and conditional updates.
func stripPassThroughChain(v ssa.Value, chain map[ssa.Value]bool, l *Loop) ssa.Value {
	for i := 0; i < 4; i++ {
		p2, ok := v.(*ssa.Phi)
		if !ok || chain[p2] || !l.Blocks[p2.Block()] {
			return v
		}
		// loop headers are handled by the nested-loop case
		isHeader := false
		for _, pr := range p2.Block().Preds {
			if p2.Block().Dominates(pr) {
				isHeader = true
			}
		}
		if isHeader {
			return v
		}
		var other ssa.Value
		n := 0
		for _, e := range p2.Edges {
			if chain[e] {
				continue
			}
			other = e
			n++
		}
		if n != 1 {
			return v
		}
		v = other
	}
	return v
}

// ContentAt gives the content of the cell a pointer denotes, as seen just before instruction at.
func (o *Origins) ContentAt(ptr ssa.Value, at ssa.Instruction) *Ex {
	root, path := addrRoot(ptr)
	switch r := root.(type) {
	case *ssa.Alloc:
		return o.reaching(r, path, at, at.Block(), instrIndex(at))
	case *ssa.FreeVar:
		return o.reaching(r, path, at, at.Block(), instrIndex(at))
	}
	if len(path) == 0 {
		if e := o.helperReturnedContent(ptr); e != nil {
			return e
		}
	}
	return o.pointee(ptr)
}

// escapeSet is derivedSet(root) plus everything derived from local containers into which an address
// of root was stored (argument lists built by the compiler for variadic calls such as Scan(&a, &b)):
// a call that receives the container may write root.
func (o *Origins) escapeSet(root ssa.Value) map[ssa.Value]bool {
	key := escKey{root}
	if s, ok := o.derivedEsc[key]; ok {
		return s
	}
	if o.derivedEsc == nil {
		o.derivedEsc = map[escKey]map[ssa.Value]bool{}
	}
	base := o.derivedSet(root)
	out := map[ssa.Value]bool{}
	for v := range base {
		out[v] = true
	}
	for v := range base {
		refs := v.Referrers()
		if refs == nil {
			continue
		}
		for _, r := range *refs {
			st, ok := r.(*ssa.Store)
			if !ok || st.Val != v {
				continue
			}
			c, _ := addrRoot(st.Addr)
			if al, ok := c.(*ssa.Alloc); ok && ssa.Value(al) != root {
				for w := range o.derivedSet(al) {
					out[w] = true
				}
			}
		}
	}
	o.derivedEsc[key] = out
	return out
}

type escKey struct{ v ssa.Value }

// emptySliceInit: the value is an empty slice - nil, or make([]T, 0[, cap]).
func emptySliceInit(v ssa.Value) bool {
	switch x := v.(type) {
	case *ssa.Const:
		return x.Value == nil
	case *ssa.MakeSlice:
		n, ok := constInt(x.Len)
		return ok && n == 0
	}
	return false
}

// indexMapSearch: `idx, ok := m[k]` where m was built as a position index of a list,
//
//	m := map[K]int{}; for i := range list { [if _, seen := m[key(list[i])]; !seen] { m[key(list[i])] = i } }
//
// (in this function or in a helper that is new on this tree and returns the map) is the keyed form of
// slices.IndexFunc(list, func(x) bool { return key(x) == k }): idx is a position of a matching element and
// ok says whether one exists. idx gets the canonical search expression; the fact of ok is rewritten by
// condFact to "0 <= search" / "search < 0".
func (o *Origins) indexMapSearch(lk *ssa.Lookup) *Ex {
	if !lk.CommaOk {
		return nil
	}
	if e, ok := o.idxMapMemo[lk]; ok {
		return e
	}
	if o.idxMapMemo == nil {
		o.idxMapMemo = map[*ssa.Lookup]*Ex{}
	}
	o.idxMapMemo[lk] = nil
	var mm *ssa.MakeMap
	ctx := o
	switch v := lk.X.(type) {
	case *ssa.MakeMap:
		mm = v
	case *ssa.Call:
		g := v.Call.StaticCallee()
		if g == nil || g.Blocks == nil || g.Parent() != nil || !o.p.IsNewFunc(g) || o.depth >= 4 {
			return nil
		}
		for _, r := range Returns(g) {
			if len(r.Results) != 1 {
				return nil
			}
			m2, ok := r.Results[0].(*ssa.MakeMap)
			if !ok || (mm != nil && mm != m2) {
				return nil
			}
			mm = m2
		}
		ctx = o.Enter(g, v)
	}
	if mm == nil || mm.Referrers() == nil {
		return nil
	}

	var upd *ssa.MapUpdate
	for _, ref := range *mm.Referrers() {
		switch r := ref.(type) {
		case *ssa.MapUpdate:
			if r.Map != ssa.Value(mm) || upd != nil {
				return nil
			}
			upd = r
		case *ssa.Lookup, *ssa.Return, *ssa.DebugRef:
		case *ssa.Call:
			// len(m) and the like
			if _, isB := r.Call.Value.(*ssa.Builtin); !isB {
				return nil
			}
			if bi := r.Call.Value.(*ssa.Builtin); bi.Name() != "len" {
				return nil
			}
		default:
			return nil
		}
	}
	if upd == nil {
		return nil
	}
	l := ctx.Loops.byIndex[upd.Value]
	elemMode := false
	if l == nil {
		// the element itself is stored: m[key(x)] = x for x ranging over the list
		l = ctx.Loops.InnermostContaining(upd.Block())
		if l == nil || l.RangeOf == nil {
			return nil
		}
		el := "elem(" + ctx.Of(l.RangeOf).String() + ")"
		uv := ctx.Of(upd.Value)
		switch {
		case uv.String() == el:
		case uv.K == "field" && len(uv.Args) == 1 && uv.Args[0].String() == el:
			// one field of the element is stored: m[key(x)] = x.F
			if o.idxMapField == nil {
				o.idxMapField = map[*ssa.Lookup]string{}
			}
			o.idxMapField[lk] = uv.S
		default:
			return nil
		}
		elemMode = true
	} else if b, ok := mm.Type().Underlying().(*types.Map).Elem().Underlying().(*types.Basic); !ok || b.Kind() != types.Int {
		return nil
	}
	if l.RangeOf == nil || !l.Blocks[upd.Block()] {
		return nil
	}
	if ctx == o && l.Blocks[lk.Block()] {
		return nil // the "already indexed?" test inside the building loop
	}
	pred := mk("bin", "==", ctx.Of(upd.Key), o.Of(lk.Index))
	e := &Ex{K: "call", S: "slices.IndexFunc", Args: []*Ex{ctx.Of(l.RangeOf), mk("pred", "", pred)}, Idx: -1, V: lk}
	o.idxMapMemo[lk] = e
	if o.idxMapElem == nil {
		o.idxMapElem = map[*ssa.Lookup]bool{}
	}
	o.idxMapElem[lk] = elemMode
	return e
}

// closureStoresTo reports whether the function literal (or one nested in it) stores through the captured binding.
func closureStoresTo(mc *ssa.MakeClosure, bnd ssa.Value) bool {
	fn, ok := mc.Fn.(*ssa.Function)
	if !ok {
		return true
	}
	for bi, b := range mc.Bindings {
		if b != bnd || bi >= len(fn.FreeVars) {
			continue
		}
		fv := fn.FreeVars[bi]
		for _, blk := range fn.Blocks {
			for _, in := range blk.Instrs {
				switch y := in.(type) {
				case *ssa.Store:
					if r, _ := addrRoot(y.Addr); r == ssa.Value(fv) {
						return true
					}
				case *ssa.MakeClosure:
					for _, b2 := range y.Bindings {
						if b2 == ssa.Value(fv) && closureStoresTo(y, b2) {
							return true
						}
					}
				case ssa.CallInstruction:
					for _, a := range y.Common().Args {
						if r, _ := addrRoot(a); r == ssa.Value(fv) {
							return true
						}
					}
				}
			}
		}
	}
	return false
}

// helperReturnedContent: ptr is a pointer handed back by a helper that is new on this tree (`return &T{...}, nil`);
// the content is what the helper's variable holds at its success returns, read in the helper's calling context.
// nil when ptr is not of that kind.
func (o *Origins) helperReturnedContent(ptr ssa.Value) *Ex {
	if o.depth >= 4 {
		return nil
	}
	var call *ssa.Call
	idx := 0
	switch x := ptr.(type) {
	case *ssa.Call:
		call = x
	case *ssa.Extract:
		call, _ = x.Tuple.(*ssa.Call)
		idx = x.Index
	}
	if call == nil {
		return nil
	}
	h := call.Call.StaticCallee()
	if h == nil || h.Blocks == nil || h.Parent() != nil || !o.p.IsNewFunc(h) {
		return nil
	}
	oh := o.Enter(h, call)
	var alts []*Ex
	for _, r := range oh.SuccessReturns() {
		if idx >= len(r.Results) {
			return nil
		}
		root2, p2 := addrRoot(r.Results[idx])
		al, ok := root2.(*ssa.Alloc)
		if !ok || len(p2) != 0 {
			return nil
		}
		alts = append(alts, oh.reaching(al, nil, r, r.Block(), instrIndex(r)))
	}
	if len(alts) == 0 {
		return nil
	}
	return mkPhi(alts)
}
