package nc

import (
	"fmt"
	"sort"
	"strings"

	"golang.org/x/tools/go/ssa"
)

func init() {
	register("C03", "Decides on every path: (R1) the mint operation signs only behind 'stored quote state == PAID' (state obtained from the "+
		"quote-state operation for the request's quote id) and behind a successful write of PENDING; (R2) the quote-state operation writes "+
		"PAID only behind 'stored state == UNPAID', a successful backend invoice lookup for that quote's payment hash and Settled == true; "+
		"(R3) NUT-20: signing is cut by {quote has no pubkey, VerifyMintQuoteSignature(parsed request signature, quote id, the very outputs "+
		"that are signed, quote pubkey) == true}, and signer and verifier build the same message; (R4) from signing onward every success "+
		"return passes a successful write of ISSUED and a successful save of the signatures; (R5) census of every writer of the mint-quote "+
		"state: which function, which constant, under which state fact, against an allow-list of transitions; (R6) the check-then-act pairs "+
		"on the quote state (mint x mint, watcher x mint, poll x mint) are protected by a compare-and-swap statement or a lock; (R7) saving "+
		"the signatures is the last fallible step (no error exit after it) and is atomic. Interleavings are not explored: R6 is a "+
		"lock/statement argument.", rulesC03)
}

// AfterRequire: from instruction `from` onward, every path to a success return of the enclosing
// function passes an edge establishing cond; continues into the parent when `from` is in a closure.
func (c *Ctx) AfterRequire(from ssa.Instruction, cond *Cond) (bool, string, int) {
	fn := from.Parent()
	local := func(o *Origins) (bool, string, int) {
		acc := o.AcceptEdges(cond)
		cut := NewCut()
		for e := range acc {
			cut.Edges[e] = true
		}
		n := 0
		for _, r := range o.SuccessReturns() {
			// only returns reachable from `from`
			if reach, _ := o.ReachAvoiding(from, r, NewCut()); !reach {
				continue
			}
			n++
			if reach, path := o.ReachAvoiding(from, r, cut); reach {
				return false, "success return at " + c.P.InstrPos(r) + " reachable from " + c.P.InstrPos(from) + " avoiding every [" + cond.Name + "] edge: " + path, n
			}
		}
		return true, "", n
	}
	// a helper that is new on this tree is read in the context of each of its call sites and the walk
	// continues behind the call (the helper's success then implies the condition through its summary)
	if fn.Parent() == nil && c.P.IsNewFunc(fn) {
		if sites := c.callersOf(fn); len(sites) > 0 && c.reqDepth < 4 {
			c.reqDepth++
			defer func() { c.reqDepth-- }()
			total := 0
			for _, site := range sites {
				// established inside the helper on every way out of it: nothing is left to show behind the call;
				// otherwise the rest of the way is the caller's, from the call onward
				ok, why, n := local(c.P.OriginsOf(site.Parent()).Enter(fn, site))
				total += n
				if ok && n > 0 {
					continue
				}
				ok2, why2, m := c.AfterRequire(site, cond)
				total += m
				if !ok2 {
					if why != "" {
						why2 = why + " ; and behind the call: " + why2
					}
					return false, why2, total
				}
			}
			return true, "", total
		}
	}
	ok, why, n := local(c.P.OriginsOf(fn))
	if !ok {
		return false, why, n
	}
	if fn.Parent() != nil {
		for _, site := range ClosureCallSites(FindMakeClosure(fn)) {
			ok, why, m := c.AfterRequire(site, cond)
			n += m
			if !ok {
				return false, why, n
			}
		}
	}
	return true, "", n
}

func (c *Ctx) mintStateConsts(rule string) map[string]string {
	out := map[string]string{}
	for _, n := range []string{"Unpaid", "Paid", "Issued", "Pending"} {
		v, ok := c.P.ConstVal("cashu/nuts/nut04", n)
		if !ok {
			c.R.Unresolved(rule, "constant nut04."+n, "not found")
			return nil
		}
		out[n] = v
	}
	return out
}

func rulesC03(c *Ctx) {
	R := c.R
	R.Rule("R1", "mint op signs only behind state == PAID (from the quote-state op for the request's id) and a successful PENDING write", 2)
	R.Rule("R2", "quote-state op writes PAID only behind state == UNPAID, successful invoice lookup for the quote's hash, Settled", 4)
	R.Rule("R3", "NUT-20: signing cut by {no pubkey, VerifyMintQuoteSignature(parsed sig, quote id, signed outputs, pubkey)}; sign/verify message agreement", 3)
	R.Rule("R4", "from signing onward every success return passes successful ISSUED write and successful signature save", 2)
	R.Rule("R5", "writer census of the mint-quote state against the allowed transitions", 4)
	R.Rule("R6", "check-then-act pairs on the mint-quote state are protected by compare-and-swap or lock", 3)
	R.Rule("R7", "signature save is the last fallible step and is atomic", 5)
	R.Rule("R8", "mint signs only behind overflow-checked OUT <= stored quote amount (at most the quoted amount)", 3)
	R.Rule("R9", "the quote state survives storage: String() and StringToState of the mint-quote state are inverse tables (the state is persisted as text)", 1)
	R.Rule("R10", "the PENDING marker precedes every other storage / Lightning call of the mint op", 2)
	R.Rule("R14", "the Lightning adapters never report 'settled' / 'succeeded' by default (shared with C05.R3): no zero-value State reaches an answer returned with a nil error", 20)
	R.Rule("R13", "the storage readers of a mint quote report what is stored: every column scanned into a local (the state kept as text, the NUT-20 key) is carried into the returned quote", 4)
	R.Rule("R12", "the checked sum of the outputs is exact: AmountChecked tests the overflow flag of every single addition, OverflowAddUint64 answers 'ok' only when the sum did not wrap (shared with C02.R12)", 7)
	R.Rule("R11", "the quote-state op asks the backend whenever the stored state is UNPAID (a payment that arrived while nobody was watching is noticed at the next poll)", 1)
	c.ruleMintPollCompleteness("R11")
	R.Rule("R17", "NUT-20: a quote requested with a public key is stored with that key (on every path with a non-empty request key the inserted record carries the parsed key)", 1)
	c.c03LockStored("R17")
	R.Rule("R16", "internal settlement pays a mint quote with burned ecash: the melt decision table (shared with C05.R1) - once the melt has credited the mint quote its inputs are never released", 20)
	c.meltDecisionTable("R16", false)
	R.Rule("R15", "the quote-state answer reports what was stored: after a successful state write the returned mint quote carries the written state (the mint operation decides on this answer)", 1)
	c.ruleAnswerReportsStored("R15", []*ssa.Function{c.op("R15", "/v1/mint/quote/{method}/{quote_id}")}, roleSetMint, roleReadMint, map[string]string{"state": "State"}, 1)
	c.ruleEnumTables("R9", "cashu/nuts/nut04")
	c.vocabProblems("R1")
	st := c.mintStateConsts("R1")
	if st == nil {
		return
	}
	mint := c.op("R1", "/v1/mint/{method}")
	quoteOp := c.op("R2", "/v1/mint/quote/{method}/{quote_id}")

	isReqField := func(e *Ex) bool { return e != nil && e.K == "field" && strings.HasPrefix(e.String(), "P:") }
	// the quote record as seen by the mint op
	isQuote := func(e *Ex) bool {
		if e == nil || e.K != "call" || e.Idx != 0 || e.Call == nil {
			return false
		}
		okCallee := c.dbCallWithRole(e, roleReadMint) || (quoteOp != nil && e.Call.Common().StaticCallee() == quoteOp)
		return okCallee && isReqField(arg(e, len(e.Args)-1))
	}
	setState := func(name, val string, idOK func(*Ex) bool) *Cond {
		return c.condErrNilRole(name, roleSetMint, map[int]func(*Ex) bool{
			1: idOK,
			2: func(e *Ex) bool { return isConst(e, val) },
		})
	}
	quoteID := func(e *Ex) bool { return isField(e, "Id") && isQuote(e.Args[0]) }

	if mint != nil {
		fk := c.P.FuncKey(mint)
		outputs := c.outputsOf("R3", mint)
		sites := c.signerSites(mint)
		if len(sites) == 0 {
			R.Unresolved("R1", "signature production in mint op", "none found")
		}
		statePaid := &Cond{Name: "stored quote state == PAID", Match: func(f *Fact, o *Origins) bool {
			return f.Kind == "cmp" && f.Pos && f.Op.String() == "==" && isField(f.A, "State") && isQuote(f.A.Args[0]) && isConst(f.B, st["Paid"])
		}}
		pendingOK := setState("PENDING written", st["Pending"], quoteID)
		nut20 := &Cond{Name: "no pubkey or valid NUT-20 signature over the outputs", Match: func(f *Fact, o *Origins) bool {
			if f.Kind == "nil" && f.Pos && isField(f.A, "Pubkey") && isQuote(f.A.Args[0]) {
				return true
			}
			if f.Kind == "bool" && f.Pos && isCall(f.A, "cashu/nuts/nut20.VerifyMintQuoteSignature") && len(f.A.Args) == 4 {
				sig, id, outs, pk := f.A.Args[0], f.A.Args[1], f.A.Args[2], f.A.Args[3]
				sigOK := isCallSuffix(sig, "schnorr.ParseSignature") && sig.Idx == 0 && isCall(arg(sig, 0), fnHexDecode) && arg(sig, 0).Idx == 0 && isReqField(arg(arg(sig, 0), 0))
				return sigOK && quoteID(id) && exprIs(outs, outputs) && isField(pk, "Pubkey") && isQuote(pk.Args[0])
			}
			return false
		}}
		sigParsed := []*Cond{
			{Name: "request signature hex-decodes (or no pubkey)", Match: func(f *Fact, o *Origins) bool {
				if f.Kind == "nil" && f.Pos && isField(f.A, "Pubkey") {
					return true
				}
				return f.Kind == "errnil" && f.Pos && isCall(f.A, fnHexDecode) && f.A.Idx == 1 && isReqField(arg(f.A, 0))
			}},
			{Name: "request signature parses (or no pubkey)", Match: func(f *Fact, o *Origins) bool {
				if f.Kind == "nil" && f.Pos && isField(f.A, "Pubkey") {
					return true
				}
				return f.Kind == "errnil" && f.Pos && isCallSuffix(f.A, "schnorr.ParseSignature") && f.A.Idx == 1
			}},
		}
		issued := setState("ISSUED written", st["Issued"], quoteID)
		saved := c.condErrNilRole("signatures saved", roleSaveSigs, map[int]func(*Ex) bool{
			1: func(e *Ex) bool {
				return e != nil && e.K == "map" && exprIs(e.Args[0], outputs) && exprIs(e.Args[1], "elem("+outputs+").B_")
			},
		})
		// R10: the PENDING marker is the first thing the guarded section does: every other storage or Lightning
		// call of the mint op (the quote-state read apart) sits behind its successful write, so that a second
		// request for the same quote meets PENDING as early as the code allows (no blocking call inside the
		// read-to-marker window; the window that remains is the known finding of R6)
		{
			var opCalls []ssa.CallInstruction
			for _, g := range c.OpFuncs(mint) {
				opCalls = append(opCalls, Calls(g)...)
			}
			n := 0
			for _, ci := range opCalls {
				d := c.P.Describe(ci)
				m, isDB := c.V.IsDBCall(d)
				_, isLN := c.V.IsLNCall(d)
				if !isDB && !isLN {
					continue
				}
				if isDB && c.V.HasRole(m, roleSetMint) {
					continue // the marker itself, ISSUED and the revert (R1, R4, R5)
				}
				n++
				ok, why := c.RequireAt(ci, pendingOK)
				R.Check("R10", fk, d.Name+" <= PENDING written", c.P.InstrPos(ci), ok, "no storage or Lightning call of the mint op precedes the PENDING marker", why)
			}
			if n == 0 {
				R.Unresolved("R10", "storage calls of the mint op", "none found")
			}
		}
		for _, s := range sites {
			for _, cd := range []*Cond{statePaid, pendingOK} {
				ok, why := c.RequireAt(s.Instr, cd)
				R.Check("R1", fk, siteDesc(c, s)+" <= "+cd.Name, c.P.InstrPos(s.Instr), ok, "mint op signs only behind ["+cd.Name+"]", why)
			}
			for _, cd := range append([]*Cond{nut20}, sigParsed...) {
				ok, why := c.RequireAt(s.Instr, cd)
				R.Check("R3", fk, siteDesc(c, s)+" <= "+cd.Name, c.P.InstrPos(s.Instr), ok, "mint op signs only behind ["+cd.Name+"]", why)
			}
			for _, cd := range []*Cond{issued, saved} {
				ok, why, n := c.AfterRequire(s.Instr, cd)
				if n == 0 {
					ok, why = false, "no success return reachable after signing"
				}
				R.Check("R4", fk, "success after signing <= "+cd.Name, c.P.InstrPos(s.Instr), ok, "every success return after signing passes ["+cd.Name+"]", why)
			}
			// R7: after the signatures were saved successfully no error exit remains
			c.c03LastFallible(s, saved)
		}
	}

	c.ruleQuotePaidWrite("R2")

	c.ruleMintAmount("R8", mint)
	c.ruleCheckedArithmetic("R12")
	c.scannedLocalsReachResult("R13", "GetMintQuote", "GetMintQuoteByPaymentHash")
	c.runAs("R3", "R14", func(cc *Ctx) { cc.c05Backends() })
	c.c03MessageAgreement()
	c.c03WriterCensus(mint, quoteOp, st)
	c.c03Pairs(mint, quoteOp)
	c.checkAtomicMultiRow("R7", roleSaveSigs)
}

// c03LastFallible: once the signature save succeeded, no failure return is reachable in the function
// (and, for a closure, its caller does not fail after the closure succeeded).
func (c *Ctx) c03LastFallible(s EffectSite, saved *Cond) {
	R := c.R
	fn := s.Instr.Parent()
	o := c.P.OriginsOf(fn)
	acc := o.AcceptEdges(saved)
	fk := c.P.FuncKey(fn)
	if len(acc) == 0 {
		R.Check("R7", fk, "no error exit after signatures saved", c.P.InstrPos(s.Instr), false, "signature save is the last fallible step", "no successful-save edge found")
		return
	}
	ok := true
	why := ""
	for e := range acc {
		for _, r := range Returns(fn) {
			if !o.IsFailureReturn(r) {
				continue
			}
			if reach, path := Reach(Point{e.To(), 0}, PointOf(r), NewCut()); reach {
				ok = false
				why = "failure return at " + c.P.InstrPos(r) + " reachable after the signatures were saved: " + c.P.PathString(path)
			}
		}
	}
	R.Check("R7", fk, "no error exit after signatures saved", c.P.InstrPos(s.Instr), ok,
		"once the signatures are stored (restorable) the operation cannot fail any more, so a failed request never leaves restorable signatures behind", why)
	// and the save comes after the ISSUED write is covered by R4 + this rule (ISSUED is written before the save or the op cannot fail after it)
}

// c03MessageAgreement: nut20 sign and verify build the same message.
func (c *Ctx) c03MessageAgreement() {
	R := c.R
	shape := func(key string) (string, string) {
		f := c.fn("R3", key)
		if f == nil {
			return "", ""
		}
		o := c.P.OriginsOf(f)
		for _, ci := range Calls(f) {
			d := c.P.Describe(ci)
			if d.Name == "crypto/sha256.Sum256" {
				return o.Of(d.Args[0]).String(), c.P.InstrPos(ci)
			}
		}
		// the hash may be computed in a helper: take the message from the value handed to Sign / Verify
		for _, ci := range Calls(f) {
			d := c.P.Describe(ci)
			var hv ssa.Value
			switch {
			case d.Name == "schnorr.Sign" && len(d.Args) >= 2:
				hv = d.Args[1]
			case strings.HasSuffix(d.Name, "schnorr.(*Signature).Verify") && len(d.Args) >= 1:
				hv = d.Args[0]
			}
			if hv == nil {
				continue
			}
			var msg *Ex
			o.Of(hv).Walk(func(x *Ex) bool {
				if msg == nil && isCall(x, "crypto/sha256.Sum256") {
					msg = arg(x, 0)
				}
				return msg == nil
			})
			if msg != nil {
				return msg.String(), c.P.InstrPos(ci)
			}
		}
		return "", c.P.Pos(f.Pos())
	}
	strip := func(s string) string {
		// []byte(string) conversions do not change the message
		for strings.HasPrefix(s, "convert(") && strings.HasSuffix(s, ")") {
			s = s[len("convert(") : len(s)-1]
		}
		return s
	}
	s1, p1 := shape("cashu/nuts/nut20.SignMintQuote")
	s2, _ := shape("cashu/nuts/nut20.VerifyMintQuoteSignature")
	want := "acc(+; P:quoteId; elem(P:blindedMessages).B_)"
	s1, s2 = strip(s1), strip(s2)
	R.Check("R3", "cashu/nuts/nut20", "sign/verify message shape", p1, s1 != "" && s1 == s2 && s1 == want,
		"SignMintQuote and VerifyMintQuoteSignature both hash quoteId || B_0 || ... || B_n over the whole list", "sign hashes "+s1+" ; verify hashes "+s2)
}

// c03WriterCensus: R5.
func (c *Ctx) c03WriterCensus(mint, quoteOp *ssa.Function, st map[string]string) {
	R := c.R
	names := map[string]string{}
	for k, v := range st {
		names[v] = strings.ToUpper(k)
	}
	opSet := map[*ssa.Function]map[*ssa.Function]bool{}
	inOp := func(f, op *ssa.Function) bool {
		if op == nil {
			return false
		}
		if opSet[op] == nil {
			opSet[op] = map[*ssa.Function]bool{}
			for _, g := range c.OpFuncs(op) {
				opSet[op][g] = true
			}
		}
		return opSet[op][f]
	}
	// the guarded section of the mint op: the closure or helper that contains the PENDING write
	writesPending := func(f *ssa.Function) bool {
		if f == nil {
			return false
		}
		for _, g := range WithClosures(f) {
			for _, ci := range Calls(g) {
				d := c.P.Describe(ci)
				if c.V.DBRole(d, roleSetMint) && len(d.Args) > 1 {
					if v := c.P.OriginsOf(g).Of(d.Args[1]); v.K == "const" && v.S == st["Pending"] {
						return true
					}
				}
			}
		}
		return false
	}
	// functions launched with `go`
	goTargets := map[*ssa.Function]bool{}
	goSites := map[*ssa.Function][]*ssa.Go{}
	for _, f := range c.P.Funcs {
		for _, b := range f.Blocks {
			for _, in := range b.Instrs {
				if g, ok := in.(*ssa.Go); ok {
					if callee := g.Call.StaticCallee(); callee != nil {
						goTargets[callee] = true
						goSites[callee] = append(goSites[callee], g)
					}
				}
			}
		}
	}
	// a background task that writes the quote state is started only by the operation that creates the quote (the
	// quote is UNPAID by construction then): started from anywhere else - start-up "resume", a poll - it runs
	// for quotes in any state and its unconditional PAID write re-opens issued ones
	if quoteOp := c.V.Op("/v1/mint/quote/{method}"); quoteOp != nil {
		inQuoteOp := map[*ssa.Function]bool{}
		for _, g := range c.OpFuncs(quoteOp) {
			inQuoteOp[g] = true
		}
		for callee, gs := range goSites {
			writes := false
			for _, g := range WithClosures(callee) {
				for _, ci := range Calls(g) {
					if c.V.DBRole(c.P.Describe(ci), roleSetMint) {
						writes = true
					}
				}
			}
			if !writes {
				continue
			}
			for _, g := range gs {
				okG := inQuoteOp[g.Parent()]
				R.Check("R5", c.P.FuncKey(EnclosingTop(g.Parent())), "state-writing background task started by the quote-creating operation", c.P.InstrPos(g), okG,
					"the invoice watcher is started only where the quote is created (state UNPAID by construction)", "started in "+c.P.FuncKey(EnclosingTop(g.Parent())))
			}
		}
	}
	type site struct {
		fn *ssa.Function
		ci ssa.CallInstruction
	}
	var sites []site
	for _, f := range c.P.Funcs {
		top := EnclosingTop(f)
		if top.Pkg == nil {
			continue
		}
		rel := c.P.Rel(top.Pkg.Pkg.Path())
		if rel == "testutils" {
			continue
		}
		for _, ci := range Calls(f) {
			if c.V.DBRole(c.P.Describe(ci), roleSetMint) {
				sites = append(sites, site{f, ci})
			}
		}
	}
	sort.Slice(sites, func(i, j int) bool { return c.P.InstrPos(sites[i].ci) < c.P.InstrPos(sites[j].ci) })
	for _, s := range sites {
		o := c.P.OriginsOf(s.fn)
		d := c.P.Describe(s.ci)
		val := o.Of(d.Args[1])
		fk := c.P.FuncKey(s.fn)
		pos := c.P.InstrPos(s.ci)
		if val.K != "const" {
			R.Check("R5", fk, "state written is a constant", pos, false, "every writer of the mint-quote state writes a constant", "writes "+short(val.String(), 120))
			continue
		}
		to := names[val.S]
		construct := "writes " + to
		top := EnclosingTop(s.fn)
		switch {
		case inOp(s.fn, quoteOp):
			R.Check("R5", fk, construct, pos, to == "PAID", "quote-state op may only move UNPAID -> PAID (guards: R2)", "writes "+to)
		case inOp(s.fn, mint):
			switch to {
			case "PENDING", "ISSUED":
				// inside the guarded section (R1/R4 decide the order)
				R.Check("R5", fk, construct, pos, true, "mint op: PAID -> PENDING -> ISSUED", "")
			case "PAID":
				// revert: only on the failure edge of the guarded section
				revert := &Cond{Name: "guarded section failed", Match: func(f *Fact, o2 *Origins) bool {
					if f.Kind != "errnil" || f.Pos || f.A.K != "call" || f.A.Call == nil {
						return false
					}
					if mc, isClosure := f.A.Call.Common().Value.(*ssa.MakeClosure); isClosure {
						fnc, _ := mc.Fn.(*ssa.Function)
						return writesPending(fnc)
					}
					callee := f.A.Call.Common().StaticCallee()
					return callee != nil && inOp(callee, mint) && writesPending(callee)
				}}
				ok, why := c.RequireAt(s.ci, revert)
				R.Check("R5", fk, construct+" (revert)", pos, ok, "mint op writes PAID only to revert a failed PENDING section", why)
			default:
				R.Check("R5", fk, construct, pos, false, "mint op writes only PENDING, ISSUED and the PAID revert", "writes "+to)
			}
		case goTargets[top]:
			// background watcher: must not overwrite ISSUED/PENDING
			guard := &Cond{Name: "stored state == UNPAID", Match: func(f *Fact, o2 *Origins) bool {
				return f.Kind == "cmp" && f.Pos && f.Op.String() == "==" && isField(f.A, "State") && isConst(f.B, st["Unpaid"])
			}}
			ok, why := c.RequireAt(s.ci, guard)
			if !ok {
				why = "background goroutine writes " + to + " with no fact about the current stored state (it may run after ISSUED or during PENDING): " + why
			}
			R.Check("R5", fk, construct+" from background goroutine", pos, ok && to == "PAID", "the invoice watcher may only move UNPAID -> PAID", why)
			// the notification is acted on once: a write that is repeated (retry loop, delay) can land after the
			// quote was issued - a different history than the one recorded as the known watcher race
			inLoop := o.Loops.InnermostContaining(s.ci.Block()) != nil
			R.Check("R5", fk, "background write is not repeated", pos, !inLoop, "the invoice watcher writes the state at most once per notification, not in a retry loop", "the write sits in a loop")
			// what the watcher acts on is a settled invoice: the write sits behind Settled == true of an invoice it
			// received (an expiry, a cancelled context or a closed subscription hands it a zero invoice)
			settled := &Cond{Name: "the received invoice is settled", Match: func(f *Fact, o2 *Origins) bool {
				return f.Kind == "bool" && f.Pos && isField(f.A, "Settled")
			}}
			ok2, why2 := c.RequireAt(s.ci, settled)
			if !ok2 {
				// the waiting moved into a helper that is new on this tree: the write sits behind its success, every
				// update the helper passes on (channel send) is behind "settled" (or carries an error), and the helper
				// never answers a nil error out of an unset local (a way out of its select that received nothing)
				var helper *ssa.Function
				waited := &Cond{Name: "the helper that waits for the update succeeded", Match: func(f *Fact, o2 *Origins) bool {
					if f.Kind != "errnil" || !f.Pos || f.A == nil || f.A.Call == nil {
						return false
					}
					if h := f.A.Call.Common().StaticCallee(); h != nil && c.P.IsNewFunc(h) {
						helper = h
						return true
					}
					return false
				}}
				if okH, _ := c.RequireAt(s.ci, waited); okH && helper != nil {
					okAll, whyH := true, ""
					settledOrErr := &Cond{Name: "settled, or an error is passed on", Match: func(f *Fact, o2 *Origins) bool {
						return (f.Kind == "bool" && f.Pos && isField(f.A, "Settled")) || (f.Kind == "errnil" && !f.Pos)
					}}
					nSend := 0
					for _, g := range WithClosures(helper) {
						og := c.P.OriginsOf(g)
						for _, b := range g.Blocks {
							for _, in := range b.Instrs {
								if snd, isSend := in.(*ssa.Send); isSend {
									nSend++
									if okS, w := og.Requires(snd, settledOrErr); !okS {
										okAll, whyH = false, "update sent at "+c.P.InstrPos(snd)+" without a test of Settled: "+w
									}
								}
							}
						}
					}
					oh := c.P.OriginsOf(helper)
					for _, r := range Returns(helper) {
						if len(r.Results) < 2 {
							continue
						}
						for _, a := range oh.Of(r.Results[len(r.Results)-1]).Alts() {
							if a.K == "zero" {
								okAll, whyH = false, "the helper can return the nil error of an unset local at "+c.P.InstrPos(r)+" (nothing was received)"
							}
						}
					}
					if okAll && nSend > 0 {
						ok2, why2 = true, ""
					} else if whyH != "" {
						why2 = whyH
					}
				}
			}
			R.Check("R5", fk, construct+" <= received invoice settled", pos, ok2, "the invoice watcher marks the quote PAID only for an invoice update that says settled", why2)
		default:
			// internal settlement: helper that also marks a melt quote PAID, reachable from the melt op only
			writesMelt := false
			for _, ci := range Calls(s.fn) {
				if c.V.DBRole(c.P.Describe(ci), roleSetMelt) {
					writesMelt = true
				}
			}
			melt := c.V.Op("/v1/melt/{method}")
			called := false
			if melt != nil {
				for _, e := range c.Effects(melt, func(d *CallDesc) bool { return d.Static == s.fn }) {
					_ = e
					called = true
				}
			}
			ok := writesMelt && called && to == "PAID"
			R.Check("R5", fk, construct+" (internal settlement)", pos, ok, "outside the mint and quote-state ops only the melt op's internal settlement writes PAID (a new payment)",
				fmt.Sprintf("unexpected writer of the mint-quote state: writes %s, settles melt quote: %v, called from melt op: %v", to, writesMelt, called))
		}
	}
}

// c03Pairs: R6.
func (c *Ctx) c03Pairs(mint, quoteOp *ssa.Function) {
	R := c.R
	// compare-and-swap? the UPDATE of the state has the state column in its WHERE clause
	cas := false
	onlyKey := true
	site := "-"
	for _, m := range c.V.MethodsWithRole(roleSetMint) {
		for _, s := range c.V.Stmts[m] {
			if s.SQL.Role() != roleSetMint {
				continue
			}
			site = c.P.InstrPos(s.Exec)
			for _, w := range s.SQL.Where {
				if w == "state" {
					cas = true
				}
				if w != "id" {
					onlyKey = false
				}
			}
		}
	}
	lock := func(op *ssa.Function) bool {
		if op == nil {
			return false
		}
		for _, g := range WithClosures(op) {
			for _, ci := range Calls(g) {
				n := c.P.Describe(ci).Name
				if n == "sync.(*Mutex).Lock" || n == "sync.(*RWMutex).Lock" {
					return true
				}
			}
		}
		return false
	}
	watcher := c.P.Func("mint.(*Mint).checkInvoicePaid")
	pairs := []struct {
		name string
		a, b *ssa.Function
		why  string
	}{
		{"mint-op×mint-op", mint, mint, "two mint requests with different outputs both read PAID before either writes PENDING; the UPDATE is unconditional, so both sign"},
		{"watcher×mint-op", watcher, mint, "the background invoice watcher writes PAID unconditionally; arriving after ISSUED (or during PENDING) it re-opens the quote"},
		{"poll×mint-op", quoteOp, mint, "a quote-state poll that read UNPAID writes PAID after a concurrent mint wrote ISSUED"},
	}
	for _, p := range pairs {
		if p.a == nil || p.b == nil {
			R.Unresolved("R6", p.name, "operation not found")
			continue
		}
		protected := (cas && !onlyKey) && false || (lock(p.a) && lock(p.b))
		if cas {
			// a state predicate in the UPDATE is only a compare-and-swap if every writer passes its expected predecessor; not modelled
			protected = false
		}
		R.Check("R6", p.name, "read state ∥ UPDATE mint_quotes", site, protected,
			"the read that establishes the predecessor state and the write are atomic with respect to the other writer", p.why+" (no lock on the core type, UPDATE ... WHERE id = ? only)")
	}
	// the revert relies on an unconditional update
	R.Check("R6", "storage", "UPDATE mint_quotes is keyed by id only", site, onlyKey,
		"the state update is unconditional on the stored state (the PAID revert after a failed ISSUED section depends on it)", "WHERE clause has extra predicates")
}

// checkAtomicMultiRow: the storage method with the role runs its statement inside a transaction that is
// rolled back on a failing row and committed before success.
func (c *Ctx) checkAtomicMultiRow(rule, role string) {
	R := c.R
	meths := c.V.MethodsWithRole(role)
	if len(meths) == 0 {
		R.Unresolved(rule, "storage method with role "+role, "none")
		return
	}
	for _, m := range meths {
		for _, st := range c.V.Stmts[m] {
			if st.SQL.Role() != role {
				continue
			}
			fk := c.P.FuncKey(st.Fn)
			site := c.P.InstrPos(st.Exec)
			R.Check(rule, fk, role+" on transaction", site, st.OnTx, role+" runs inside a transaction (all rows or none)", "statement is executed outside a transaction")
			R.Check(rule, fk, role+" plain INSERT", site, st.SQL.Conflict == "", role+" is a plain INSERT", "conflict clause "+st.SQL.Conflict)
			o := c.P.OriginsOf(st.Fn)
			rollbacks := NewCut()
			var commit ssa.CallInstruction
			for _, ci := range Calls(st.Fn) {
				n := c.P.Describe(ci).Name
				if n == "database/sql.(*Tx).Rollback" {
					rollbacks.Barriers[ci] = true
				}
				if n == "database/sql.(*Tx).Commit" {
					commit = ci
				}
			}
			okRb, why := true, ""
			for _, e := range o.AllEdges() {
				f := o.EdgeFact(e)
				if f == nil || f.Kind != "errnil" || f.Pos || f.A.K != "call" || f.A.Call != st.Exec {
					continue
				}
				for _, r := range Returns(st.Fn) {
					if reach, path := Reach(Point{e.To(), 0}, PointOf(r), rollbacks); reach {
						okRb = false
						why = "return after a failing row without Rollback: " + c.P.PathString(path)
					}
				}
			}
			R.Check(rule, fk, role+" rollback on failing row", site, okRb && st.OnTx, "a failing row rolls the transaction back", why)
			okCommit := false
			if commit != nil {
				cc := &Cond{Name: "commit succeeded", Match: func(f *Fact, o2 *Origins) bool {
					return f.Kind == "errnil" && f.Pos && f.A.K == "call" && f.A.Call == commit
				}}
				okCommit = o.SuccessCut(cc)
			}
			R.Check(rule, fk, role+" commit", site, okCommit, "success is returned only after Commit succeeded", "no Commit on the success path")
		}
	}
}

// ruleQuotePaidWrite (shared: C03.R2, C02.R9): the quote-state op writes PAID only behind stored state ==
// UNPAID, a successful invoice lookup for the quote's own payment hash and a Settled answer.
func (c *Ctx) ruleQuotePaidWrite(rule string) {
	R := c.R
	st := c.mintStateConsts(rule)
	if st == nil {
		return
	}
	quoteOp := c.op(rule, "/v1/mint/quote/{method}/{quote_id}")
	if quoteOp != nil {
		fk := c.P.FuncKey(quoteOp)
		isRec := func(e *Ex) bool {
			return e != nil && e.K == "call" && e.Idx == 0 && c.dbCallWithRole(e, roleReadMint) && arg(e, 1) != nil && arg(e, 1).K == "param"
		}
		isInv := func(e *Ex, idx int) bool {
			return e != nil && e.K == "call" && e.Idx == idx && strings.HasSuffix(e.S, ")."+c.V.InvoiceStatusMeth) &&
				isField(arg(e, 1), "PaymentHash") && isRec(arg(e, 1).Args[0])
		}
		conds := []*Cond{
			{Name: "stored state == UNPAID", Match: func(f *Fact, o *Origins) bool {
				return f.Kind == "cmp" && f.Pos && f.Op.String() == "==" && isField(f.A, "State") && isRec(f.A.Args[0]) && isConst(f.B, st["Unpaid"])
			}},
			{Name: "invoice lookup for the quote's payment hash succeeded", Match: func(f *Fact, o *Origins) bool {
				return f.Kind == "errnil" && f.Pos && isInv(f.A, 1)
			}},
			{Name: "backend reports Settled", Match: func(f *Fact, o *Origins) bool {
				return f.Kind == "bool" && f.Pos && isField(f.A, "Settled") && isInv(f.A.Args[0], 0)
			}},
		}
		sites := c.roleSites(quoteOp, roleSetMint)
		if len(sites) == 0 {
			R.Unresolved(rule, "PAID write in quote-state op", "no "+roleSetMint+" call")
		}
		for _, s := range sites {
			for _, cd := range conds {
				ok, why := c.RequireAt(s.Instr, cd)
				R.Check(rule, fk, siteDesc(c, s)+" <= "+cd.Name, c.P.InstrPos(s.Instr), ok, "quote-state op writes the state only behind ["+cd.Name+"]", why)
			}
			if s.Direct {
				// (a write inside a helper new on this tree is read with the arguments of each call of the operation)
				c.OpContexts(quoteOp)
				d := c.P.Describe(s.Instr)
				okW, whyW := true, ""
				for _, o := range c.CtxsOf(s.Instr) {
					val, id := o.Of(d.Args[1]), o.Of(d.Args[0])
					if !(isConst(val, st["Paid"]) && isField(id, "Id") && isRec(id.Args[0])) {
						okW, whyW = false, "writes "+short(val.String(), 60)+" for "+short(id.String(), 100)
					}
				}
				R.Check(rule, fk, siteDesc(c, s)+" writes PAID for that quote", c.P.InstrPos(s.Instr),
					okW, "the value written is the constant PAID, for the id of the record that was read", whyW)
			}
		}
	}

}

// ruleMintPollCompleteness (shared: C03.R11, C07.P): in the mint-quote state op every path to a success return
// either leaves through "stored state != UNPAID" or makes the invoice look-up - no further condition (expiry,
// age, a flag) may suppress the look-up for an UNPAID quote: the invoice subscription lives in memory only,
// after a restart this poll is the only way a payment is noticed.
func (c *Ctx) ruleMintPollCompleteness(rule string) {
	st := c.mintStateConsts(rule)
	op := c.op(rule, "/v1/mint/quote/{method}/{quote_id}")
	if st == nil || op == nil {
		return
	}
	notUnpaid := &Cond{Name: "stored state is not UNPAID", Match: func(f *Fact, _ *Origins) bool {
		if f.Kind != "cmp" || f.Op.String() != "==" || !isField(f.A, "State") || f.B.K != "const" {
			return false
		}
		return (!f.Pos && isConst(f.B, st["Unpaid"])) || (f.Pos && !isConst(f.B, st["Unpaid"]))
	}}
	c.ruleMustHit(rule, "UNPAID quote => invoice looked up", "a poll of an UNPAID quote always asks the Lightning backend for the invoice", op, []*Cond{notUnpaid},
		func(d *CallDesc) bool { m, ok := c.V.IsLNCall(d); return ok && m == c.V.InvoiceStatusMeth })
}
