package nc

import (
	"fmt"
	"strings"

	"golang.org/x/tools/go/ssa"
)

const (
	roleMarkSpent   = "INSERT proofs"
	roleLock        = "INSERT pending_proofs"
	roleUnlock      = "DELETE pending_proofs"
	roleReadSpent   = "SELECT proofs"
	roleReadLocked  = "SELECT pending_proofs"
	roleSetMint     = "UPDATE mint_quotes"
	roleSetMelt     = "UPDATE melt_quotes"
	roleReadMint    = "SELECT mint_quotes"
	roleReadMelt    = "SELECT melt_quotes"
	roleSaveSigs    = "INSERT blind_signatures"
	roleReadSigs    = "SELECT blind_signatures"
	roleNewMint     = "INSERT mint_quotes"
	roleNewMelt     = "INSERT melt_quotes"
	fnSignBlinded   = "crypto.SignBlindedMessage"
	fnDupProofs     = "cashu.CheckDuplicateProofs"
	fnDupOutputs    = "cashu.CheckDuplicateBlindedMessages"
	fnVerify        = "crypto.Verify"
	fnAmountChecked = "cashu.(BlindedMessages).AmountChecked"
)

func init() {
	register("C01", "Decides structural necessary conditions of 'no double spend' on every path of the swap and melt operations: "+
		"(R1/R2) signature production and every Lightning pay call / internal settlement are cut from the operation entry by the "+
		"facts 'no Y of the inputs is in the spent table', 'none is in the pending table', 'no duplicate input', with storage read errors "+
		"not swallowed, the Ys being hex(compressed(hash_to_curve(secret))) of the very input list; (R3) swap returns success only after "+
		"the inputs were inserted into the spent table; (R4) melt pays only after the inputs were inserted into the pending table for that "+
		"quote and the quote was neither PAID nor PENDING; (R6) both tables have PRIMARY KEY y and UNIQUE secret, the inserts are plain "+
		"INSERTs inside one transaction rolled back on the first failing row; (R7) every site computing a Y uses the same derivation; "+
		"(R8) nothing outside migrations deletes or updates the spent table, and no migration is destructive for it; (R9) check-then-act "+
		"pairs of proof-consuming operations are protected by a same-table key collision or a common lock. It does not explore schedules or "+
		"execute anything; concurrency is decided only as lock/constraint protection of the designated pairs.", rulesC01)
}

// inputsOf finds the expression denoting the proofs a consuming operation receives.
func (c *Ctx) inputsOf(rule string, op *ssa.Function) string {
	pt := c.P.NamedType("cashu", "Proofs")
	if pt == nil {
		c.R.Unresolved(rule, "type cashu.Proofs", "not found")
		return ""
	}
	paths := paramPathsOfType(op, pt)
	if len(paths) != 1 {
		c.R.Unresolved(rule, "inputs of "+c.P.FuncKey(op), fmt.Sprintf("expected exactly one parameter (or parameter field) of type cashu.Proofs, found %v", paths))
		return ""
	}
	return paths[0]
}

// signerSites: calls in op that (through helpers) produce blind signatures.
func (c *Ctx) signerSites(op *ssa.Function) []EffectSite {
	return c.Effects(op, func(d *CallDesc) bool { return d.Name == fnSignBlinded })
}

func (c *Ctx) paySites(op *ssa.Function) []EffectSite {
	return c.Effects(op, func(d *CallDesc) bool {
		m, ok := c.V.IsLNCall(d)
		if !ok {
			return false
		}
		_, pay := c.V.PayMeths[m]
		return pay
	})
}

func (c *Ctx) roleSites(op *ssa.Function, role string) []EffectSite {
	return c.Effects(op, func(d *CallDesc) bool { return c.V.DBRole(d, role) })
}

// condNotInTable: len(READ(Ys(inputs))) == 0 for the given read role.
func (c *Ctx) condNotInTable(name, role, inputs string) *Cond {
	return &Cond{Name: name, Match: func(f *Fact, o *Origins) bool {
		x := lenZero(f)
		if x == nil || x.K != "call" || x.Idx != 0 || !c.dbCallWithRole(x, role) {
			return false
		}
		return isYsOf(arg(x, 1), inputs)
	}}
}

// condReadErrNotSwallowed: the read's error is nil, or it is sql.ErrNoRows.
func (c *Ctx) condReadErr(name, role, inputs string) *Cond {
	isRead := func(e *Ex) bool {
		return e != nil && e.K == "call" && e.Idx == 1 && c.dbCallWithRole(e, role) && isYsOf(arg(e, 1), inputs)
	}
	return &Cond{Name: name, Match: func(f *Fact, o *Origins) bool {
		if f.Kind == "errnil" && f.Pos && isRead(f.A) {
			return true
		}
		if f.Kind == "bool" && f.Pos && isCall(f.A, "errors.Is") && isRead(arg(f.A, 0)) && exprIs(arg(f.A, 1), "G:database/sql.ErrNoRows") {
			return true
		}
		return false
	}}
}

func (c *Ctx) condNoDup(inputs string) *Cond {
	return &Cond{Name: "no duplicate input", Match: func(f *Fact, o *Origins) bool {
		return f.Kind == "bool" && !f.Pos && isCall(f.A, fnDupProofs) && exprIs(arg(f.A, 0), inputs)
	}}
}

// condErrNilRole: errnil(storage call with role) whose argument argIdx (receiver = 0) prints as want.
func (c *Ctx) condErrNilRole(name, role string, wantArgs map[int]func(*Ex) bool) *Cond {
	return &Cond{Name: name, Match: func(f *Fact, o *Origins) bool {
		if f.Kind != "errnil" || !f.Pos || f.A.K != "call" || !c.dbCallWithRole(f.A, role) {
			return false
		}
		for i, pred := range wantArgs {
			if !pred(arg(f.A, i)) {
				return false
			}
		}
		return true
	}}
}

func siteDesc(c *Ctx, s EffectSite) string {
	d := c.P.Describe(s.Instr)
	if s.Direct {
		return d.Name
	}
	return d.Name + " -> " + c.P.Describe(s.Inner).Name
}

func rulesC01(c *Ctx) {
	R := c.R
	R.Rule("R1", "signing (swap) and paying/settling (melt) are cut by: inputs not spent, not pending, no duplicates, read errors not swallowed, Ys derived from the inputs", 14)
	R.Rule("R3", "swap returns success, and stores the output signatures, only after the inputs were inserted into the spent table", 2)
	R.Rule("R11", "who may release locked inputs: only the melt operation and the melt-quote poll (shared with C05.R9)", 3)
	R.Rule("R10", "the spent / pending look-ups report every matching row: the list readers return the accumulation of all rows they scan", 2)
	R.Rule("R4", "melt pays/settles only after LOCK(inputs, quote) succeeded and the stored quote state was neither PAID nor PENDING", 9)
	R.Rule("R5", "melt op / poll: inputs are marked spent only behind success facts, released only behind definitive-failure facts; census of every unlock/mark-spent/quote-write site", 30)
	R.Rule("R6", "spent/pending tables: y PRIMARY KEY, secret UNIQUE; plain INSERT for every input in one transaction with rollback and commit", 14)
	R.Rule("R7", "every site that computes a Y uses hex(compressed(hash_to_curve(secret)))", 5)
	R.Rule("R8", "no statement outside migrations deletes/updates/drops the spent table; migrations are not destructive", 3)
	R.Rule("R9", "check-then-act pairs of proof-consuming operations are protected (same-table key collision or common lock)", 3)
	c.vocabProblems("R1")

	swap := c.op("R1", "/v1/swap")
	melt := c.op("R1", "/v1/melt/{method}")

	type opInfo struct {
		name    string
		op      *ssa.Function
		inputs  string
		targets []EffectSite
	}
	var ops []*opInfo
	if swap != nil {
		oi := &opInfo{name: "swap", op: swap, inputs: c.inputsOf("R1", swap)}
		oi.targets = c.signerSites(swap)
		if len(oi.targets) == 0 {
			R.Unresolved("R1", "signature production in swap op", "no call reaching "+fnSignBlinded)
		}
		ops = append(ops, oi)
	}
	if melt != nil {
		oi := &opInfo{name: "melt", op: melt, inputs: c.inputsOf("R1", melt)}
		oi.targets = append(c.paySites(melt), c.roleSites(melt, roleSetMint)...)
		if len(c.paySites(melt)) == 0 {
			R.Unresolved("R1", "Lightning pay calls in melt op", "none found")
		}
		ops = append(ops, oi)
	}

	for _, oi := range ops {
		if oi.inputs == "" {
			continue
		}
		fk := c.P.FuncKey(oi.op)
		conds := []*Cond{
			c.condNotInTable("inputs not in spent table", roleReadSpent, oi.inputs),
			c.condNotInTable("inputs not in pending table", roleReadLocked, oi.inputs),
			c.condReadErr("spent-table read error not swallowed", roleReadSpent, oi.inputs),
			c.condReadErr("pending-table read error not swallowed", roleReadLocked, oi.inputs),
			c.condNoDup(oi.inputs),
		}
		for _, t := range oi.targets {
			for _, cd := range conds {
				ok, why := c.RequireAt(t.Instr, cd)
				R.Check("R1", fk, siteDesc(c, t)+" <= "+cd.Name, c.P.InstrPos(t.Instr), ok,
					fmt.Sprintf("%s op: %s must be preceded on every path by [%s] over %s", oi.name, siteDesc(c, t), cd.Name, oi.inputs), why)
			}
		}
	}

	// R3: swap success returns cut by errnil(MARK_SPENT(inputs))
	if swap != nil && ops[0].inputs != "" {
		inputs := ops[0].inputs
		cd := c.condErrNilRole("inputs inserted into spent table", roleMarkSpent, map[int]func(*Ex) bool{1: func(e *Ex) bool { return exprIs(e, inputs) }})
		o := c.P.OriginsOf(swap)
		for _, r := range o.SuccessReturns() {
			ok, why := o.Requires(r, cd)
			R.Check("R3", c.P.FuncKey(swap), "success return <= MARK_SPENT(inputs)", c.P.InstrPos(r), ok,
				"swap op returns success only after the spent-table insert of "+inputs+" succeeded", why)
		}
		c.ruleSigsAfterSpent("R3")
		c.ruleKeysCompareExactly("R6")
	}

	// R4: melt
	if melt != nil {
		var mi *opInfo
		for _, oi := range ops {
			if oi.name == "melt" {
				mi = oi
			}
		}
		if mi != nil && mi.inputs != "" {
			paid, _ := c.P.ConstVal("cashu/nuts/nut05", "Paid")
			pending, _ := c.P.ConstVal("cashu/nuts/nut05", "Pending")
			isQuote := func(e *Ex) bool {
				// result 0 of the melt-quote read for the request's quote id
				return e != nil && e.K == "call" && e.Idx == 0 && c.dbCallWithRole(e, roleReadMelt) &&
					arg(e, 1) != nil && arg(e, 1).K == "field" && strings.HasPrefix(arg(e, 1).String(), "P:")
			}
			lock := c.condErrNilRole("LOCK(inputs, quote id)", roleLock, map[int]func(*Ex) bool{
				1: func(e *Ex) bool { return exprIs(e, mi.inputs) },
				2: func(e *Ex) bool { return isField(e, "Id") && isQuote(e.Args[0]) },
			})
			stateNot := func(name, val string) *Cond {
				return &Cond{Name: name, Match: func(f *Fact, o *Origins) bool {
					return f.Kind == "cmp" && !f.Pos && f.Op.String() == "==" && isField(f.A, "State") && isQuote(f.A.Args[0]) && isConst(f.B, val)
				}}
			}
			conds := []*Cond{lock, stateNot("stored quote state != PAID", paid), stateNot("stored quote state != PENDING", pending)}
			for _, t := range mi.targets {
				for _, cd := range conds {
					ok, why := c.RequireAt(t.Instr, cd)
					R.Check("R4", c.P.FuncKey(melt), siteDesc(c, t)+" <= "+cd.Name, c.P.InstrPos(t.Instr), ok,
						"melt op: "+siteDesc(c, t)+" must be preceded on every path by ["+cd.Name+"]", why)
				}
			}
		}
	}

	c.meltDecisionTable("R5", false)
	c.ruleUnlockCallers("R11")
	R.Rule("R12", "a spent proof is reported SPENT: the proof-state check reads the spent and pending tables after it has resolved the pending melt quotes, never before (shared with C05.R5 / C15.R3)", 2)
	c.ruleResolveBeforeAnswer("R12")
	c.readersReturnEveryRow("R10", "GetProofsUsed", "GetPendingProofs")
	c.ruleSQLAgreement("R10", map[string]bool{"proofs": true, "pending_proofs": true})
	c.c01Schema()
	c.c01YSites()
	c.c01NoErase()
	c.c01Pairs(swap, melt)
}

// c01Schema: R6.
func (c *Ctx) c01Schema() {
	R := c.R
	sc := c.V.Schema
	if sc == nil {
		R.Unresolved("R6", "schema", "migrations could not be folded")
		return
	}
	for _, tn := range []string{"proofs", "pending_proofs"} {
		t := sc.Tables[tn]
		if t == nil {
			R.Check("R6", "schema", "table "+tn, "migrations", false, "table "+tn+" exists after all migrations", "table missing or dropped")
			continue
		}
		y, sec := t.Col("y"), t.Col("secret")
		R.Check("R6", "schema", tn+".y PRIMARY KEY", "migrations/"+t.Origin, y != nil && y.PK, tn+".y is PRIMARY KEY", "constraint missing after folding all migrations")
		R.Check("R6", "schema", tn+".secret UNIQUE", "migrations/"+t.Origin, sec != nil && (sec.Unique || sec.PK), tn+".secret is UNIQUE", "constraint missing after folding all migrations")
	}
	for _, role := range []string{roleMarkSpent, roleLock} {
		meths := c.V.MethodsWithRole(role)
		if len(meths) != 1 {
			R.Unresolved("R6", "storage method with role "+role, fmt.Sprintf("expected exactly one, found %v", meths))
			continue
		}
		for impl, byMeth := range c.V.StmtsByImpl {
			for _, st := range byMeth[meths[0]] {
				if st.SQL.Role() != role {
					continue
				}
				fk := c.P.FuncKey(st.Fn)
				site := c.P.InstrPos(st.Exec)
				R.Check("R6", fk, role+" plain INSERT", site, st.SQL.Conflict == "", role+" is a plain INSERT (a key collision is an error)", "statement has conflict clause "+st.SQL.Conflict+": "+st.SQL.Raw)
				R.Check("R6", fk, role+" on transaction", site, st.OnTx, role+" runs inside a transaction", "statement is executed outside a transaction ("+impl+")")
				o := c.P.OriginsOf(st.Fn)
				// executed for every input: whole-range loop over the proofs parameter, every iteration passes errnil(exec)
				execCond := &Cond{Name: "row insert succeeded", ForAll: "P:" + st.Fn.Params[1].Name(), Match: func(f *Fact, o2 *Origins) bool {
					return f.Kind == "errnil" && f.Pos && f.A.K == "call" && f.A.Call == st.Exec
				}}
				R.Check("R6", fk, role+" for every input", site, o.SuccessCut(execCond), "success is returned only when the insert succeeded for every element of the list", "a success return is reachable without a successful insert for every element")
				// rollback on a failing row: returns after !errnil(exec) pass a Rollback call
				rollbacks := NewCut()
				var commit ssa.CallInstruction
				for _, ci := range Calls(st.Fn) {
					n := c.P.Describe(ci).Name
					if n == "database/sql.(*Tx).Rollback" {
						rollbacks.Barriers[ci] = true
					}
					if n == "database/sql.(*Tx).Commit" {
						commit = ci
					}
				}
				okRb := true
				why := ""
				for _, e := range o.AllEdges() {
					f := o.EdgeFact(e)
					if f == nil || f.Kind != "errnil" || f.Pos || f.A.K != "call" || f.A.Call != st.Exec {
						continue
					}
					for _, r := range Returns(st.Fn) {
						if reach, path := Reach(Point{e.To(), 0}, PointOf(r), rollbacks); reach {
							okRb = false
							why = "return reachable after a failing row without Rollback: " + c.P.PathString(path)
						}
					}
				}
				R.Check("R6", fk, role+" rollback on failing row", site, okRb, "a failing row rolls the transaction back", why)
				okCommit := false
				if commit != nil {
					cc := &Cond{Name: "commit succeeded", Match: func(f *Fact, o2 *Origins) bool {
						return f.Kind == "errnil" && f.Pos && f.A.K == "call" && f.A.Call == commit
					}}
					okCommit = o.SuccessCut(cc)
				}
				R.Check("R6", fk, role+" commit", site, okCommit, "success is returned only after Commit succeeded", "no Commit on the success path")
			}
		}
	}
}

// c01YSites: R7.
func (c *Ctx) c01YSites() {
	R := c.R
	n := 0
	for _, f := range c.P.Funcs {
		if f.Pkg == nil {
			continue
		}
		rel := c.P.Rel(EnclosingTop(f).Pkg.Pkg.Path())
		if rel == "testutils" || strings.HasPrefix(rel, "cmd/") {
			continue
		}
		o := c.P.OriginsOf(f)
		for _, ci := range Calls(f) {
			d := c.P.Describe(ci)
			if d.Name != fnHashToCurve {
				continue
			}
			cv, ok := ci.(ssa.Value)
			if !ok {
				continue
			}
			// what is the hashed message?  Only proofs' secrets matter here.
			msg := o.Of(d.Args[0])
			if !isField(msg, "Secret") && !strings.Contains(msg.String(), "ecret") {
				continue
			}
			// every use of result #0 must go through SerializeCompressed and hex encoding (or stay a point)
			var pt *ssa.Extract
			for _, r := range *cv.Referrers() {
				if ex, ok := r.(*ssa.Extract); ok && ex.Index == 0 {
					pt = ex
				}
			}
			if pt == nil {
				continue
			}
			okAll := true
			why := ""
			uses := 0
			var walk func(v ssa.Value, depth int)
			walk = func(v ssa.Value, depth int) {
				refs := v.Referrers()
				if refs == nil || depth > 4 {
					return
				}
				for _, r := range *refs {
					switch x := r.(type) {
					case *ssa.UnOp: // load *Y for a value-receiver call
						walk(x, depth+1)
					case *ssa.Call:
						dn := c.P.Describe(x).Name
						if strings.HasSuffix(dn, ").SerializeCompressed") {
							uses++
							// must be hex encoded (string Y) when it becomes a string
							for _, r2 := range *x.Referrers() {
								if c2, ok := r2.(*ssa.Call); ok {
									n2 := c.P.Describe(c2).Name
									if n2 != fnHexEncode {
										// other consumers of the compressed bytes are fine (e.g. hashing)
										continue
									}
								}
							}
						} else if strings.Contains(dn, "Serialize") || strings.Contains(dn, "SchnorrSerialize") {
							okAll = false
							why = "Y serialised with " + dn + " at " + c.P.InstrPos(x)
						}
					}
				}
			}
			walk(pt, 0)
			if uses == 0 && okAll {
				// point used algebraically (BlindMessage, Verify): not a storage key site
				continue
			}
			n++
			R.Check("R7", c.P.FuncKey(f), "Y of "+short(msg.String(), 60), c.P.InstrPos(ci), okAll,
				"Y is hex(SerializeCompressed(HashToCurve(secret)))", why)
		}
	}
	_ = n
}

// c01NoErase: R8.
func (c *Ctx) c01NoErase() { c.ruleNoEraseTable("R8", "proofs", "spent table is append-only", true) }

// ruleNoEraseTable: every SQL statement of the module is classified; none but SELECT / INSERT touches the table.
func (c *Ctx) ruleNoEraseTable(rule, table, what string, schemaChecks bool) {
	R := c.R
	// every SQL statement in the module, also outside storage interface methods
	type found struct {
		st   *SQLStmt
		site string
		fn   string
	}
	var all []found
	for _, f := range c.P.Funcs {
		for _, ci := range Calls(f) {
			d := c.P.Describe(ci)
			if d.Static == nil || !strings.HasPrefix(d.Name, "database/sql.(*") {
				continue
			}
			mn := d.Static.Name()
			if !sqlExecNames[mn] && !strings.HasPrefix(mn, "Prepare") {
				continue
			}
			if strings.Contains(d.Name, "(*Stmt)") {
				continue
			}
			args := d.Args
			if strings.HasSuffix(mn, "Context") && len(args) > 0 {
				args = args[1:]
			}
			if len(args) == 0 {
				continue
			}
			parts, complete := constStringParts(args[0])
			texts := []string{strings.Join(parts, " ")}
			if !complete && f.Parent() == nil && len(f.Params) > 0 {
				// the text names a table / view through a parameter: read it once per call site with the constant
				// argument filled in
				var bound []string
				okAll := true
				for _, site := range c.callersOf(f) {
					bind := map[*ssa.Parameter]ssa.Value{}
					for i, prm := range f.Params {
						if i < len(site.Common().Args) {
							if k, isConst := site.Common().Args[i].(*ssa.Const); isConst {
								bind[prm] = k
							}
						}
					}
					pb, cb := constStringPartsBound(args[0], bind)
					if !cb || len(pb) == 0 {
						okAll = false
						break
					}
					bound = append(bound, strings.Join(pb, " "))
				}
				if okAll && len(bound) > 0 {
					texts, parts = bound, bound
				}
			}
			if len(parts) == 0 {
				R.Undecided(rule, c.P.FuncKey(f), "non-constant SQL", c.P.InstrPos(ci), "SQL text must be constant to be classified", "statement text is computed at run time")
				continue
			}
			for _, text := range texts {
				st, err := ParseSQL(text)
				if err != nil {
					R.Undecided(rule, c.P.FuncKey(f), "unparsed SQL", c.P.InstrPos(ci), "SQL statement must be classifiable", err.Error())
					continue
				}
				all = append(all, found{st, c.P.InstrPos(ci), c.P.FuncKey(f)})
			}
		}
	}
	bad := 0
	for _, f := range all {
		if f.st.Table == table && f.st.Verb != "SELECT" && f.st.Verb != "INSERT" && (table == "proofs" || f.st.Verb != "UPDATE") {
			bad++
			R.Check(rule, f.fn, f.st.Verb+" "+table, f.site, false, what, "statement "+f.st.Raw)
		}
	}
	R.Check(rule, "module", "statements on "+table, "-", bad == 0, fmt.Sprintf("all %d SQL statements of the module classified; none deletes/drops rows of "+table+"", len(all)), "see the individual statements")
	if c.V.Schema != nil && schemaChecks {
		R.Check(rule, "schema", "destructive migrations", "migrations", len(c.V.Schema.Destructive) == 0,
			"no migration deletes or rewrites ledger rows", strings.Join(c.V.Schema.Destructive, " ; "))
		_, ok := c.V.Schema.Tables["proofs"]
		R.Check(rule, "schema", "spent table kept", "migrations", ok, "the spent table survives all migrations", "table proofs missing after folding")
	}
}

// c01Pairs: R9.
func (c *Ctx) c01Pairs(swap, melt *ssa.Function) {
	R := c.R
	if swap == nil || melt == nil {
		return
	}
	type actor struct {
		name  string
		op    *ssa.Function
		table string // table receiving the first consuming write
		role  string
	}
	firstWrite := func(op *ssa.Function) (string, string) {
		// the first consuming write on the straight path: LOCK if present, else MARK_SPENT
		if len(c.roleSites(op, roleLock)) > 0 {
			return "pending_proofs", roleLock
		}
		if len(c.roleSites(op, roleMarkSpent)) > 0 {
			return "proofs", roleMarkSpent
		}
		return "", ""
	}
	actors := []*actor{{name: "swap-op", op: swap}, {name: "melt-op", op: melt}}
	for _, a := range actors {
		a.table, a.role = firstWrite(a.op)
		if a.table == "" {
			R.Unresolved("R9", "consuming write of "+a.name, "no LOCK or MARK_SPENT call found")
			return
		}
	}
	holdsLock := func(op *ssa.Function) bool {
		for _, g := range WithClosures(op) {
			for _, ci := range Calls(g) {
				n := c.P.Describe(ci).Name
				if n == "sync.(*Mutex).Lock" || n == "sync.(*RWMutex).Lock" {
					return true
				}
			}
		}
		return false
	}
	plainInsert := func(role string) bool {
		for _, m := range c.V.MethodsWithRole(role) {
			for _, st := range c.V.Stmts[m] {
				if st.SQL.Role() == role && st.SQL.Conflict != "" {
					return false
				}
			}
		}
		return true
	}
	for i := 0; i < len(actors); i++ {
		for j := i; j < len(actors); j++ {
			a, b := actors[i], actors[j]
			protected := false
			how := ""
			switch {
			case holdsLock(a.op) && holdsLock(b.op):
				protected, how = true, "both operations take a mutex"
			case a.table == b.table && plainInsert(a.role) && plainInsert(b.role):
				protected, how = true, "both first consuming writes are plain INSERTs into "+a.table+" (PRIMARY KEY y): the loser fails before any visible effect"
			}
			why := ""
			if !protected {
				why = fmt.Sprintf("%s validates then writes %s, %s validates then writes %s: different tables, no common lock, no common transaction — both can pass validation and both first writes succeed", a.name, a.table, b.name, b.table)
			}
			o := R.Check("R9", a.name+"×"+b.name, "INSERT "+a.table+" ∥ INSERT "+b.table, c.P.Pos(a.op.Pos()), protected,
				"concurrent "+a.name+" and "+b.name+" on the same secret: "+how, why)
			_ = o
		}
	}
}

// ruleSigsAfterSpent (shared: C01.R3, C15.R6, C16.R6): in the swap op the output signatures become durable
// (restorable through NUT-09, counted by the issued view) only after the insert that is the last line of
// defence against a duplicate secret succeeded: a swap refused by the unique key leaves nothing to restore
// and nothing counted as issued.
func (c *Ctx) ruleSigsAfterSpent(rule string) {
	R := c.R
	swap := c.op(rule, "/v1/swap")
	if swap == nil {
		return
	}
	inputs := c.inputsOf(rule, swap)
	if inputs == "" {
		return
	}
	cd := c.condErrNilRole("inputs inserted into spent table", roleMarkSpent, map[int]func(*Ex) bool{1: func(e *Ex) bool { return exprIs(e, inputs) }})
	sites := c.roleSites(swap, roleSaveSigs)
	if len(sites) == 0 {
		R.Unresolved(rule, "signature save in swap op", "no call with role "+roleSaveSigs)
	}
	for _, s := range sites {
		ok, why := c.RequireAt(s.Instr, cd)
		R.Check(rule, c.P.FuncKey(swap), siteDesc(c, s)+" <= MARK_SPENT(inputs)", c.P.InstrPos(s.Instr), ok,
			"swap op stores the output signatures only after the spent-table insert of "+inputs+" succeeded (a swap refused by the unique key leaves no restorable signatures)", why)
	}
}

// ruleKeysCompareExactly: the duplicate / already-signed / already-spent pre-checks of the operations compare the
// key strings byte for byte; a unique index that compares under a collation or over an expression refuses a row the
// pre-checks let through - after the operation has already written something else.
func (c *Ctx) ruleKeysCompareExactly(rule string) {
	if c.V.Schema == nil {
		return
	}
	c.R.Check(rule, "schema", "unique keys compare byte for byte", "migrations", len(c.V.Schema.OddKeys) == 0,
		"no unique index of the schema compares under a collation, over an expression or on part of the rows", strings.Join(c.V.Schema.OddKeys, " ; "))
}
