package nc

import (
	"fmt"
	"go/constant"
	"go/types"
	"sort"
	"strings"

	"golang.org/x/tools/go/ssa"
)

// Ctx is what a property's rules work with.
type Ctx struct {
	P   *Program
	V   *Vocab
	R   *Report
	Opt Options

	reqDepth int
	scope    map[*ssa.Function]bool // functions of the operation last looked at with OpContexts
}

// fnOrUnresolved fetches a function by key and records an unresolved anchor when missing.
func (c *Ctx) fn(rule, key string) *ssa.Function {
	f := c.P.Func(key)
	if f == nil {
		c.R.Unresolved(rule, key, "function not found in the current tree")
	}
	return f
}

// op resolves the core operation behind a route.
func (c *Ctx) op(rule, path string) *ssa.Function {
	r := c.V.Route(path)
	if r == nil {
		c.R.Unresolved(rule, "route "+path, "route is not registered")
		return nil
	}
	if len(r.Ops) != 1 {
		var names []string
		for _, o := range r.Ops {
			names = append(names, c.P.FuncKey(o))
		}
		c.R.Unresolved(rule, "operation of route "+path, fmt.Sprintf("handler %s calls %d core operations %v, expected exactly one", c.P.FuncKey(r.Handler), len(r.Ops), names))
		return nil
	}
	return r.Ops[0]
}

// WithClosures returns fn and all its (transitively) nested anonymous functions.
func WithClosures(fn *ssa.Function) []*ssa.Function {
	out := []*ssa.Function{fn}
	for i := 0; i < len(out); i++ {
		out = append(out, out[i].AnonFuncs...)
	}
	return out
}

// OpFuncs returns the functions whose bodies make up an operation: the operation, its closures and -
// transitively - the module helpers it calls that do not exist on the reference tree (code that was moved
// out of the operation, or out of a closure of it, into a new function keeps being examined in place;
// conditions may be established inside such a helper or before each of its calls, see RequireAt).
func (c *Ctx) OpFuncs(op *ssa.Function) []*ssa.Function {
	out := WithClosures(op)
	seen := map[*ssa.Function]bool{}
	for _, f := range out {
		seen[f] = true
	}
	for i := 0; i < len(out) && len(out) < 64; i++ {
		for _, ci := range Calls(out[i]) {
			f := ci.Common().StaticCallee()
			if f == nil || seen[f] || f.Parent() != nil || !c.moduleFn(f) || !c.P.IsNewFunc(f) {
				continue
			}
			for _, g := range WithClosures(f) {
				if !seen[g] {
					seen[g] = true
					out = append(out, g)
				}
			}
		}
	}
	c.scope = seen
	return out
}

// OpContexts returns one provenance context per function of OpFuncs(op): the plain one for the operation and
// its closures, and for a helper that is new on this tree one per call site (parameters read as the caller's
// arguments).
func (c *Ctx) OpContexts(op *ssa.Function) []*Origins {
	var out []*Origins
	fs := c.OpFuncs(op)
	// a helper called from another new helper is entered through the whole chain of call sites
	var ctxs func(g *ssa.Function, depth int) []*Origins
	ctxs = func(g *ssa.Function, depth int) []*Origins {
		if g.Parent() == nil && g != op && c.P.IsNewFunc(g) && depth < 4 {
			var res []*Origins
			for _, site := range c.callersOf(g) {
				if c.scope[site.Parent()] && site.Parent() != g {
					for _, pc := range ctxs(site.Parent(), depth+1) {
						res = append(res, pc.Enter(g, site))
					}
				}
			}
			return res
		}
		return []*Origins{c.P.OriginsOf(g)}
	}
	for _, g := range fs {
		out = append(out, ctxs(g, 0)...)
	}
	return out
}

// CtxOf returns the provenance context for reading an instruction: for a helper that is new on this tree
// and has a single call site in the operation under analysis, the context entered from that site
// (parameters read as the caller's arguments); otherwise the plain context of its function.
func (c *Ctx) CtxOf(in ssa.Instruction) *Origins {
	fn := in.Parent()
	if fn.Parent() == nil && c.P.IsNewFunc(fn) && c.reqDepth < 4 {
		sites := c.sitesInScope(c.callersOf(fn))
		if len(sites) == 1 && sites[0].Parent() != fn {
			c.reqDepth++
			defer func() { c.reqDepth-- }()
			return c.CtxOf(sites[0]).Enter(fn, sites[0])
		}
	}
	return c.P.OriginsOf(fn)
}

// sitesInScope keeps the call sites that belong to the operation last looked at with OpContexts (a helper
// shared by several operations is judged per operation); all sites when none is in scope.
func (c *Ctx) sitesInScope(sites []ssa.CallInstruction) []ssa.CallInstruction {
	if c.scope == nil {
		return sites
	}
	var in []ssa.CallInstruction
	for _, s := range sites {
		if c.scope[s.Parent()] {
			in = append(in, s)
		}
	}
	if len(in) == 0 {
		return sites
	}
	return in
}

// EffectSite is a place in an operation (or one of its closures) where an effect happens: either the
// effect call itself or a call to a module helper that contains it.
type EffectSite struct {
	Instr  ssa.CallInstruction // instruction inside the op or its closures
	Direct bool                // true: the effect call itself
	Inner  ssa.CallInstruction // the actual effect call (== Instr when Direct)
	Chain  []string            // helper chain from Instr to Inner
}

// Effects finds all sites of an effect in op, looking through module helpers (depth <= 3).
func (c *Ctx) Effects(op *ssa.Function, pred func(d *CallDesc) bool) []EffectSite {
	var out []EffectSite
	memo := map[*ssa.Function][]ssa.CallInstruction{}
	var inner func(f *ssa.Function, depth int) []ssa.CallInstruction
	inner = func(f *ssa.Function, depth int) []ssa.CallInstruction {
		if v, ok := memo[f]; ok {
			return v
		}
		memo[f] = nil
		var res []ssa.CallInstruction
		for _, g := range WithClosures(f) {
			for _, ci := range Calls(g) {
				d := c.P.Describe(ci)
				if pred(d) {
					res = append(res, ci)
					continue
				}
				if depth < 3 && d.Static != nil && c.moduleFn(d.Static) && d.Static.Parent() == nil {
					res = append(res, inner(d.Static, depth+1)...)
				}
			}
		}
		memo[f] = res
		return res
	}
	part := c.OpFuncs(op)
	isPart := map[*ssa.Function]bool{}
	for _, g := range part {
		isPart[g] = true
	}
	for _, g := range part {
		for _, ci := range Calls(g) {
			d := c.P.Describe(ci)
			if pred(d) {
				out = append(out, EffectSite{Instr: ci, Direct: true, Inner: ci})
				continue
			}
			if d.Static != nil && isPart[d.Static] {
				continue // a helper that is new on this tree: its body is examined as part of the operation
			}
			if d.Static != nil && c.moduleFn(d.Static) && d.Static.Parent() == nil && d.Static != op {
				for _, in := range inner(d.Static, 1) {
					out = append(out, EffectSite{Instr: ci, Inner: in, Chain: []string{c.P.FuncKey(d.Static)}})
				}
			}
		}
	}
	return out
}

func (c *Ctx) moduleFn(f *ssa.Function) bool {
	if f == nil || f.Blocks == nil {
		return false
	}
	top := EnclosingTop(f)
	if top.Pkg == nil && top.Origin() != nil {
		top = top.Origin() // an instance of a generic function of the module
	}
	return top.Pkg != nil && c.P.InModule(top.Pkg.Pkg.Path())
}

// RequireAt decides: every path from the entry of op to instr passes an edge establishing cond.
// instr may be inside a closure of op that is invoked at a single site; the condition may then be
// established before the closure is entered or inside it.
func (c *Ctx) RequireAt(instr ssa.Instruction, cond *Cond) (bool, string) {
	fn := instr.Parent()
	o := c.P.OriginsOf(fn)
	ok, why := o.Requires(instr, cond)
	if ok {
		return true, ""
	}
	if fn.Parent() != nil {
		mc := FindMakeClosure(fn)
		sites := ClosureCallSites(mc)
		if len(sites) > 0 {
			all := true
			var w2 string
			for _, s := range sites {
				ok2, w := c.RequireAt(s, cond)
				if !ok2 {
					all = false
					w2 = w
					break
				}
			}
			if all {
				return true, ""
			}
			return false, why + " ; and before the closure: " + w2
		}
	}
	// a helper that is new on this tree: the condition may hold inside it once its parameters are read in
	// the calling context, or before the call - at every call site
	if fn.Parent() == nil && c.P.IsNewFunc(fn) {
		sites := c.sitesInScope(c.callersOf(fn))
		if len(sites) > 0 && c.reqDepth < 4 {
			c.reqDepth++
			defer func() { c.reqDepth-- }()
			for _, s := range sites {
				co := c.P.OriginsOf(s.Parent()).Enter(fn, s)
				if ok2, _ := co.Requires(instr, cond); ok2 {
					continue
				}
				if ok2, w := c.RequireAt(s, cond); !ok2 {
					return false, why + " ; and before the call of the new helper at " + c.P.InstrPos(s) + ": " + w
				}
			}
			return true, ""
		}
	}
	return false, why
}

// ---- expression pattern helpers -------------------------------------------

// isCall reports whether e is (a result of) a call whose printable callee name equals name
// (module functions: FuncKey; external: import path + name).
func isCall(e *Ex, name string) bool {
	return e != nil && e.K == "call" && e.S == name
}

func isCallSuffix(e *Ex, suffix string) bool {
	return e != nil && e.K == "call" && strings.HasSuffix(e.S, suffix)
}

// arg returns the i-th argument of a call expression (receiver first for methods).
func arg(e *Ex, i int) *Ex {
	if e == nil || i >= len(e.Args) {
		return nil
	}
	return e.Args[i]
}

func isField(e *Ex, name string) bool { return e != nil && e.K == "field" && e.S == name }

func isConst(e *Ex, val string) bool { return e != nil && e.K == "const" && e.S == val }

// exprIs compares printed forms.
func exprIs(e *Ex, s string) bool { return e != nil && e.String() == s }

const (
	fnHashToCurve = "crypto.HashToCurve"
	fnHexEncode   = "encoding/hex.EncodeToString"
	fnHexDecode   = "encoding/hex.DecodeString"
	sfxSerComp    = ".(PublicKey).SerializeCompressed"
	sfxSerCompPtr = ".(*PublicKey).SerializeCompressed"
)

// isYOf: e == hex(SerializeCompressed(HashToCurve(secretOf))) where the secret is field Secret of el.
func isYOf(e *Ex, el string) bool {
	if !isCall(e, fnHexEncode) {
		return false
	}
	s := arg(e, 0)
	if !(isCallSuffix(s, sfxSerComp) || isCallSuffix(s, sfxSerCompPtr)) {
		return false
	}
	h := arg(s, 0)
	if !isCall(h, fnHashToCurve) || h.Idx != 0 {
		return false
	}
	sec := arg(h, 0)
	return isField(sec, "Secret") && exprIs(sec.Args[0], el)
}

// isYsOf: e == map(X => Y(elem(X)))
func isYsOf(e *Ex, x string) bool {
	return e != nil && e.K == "map" && exprIs(e.Args[0], x) && isYOf(e.Args[1], "elem("+x+")")
}

// lenZero recognises facts equivalent to len(X) == 0 holding on the edge, returning X.
func lenZero(f *Fact) *Ex {
	if f == nil || f.Kind != "cmp" {
		return nil
	}
	isLen := func(e *Ex) *Ex {
		if e != nil && e.K == "len" {
			return e.Args[0]
		}
		return nil
	}
	switch f.Op.String() {
	case "==":
		// (len(X) == 0) true
		if f.Pos {
			if x := isLen(f.A); x != nil && isConst(f.B, "0") {
				return x
			}
		}
	case "<=":
		// len(X) <= 0
		if f.Pos {
			if x := isLen(f.A); x != nil && isConst(f.B, "0") {
				return x
			}
		}
	case "<":
		// len(X) < 1
		if f.Pos {
			if x := isLen(f.A); x != nil && isConst(f.B, "1") {
				return x
			}
		}
	}
	return nil
}

// paramPathsOfType lists "P:name" / "P:name.Field" expressions of the op's parameters having the named type.
func paramPathsOfType(fn *ssa.Function, want *types.Named) []string {
	var out []string
	for _, prm := range fn.Params {
		t := prm.Type()
		if types.Identical(t, want) {
			out = append(out, "P:"+prm.Name())
			continue
		}
		if st, ok := t.Underlying().(*types.Struct); ok {
			for i := 0; i < st.NumFields(); i++ {
				if types.Identical(st.Field(i).Type(), want) {
					out = append(out, "P:"+prm.Name()+"."+st.Field(i).Name())
				}
			}
		}
	}
	sort.Strings(out)
	return out
}

// dbCallEx: expression is a result of a storage call with the role; returns the call expr.
func (c *Ctx) dbCallWithRole(e *Ex, role string) bool {
	if e == nil || e.K != "call" || e.Call == nil {
		return false
	}
	return c.V.DBRole(c.P.Describe(e.Call), role)
}

func short(s string, n int) string {
	if len(s) <= n {
		return s
	}
	return s[:n-3] + "..."
}

// ruleMustHit: completeness by must-pass-through. Every path from the entry of op to a return that may report
// success either passes an edge on which one of the excuses holds (a reason why the action is not due) or
// executes the action (a call matching hit, directly or inside a module helper). Used for "the poll asks the
// backend whenever the stored state is still open" and the like - the dual of the usual "effect only behind
// guard" rules.
func (c *Ctx) ruleMustHit(rule, what, why string, op *ssa.Function, excuses []*Cond, hit func(d *CallDesc) bool) {
	R := c.R
	fk := c.P.FuncKey(op)
	o := c.P.OriginsOf(op)
	cut := NewCut()
	for _, ex := range excuses {
		for e := range o.AcceptEdges(ex) {
			cut.Edges[e] = true
		}
	}
	n := 0
	for _, s := range c.Effects(op, hit) {
		if s.Instr.Parent() == op {
			cut.Barriers[s.Instr] = true
			n++
		}
	}
	if n == 0 {
		R.Check(rule, fk, what, c.P.Pos(op.Pos()), false, why, "the action is not performed by the operation at all")
		return
	}
	ok, detail := true, ""
	for _, r := range o.SuccessReturns() {
		if reach, path := ReachFromEntry(op, r, cut); reach {
			ok = false
			detail = "success return at " + c.P.InstrPos(r) + " reachable without the action and without an excuse: " + c.P.PathString(path)
			break
		}
	}
	R.Check(rule, fk, what, c.P.Pos(op.Pos()), ok, why, detail)
}

// OfAt computes the provenance of v as seen at instruction in, restricted to the paths that can reach in: for every
// branch above in whose outcome is fixed on the way to in and that tests a boolean phi of constants (a flag set
// on some paths), the phi inputs that contradict the outcome are infeasible, and so are the values that travel
// with them (`found := false; var x T; for ... { if m { found = true; x = ...; break } }; if found { use(x) }`).
func (c *Ctx) OfAt(o *Origins, in ssa.Instruction, v ssa.Value) *Ex {
	return c.OriginsAt(o, in).Of(v)
}

// OriginsAt: the provenance context restricted to the paths that can reach in (see OfAt).
func (c *Ctx) OriginsAt(o *Origins, in ssa.Instruction) *Origins {
	blk := in.Block()
	cut := NewCut()
	for d := blk.Idom(); d != nil; d = d.Idom() {
		n := len(d.Instrs)
		if n == 0 || len(d.Succs) != 2 {
			continue
		}
		ifi, ok := d.Instrs[n-1].(*ssa.If)
		if !ok {
			continue
		}
		// the successor through which blk is reached: it has d as its only predecessor and dominates blk
		taken := -1
		for i, s := range d.Succs {
			if len(s.Preds) == 1 && s.Dominates(blk) {
				if taken >= 0 {
					taken = -2
				} else {
					taken = i
				}
			}
		}
		if taken < 0 {
			continue
		}
		cv, truth := ifi.Cond, taken == 0
		for {
			u, ok := cv.(*ssa.UnOp)
			if !ok || u.Op.String() != "!" {
				break
			}
			cv, truth = u.X, !truth
		}
		phi, ok := cv.(*ssa.Phi)
		if !ok || !isBool(phi.Type()) || o.Loops.InnermostContaining(phi.Block()) != nil {
			continue
		}
		for i, e := range phi.Edges {
			k, ok := e.(*ssa.Const)
			if !ok || k.Value == nil || constant.BoolVal(k.Value) == truth {
				continue
			}
			pred := phi.Block().Preds[i]
			for si, s := range pred.Succs {
				if s == phi.Block() {
					cut.Edges[Edge{pred, si}] = true
				}
			}
		}
	}
	if len(cut.Edges) == 0 {
		return o
	}
	return o.WithCut(cut.Edges)
}

// CtxsOf is CtxOf for helpers with several call sites: one context per chain of call sites that leads
// from the operation in scope to the instruction's function (a rule then demands its condition in each).
func (c *Ctx) CtxsOf(in ssa.Instruction) []*Origins {
	fn := in.Parent()
	// a function literal handed to a helper that is new on this tree and called there: its parameters are what
	// the helper calls it with, read in the helper's own calling context
	if fn.Parent() != nil && c.reqDepth < 4 {
		{
			var self ssa.Value = fn // a literal without captured variables is passed as the function itself
			if mc := FindMakeClosure(fn); mc != nil {
				self = mc
			}
			var out []*Origins
			for _, site := range Calls(fn.Parent()) {
				h := site.Common().StaticCallee()
				if h == nil || h.Blocks == nil || !c.P.IsNewFunc(h) {
					continue
				}
				for i, a := range site.Common().Args {
					if a != self || i >= len(h.Params) {
						continue
					}
					prm := h.Params[i]
					for _, dc := range Calls(h) {
						if dc.Common().Value != ssa.Value(prm) {
							continue
						}
						c.reqDepth++
						for _, oc := range c.CtxsOf(site) {
							out = append(out, oc.Enter(h, site).Enter(fn, dc))
						}
						c.reqDepth--
					}
				}
			}
			if len(out) > 0 {
				return out
			}
		}
	}
	if fn.Parent() == nil && c.P.IsNewFunc(fn) && c.reqDepth < 4 {
		sites := c.sitesInScope(c.callersOf(fn))
		var out []*Origins
		c.reqDepth++
		for _, s := range sites {
			if s.Parent() == fn {
				continue
			}
			for _, oc := range c.CtxsOf(s) {
				out = append(out, oc.Enter(fn, s))
			}
		}
		c.reqDepth--
		if len(out) > 0 {
			return out
		}
	}
	return []*Origins{c.P.OriginsOf(fn)}
}

// siteArgs gives the arguments (receiver first) of the effect call of a site, once per calling context.
func (c *Ctx) siteArgs(s EffectSite) [][]*Ex {
	var out [][]*Ex
	for _, base := range c.CtxsOf(s.Instr) {
		os := []*Origins{base}
		if !s.Direct {
			os = c.enterChain(base, s.Instr, s.Inner.Parent(), 0)
			if len(os) == 0 {
				os = []*Origins{c.P.OriginsOf(s.Inner.Parent())}
			}
		}
		d := c.P.Describe(s.Inner)
		for _, o := range os {
			var args []*Ex
			if d.Recv != nil {
				args = append(args, o.Of(d.Recv))
			}
			for _, a := range d.Args {
				args = append(args, o.Of(a))
			}
			out = append(out, args)
		}
	}
	return out
}

// enterChain enters the callee of `from` and, through the module helpers it calls (three levels), every
// chain of calls that ends in target; one entered context of target per chain.
func (c *Ctx) enterChain(base *Origins, from ssa.CallInstruction, target *ssa.Function, depth int) []*Origins {
	callee := from.Common().StaticCallee()
	if callee == nil || callee.Blocks == nil || depth > 3 {
		return nil
	}
	o := base.Enter(callee, from)
	if callee == target {
		return []*Origins{o}
	}
	var out []*Origins
	for _, ci := range Calls(callee) {
		f2 := ci.Common().StaticCallee()
		if f2 == nil || f2.Pkg == nil || !c.P.InModule(f2.Pkg.Pkg.Path()) || f2 == callee {
			continue
		}
		out = append(out, c.enterChain(o, ci, target, depth+1)...)
	}
	return out
}
