package nc

import (
	"fmt"
	"go/types"
	"strings"

	"golang.org/x/tools/go/ssa"
)

func init() {
	register("C16", "Decides (R1) on the schema folded from all migrations that total_issued / total_redeemed are, per keyset_id, the integer "+
		"SUM(amount) over the signature table / the spent table, that no later migration replaces them, and that the two readers scan "+
		"(keyset_id, total) in view column order; (R2) the total balance is (sum over all issued entries) - (sum over all redeemed entries); "+
		"(R3) the mint-quote operation requests an invoice and inserts the quote only behind 'mint maximum unset or amount <= it' and 'maximum "+
		"balance unset or (no overflow and balance + amount <= it)', the addition being overflow-checked and no raw subtraction being used; "+
		"(R4) the melt-quote operation inserts the quote only behind 'melt maximum unset or the stored quote amount <= the MELT maximum'; "+
		"(R5) the info operation reports minting disabled exactly on the paths where the maximum balance is set and balance >= it, and the "+
		"info handler computes it afresh on every request (never from the cache); (R6) issuance and consumption write their rows "+
		"(C15.R1, C01.R3/R5 — decided there). That the views equal a reference ledger over histories is not decided.", rulesC16)
}

func rulesC16(c *Ctx) {
	R := c.R
	R.Rule("R1", "balance views = integer SUM(amount) per keyset over signatures / spent proofs, final definitions, scanned in column order", 8)
	R.Rule("R2", "total balance = sum(issued) - sum(redeemed) over all entries", 1)
	R.Rule("R3", "mint quote: invoice + insert only behind the amount and balance limits (overflow-checked)", 5)
	R.Rule("R4", "melt quote: insert only behind the melt amount limit on the stored amount", 1)
	R.Rule("R5", "info: disabled exactly when max balance set and balance >= max; computed afresh per request", 3)
	R.Rule("R6", "the issued total counts only what was handed out: swap stores signatures only after the spent-table insert succeeded (shared with C01.R3)", 1)
	R.Rule("R7", "the limits the operations compare against are the configured ones: the limits field of the mint is written only at start-up, with the Limits of the configuration unmodified", 1)
	c.vocabProblems("R1")
	c.ruleSigsAfterSpent("R6")
	c.c16LimitsAreConfigured()
	R.Rule("R11", "the issued total counts nothing that was not handed out: in the mint operation the signature save is the last fallible step (shared with C03.R7) - a request that fails after the save leaves rows in blind_signatures, and so in total_issued, for signatures nobody received", 2)
	c.runOnly("R7", "R11", func(cc *Ctx) { rulesC03(cc) })
	R.Rule("R10", "admin RPC figures: every field named Issued is fed by IssuedEcash only, every field named Redeemed by RedeemedEcash only (per keyset and in total)", 4)
	c.c16ManagerFigures("R10")
	R.Rule("R9", "the issued total counts everything that was handed out: signatures are returned only after they were saved, and a failed save is an error (shared with C06.R5 / C15.R1)", 2)
	c.ruleSigsSavedForOutputs("R9")
	R.Rule("R8", "the configured limits survive their own parsing: in the start-up code that builds the limits from the environment no later assignment overwrites a (sub)struct in which a limit was already stored", 1)
	c.c16ConfigNotOverwritten()

	// ---- R1
	if sc := c.V.Schema; sc == nil {
		R.Unresolved("R1", "schema", "migrations could not be folded")
	} else {
		for _, v := range []struct{ view, base string }{{"total_issued", "blind_signatures"}, {"total_redeemed", "proofs"}} {
			t := sc.Tables[v.view]
			if t == nil || !t.IsView {
				R.Check("R1", "schema", "view "+v.view, "migrations", false, "the view "+v.view+" exists after all migrations", "missing")
				continue
			}
			ok := t.ViewBase == v.base && t.ViewSumCol == "amount" && t.ViewGroupBy == "keyset_id" && len(t.ViewCols) == 2 && t.ViewCols[0] == "keyset_id"
			R.Check("R1", "schema", v.view+" = SUM(amount) FROM "+v.base+" GROUP BY keyset_id", "migrations/"+t.Origin, ok,
				"the view is the per-keyset sum of the amount column of "+v.base, fmt.Sprintf("base=%s sum=%s group=%s cols=%v : %s", t.ViewBase, t.ViewSumCol, t.ViewGroupBy, t.ViewCols, short(t.ViewSQL, 160)))
			exact := !strings.Contains(strings.ToUpper(t.ViewSQL), "TOTAL(") && !strings.Contains(strings.ToUpper(t.ViewSQL), "REAL") && !strings.Contains(strings.ToUpper(t.ViewSQL), "AVG(") && !strings.Contains(strings.ToUpper(t.ViewSQL), "DISTINCT") && !strings.Contains(strings.ToUpper(t.ViewSQL), " WHERE ")
			R.Check("R1", "schema", v.view+" is an exact integer sum over all rows", "migrations/"+t.Origin, exact, "the aggregate is the integer SUM over every row (no float aggregate, no filter, no DISTINCT)", short(t.ViewSQL, 200))
			bt := sc.Tables[v.base]
			okCol := bt != nil && bt.Col("amount") != nil && bt.Col("keyset_id") != nil && strings.HasPrefix(bt.Col("amount").Type, "INT")
			R.Check("R1", "schema", v.base+" has integer amount and keyset_id", "migrations", okCol, "the summed column is an integer column of "+v.base, "")
		}
	}
	c.ruleSQLAgreement("R1", map[string]bool{"total_issued": true, "total_redeemed": true})
	for _, m := range []string{"GetIssuedEcash", "GetRedeemedEcash"} {
		for _, st := range c.V.Stmts[m] {
			if st.Scan == nil {
				continue
			}
			// every row is put into the map under its keyset id
			f := st.Fn
			o := c.P.OriginsOf(f)
			okMap := false
			for _, b := range f.Blocks {
				for _, in := range b.Instrs {
					if mu, ok := in.(*ssa.MapUpdate); ok {
						k, v := destNameOfLoad(mu.Key), destNameOfLoad(mu.Value)
						okMap = colCompatible("keyset_id", k) && (colCompatible("amount", v) || colCompatible("balance", v))
						_ = o
					}
				}
			}
			R.Check("R1", c.P.FuncKey(f), "rows stored as map[keyset id] = total", c.P.Pos(f.Pos()), okMap, "each scanned row is stored under its keyset id with its total", "")
		}
	}

	// ---- R2
	if f := c.fn("R2", "mint.(*Mint).TotalBalance"); f != nil {
		o := c.P.OriginsOf(f)
		for _, r := range o.SuccessReturns() {
			e := o.Of(r.Results[0])
			isSum := func(x *Ex, role string) bool {
				if x.K != "acc" || x.S != "+" || len(x.Args) != 2 || !isConst(x.Args[0], "0") {
					return false
				}
				step := x.Args[1]
				var src *Ex
				switch {
				case step.K == "elem":
					src = step.Args[0]
				case len(step.Args) == 2 && step.Args[1].K == "key" && len(step.Args[1].Args) == 1 && step.Args[1].Args[0].String() == step.Args[0].String():
					// for k := range m { total += m[k] }: the entry under every key is the value of every entry
					src = step.Args[0]
				default:
					return false
				}
				return src.K == "call" && src.Idx == 0 && c.dbCallWithRole(src, role)
			}
			ok := e.K == "bin" && e.S == "-" && isSum(e.Args[0], "SELECT total_issued") && isSum(e.Args[1], "SELECT total_redeemed")
			R.Check("R2", c.P.FuncKey(f), "balance = sum(issued) - sum(redeemed)", c.P.InstrPos(r), ok, "the balance is the sum over every issued entry minus the sum over every redeemed entry", short(e.String(), 200))
		}
	}

	// ---- R3
	if op := c.op("R3", "/v1/mint/quote/{method}"); op != nil {
		fk := c.P.FuncKey(op)
		recv := coreRecv(op)
		amount := ""
		for _, prm := range op.Params[1:] {
			amount = "P:" + prm.Name() + ".Amount"
		}
		maxAmt := recv + ".limits.MintingSettings.MaxAmount"
		maxBal := recv + ".limits.MaxBalance"
		amtLimit := &Cond{Name: "mint maximum unset or amount <= mint maximum", Match: func(ft *Fact, _ *Origins) bool {
			if ft.Kind != "cmp" || !ft.Pos || ft.Op.String() != "<=" {
				return false
			}
			return (ft.A.String() == maxAmt && isConst(ft.B, "0")) || (ft.A.String() == amount && ft.B.String() == maxAmt)
		}}
		isBal := func(e *Ex) bool {
			return e.K == "call" && e.Idx == 0 && e.Call != nil && e.Call.Common().StaticCallee() == c.P.Func("mint.(*Mint).TotalBalance")
		}
		lc := newLinCond("balance + amount <= maximum balance", []atomReq{
			{"MAXB", 1, func(e *Ex) bool { return e.String() == maxBal }},
			{"BAL", -1, isBal},
			{"AMT", -1, func(e *Ex) bool { return e.String() == amount }},
		})
		balLimit := &Cond{Name: "maximum balance unset or balance + amount <= maximum balance", Match: func(ft *Fact, o *Origins) bool {
			if ft.Kind == "cmp" && ft.Pos && ft.Op.String() == "<=" && ft.A.String() == maxBal && isConst(ft.B, "0") {
				return true
			}
			return lc.cond.Match(ft, o)
		}}
		var sites []EffectSite
		sites = append(sites, c.Effects(op, func(d *CallDesc) bool { m, ok := c.V.IsLNCall(d); return ok && m == c.V.CreateInvoiceMeth })...)
		sites = append(sites, c.roleSites(op, roleNewMint)...)
		if len(sites) < 2 {
			R.Unresolved("R3", "invoice request and quote insert in "+fk, fmt.Sprintf("found %d sites", len(sites)))
		}
		for _, s := range sites {
			for _, cd := range []*Cond{amtLimit, balLimit} {
				ok, why := c.RequireAt(s.Instr, cd)
				R.Check("R3", fk, siteDesc(c, s)+" <= "+cd.Name, c.P.InstrPos(s.Instr), ok, "a mint quote is created only when ["+cd.Name+"]", why)
			}
			// overflow flag of the checked addition, no raw arithmetic on the must-be-small side
			seen := map[string]bool{}
			for _, l := range lc.matched {
				for _, h := range l.Checked {
					if seen[h.String()] {
						continue
					}
					seen[h.String()] = true
					cd := &Cond{Name: "maximum balance unset or no overflow in balance + amount", Match: func(ft *Fact, o *Origins) bool {
						if ft.Kind == "cmp" && ft.Pos && ft.Op.String() == "<=" && ft.A.String() == maxBal && isConst(ft.B, "0") {
							return true
						}
						return flagFalseCond(h).Match(ft, o)
					}}
					ok, why := c.RequireAt(s.Instr, cd)
					R.Check("R3", fk, siteDesc(c, s)+" <= overflow flag honoured", c.P.InstrPos(s.Instr), ok, "the checked sum is used only where its overflow flag is false", why)
				}
				for i, r := range l.Raw {
					if seen["raw:"+r.String()] {
						continue
					}
					seen["raw:"+r.String()] = true
					if (r.S == "+" && l.RawSign[i] < 0) || r.S == "-" {
						R.Check("R3", fk, siteDesc(c, s)+" unchecked arithmetic in the balance limit", c.P.InstrPos(s.Instr), false,
							"the balance limit is evaluated with overflow-checked arithmetic (amounts up to 2^64 and balances above the maximum must not wrap)", "raw '"+r.S+"' in "+short(r.String(), 160))
					}
				}
			}
			// the amount stored / invoiced is the limited amount
			if s.Direct {
				args := c.innerArgs(s)
				var amt *Ex
				if c.V.DBRole(c.P.Describe(s.Inner), roleNewMint) && len(args) >= 2 {
					amt = project(args[1], "Amount")
				}
				if amt != nil {
					R.Check("R3", fk, "stored quote amount is the limited amount", c.P.InstrPos(s.Instr), amt.String() == amount, "the amount stored with the quote is the request amount that was checked", short(amt.String(), 100))
				}
			}
		}
	}

	// ---- R4
	if op := c.op("R4", "/v1/melt/quote/{method}"); op != nil {
		fk := c.P.FuncKey(op)
		recv := coreRecv(op)
		maxAmt := recv + ".limits.MeltingSettings.MaxAmount"
		for _, s := range c.roleSites(op, roleNewMelt) {
			if !s.Direct {
				continue
			}
			args := c.innerArgs(s)
			stored := project(args[1], "Amount")
			cd := &Cond{Name: "melt maximum unset or stored amount <= melt maximum", Match: func(ft *Fact, _ *Origins) bool {
				if ft.Kind != "cmp" || !ft.Pos || ft.Op.String() != "<=" {
					return false
				}
				return (ft.A.String() == maxAmt && isConst(ft.B, "0")) || (ft.A.String() == stored.String() && ft.B.String() == maxAmt)
			}}
			ok, why := c.RequireAt(s.Instr, cd)
			R.Check("R4", fk, siteDesc(c, s)+" <= "+cd.Name, c.P.InstrPos(s.Instr), ok, "a melt quote is created only when the amount it stores is within the melt maximum", why)
		}
	}

	// ---- R5
	c.c16Info()
}

func destNameOfLoad(v ssa.Value) string {
	v = UnwrapConv(v)
	if ld, ok := v.(*ssa.UnOp); ok {
		return destLeaf(ld.X)
	}
	return ""
}

func (c *Ctx) c16Info() {
	R := c.R
	op := c.op("R5", "/v1/info")
	if op == nil {
		return
	}
	fk := c.P.FuncKey(op)
	o := c.P.OriginsOf(op)
	isMax := func(e *Ex) bool {
		for _, a := range e.Alts() {
			if !strings.HasSuffix(a.String(), ".limits.MaxBalance") {
				return false
			}
		}
		return true
	}
	isBal := func(e *Ex) bool {
		return e.K == "call" && e.Idx == 0 && e.Call != nil && e.Call.Common().StaticCallee() == c.P.Func("mint.(*Mint).TotalBalance")
	}
	set := &Cond{Name: "maximum balance set", Match: func(ft *Fact, _ *Origins) bool {
		return ft.Kind == "cmp" && ft.Pos && ft.Op.String() == "<" && isConst(ft.A, "0") && isMax(ft.B)
	}}
	reached := &Cond{Name: "balance >= maximum balance", Match: func(ft *Fact, _ *Origins) bool {
		return ft.Kind == "cmp" && ft.Pos && ft.Op.String() == "<=" && isMax(ft.A) && isBal(ft.B)
	}}
	// the value stored into the Disabled field
	var st *ssa.Store
	for _, b := range op.Blocks {
		for _, in := range b.Instrs {
			if s, ok := in.(*ssa.Store); ok {
				if fa, ok := s.Addr.(*ssa.FieldAddr); ok && fieldName(fa) == "Disabled" {
					st = s
				}
			}
		}
	}
	if st == nil {
		R.Check("R5", fk, "disabled flag written", c.P.Pos(op.Pos()), false, "the info operation sets the NUT-04 disabled flag", "no store into a Disabled field")
		return
	}
	ph, isPhi := st.Val.(*ssa.Phi)
	if !isPhi {
		// explicit stores of constants into a cell
		R.Undecided("R5", fk, "disabled flag shape", c.P.InstrPos(st), "info flag", "value is "+short(o.Of(st.Val).String(), 100)+" (expected a merge of the constants false/true)")
		return
	}
	okAll, why := true, ""
	nTrue := 0
	for i, e := range ph.Edges {
		pred := ph.Block().Preds[i]
		last := pred.Instrs[len(pred.Instrs)-1]
		cst, isC := e.(*ssa.Const)
		conds := []*Cond{set, reached}
		if !isC || cst.Value == nil {
			// `disabled = max > 0 && balance >= max`: the last operand flows in as a value; the flag equals the
			// conjunction iff that value is one of the two comparisons and the other is established on the way
			f := o.condFact(e, true)
			switch {
			case f != nil && reached.Match(f, o):
				conds = []*Cond{set}
			case f != nil && set.Match(f, o):
				conds = []*Cond{reached}
			default:
				okAll, why = false, "a value that is neither of the two comparisons flows into the flag"
				continue
			}
			nTrue++
			for _, cd := range conds {
				acc := o.AcceptEdges(cd)
				cut := NewCut()
				for ed := range acc {
					cut.Edges[ed] = true
				}
				if reach, _ := ReachFromEntry(op, last, cut); reach {
					okAll, why = false, fmt.Sprintf("through %s the flag is the value of one comparison but [%s] is not established on the way", c.P.InstrPos(last), cd.Name)
				}
			}
			continue
		}
		val := cst.Value.ExactString() == "true"
		// reaching the phi through this predecessor: both facts established?
		both := true
		for _, cd := range conds {
			acc := o.AcceptEdges(cd)
			cut := NewCut()
			for ed := range acc {
				cut.Edges[ed] = true
			}
			// the edge pred -> phi block itself may be the accept edge
			edgeIsAccept := false
			for si, sb := range pred.Succs {
				if sb == ph.Block() && acc[Edge{pred, si}] {
					edgeIsAccept = true
				}
			}
			if edgeIsAccept {
				continue
			}
			if reach, _ := ReachFromEntry(op, last, cut); reach {
				both = false
			}
		}
		if val {
			nTrue++
		}
		if val != both {
			okAll = false
			why = fmt.Sprintf("through %s the flag is %v although 'maximum set and balance >= maximum' is %v", c.P.InstrPos(last), val, both)
		}
	}
	R.Check("R5", fk, "disabled == (maximum balance set and balance >= maximum)", c.P.InstrPos(st), okAll && nTrue == 1,
		"minting is reported disabled exactly on the paths where the maximum balance is set and reached", why)
	// returned info carries that flag
	for _, r := range o.SuccessReturns() {
		e := o.Of(r.Results[0])
		R.Check("R5", fk, "returned info carries the computed flag", c.P.InstrPos(r), strings.Contains(e.String(), "Disabled="), "the returned mint info contains the freshly computed NUT-04 setting", short(e.String(), 120))
	}
	// the handler computes it afresh: every response write (other than the error writer) is behind the op call
	if rt := c.V.Route("/v1/info"); rt != nil && len(rt.OpCalls) > 0 {
		h := rt.Handler
		cut := NewCut()
		for _, oc := range rt.OpCalls {
			cut.Barriers[oc] = true
		}
		ok, why2 := true, ""
		for _, ci := range Calls(h) {
			d := c.P.Describe(ci)
			if d.Iface != nil && d.Iface.Name() == "Write" {
				if reach, path := ReachFromEntry(h, ci, cut); reach {
					ok = false
					why2 = "a response is written without calling the info operation (served from a cache?): " + c.P.PathString(path)
				}
			}
		}
		R.Check("R5", c.P.FuncKey(h), "info response computed afresh on every request", c.P.Pos(h.Pos()), ok, "the info handler answers only with the result of a fresh info operation (the disabled flag depends on the live balance)", why2)
	}
}

// c16LimitsAreConfigured: R7.
func (c *Ctx) c16LimitsAreConfigured() {
	R := c.R
	n := 0
	for _, f := range c.P.Funcs {
		top := EnclosingTop(f)
		if top.Pkg == nil || c.V.CoreType == nil || top.Pkg.Pkg != c.V.CoreType.Obj().Pkg() {
			continue
		}
		o := c.P.OriginsOf(f)
		for _, b := range f.Blocks {
			for _, in := range b.Instrs {
				st, ok := in.(*ssa.Store)
				if !ok {
					continue
				}
				fa, ok := st.Addr.(*ssa.FieldAddr)
				if !ok || fieldName(fa) != "limits" {
					continue
				}
				pt, ok := fa.X.Type().Underlying().(*types.Pointer)
				if !ok || pt.Elem() != types.Type(c.V.CoreType) {
					continue
				}
				n++
				v := o.Of(st.Val)
				okV := v.K == "field" && v.S == "Limits" && len(v.Args) == 1 && v.Args[0].K == "param"
				R.Check("R7", c.P.FuncKey(top), "limits field = configured Limits", c.P.InstrPos(st), okV,
					"the mint's limits are the configuration's Limits, unmodified (a zero limit means 'none': any recomputation has to treat it so)", "stored value is "+short(v.String(), 140))
			}
		}
	}
	if n == 0 {
		R.Unresolved("R7", "writes of the mint's limits field", "none found")
	}
}

// c16ConfigNotOverwritten: R8. configFromEnv fills the limits piece by piece; a whole-struct assignment that runs after
// a limit was stored inside that struct silently resets it to 0 = "no limit".
func (c *Ctx) c16ConfigNotOverwritten() {
	R := c.R
	f := c.P.Func("cmd/mint.configFromEnv")
	if f == nil {
		R.Trivial("R8", "cmd/mint", "limits built from the environment", "cmd/mint/mint.go", "no configFromEnv on this tree")
		return
	}
	fk := c.P.FuncKey(f)
	type st struct {
		in   *ssa.Store
		root ssa.Value
		path []pathElem
	}
	var stores []st
	for _, b := range f.Blocks {
		for _, in := range b.Instrs {
			if s, ok := in.(*ssa.Store); ok {
				root, path := addrRoot(s.Addr)
				if al, ok := root.(*ssa.Alloc); ok && strings.Contains(typeShort(c.P, al.Type()), "Limits") {
					stores = append(stores, st{s, root, path})
				}
			}
		}
	}
	o := c.P.OriginsOf(f)
	ok, why := true, ""
	for _, a := range stores {
		for _, b := range stores {
			if a.in == b.in || a.root != b.root || len(a.path) == 0 {
				continue
			}
			// b writes a location that contains a's location (equal or shorter path)
			if len(b.path) > len(a.path) || !isPrefix(b.path, a.path) {
				continue
			}
			if reach, _ := o.ReachAvoiding(a.in, b.in, NewCut()); reach {
				ok = false
				why = "the value stored at " + c.P.InstrPos(a.in) + " is overwritten by the assignment at " + c.P.InstrPos(b.in)
			}
		}
	}
	R.Check("R8", fk, "limits parsed from the environment are not overwritten", c.P.Pos(f.Pos()), ok && len(stores) > 0,
		"each limit stored while parsing the environment is still there when the configuration is returned", why)
}

// c16ManagerFigures: R10. The admin RPC reports issued and redeemed figures per keyset and in total. Every
// integer stored into a field of an answer whose name says Issued comes from the mint's IssuedEcash and
// from nothing that reads RedeemedEcash, and the reverse: the two sources have the same type and are one
// identifier apart.
func (c *Ctx) c16ManagerFigures(rule string) {
	R := c.R
	n := 0
	for _, f := range c.P.Funcs {
		top := EnclosingTop(f)
		if top.Pkg == nil || c.P.Rel(top.Pkg.Pkg.Path()) != "mint/manager" || f.Blocks == nil {
			continue
		}
		for _, b := range f.Blocks {
			for _, in := range b.Instrs {
				st, ok := in.(*ssa.Store)
				if !ok {
					continue
				}
				fa, ok := st.Addr.(*ssa.FieldAddr)
				if !ok {
					continue
				}
				name := fieldName(fa)
				bt, isInt := st.Val.Type().Underlying().(*types.Basic)
				if !isInt || bt.Info()&types.IsInteger == 0 {
					continue
				}
				want, other := "", ""
				switch {
				case strings.Contains(name, "Issued"):
					want, other = "IssuedEcash", "RedeemedEcash"
				case strings.Contains(name, "Redeemed"):
					want, other = "RedeemedEcash", "IssuedEcash"
				default:
					continue
				}
				for _, o := range c.CtxsOf(st) {
					n++
					v := o.Of(st.Val).String()
					ok := strings.Contains(v, want) && !strings.Contains(v, other)
					R.Check(rule, c.P.FuncKey(top), "field "+name+" is fed by "+want, c.P.InstrPos(st), ok, "a figure reported as "+strings.ToLower(strings.TrimSuffix(want, "Ecash"))+" derives from the mint's "+want+" only", "value: "+short(v, 200))
				}
			}
		}
	}
	if n < 4 {
		R.Unresolved(rule, "issued / redeemed fields of the admin answers", fmt.Sprintf("%d stores found, at least 4 on the reference tree", n))
	}
}
