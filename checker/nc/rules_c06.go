package nc

import (
	"go/types"
	"sort"
	"strings"

	"golang.org/x/tools/go/ssa"
)

func init() {
	register("C06", "Decides (R1) for every module function reachable from the registered HTTP route handlers (and the JSON (un)marshalers "+
		"of the request/response types) that each source-level panic site — index and slice expressions, strings.Repeat and make with "+
		"computed sizes, unchecked type assertions, integer division, explicit panic, slices.Delete bounds, dereference of pointers that "+
		"came out of decoded data — is discharged by a dominating length/nil/range fact, by how the value was produced, or by a fact every "+
		"caller establishes; a small reviewed trust table (printed in the evidence) covers data-structure invariants. (R2) validation "+
		"precedes mutation: in swap and melt no persistent write is reachable before the last request-validation rejection, in the mint op "+
		"the only write before validation is the PENDING marker and every rejection after it passes the PAID revert. (R3) a handler that "+
		"got a decode error returns without calling the core operation and every handler path writes exactly one response. It does not "+
		"cover panics inside dependencies, resource exhaustion or goroutine scheduling.", rulesC06)
}

// trustedSites: reviewed sites whose safety is a data-structure invariant. key = function|construct.
var trustedPanicSites = map[string]string{
	"crypto.(PublicKeys).MarshalJSON|*(P:pks[elem(make:[]uint64{key(P:pks)})])": "the looked-up amounts are the keys of the same map; its values are public keys produced by key generation or by a successful ParsePubKey (never nil)",
	"crypto.HashE|*(elem(P:publicKeys))":                                        "both callers (GenerateDLEQ, VerifyDLEQ) pass a literal list of keys obtained from PubKey()/NewPublicKey or from parameters that were parsed successfully",
}

// trustedOwnKeyLookup: dereference of M[k] where M is a crypto.PublicKeys map and k ranges over the keys of
// that same map (collected into a slice, or through maps.Keys, possibly sorted). The invariant trusted is
// that of the table entry for PublicKeys.MarshalJSON: the values of a PublicKeys map are never nil.
func trustedOwnKeyLookup(c *Ctx, s *PanicSite) (string, bool) {
	if s.Kind != "nilfield" || s.X == nil {
		return "", false
	}
	e := c.P.OriginsOf(s.Fn).Of(s.X)
	if e.K != "lookup" && e.K != "index" {
		return "", false
	}
	m, k := e.Args[0], e.Args[1]
	if m.V == nil || !strings.HasSuffix(m.V.Type().String(), "crypto.PublicKeys") {
		return "", false
	}
	ms, ks := m.String(), k.String()
	if ks == "key("+ms+")" || (strings.HasPrefix(ks, "elem(") && (strings.Contains(ks, "key("+ms+")") || strings.Contains(ks, "maps.Keys("+ms+")"))) {
		return "the looked-up amounts are the keys of the same map; its values are public keys produced by key generation or by a successful ParsePubKey (never nil)", true
	}
	return "", false
}

func (c *Ctx) handlerScope() map[*ssa.Function]bool {
	var roots []*ssa.Function
	var ts []types.Type
	for _, r := range c.V.Routes {
		roots = append(roots, r.Handler)
		for _, b := range r.Handler.Blocks {
			for _, in := range b.Instrs {
				if al, ok := in.(*ssa.Alloc); ok {
					ts = append(ts, al.Type().Underlying().(*types.Pointer).Elem())
				}
			}
		}
	}
	roots = append(roots, c.jsonMethodsOf(ts, "MarshalJSON", "UnmarshalJSON", "String", "Error")...)
	return c.ModuleReach(roots)
}

func rulesC06(c *Ctx) {
	R := c.R
	R.Rule("R1", "every panic site reachable from a route handler is discharged", 40)
	R.Rule("R2", "validation precedes mutation in swap/melt; mint op: only the PENDING marker before validation and every rejection reverts", 6)
	R.Rule("R3", "decode error => no operation call; every handler path writes one response", 20)
	R.Rule("R4", "what the pre-checks test is what storage enforces: the statements on the spent, pending and signature tables bind each column to its own unmodified value (a key stored under a transformed form - lower-cased, trimmed - lets two requests that pass the duplicate checks collide on the key after the inputs were spent; shared with C15.R5)", 10)
	c.ruleSQLAgreement("R4", map[string]bool{"proofs": true, "pending_proofs": true, "blind_signatures": true})
	c.ruleKeysCompareExactly("R4")
	R.Rule("R5", "the signatures are stored under exactly the B_ strings the duplicate / already-signed checks compared (shared with C15.R1): no normalisation between the check and the key", 2)
	c.ruleSigsSavedForOutputs("R5")
	R.Rule("R8", "no typed-nil error: every pointer converted to an error value in the mint is never nil (the handlers type-assert errors to *cashu.Error and read its fields)", 20)
	c.ruleNoTypedNilError("R8", []string{"mint", "cashu", "mint/storage/sqlite", "mint/lightning"}, 20)
	R.Rule("R7", "a refused multi-row write leaves no rows: the spent-table, pending-table and signature inserts run in one transaction that is rolled back on the first failing row and committed only after the last (shared with C01.R6 / C03.R7 / C07.M)", 9)
	for _, role := range []string{roleMarkSpent, roleLock, roleSaveSigs} {
		c.checkAtomicMultiRow("R7", role)
	}
	R.Rule("R6", "the request operations keep no request-keyed state in memory: swap, melt and mint do not write a map of the long-lived mint object (what a refused request leaves in memory is not undone by any storage rollback; such a mechanism is not decided by these rules)", 3)
	c.c06NoInMemoryRequestState()
	c.vocabProblems("R1")
	scope := c.handlerScope()
	R.Analysed["functions_in_handler_scope"] = len(scope)
	var fns []*ssa.Function
	for f := range scope {
		fns = append(fns, f)
	}
	sort.Slice(fns, func(i, j int) bool { return c.P.FuncKey(fns[i]) < c.P.FuncKey(fns[j]) })
	for _, f := range fns {
		fk := c.P.FuncKey(f)
		for _, s := range c.PanicSites(f) {
			key := fk + "|" + s.Desc
			if why, ok := trustedOwnKeyLookup(c, s); ok {
				R.Trust("panic site %s: %s", fk+"|own-key lookup in a public-key map", why)
				R.Trivial("R1", fk, s.Kind+" "+s.Desc, c.P.InstrPos(s.Instr), "trusted: "+why)
				continue
			}
			if why, ok := trustedPanicSites[key]; ok {
				R.Trust("panic site %s: %s", key, why)
				R.Trivial("R1", fk, s.Kind+" "+s.Desc, c.P.InstrPos(s.Instr), "trusted: "+why)
				continue
			}
			ok, how := c.Discharge(s, 0)
			R.Check("R1", fk, s.Kind+" "+s.Desc, c.P.InstrPos(s.Instr), ok, "panic site "+s.Desc+" cannot fire ("+how+")", how)
		}
	}
	c.c06ValidationBeforeMutation("R2")
	c.c06DuplicateOutputsByKey("R2")
	c.c06Handlers("R3")
	c.ruleStateUpdatesKeyedOnly("R2")
	_ = strings.TrimSpace
}

// isFaultError: the error expression can only be a storage / Lightning fault (not a request rejection).
func (c *Ctx) isFaultError(e *Ex, depth int) bool {
	db, _ := c.P.ConstVal("cashu", "DBErrCode")
	ln, _ := c.P.ConstVal("cashu", "LightningBackendErrCode")
	for _, a := range e.Alts() {
		switch {
		case isCall(a, "cashu.BuildCashuError") && len(a.Args) == 2 && (isConst(a.Args[1], db) || isConst(a.Args[1], ln)):
		case a.K == "call" && a.Call != nil && func() bool {
			d := c.P.Describe(a.Call)
			if _, ok := c.V.IsDBCall(d); ok {
				return true
			}
			_, ok := c.V.IsLNCall(d)
			return ok
		}():
		case a.K == "call" && a.Call != nil && depth < 3 && func() bool {
			f := a.Call.Common().StaticCallee()
			if f == nil || !c.moduleFn(f) {
				return false
			}
			o := c.P.OriginsOf(f)
			n := 0
			for _, r := range Returns(f) {
				if !o.IsFailureReturn(r) {
					continue
				}
				n++
				if !c.isFaultError(o.Of(r.Results[len(r.Results)-1]), depth+1) {
					return false
				}
			}
			return n > 0
		}():
		default:
			return false
		}
	}
	return true
}

func (c *Ctx) writeSites(op *ssa.Function) []EffectSite {
	return c.Effects(op, func(d *CallDesc) bool {
		m, ok := c.V.IsDBCall(d)
		if !ok {
			return false
		}
		for _, r := range c.V.MethodRoles[m] {
			if strings.HasPrefix(r, "INSERT") || strings.HasPrefix(r, "UPDATE") || strings.HasPrefix(r, "DELETE") {
				return true
			}
		}
		return false
	})
}

func (c *Ctx) c06ValidationBeforeMutation(rule string) {
	R := c.R
	pendingM, _ := c.P.ConstVal("cashu/nuts/nut04", "Pending")
	paidM, _ := c.P.ConstVal("cashu/nuts/nut04", "Paid")
	known := []string{"/v1/swap", "/v1/melt/{method}", "/v1/mint/{method}", "/v1/mint/quote/{method}", "/v1/melt/quote/{method}"}
	paths := append([]string{}, known...)
	// a route that does not exist on the reference tree and whose operation writes persistent state is held to the
	// same discipline (a new endpoint is a new way for a refused request to leave something behind)
	refRoutes := map[string]bool{"/v1/keys": true, "/v1/keysets": true, "/v1/keys/{id}": true, "/v1/checkstate": true, "/v1/restore": true, "/v1/info": true,
		"/v1/mint/quote/{method}/{quote_id}": true, "/v1/melt/quote/{method}/{quote_id}": true, "/v1/ws": true}
	for _, p := range known {
		refRoutes[p] = true
	}
	for _, rt := range c.V.Routes {
		if !refRoutes[rt.Path] && len(rt.Ops) == 1 && len(c.writeSites(rt.Ops[0])) > 0 {
			dup := false
			for _, p := range paths {
				if c.V.Op(p) == rt.Ops[0] {
					dup = true
				}
			}
			if !dup {
				paths = append(paths, rt.Path)
			}
		}
	}
	for _, path := range paths {
		op := c.op(rule, path)
		if op == nil {
			continue
		}
		fk := c.P.FuncKey(op)
		sites := c.writeSites(op)
		if len(sites) == 0 {
			R.Unresolved(rule, "persistent writes of "+fk, "none found")
			continue
		}
		// the insert whose key constraint refuses a re-used input (spent table in swap, pending table in melt)
		// is itself a validation step: it is the first persistent write, every other write sits behind its
		// success - a request refused by the constraint has changed nothing before
		if keyRole := map[string]string{"/v1/swap": roleMarkSpent, "/v1/melt/{method}": roleLock}[path]; keyRole != "" {
			keyOK := c.condErrNilRole("key-constrained insert of the inputs succeeded", keyRole, nil)
			for _, s := range sites {
				if c.V.DBRole(c.P.Describe(s.Inner), keyRole) {
					continue
				}
				if !s.Direct {
					if callee := s.Instr.Common().StaticCallee(); callee != nil && (callee == c.V.Op("/v1/mint/quote/{method}/{quote_id}") || callee == c.V.Op("/v1/melt/quote/{method}/{quote_id}")) {
						continue
					}
				}
				ok, why := c.RequireAt(s.Instr, keyOK)
				R.Check(rule, fk, siteDesc(c, s)+" <= key-constrained insert of the inputs", c.P.InstrPos(s.Instr), ok,
					"no persistent write precedes the insert whose key constraint can still refuse the request", why)
			}
		}
		for _, s := range sites {
			fn := s.Instr.Parent()
			o := c.P.OriginsOf(fn)
			args := c.innerArgs(s)
			isMarker := false
			if c.V.DBRole(c.P.Describe(s.Inner), roleSetMint) && len(args) >= 3 && isConst(args[2], pendingM) {
				isMarker = true
			}
			if c.V.DBRole(c.P.Describe(s.Inner), roleSetMint) && len(args) >= 3 && isConst(args[2], paidM) && s.Direct && path == "/v1/mint/{method}" {
				// the PAID revert is the compensation itself (its placement is decided below and by C03.R5)
				R.Trivial(rule, fk, "revert write "+siteDesc(c, s), c.P.InstrPos(s.Instr), "compensating write")
				continue
			}
			if !s.Direct {
				// adopting the backend's truth inside a quote-state operation (UNPAID -> PAID, PENDING -> PAID/UNPAID) is not an effect of the rejected request
				if callee := s.Instr.Common().StaticCallee(); callee != nil && (callee == c.V.Op("/v1/mint/quote/{method}/{quote_id}") || callee == c.V.Op("/v1/melt/quote/{method}/{quote_id}")) {
					R.Trivial(rule, fk, "state adoption via "+siteDesc(c, s), c.P.InstrPos(s.Instr), "write belongs to the quote-state operation")
					continue
				}
			}
			okSite, why := true, ""
			for _, r := range Returns(fn) {
				if !o.IsFailureReturn(r) {
					continue
				}
				if reach, _ := o.ReachAvoiding(s.Instr, r, NewCut()); !reach {
					continue
				}
				errEx := o.Of(r.Results[len(r.Results)-1])
				if c.isFaultError(errEx, 0) {
					continue
				}
				if isMarker {
					continue // compensated: checked at the operation level below
				}
				okSite = false
				why = "request rejection at " + c.P.InstrPos(r) + " (" + short(errEx.String(), 80) + ") is reachable after the write"
			}
			R.Check(rule, fk, "no rejection after "+siteDesc(c, s), c.P.InstrPos(s.Instr), okSite,
				"after this persistent write the operation can only fail with a storage/Lightning fault (validation precedes mutation)", why)
			if isMarker && fn.Parent() == nil && (fn == op || !c.P.IsNewFunc(fn)) {
				// marker written by the operation's own body (no guarded closure): every failure return behind the
				// marker passes a call that writes the state back to PAID
				cut := NewCut()
				for _, ci := range Calls(fn) {
					if c.writesMintState(ci, paidM, 0) {
						cut.Barriers[ci] = true
					}
				}
				okRev, whyRev := true, ""
				for _, r := range Returns(fn) {
					if !o.IsFailureReturn(r) {
						continue
					}
					if reach, p2 := o.ReachAvoiding(s.Instr, r, cut); reach {
						okRev = false
						whyRev = "failure return at " + c.P.InstrPos(r) + " reachable after the PENDING marker without a write back to PAID: " + p2
					}
				}
				R.Check(rule, fk, "every failure after the PENDING marker reverts to PAID", c.P.InstrPos(s.Instr), okRev,
					"the PENDING marker written before validation is compensated on every failure path", whyRev)
			}
			if isMarker && (fn.Parent() != nil || (fn != op && c.P.IsNewFunc(fn))) {
				// every failure return of the operation after the guarded section passes the PAID revert (the guarded
				// section is a closure, or a helper new on this tree whose callers compensate)
				var guardedSites []ssa.CallInstruction
				if fn.Parent() != nil {
					guardedSites = ClosureCallSites(FindMakeClosure(fn))
				} else {
					guardedSites = c.sitesInScope(c.callersOf(fn))
				}
				for _, cs := range guardedSites {
					po := c.P.OriginsOf(cs.Parent())
					cut := NewCut()
					for _, ci := range Calls(cs.Parent()) {
						d := c.P.Describe(ci)
						if c.V.DBRole(d, roleSetMint) && len(d.Args) >= 2 && isConst(po.Of(d.Args[1]), paidM) {
							cut.Barriers[ci] = true
						} else if callee := ci.Common().StaticCallee(); callee != nil && c.P.IsNewFunc(callee) && c.writesMintState(ci, paidM, 0) {
							cut.Barriers[ci] = true // the revert moved into a helper that is new on this tree
						}
					}
					okRev, whyRev := true, ""
					for _, r := range Returns(cs.Parent()) {
						if !po.IsFailureReturn(r) {
							continue
						}
						if reach, p2 := po.ReachAvoiding(cs, r, cut); reach {
							okRev = false
							whyRev = "failure return at " + c.P.InstrPos(r) + " reachable after the guarded section without the PAID revert: " + p2
						}
					}
					R.Check(rule, fk, "every failure after the PENDING marker reverts to PAID", c.P.InstrPos(cs), okRev,
						"the PENDING marker written before validation is compensated on every failure path", whyRev)
				}
			}
		}
	}
}

func (c *Ctx) c06Handlers(rule string) {
	R := c.R
	// the body decoder: module function that calls (*json.Decoder).Decode
	var decoder *ssa.Function
	for _, f := range c.P.Funcs {
		if f.Pkg == nil || c.V.CoreType == nil || f.Pkg.Pkg != c.V.CoreType.Obj().Pkg() || f.Parent() != nil {
			continue
		}
		for _, ci := range Calls(f) {
			if c.P.Describe(ci).Name == "encoding/json.(*Decoder).Decode" {
				decoder = f
			}
		}
	}
	if decoder == nil {
		R.Unresolved(rule, "request body decoder", "no function calling (*json.Decoder).Decode in the server package")
		return
	}
	var isWrite func(d *CallDesc) bool
	// a helper that is new on this tree and writes a response on every way through it (the handler's tail moved
	// into a shared function) is a write where it is called
	alwaysWrites := map[*ssa.Function]int{} // 0 unknown, 1 yes, 2 no / in progress
	var helperWrites func(f *ssa.Function) bool
	helperWrites = func(f *ssa.Function) bool {
		if v := alwaysWrites[f]; v != 0 {
			return v == 1
		}
		alwaysWrites[f] = 2
		if f == nil || f.Blocks == nil || !c.P.IsNewFunc(f) {
			return false
		}
		cut := NewCut()
		for _, ci := range Calls(f) {
			if isWrite(c.P.Describe(ci)) {
				cut.Barriers[ci] = true
			}
		}
		for _, ret := range Returns(f) {
			if reach, _ := ReachFromEntry(f, ret, cut); reach {
				return false
			}
		}
		alwaysWrites[f] = 1
		return true
	}
	isWrite = func(d *CallDesc) bool {
		if d.Static != nil && helperWrites(d.Static) {
			return true
		}
		if d.Iface != nil && d.Iface.Name() == "Write" && strings.HasSuffix(typeShort(c.P, d.Common.Value.Type()), "ResponseWriter") {
			return true
		}
		if d.Static != nil && c.moduleFn(d.Static) {
			// helper that writes the response (header + body)
			for _, ci := range Calls(d.Static) {
				dd := c.P.Describe(ci)
				if dd.Iface != nil && dd.Iface.Name() == "WriteHeader" {
					return true
				}
			}
		}
		return false
	}
	for _, r := range c.V.Routes {
		h := r.Handler
		if strings.Contains(r.Path, "/ws") {
			continue // websocket upgrade: the response is the hijacked connection
		}
		fk := c.P.FuncKey(h)
		o := c.P.OriginsOf(h)
		var decodes []ssa.CallInstruction
		for _, ci := range Calls(h) {
			if ci.Common().StaticCallee() == decoder {
				decodes = append(decodes, ci)
			}
		}
		if len(decodes) > 0 {
			cd := &Cond{Name: "request body decoded without error", Match: func(f *Fact, o2 *Origins) bool {
				if f.Kind != "errnil" || !f.Pos || f.A.K != "call" {
					return false
				}
				for _, dcall := range decodes {
					if f.A.Call == dcall {
						return true
					}
				}
				return false
			}}
			for _, oc := range r.OpCalls {
				ok, why := o.Requires(oc, cd)
				R.Check(rule, fk, c.P.Describe(oc).Name+" <= body decoded", c.P.InstrPos(oc), ok, "the operation is called only after the body was decoded without error", why)
			}
		}
		// at least one response write before every return
		cut := NewCut()
		var writes []ssa.CallInstruction
		for _, ci := range Calls(h) {
			if isWrite(c.P.Describe(ci)) {
				cut.Barriers[ci] = true
				writes = append(writes, ci)
			}
		}
		okOne, why := true, ""
		for _, ret := range Returns(h) {
			if reach, path := ReachFromEntry(h, ret, cut); reach {
				okOne = false
				why = "return at " + c.P.InstrPos(ret) + " reachable without writing a response: " + c.P.PathString(path)
			}
		}
		R.Check(rule, fk, "every path writes a response", c.P.Pos(h.Pos()), okOne && len(writes) > 0, "every handler path writes a response before returning", why)
		okMost, why2 := true, ""
		for _, w := range writes {
			for _, w2 := range writes {
				if reach, path := o.ReachAvoiding(w, w2, NewCut()); reach {
					okMost = false
					why2 = "second response write at " + c.P.InstrPos(w2) + " reachable after the write at " + c.P.InstrPos(w) + ": " + path
				}
			}
		}
		R.Check(rule, fk, "no path writes two responses", c.P.Pos(h.Pos()), okMost, "no handler path writes a second response", why2)
	}
}

// ruleStateUpdatesKeyedOnly: the quote-state UPDATE statements are unconditional on the stored state
// (WHERE id = ? only). The PAID revert of the mint op and the UNPAID/PAID adoption of the melt paths
// rely on it: a predicate on the current state silently turns them into no-ops that report an error.
func (c *Ctx) ruleStateUpdatesKeyedOnly(rule string) {
	R := c.R
	for _, role := range []string{roleSetMint, roleSetMelt} {
		for _, m := range c.V.MethodsWithRole(role) {
			for _, st := range c.V.Stmts[m] {
				if st.SQL.Role() != role {
					continue
				}
				only := len(st.SQL.Where) == 1 && st.SQL.Where[0] == "id" && st.SQL.WhereOps[0] == "="
				R.Check(rule, c.P.FuncKey(st.Fn), role+" keyed by id only", c.P.InstrPos(st.Exec), only,
					"the state update is unconditional on the stored state (compensating and adopting writes rely on it)", "WHERE clause is "+strings.Join(st.SQL.Where, ",")+" in: "+st.SQL.Raw)
			}
		}
	}
}

// c06DuplicateOutputsByKey: R2 (clause). The signature table is keyed by b_ alone, so the insert of the output
// signatures - which in the swap op comes after the inputs were marked spent - fails when two outputs of one
// request share a B_. The duplicate-output test that runs before any write must therefore reject exactly that:
// it compares outputs by B_, not by the whole struct (two outputs with one B_ and different amounts are
// "different" structs).
func (c *Ctx) c06DuplicateOutputsByKey(rule string) {
	R := c.R
	f := c.fn(rule, fnDupOutputs)
	if f == nil {
		return
	}
	fk := c.P.FuncKey(f)
	el := "elem(P:" + f.Params[0].Name() + ")"
	var keys []string
	// (the test itself, or a helper that is new on this tree - also a generic one taking the key function -
	// read with this caller's arguments)
	for _, o := range c.OpContexts(f) {
		if o.Fn.Parent() != nil {
			continue
		}
		for _, b := range o.Fn.Blocks {
			for _, in := range b.Instrs {
				switch x := in.(type) {
				case *ssa.MapUpdate:
					keys = append(keys, o.Of(x.Key).String())
				case *ssa.Lookup:
					if _, isMap := x.X.Type().Underlying().(*types.Map); isMap {
						keys = append(keys, o.Of(x.Index).String())
					}
				}
			}
		}
		for _, e := range o.AllEdges() {
			if ft := o.EdgeFact(e); ft != nil && ft.Kind == "cmp" && ft.Op.String() == "==" && (strings.Contains(ft.A.String(), el) || strings.Contains(ft.B.String(), el)) {
				keys = append(keys, ft.A.String(), ft.B.String())
			}
		}
	}
	if len(keys) == 0 {
		R.Undecided(rule, fk, "duplicate outputs are detected by B_", c.P.Pos(f.Pos()), "outputs are compared by the key of the signature table", "no set membership or comparison over the outputs found")
		return
	}
	ok, why := true, ""
	for _, k := range keys {
		if !strings.HasSuffix(k, ".B_") {
			ok = false
			why = "outputs are compared by " + short(k, 80) + ": two outputs that share a B_ but differ elsewhere pass the test and the signature insert fails after the inputs were spent"
		}
	}
	R.Check(rule, fk, "duplicate outputs are detected by B_", c.P.Pos(f.Pos()), ok, "the duplicate-output test compares the outputs by B_, the primary key of the signature table", why)
}

// c06NoInMemoryRequestState: R6 (fail-closed census).
func (c *Ctx) c06NoInMemoryRequestState() {
	R := c.R
	for _, path := range []string{"/v1/swap", "/v1/melt/{method}", "/v1/mint/{method}"} {
		op := c.op("R6", path)
		if op == nil {
			continue
		}
		fk := c.P.FuncKey(op)
		bad := ""
		for _, g := range c.OpFuncs(op) {
			o := c.P.OriginsOf(g)
			for _, b := range g.Blocks {
				for _, in := range b.Instrs {
					var m ssa.Value
					what := ""
					switch x := in.(type) {
					case *ssa.MapUpdate:
						m, what = x.Map, "map update"
					case *ssa.Call:
						d := c.P.Describe(x)
						switch {
						case d.Name == "builtin.delete" && len(x.Call.Args) > 0:
							m, what = x.Call.Args[0], "map delete"
						case strings.HasPrefix(d.Name, "sync.(*Map).") && (strings.HasSuffix(d.Name, ".Store") || strings.HasSuffix(d.Name, ".LoadOrStore") || strings.HasSuffix(d.Name, ".Delete") || strings.HasSuffix(d.Name, ".Swap")) && d.Recv != nil:
							m, what = d.Recv, d.Name
						}
					}
					if m == nil {
						continue
					}
					e := o.Of(m)
					// a field of the receiver object (the long-lived mint), not a local map
					if len(g.Params) > 0 && g.Signature.Recv() != nil && strings.HasPrefix(e.String(), "P:"+g.Params[0].Name()+".") {
						bad = what + " on " + short(e.String(), 60) + " at " + c.P.InstrPos(in)
					}
					if strings.Contains(e.String(), "&P:") && g.Signature.Recv() != nil && strings.Contains(e.String(), g.Params[0].Name()+".") {
						bad = what + " on " + short(e.String(), 60) + " at " + c.P.InstrPos(in)
					}
				}
			}
		}
		if bad == "" {
			R.Check("R6", fk, "no in-memory request state", c.P.Pos(op.Pos()), true, "the operation writes no map of the mint object", "")
		} else {
			R.Undecided("R6", fk, "no in-memory request state", c.P.Pos(op.Pos()), "the operation writes no map of the mint object", bad+": whether every refused request removes what it inserted is not decided")
		}
	}
}

// writesMintState: the call writes the mint-quote state with the given constant, itself or in a module function it
// calls (three levels).
func (c *Ctx) writesMintState(ci ssa.CallInstruction, val string, depth int) bool {
	d := c.P.Describe(ci)
	if c.V.DBRole(d, roleSetMint) {
		o := c.P.OriginsOf(ci.Parent())
		for _, a := range d.Args {
			if isConst(o.Of(a), val) {
				return true
			}
		}
		return false
	}
	callee := ci.Common().StaticCallee()
	if callee == nil || callee.Blocks == nil || !c.moduleFn(callee) || depth > 2 {
		return false
	}
	for _, g := range WithClosures(callee) {
		for _, c2 := range Calls(g) {
			if c.writesMintState(c2, val, depth+1) {
				return true
			}
		}
	}
	return false
}
