package nc

import (
	"fmt"
	"strings"

	"golang.org/x/tools/go/ssa"
)

// Point is a program point: just before instruction Idx of block B.
type Point struct {
	B   *ssa.BasicBlock
	Idx int
}

func PointOf(in ssa.Instruction) Point { return Point{in.Block(), instrIndex(in)} }

// Cut describes what is removed from a CFG for a must-pass-through test.
type Cut struct {
	Edges    map[Edge]bool            // removed edges
	Barriers map[ssa.Instruction]bool // removed instructions (paths may not pass them)
}

func NewCut() *Cut {
	return &Cut{Edges: map[Edge]bool{}, Barriers: map[ssa.Instruction]bool{}}
}

func (c *Cut) firstBarrier(b *ssa.BasicBlock, from int) int {
	if c == nil || len(c.Barriers) == 0 {
		return len(b.Instrs)
	}
	for i := from; i < len(b.Instrs); i++ {
		if c.Barriers[b.Instrs[i]] {
			return i
		}
	}
	return len(b.Instrs)
}

// Reach computes whether target is reachable from start with the cut applied.
// It returns a witness path (block indices) when reachable.
func Reach(start Point, target Point, cut *Cut) (bool, []*ssa.BasicBlock) {
	type node struct {
		b    *ssa.BasicBlock
		prev *node
	}
	if start.B == nil || target.B == nil {
		return false, nil
	}
	// pseudo edge: a return that passes on the results of a tail call is cut when the cut says that
	// the call's success establishes the condition (the return is then not a way around it)
	if cut != nil && cut.Edges[Edge{target.B, -1}] && target.Idx == len(target.B.Instrs)-1 {
		if _, isRet := target.B.Instrs[target.Idx].(*ssa.Return); isRet {
			return false, nil
		}
	}
	// A point (B, i) is reached from entering B at position p0 iff no barrier lies in [p0, i).
	fb := cut.firstBarrier(start.B, start.Idx)
	if target.B == start.B && target.Idx >= start.Idx && fb >= target.Idx {
		return true, []*ssa.BasicBlock{start.B}
	}
	visited := map[*ssa.BasicBlock]bool{}
	var queue []*node
	pushSuccs := func(n *node) {
		// a branch on a constant takes one side only
		dead := -1
		if k := len(n.b.Instrs); k > 0 {
			if ifi, ok := n.b.Instrs[k-1].(*ssa.If); ok {
				if cst, ok := ifi.Cond.(*ssa.Const); ok && cst.Value != nil {
					if cst.Value.ExactString() == "true" {
						dead = 1
					} else {
						dead = 0
					}
				}
			}
		}
		for i, s := range n.b.Succs {
			if i == dead {
				continue
			}
			if cut != nil && cut.Edges[Edge{n.b, i}] {
				continue
			}
			if visited[s] {
				continue
			}
			visited[s] = true
			queue = append(queue, &node{s, n})
		}
	}
	first := &node{start.B, nil}
	if fb == len(start.B.Instrs) {
		pushSuccs(first)
	}
	for len(queue) > 0 {
		n := queue[0]
		queue = queue[1:]
		bar := cut.firstBarrier(n.b, 0)
		if n.b == target.B && bar >= target.Idx {
			var path []*ssa.BasicBlock
			for x := n; x != nil; x = x.prev {
				path = append(path, x.b)
			}
			for i, j := 0, len(path)-1; i < j; i, j = i+1, j-1 {
				path[i], path[j] = path[j], path[i]
			}
			return true, path
		}
		if bar == len(n.b.Instrs) {
			pushSuccs(n)
		}
	}
	return false, nil
}

func boolInt(b bool) int {
	if b {
		return 1
	}
	return 0
}

// ReachFromEntry tests reachability of an instruction from the function entry.
func ReachFromEntry(fn *ssa.Function, target ssa.Instruction, cut *Cut) (bool, []*ssa.BasicBlock) {
	return Reach(Point{fn.Blocks[0], 0}, PointOf(target), cut)
}

// PathString renders a witness path with source lines.
func (p *Program) PathString(path []*ssa.BasicBlock) string {
	var parts []string
	last := ""
	for _, b := range path {
		pos := "?"
		for _, in := range b.Instrs {
			if in.Pos().IsValid() {
				pos = p.Pos(in.Pos())
				break
			}
		}
		s := fmt.Sprintf("b%d(%s)", b.Index, pos)
		if s != last {
			parts = append(parts, s)
		}
		last = s
	}
	if len(parts) > 14 {
		parts = append(append(parts[:6:6], "..."), parts[len(parts)-6:]...)
	}
	return strings.Join(parts, " -> ")
}

// Returns lists the return instructions of fn.
func Returns(fn *ssa.Function) []*ssa.Return {
	var out []*ssa.Return
	for _, b := range fn.Blocks {
		if len(b.Instrs) == 0 || b == fn.Recover {
			// the recover block only runs after a recovered panic; it is not a normal exit
			continue
		}
		if r, ok := b.Instrs[len(b.Instrs)-1].(*ssa.Return); ok {
			out = append(out, r)
		}
	}
	return out
}
