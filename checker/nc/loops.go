package nc

import (
	"go/constant"
	"go/token"

	"golang.org/x/tools/go/ssa"
)

// Loop is a natural loop, with the extra facts recognised for "whole range" loops.
type Loop struct {
	Fn      *ssa.Function
	Header  *ssa.BasicBlock
	Blocks  map[*ssa.BasicBlock]bool
	Latches []*ssa.BasicBlock

	// Whole-range information; RangeOf == nil when the loop is not a recognised
	// "for every element of X, in order, exactly once" loop.
	RangeOf ssa.Value // the slice/array/string/map being ranged over
	Index   ssa.Value // the value that indexes RangeOf inside the body (slices)
	Next    *ssa.Next // for map/string range loops
	// index loops over a suffix of a slice: for i := Start; i < len(PartialOf); i++
	PartialOf    ssa.Value
	PartialIndex ssa.Value
	Start        int64 // first index value (0 for whole-range loops)
	BodySucc     int   // header successor index that enters the body
	ExitSucc     int   // header successor index that leaves the loop
}

// LoopInfo holds all loops of a function.
type LoopInfo struct {
	Loops     []*Loop
	byIndex   map[ssa.Value]*Loop
	byNext    map[*ssa.Next]*Loop
	byPartial map[ssa.Value]*Loop
}

func constInt(v ssa.Value) (int64, bool) {
	c, ok := v.(*ssa.Const)
	if !ok || c.Value == nil || c.Value.Kind() != constant.Int {
		return 0, false
	}
	return c.Int64(), true
}

func lenArg(v ssa.Value) ssa.Value {
	call, ok := v.(*ssa.Call)
	if !ok {
		return nil
	}
	b, ok := call.Call.Value.(*ssa.Builtin)
	if !ok || b.Name() != "len" || len(call.Call.Args) != 1 {
		return nil
	}
	return call.Call.Args[0]
}

// FindLoops computes the natural loops of fn.
func FindLoops(fn *ssa.Function) *LoopInfo {
	li := &LoopInfo{byIndex: map[ssa.Value]*Loop{}, byNext: map[*ssa.Next]*Loop{}, byPartial: map[ssa.Value]*Loop{}}
	if fn == nil || len(fn.Blocks) == 0 {
		return li
	}
	byHeader := map[*ssa.BasicBlock]*Loop{}
	for _, b := range fn.Blocks {
		for _, s := range b.Succs {
			if s.Dominates(b) { // back edge b -> s
				l := byHeader[s]
				if l == nil {
					l = &Loop{Fn: fn, Header: s, Blocks: map[*ssa.BasicBlock]bool{s: true}}
					byHeader[s] = l
					li.Loops = append(li.Loops, l)
				}
				l.Latches = append(l.Latches, b)
				// collect body: nodes reaching b without passing the header
				stack := []*ssa.BasicBlock{b}
				for len(stack) > 0 {
					n := stack[len(stack)-1]
					stack = stack[:len(stack)-1]
					if l.Blocks[n] {
						continue
					}
					l.Blocks[n] = true
					for _, pr := range n.Preds {
						stack = append(stack, pr)
					}
				}
			}
		}
	}
	for _, l := range li.Loops {
		l.recogniseRange()
		if l.PartialIndex != nil {
			li.byPartial[l.PartialIndex] = l
		}
		if l.RangeOf != nil {
			if l.Index != nil {
				li.byIndex[l.Index] = l
			}
			if l.Next != nil {
				li.byNext[l.Next] = l
			}
		}
	}
	return li
}

func (l *Loop) recogniseRange() {
	h := l.Header
	if len(h.Instrs) == 0 {
		return
	}
	ifi, ok := h.Instrs[len(h.Instrs)-1].(*ssa.If)
	if !ok || len(h.Succs) != 2 {
		return
	}
	in0, in1 := l.Blocks[h.Succs[0]], l.Blocks[h.Succs[1]]
	if in0 == in1 {
		return
	}
	if in0 {
		l.BodySucc, l.ExitSucc = 0, 1
	} else {
		l.BodySucc, l.ExitSucc = 1, 0
	}
	// map / string range: cond is extract #0 of a Next in the header
	if ex, ok := ifi.Cond.(*ssa.Extract); ok && ex.Index == 0 {
		if nx, ok := ex.Tuple.(*ssa.Next); ok && nx.Block() == h && l.BodySucc == 0 {
			if rg, ok := nx.Iter.(*ssa.Range); ok && !l.Blocks[rg.Block()] {
				l.RangeOf = rg.X
				l.Next = nx
			}
		}
		return
	}
	bin, ok := ifi.Cond.(*ssa.BinOp)
	if !ok || bin.Op != token.LSS || l.BodySucc != 0 {
		return
	}
	x := lenArg(bin.Y)
	if x == nil {
		return
	}
	// len must be computed outside the loop or in the header (it is re-evaluated each time
	// in a classic loop; both are fine as long as X itself is loop invariant)
	if xi, ok := x.(ssa.Instruction); ok && l.Blocks[xi.Block()] {
		// X defined inside the loop: only accept a load of a loop-invariant cell is too subtle; reject
		if _, isPhi := x.(*ssa.Phi); isPhi {
			return
		}
		if xi.Block() != h {
			return
		}
	}
	isLoopPhi := func(v ssa.Value, init int64) (*ssa.Phi, bool) {
		ph, ok := v.(*ssa.Phi)
		if !ok || ph.Block() != h {
			return nil, false
		}
		sawInit, sawStep := false, false
		for i, e := range ph.Edges {
			pred := h.Preds[i]
			if l.Blocks[pred] {
				// latch value must be phi+1 (possibly the same BinOp on all latches)
				b, ok := e.(*ssa.BinOp)
				if !ok || b.Op != token.ADD {
					return nil, false
				}
				one, okc := constInt(b.Y)
				if !okc || one != 1 || b.X != ph {
					return nil, false
				}
				sawStep = true
			} else {
				c, okc := constInt(e)
				if !okc || c != init {
					return nil, false
				}
				sawInit = true
			}
		}
		return ph, sawInit && sawStep
	}
	// rangeindex form: cond = (phi+1) < len(X), phi starts at -1
	if add, ok := bin.X.(*ssa.BinOp); ok && add.Op == token.ADD {
		if one, okc := constInt(add.Y); okc && one == 1 {
			if _, ok := isLoopPhi(add.X, -1); ok && add.Block() == h {
				l.RangeOf = x
				l.Index = add
				return
			}
		}
	}
	// classic form: cond = phi < len(X), phi starts at 0, step +1
	if ph, ok := isLoopPhi(bin.X, 0); ok {
		l.RangeOf = x
		l.Index = ph
		return
	}
	// partial form: for i := k; i < len(X); i++ with constant k > 0 (not a whole-range loop)
	for k := int64(1); k <= 4; k++ {
		if ph, ok := isLoopPhi(bin.X, k); ok {
			l.PartialOf = x
			l.PartialIndex = ph
			l.Start = k
			return
		}
	}
}

// InnermostContaining returns the innermost loop containing block b (nil if none).
func (li *LoopInfo) InnermostContaining(b *ssa.BasicBlock) *Loop {
	var best *Loop
	for _, l := range li.Loops {
		if l.Blocks[b] {
			if best == nil || len(l.Blocks) < len(best.Blocks) {
				best = l
			}
		}
	}
	return best
}
