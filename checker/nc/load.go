package nc

import (
	_ "embed"
	"fmt"
	"go/token"
	"go/types"
	"os"
	"path/filepath"
	"sort"
	"strings"

	"golang.org/x/tools/go/packages"
	"golang.org/x/tools/go/ssa"
	"golang.org/x/tools/go/ssa/ssautil"
)

// Program is the loaded, type-checked and SSA-built view of the repository
// under analysis. Nothing in it is ever executed.
type Program struct {
	RepoDir string
	ModPath string
	Fset    *token.FileSet
	Pkgs    []*packages.Package // module packages, sorted by path
	AllPkgs []*packages.Package // module packages + dependencies (whole mode only has syntax for all)
	SSA     *ssa.Program
	SSAPkg  map[string]*ssa.Package // by package path (module packages)
	Funcs   []*ssa.Function         // every module function with a body, sorted by position
	Whole   bool

	globalErr map[*ssa.Global]bool
	expanding map[*ssa.Function]bool   // new helpers whose results are being expanded (recursion guard)
	canon     map[*ssa.Function]string // renamed functions: current function -> key it had on the reference tree
	Renamed   []string                 // "old key -> new key", for the evidence
	funcByKey map[string]*ssa.Function
	origins   map[*ssa.Function]*Origins
	NFiles    int
}

// LoadOptions controls loading.
type LoadOptions struct {
	Repo    string
	Overlay map[string][]byte // absolute file name -> replacement content (self-test)
	Whole   bool              // load syntax of all dependencies too (thorough tier)
}

func goEnv() []string {
	var env []string
	for _, kv := range os.Environ() {
		k := kv
		if i := strings.IndexByte(kv, '='); i >= 0 {
			k = kv[:i]
		}
		switch k {
		case "GOFLAGS", "GOPROXY", "GOWORK", "GOTOOLCHAIN", "GOSUMDB", "GO111MODULE":
			continue
		}
		env = append(env, kv)
	}
	// The repository pins go 1.23.7; the matching toolchain is in the module
	// cache and is selected automatically (GOTOOLCHAIN must stay "auto" and the
	// checksum database setting must stay at its default for that switch).
	flags := "GOFLAGS=-mod=mod"
	if os.Getenv("NUTCHECK_TRIMPATH") != "" {
		// variants of the tree analysed in scratch directories (thorough tier, development sweeps): without -trimpath
		// the build cache keys every package by its directory, so each variant recompiles the whole module and
		// leaves ~6 MB behind (a thousand variants: 6 GB and most of the run time)
		flags += " -trimpath"
	}
	env = append(env, flags, "GOPROXY=off", "GOWORK=off")
	return env
}

// Load type-checks the repository and builds SSA for it.
func Load(opt LoadOptions) (*Program, error) {
	repo, err := filepath.Abs(opt.Repo)
	if err != nil {
		return nil, err
	}
	mode := packages.NeedName | packages.NeedFiles | packages.NeedCompiledGoFiles |
		packages.NeedImports | packages.NeedDeps | packages.NeedTypes | packages.NeedSyntax |
		packages.NeedTypesInfo | packages.NeedTypesSizes | packages.NeedModule
	cfg := &packages.Config{
		Mode:    mode,
		Dir:     repo,
		Env:     goEnv(),
		Fset:    token.NewFileSet(),
		Tests:   false,
		Overlay: opt.Overlay,
	}
	if !opt.Whole {
		// dependencies come from export data: LoadSyntax for the module only
		cfg.Mode = packages.NeedName | packages.NeedFiles | packages.NeedCompiledGoFiles |
			packages.NeedImports | packages.NeedTypes | packages.NeedSyntax |
			packages.NeedTypesInfo | packages.NeedTypesSizes | packages.NeedModule
	}
	initial, err := packages.Load(cfg, "./...")
	if err != nil {
		return nil, fmt.Errorf("packages.Load: %v", err)
	}
	if len(initial) == 0 {
		return nil, fmt.Errorf("no packages loaded from %s", repo)
	}
	p := &Program{RepoDir: repo, Fset: cfg.Fset, Whole: opt.Whole,
		SSAPkg: map[string]*ssa.Package{}, funcByKey: map[string]*ssa.Function{},
		origins: map[*ssa.Function]*Origins{}, expanding: map[*ssa.Function]bool{}}
	theProgram = p
	var errs []string
	for _, pkg := range initial {
		for _, e := range pkg.Errors {
			errs = append(errs, fmt.Sprintf("%s: %s", pkg.PkgPath, e.Msg))
		}
		if pkg.Module != nil && p.ModPath == "" {
			p.ModPath = pkg.Module.Path
		}
	}
	if len(errs) > 0 {
		sort.Strings(errs)
		if len(errs) > 8 {
			errs = errs[:8]
		}
		return nil, fmt.Errorf("type-check errors in repository:\n  %s", strings.Join(errs, "\n  "))
	}
	if p.ModPath == "" {
		return nil, fmt.Errorf("module path not found")
	}
	sort.Slice(initial, func(i, j int) bool { return initial[i].PkgPath < initial[j].PkgPath })
	p.Pkgs = initial

	bmode := ssa.InstantiateGenerics
	var prog *ssa.Program
	var spkgs []*ssa.Package
	if opt.Whole {
		prog, spkgs = ssautil.AllPackages(initial, bmode)
	} else {
		prog, spkgs = ssautil.Packages(initial, bmode)
	}
	p.SSA = prog
	prog.Build()
	for i, sp := range spkgs {
		if sp == nil {
			return nil, fmt.Errorf("no SSA package for %s", initial[i].PkgPath)
		}
		p.SSAPkg[initial[i].PkgPath] = sp
		p.NFiles += len(initial[i].CompiledGoFiles)
	}
	// collect module functions
	seen := map[*ssa.Function]bool{}
	var add func(f *ssa.Function)
	add = func(f *ssa.Function) {
		if f == nil || seen[f] {
			return
		}
		seen[f] = true
		if f.Blocks != nil {
			p.Funcs = append(p.Funcs, f)
		}
		for _, a := range f.AnonFuncs {
			add(a)
		}
	}
	for _, sp := range spkgs {
		for _, m := range sp.Members {
			switch m := m.(type) {
			case *ssa.Function:
				add(m)
			case *ssa.Type:
				for _, t := range []types.Type{m.Type(), types.NewPointer(m.Type())} {
					ms := prog.MethodSets.MethodSet(t)
					for i := 0; i < ms.Len(); i++ {
						fn := prog.MethodValue(ms.At(i))
						if fn != nil && fn.Synthetic == "" {
							add(fn)
						}
					}
				}
			}
		}
	}
	sort.Slice(p.Funcs, func(i, j int) bool {
		pi, pj := p.Fset.Position(p.Funcs[i].Pos()), p.Fset.Position(p.Funcs[j].Pos())
		if pi.Filename != pj.Filename {
			return pi.Filename < pj.Filename
		}
		if pi.Offset != pj.Offset {
			return pi.Offset < pj.Offset
		}
		return p.Funcs[i].String() < p.Funcs[j].String()
	})
	p.detectRenames()
	for _, f := range p.Funcs {
		p.funcByKey[p.FuncKey(f)] = f
	}
	return p, nil
}

// InModule reports whether the package path belongs to the analysed module.
func (p *Program) InModule(path string) bool {
	return path == p.ModPath || strings.HasPrefix(path, p.ModPath+"/")
}

// Rel strips the module path prefix from a package path.
func (p *Program) Rel(path string) string {
	if path == p.ModPath {
		return "."
	}
	return strings.TrimPrefix(path, p.ModPath+"/")
}

// FuncKey gives a stable, line-free key for a function:
// "mint.(*Mint).Swap", "cashu.DecodeToken", "mint.(*Mint).MintTokens$1".
func (p *Program) FuncKey(f *ssa.Function) string {
	if f == nil {
		return "<nil>"
	}
	if k, ok := p.canon[f]; ok {
		return k
	}
	if f.Parent() != nil {
		// anonymous function: parent key + $n
		idx := 0
		for i, a := range f.Parent().AnonFuncs {
			if a == f {
				idx = i + 1
			}
		}
		return fmt.Sprintf("%s$%d", p.FuncKey(f.Parent()), idx)
	}
	pkg := ""
	if f.Pkg != nil {
		pkg = p.Rel(f.Pkg.Pkg.Path())
	} else if f.Object() != nil && f.Object().Pkg() != nil {
		pkg = p.Rel(f.Object().Pkg().Path())
	}
	if recv := f.Signature.Recv(); recv != nil {
		t := recv.Type()
		star := ""
		if pt, ok := t.(*types.Pointer); ok {
			t = pt.Elem()
			star = "*"
		}
		name := t.String()
		if n, ok := t.(*types.Named); ok {
			name = n.Obj().Name()
		}
		return fmt.Sprintf("%s.(%s%s).%s", pkg, star, name, f.Name())
	}
	return pkg + "." + f.Name()
}

// Func looks a module function up by its key; nil when absent.
func (p *Program) Func(key string) *ssa.Function { return p.funcByKey[key] }

// Pos renders a position relative to the repository root.
func (p *Program) Pos(pos token.Pos) string {
	if !pos.IsValid() {
		return "?"
	}
	ps := p.Fset.Position(pos)
	rel, err := filepath.Rel(p.RepoDir, ps.Filename)
	if err != nil {
		rel = ps.Filename
	}
	return fmt.Sprintf("%s:%d", rel, ps.Line)
}

// InstrPos finds the best source position for an instruction.
func (p *Program) InstrPos(in ssa.Instruction) string {
	if in == nil {
		return "?"
	}
	if in.Pos().IsValid() {
		return p.Pos(in.Pos())
	}
	// fall back to neighbours in the block, then to the function
	b := in.Block()
	if b != nil {
		for _, x := range b.Instrs {
			if x.Pos().IsValid() {
				return p.Pos(x.Pos())
			}
		}
		return p.Pos(b.Parent().Pos())
	}
	return "?"
}

// Named type lookup: pkg relative path + name.
func (p *Program) NamedType(rel, name string) *types.Named {
	sp := p.SSAPkg[p.abs(rel)]
	if sp == nil {
		return nil
	}
	obj := sp.Pkg.Scope().Lookup(name)
	if obj == nil {
		return nil
	}
	n, _ := obj.Type().(*types.Named)
	return n
}

func (p *Program) abs(rel string) string {
	if rel == "." || rel == "" {
		return p.ModPath
	}
	return p.ModPath + "/" + rel
}

// ConstVal returns the constant-folded value of a package-level constant as string.
func (p *Program) ConstVal(rel, name string) (string, bool) {
	sp := p.SSAPkg[p.abs(rel)]
	if sp == nil {
		return "", false
	}
	c, ok := sp.Pkg.Scope().Lookup(name).(*types.Const)
	if !ok {
		return "", false
	}
	return c.Val().ExactString(), true
}

//go:embed reffuncs.txt
var refFuncsText string

var refFuncs = func() map[string]bool {
	m := map[string]bool{}
	for _, l := range strings.Split(refFuncsText, "\n") {
		if l = strings.TrimSpace(l); l != "" {
			m[l] = true
		}
	}
	return m
}()

// IsNewFunc: the module function does not exist (under that name) on the reference tree the rules
// were confirmed on - typically a helper extracted later.
func (p *Program) IsNewFunc(f *ssa.Function) bool {
	// an instance of a generic function is new when the generic function is
	if f != nil && f.Origin() != nil {
		f = f.Origin()
	}
	if len(refFuncs) == 0 || f == nil || f.Pkg == nil || !p.InModule(f.Pkg.Pkg.Path()) {
		return false
	}
	return !refFuncs[p.FuncKey(f)]
}
