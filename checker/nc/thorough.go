package nc

import (
	"bytes"
	"fmt"
	"io"
	"io/fs"
	"os"
	"os/exec"
	"path/filepath"
	"sort"
	"strings"
	"sync"
)

// Thorough tier.
//
// The rules of the quick tier already quantify over every path of the current source, so there is no
// sampling depth to increase. What the thorough tier adds is a both-ways test of the rules themselves
// on variants of the *current* working tree, each analysed by a fresh run of this same binary on a
// scratch copy (nothing is executed, the copies are removed at once):
//
//   - every seeded change kept under <verif>/seeded/<property>-n (a confirmed property-breaking edit):
//     the property's rules must report a violation that the unchanged tree does not have;
//   - every repaired defect of the property listed under "fixed" in known_findings.json: the fix commit
//     is reverse-applied, and the rules must report the defect again;
//   - every behaviour-preserving edit kept under <verif>/benign/ (whichever property it was written
//     for): the rules must stay silent (no violation beyond those of the unchanged tree).
//
// A variant whose patch no longer applies to the current tree is skipped and listed. The outcome is
// recorded in the evidence (coverage.self_test) and printed; it does not change the verdict on the
// current tree, which is decided by the rules alone.

type variant struct {
	name    string
	kind    string // seed | fix | benign
	patch   []byte
	reverse bool
	commit  string
}

func runThorough(c *Ctx, id string) {
	st := &SelfTestResult{}
	c.R.SelfTest = st
	verif := c.Opt.Verif
	var vs []variant
	for _, kind := range []string{"seeded", "benign"} {
		pat := id + "-*"
		if kind == "benign" {
			// an edit that preserves one property's behaviour usually touches code other rules read too:
			// every benign edit is run against every property's rules
			pat = "*"
		}
		dirs, _ := filepath.Glob(filepath.Join(verif, kind, pat))
		sort.Strings(dirs)
		for _, d := range dirs {
			b, err := os.ReadFile(filepath.Join(d, "patch.diff"))
			if err != nil {
				continue
			}
			k := "seed"
			if kind == "benign" {
				k = "benign"
			}
			vs = append(vs, variant{name: filepath.Base(d), kind: k, patch: b})
		}
	}
	known, _ := LoadKnown(filepath.Join(verif, "known_findings.json"))
	if known != nil {
		for _, f := range known.Fixed {
			if f.Property != id || f.Commit == "" {
				continue
			}
			out, err := exec.Command("git", "-C", c.P.RepoDir, "diff", f.Commit+"^", f.Commit, "--", ".", ":(exclude)*_test.go").Output()
			if err != nil || len(out) == 0 {
				st.Skipped++
				st.SkippedIDs = append(st.SkippedIDs, "fix "+f.Commit+" ("+f.Defect+"): commit not available in the repository")
				continue
			}
			vs = append(vs, variant{name: "revert-" + f.Commit + "-" + f.Defect, kind: "fix", patch: out, reverse: true, commit: f.Commit})
		}
	}
	if len(vs) == 0 {
		c.R.Note("thorough: no variants to self-test for %s", id)
		return
	}
	self, err := os.Executable()
	if err != nil {
		c.R.Note("thorough: cannot locate own binary: %v", err)
		return
	}
	// violations of the unchanged tree (there should be none beyond known findings)
	base := map[string]bool{}
	for _, o := range c.R.Obls {
		if o.Status != "discharged" {
			base[o.Key] = true
		}
	}
	type result struct {
		v       variant
		applied bool
		keys    []string
		err     string
	}
	results := make([]result, len(vs))
	sem := make(chan struct{}, 6)
	// Every variant lives in its own scratch directory, and the Go build cache keys a package by its directory: a
	// thousand variants would leave several GB behind. They therefore run on a private build cache - a hard-linked
	// copy of the current one (no space, no recompilation of what is already built) that is removed with the run.
	variantEnv := os.Environ()
	if out, err := exec.Command("go", "env", "GOCACHE").Output(); err == nil {
		src := strings.TrimSpace(string(out))
		tmpc := filepath.Join(os.TempDir(), fmt.Sprintf("nutcheck-gocache-%d", os.Getpid()))
		os.RemoveAll(tmpc)
		if src == "" || exec.Command("cp", "-al", src, tmpc).Run() != nil {
			os.RemoveAll(tmpc)
			os.MkdirAll(tmpc, 0o755)
		}
		defer os.RemoveAll(tmpc)
		variantEnv = append(variantEnv, "GOCACHE="+tmpc)
	}

	var wg sync.WaitGroup
	for i := range vs {
		wg.Add(1)
		go func(i int) {
			defer wg.Done()
			sem <- struct{}{}
			defer func() { <-sem }()
			v := vs[i]
			res := result{v: v}
			defer func() { results[i] = res }()
			tmp, err := os.MkdirTemp("", "nutcheck-variant-")
			if err != nil {
				res.err = err.Error()
				return
			}
			defer os.RemoveAll(tmp)
			if err := copyTree(c.P.RepoDir, tmp); err != nil {
				res.err = "copy: " + err.Error()
				return
			}
			args := []string{"apply", "--whitespace=nowarn"}
			if v.reverse {
				args = append(args, "-R")
			}
			cmd := exec.Command("git", args...)
			cmd.Dir = tmp
			cmd.Stdin = bytes.NewReader(v.patch)
			// outside a repository git apply works on the directory tree
			cmd.Env = append(os.Environ(), "GIT_CEILING_DIRECTORIES="+filepath.Dir(tmp), "GIT_DIR=/nonexistent")
			if out, err := cmd.CombinedOutput(); err != nil {
				// a later change touched the same lines: fall back to the files as they were before the fix
				if !v.reverse || !restoreParentFiles(c.P.RepoDir, tmp, v.commit) {
					res.err = "patch does not apply: " + strings.TrimSpace(firstLine(string(out)))
					return
				}
				res.v.name += " (whole files of the parent commit)"
			}
			res.applied = true
			run := exec.Command(self, "-repo", tmp, "-verif", verif, "-property", id, "-tier", "quick", "-no-evidence")
			run.Env = variantEnv
			out, _ := run.CombinedOutput()
			for _, l := range strings.Split(string(out), "\n") {
				if strings.HasPrefix(l, "  key=") {
					k := strings.TrimPrefix(l, "  key=")
					if !base[k] {
						res.keys = append(res.keys, k)
					}
				}
			}
		}(i)
	}
	wg.Wait()
	for _, r := range results {
		switch {
		case !r.applied:
			st.Skipped++
			st.SkippedIDs = append(st.SkippedIDs, r.v.name+": "+r.err)
		case r.v.kind == "benign":
			st.Benign++
			if len(r.keys) == 0 {
				st.BenignOK++
			} else {
				st.Failures = append(st.Failures, fmt.Sprintf("benign edit %s raises %s", r.v.name, short(strings.Join(r.keys, "; "), 300)))
			}
		default:
			st.Seeds++
			if len(r.keys) > 0 {
				st.Caught++
				st.Detail = append(st.Detail, fmt.Sprintf("%s: reported by %s", r.v.name, short(strings.Join(r.keys, "; "), 300)))
			} else {
				st.Failures = append(st.Failures, fmt.Sprintf("%s %s is not reported by the rules of %s", r.v.kind, r.v.name, id))
			}
		}
	}
	fmt.Printf("%s thorough self-test: breaking variants %d reported / %d applied, benign variants %d silent / %d applied, %d skipped\n",
		id, st.Caught, st.Seeds, st.BenignOK, st.Benign, st.Skipped)
	for _, f := range st.Failures {
		fmt.Printf("  SELFTEST-NOTE: %s\n", f)
	}
}

// restoreParentFiles replaces, in the scratch copy, every non-test file changed by commit with its
// content in the parent commit.
func restoreParentFiles(repo, tmp, commit string) bool {
	out, err := exec.Command("git", "-C", repo, "diff", "--name-only", commit+"^", commit, "--", ".", ":(exclude)*_test.go").Output()
	if err != nil {
		return false
	}
	n := 0
	for _, f := range strings.Fields(string(out)) {
		b, err := exec.Command("git", "-C", repo, "show", commit+"^:"+f).Output()
		if err != nil {
			return false
		}
		if err := os.WriteFile(filepath.Join(tmp, f), b, 0o644); err != nil {
			return false
		}
		n++
	}
	return n > 0
}

func firstLine(s string) string {
	if i := strings.IndexByte(s, '\n'); i >= 0 {
		return s[:i]
	}
	return s
}

// copyTree copies the working tree (without .git and without untracked seed output) to dst.
func copyTree(src, dst string) error {
	return filepath.WalkDir(src, func(path string, d fs.DirEntry, err error) error {
		if err != nil {
			return err
		}
		rel, _ := filepath.Rel(src, path)
		if rel == "." {
			return nil
		}
		if d.IsDir() {
			if d.Name() == ".git" || rel == "OUT" {
				return filepath.SkipDir
			}
			return os.MkdirAll(filepath.Join(dst, rel), 0o755)
		}
		if !d.Type().IsRegular() {
			return nil
		}
		in, err := os.Open(path)
		if err != nil {
			return err
		}
		defer in.Close()
		out, err := os.Create(filepath.Join(dst, rel))
		if err != nil {
			return err
		}
		if _, err := io.Copy(out, in); err != nil {
			out.Close()
			return err
		}
		return out.Close()
	})
}
