package nc

// runThorough adds the thorough-tier work of a property (self-tests, whole-program cross-checks).
func runThorough(c *Ctx, id string) {}
