package nc

import (
	_ "embed"
	"fmt"
	"go/types"
	"sort"
	"strings"

	"golang.org/x/tools/go/ssa"
)

// Rename canonicalisation. Rules anchor some roles on functions of the reference tree by key (DESIGN §2.2
// keeps that to a minimum, but helpers such as the input validator have no other handle). A function that
// was merely renamed (and possibly moved to another file) keeps its role: when a key of the reference tree
// is missing and exactly one function that is new on this tree has the same package, receiver and signature
// and calls mostly the same functions, the new function is given the old key. Everything downstream -
// FuncKey, provenance expressions, summaries, reports - then sees the reference name. An ambiguous or
// dissimilar candidate is not aliased; rules anchored on the missing key then fail closed as before.
//
// refsigs.txt (embedded, generated with `nutcheck -gen-ref` on the reference tree) holds, per top-level
// function: key <TAB> signature <TAB> comma-separated sorted callee names.

//go:embed refsigs.txt
var refSigsText string

type refSig struct {
	Sig     string
	Callees map[string]bool
}

var refSigs = func() map[string]*refSig {
	m := map[string]*refSig{}
	for _, l := range strings.Split(refSigsText, "\n") {
		parts := strings.Split(l, "\t")
		if len(parts) < 2 || parts[0] == "" {
			continue
		}
		r := &refSig{Sig: parts[1], Callees: map[string]bool{}}
		if len(parts) > 2 {
			for _, c := range strings.Split(parts[2], ",") {
				if c != "" {
					r.Callees[c] = true
				}
			}
		}
		m[parts[0]] = r
	}
	return m
}()

// sigString renders receiver and signature without parameter names.
func (p *Program) sigString(f *ssa.Function) string {
	q := func(pk *types.Package) string {
		if p.InModule(pk.Path()) {
			return p.Rel(pk.Path())
		}
		return pk.Path()
	}
	sig := f.Signature
	var b strings.Builder
	if r := sig.Recv(); r != nil {
		b.WriteString("(" + types.TypeString(r.Type(), q) + ")")
	}
	tuple := func(t *types.Tuple) string {
		var ss []string
		for i := 0; i < t.Len(); i++ {
			ss = append(ss, types.TypeString(t.At(i).Type(), q))
		}
		return strings.Join(ss, ",")
	}
	b.WriteString("(" + tuple(sig.Params()) + ")")
	if sig.Variadic() {
		b.WriteString("...")
	}
	b.WriteString("(" + tuple(sig.Results()) + ")")
	return b.String()
}

// calleeSet lists the names of the functions f (with its closures) calls; logging and formatting are left out.
func (p *Program) calleeSet(f *ssa.Function) map[string]bool {
	out := map[string]bool{}
	for _, g := range WithClosures(f) {
		for _, ci := range Calls(g) {
			n := p.Describe(ci).Name
			if n == "dynamic" || strings.HasPrefix(n, "builtin.") || strings.HasPrefix(n, "fmt.") || strings.Contains(n, ").log") || strings.HasPrefix(n, "slog.") {
				continue
			}
			if strings.Contains(n, "$") {
				continue // closures of the function itself carry its name
			}
			out[n] = true
		}
	}
	return out
}

func pkgOfKey(k string) string {
	if i := strings.Index(k, ".("); i >= 0 {
		return k[:i]
	}
	if i := strings.LastIndex(k, "."); i >= 0 {
		return k[:i]
	}
	return ""
}

func (p *Program) detectRenames() {
	p.canon = map[*ssa.Function]string{}
	if len(refSigs) == 0 {
		return
	}
	have := map[string]bool{}
	var news []*ssa.Function
	for _, f := range p.Funcs {
		if f.Parent() != nil {
			continue
		}
		k := p.FuncKey(f)
		have[k] = true
		if _, ok := refSigs[k]; !ok {
			news = append(news, f)
		}
	}
	var missing []string
	for k := range refSigs {
		if !have[k] {
			missing = append(missing, k)
		}
	}
	sort.Strings(missing)
	taken := map[*ssa.Function]bool{}
	for _, mk := range missing {
		ref := refSigs[mk]
		type cand struct {
			f     *ssa.Function
			score float64
		}
		var cands []cand
		for _, f := range news {
			if taken[f] || pkgOfKey(p.FuncKey(f)) != pkgOfKey(mk) || p.sigString(f) != ref.Sig {
				continue
			}
			cs := p.calleeSet(f)
			// a callee that was itself renamed appears under its new name: count it as matching when the
			// reference set has a missing key of the same package
			inter, union := 0, 0
			seen := map[string]bool{}
			for c := range cs {
				seen[c] = true
				union++
				if ref.Callees[c] {
					inter++
				}
			}
			for c := range ref.Callees {
				if !seen[c] {
					union++
				}
			}
			score := 1.0
			if union > 0 {
				score = float64(inter) / float64(union)
			}
			cands = append(cands, cand{f, score})
		}
		sort.Slice(cands, func(i, j int) bool { return cands[i].score > cands[j].score })
		if len(cands) == 0 || cands[0].score < 0.5 {
			continue
		}
		if len(cands) > 1 && cands[1].score >= 0.5 {
			continue // ambiguous: leave unresolved
		}
		f := cands[0].f
		taken[f] = true
		p.Renamed = append(p.Renamed, fmt.Sprintf("%s -> %s", mk, p.FuncKey(f)))
		p.canon[f] = mk
	}
}

// GenRef prints the reference signatures of every top-level module function (input of refsigs.txt).
func GenRef(p *Program) {
	for _, f := range p.Funcs {
		if f.Parent() != nil {
			continue
		}
		var cs []string
		for c := range p.calleeSet(f) {
			cs = append(cs, c)
		}
		sort.Strings(cs)
		fmt.Printf("%s\t%s\t%s\n", p.FuncKey(f), p.sigString(f), strings.Join(cs, ","))
	}
}
