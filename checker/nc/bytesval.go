package nc

import (
	"go/constant"
	"go/token"
	"go/types"
	"sort"
	"strconv"
	"strings"

	"golang.org/x/tools/go/ssa"
)

// Byte-layout evaluation. For a byte slice / array value used at a program point, bytesAt returns the
// sequence of segments the bytes consist of - constant bytes, a whole byte-slice parameter, the result of a
// digest call, the little-endian encoding of a value - whichever way the code assembled them: append chains,
// AppendUint32, or writes into a fixed buffer (copy / PutUint32 / element stores into ranges that tile it).
// It is used where a rule is about WHICH bytes are hashed or parsed, not about how they were put together.

type byteSeg struct {
	K    string              // "const" | "param" | "digest" | "le32" | "unknown"
	S    string              // const: the bytes (as a Go string)
	V    ssa.Value           // param: the parameter; le32: the encoded value
	Call ssa.CallInstruction // digest: the hashing call
	N    int64               // length in bytes, -1 when not known
}

func (s byteSeg) String() string {
	switch s.K {
	case "const":
		return strconv.Quote(s.S)
	case "param":
		return "P:" + s.V.Name()
	case "digest":
		return "digest@" + s.Call.Value().Name()
	case "le32":
		return "le32(" + s.V.Name() + ")"
	}
	return "?"
}

func segsString(ss []byteSeg) string {
	var p []string
	for _, s := range ss {
		p = append(p, s.String())
	}
	return strings.Join(p, " || ")
}

type bytesEval struct {
	p     *Program
	fn    *ssa.Function
	depth int
}

func unknownSeg() []byteSeg { return []byteSeg{{K: "unknown", N: -1}} }

func segsKnown(ss []byteSeg) bool {
	for _, s := range ss {
		if s.K == "unknown" {
			return false
		}
	}
	return len(ss) > 0
}

func segsLen(ss []byteSeg) int64 {
	var n int64
	for _, s := range ss {
		if s.N < 0 {
			return -1
		}
		n += s.N
	}
	return n
}

// merge joins adjacent constant segments.
func mergeSegs(ss []byteSeg) []byteSeg {
	var out []byteSeg
	for _, s := range ss {
		if s.K == "const" && s.N == 0 {
			continue
		}
		if n := len(out); n > 0 && out[n-1].K == "const" && s.K == "const" {
			out[n-1].S += s.S
			out[n-1].N += s.N
			continue
		}
		out = append(out, s)
	}
	return out
}

// sliceSegs cuts [lo, hi) out of a segment list (hi < 0: to the end). Only whole segments and parts of
// constant segments can be cut.
func sliceSegs(ss []byteSeg, lo, hi int64) []byteSeg {
	if lo == 0 && hi < 0 {
		return ss
	}
	total := segsLen(ss)
	if total < 0 {
		return unknownSeg()
	}
	if hi < 0 {
		hi = total
	}
	if lo < 0 || hi > total || lo > hi {
		return unknownSeg()
	}
	var out []byteSeg
	pos := int64(0)
	for _, s := range ss {
		a, b := pos, pos+s.N
		pos = b
		if b <= lo || a >= hi {
			continue
		}
		if a >= lo && b <= hi {
			out = append(out, s)
			continue
		}
		if s.K != "const" {
			return unknownSeg()
		}
		x, y := max64(a, lo)-a, min64(b, hi)-a
		out = append(out, byteSeg{K: "const", S: s.S[x:y], N: y - x})
	}
	return out
}

func max64(a, b int64) int64 {
	if a > b {
		return a
	}
	return b
}
func min64(a, b int64) int64 {
	if a < b {
		return a
	}
	return b
}

// bytesAt evaluates the bytes of v as used by instruction at.
func (be *bytesEval) bytesAt(v ssa.Value, at ssa.Instruction) []byteSeg {
	if be.depth > 12 {
		return unknownSeg()
	}
	be.depth++
	defer func() { be.depth-- }()
	switch x := v.(type) {
	case *ssa.Const:
		if x.Value != nil && x.Value.Kind() == constant.String {
			s := constant.StringVal(x.Value)
			return []byteSeg{{K: "const", S: s, N: int64(len(s))}}
		}
		if x.IsNil() {
			return nil
		}
	case *ssa.Convert:
		return be.bytesAt(x.X, at)
	case *ssa.ChangeType:
		return be.bytesAt(x.X, at)
	case *ssa.Parameter:
		if sl, ok := x.Type().Underlying().(*types.Slice); ok {
			if b, ok := sl.Elem().Underlying().(*types.Basic); ok && b.Kind() == types.Uint8 {
				return []byteSeg{{K: "param", V: x, N: -1}}
			}
		}
		if b, ok := x.Type().Underlying().(*types.Basic); ok && b.Kind() == types.String {
			return []byteSeg{{K: "param", V: x, N: -1}}
		}
		if arr, ok := x.Type().Underlying().(*types.Array); ok {
			if b, ok := arr.Elem().Underlying().(*types.Basic); ok && b.Kind() == types.Uint8 {
				return []byteSeg{{K: "param", V: x, N: arr.Len()}}
			}
		}
	case *ssa.Call:
		d := be.p.Describe(x)
		switch d.Name {
		case "builtin.append":
			if len(x.Call.Args) == 2 {
				return mergeSegs(append(append([]byteSeg{}, be.bytesAt(x.Call.Args[0], x)...), be.bytesAt(x.Call.Args[1], x)...))
			}
		case "encoding/binary.(littleEndian).AppendUint32":
			if len(d.Args) == 2 {
				return mergeSegs(append(append([]byteSeg{}, be.bytesAt(d.Args[0], x)...), byteSeg{K: "le32", V: d.Args[1], N: 4}))
			}
		case "crypto/sha256.Sum256":
			return []byteSeg{{K: "digest", Call: x, N: 32}}
		}
	case *ssa.UnOp:
		if x.Op == token.MUL {
			if al, ok := x.X.(*ssa.Alloc); ok {
				return be.bufferAt(al, x)
			}
		}
	case *ssa.MakeSlice:
		return be.bufferAt(x, at)
	case *ssa.Slice:
		lo, hi := int64(0), int64(-1)
		if x.Low != nil {
			k, ok := constInt(x.Low)
			if !ok {
				return unknownSeg()
			}
			lo = k
		}
		if x.High != nil {
			k, ok := constInt(x.High)
			if !ok {
				return unknownSeg()
			}
			hi = k
		}
		switch b := x.X.(type) {
		case *ssa.Alloc:
			return mergeSegs(sliceSegs(be.bufferAt(b, at), lo, hi))
		default:
			return mergeSegs(sliceSegs(be.bytesAt(x.X, at), lo, hi))
		}
	}
	return unknownSeg()
}

type bufWrite struct {
	in     ssa.Instruction
	lo, hi int64
	segs   []byteSeg
}

// bufferAt gives the content of a fixed-size local buffer (array allocation or make([]byte, n)) at instruction at:
// the ranges written by the last writes must tile the buffer exactly (bytes never written are zero).
func (be *bytesEval) bufferAt(buf ssa.Value, at ssa.Instruction) []byteSeg {
	size := int64(-1)
	switch b := buf.(type) {
	case *ssa.Alloc:
		if arr, ok := b.Type().Underlying().(*types.Pointer).Elem().Underlying().(*types.Array); ok {
			size = arr.Len()
		}
	case *ssa.MakeSlice:
		if k, ok := constInt(b.Len); ok {
			size = k
		}
	}
	if size < 0 {
		return unknownSeg()
	}
	var writes []bufWrite
	okAll := true
	// views: the buffer itself and slices of it, with their offset
	type view struct {
		v   ssa.Value
		off int64
		end int64
	}
	views := []view{{buf, 0, size}}
	for i := 0; i < len(views) && i < 32; i++ {
		vw := views[i]
		refs := vw.v.Referrers()
		if refs == nil {
			continue
		}
		for _, r := range *refs {
			switch y := r.(type) {
			case *ssa.DebugRef:
			case *ssa.Slice:
				if y.X != vw.v {
					continue
				}
				lo, hi := int64(0), vw.end-vw.off
				if y.Low != nil {
					k, ok := constInt(y.Low)
					if !ok {
						okAll = false
						continue
					}
					lo = k
				}
				if y.High != nil {
					k, ok := constInt(y.High)
					if !ok {
						okAll = false
						continue
					}
					hi = k
				}
				views = append(views, view{y, vw.off + lo, vw.off + hi})
			case *ssa.IndexAddr:
				if y.X != vw.v {
					continue
				}
				k, ok := constInt(y.Index)
				if y.Referrers() != nil {
					for _, r2 := range *y.Referrers() {
						if st, isSt := r2.(*ssa.Store); isSt && st.Addr == ssa.Value(y) {
							cb, isC := st.Val.(*ssa.Const)
							if !ok || !isC || cb.Value == nil {
								okAll = false
								continue
							}
							bv, _ := constant.Int64Val(cb.Value)
							writes = append(writes, bufWrite{st, vw.off + k, vw.off + k + 1, []byteSeg{{K: "const", S: string([]byte{byte(bv)}), N: 1}}})
						}
					}
				}
			case *ssa.Store:
				if y.Addr == vw.v {
					// whole-array store
					segs := be.bytesAt(y.Val, y)
					writes = append(writes, bufWrite{y, vw.off, vw.end, segs})
				}
			case *ssa.UnOp:
				// load of the array value: a read
			case *ssa.Call:
				d := be.p.Describe(y)
				switch d.Name {
				case "builtin.copy":
					if len(y.Call.Args) == 2 && y.Call.Args[0] == vw.v {
						src := be.bytesAt(y.Call.Args[1], y)
						n := segsLen(src)
						if n < 0 || !segsKnown(src) {
							okAll = false
							continue
						}
						if n > vw.end-vw.off {
							src = sliceSegs(src, 0, vw.end-vw.off)
							n = vw.end - vw.off
						}
						writes = append(writes, bufWrite{y, vw.off, vw.off + n, src})
					}
				case "encoding/binary.(littleEndian).PutUint32":
					if len(d.Args) == 2 && d.Args[0] == vw.v {
						writes = append(writes, bufWrite{y, vw.off, vw.off + 4, []byteSeg{{K: "le32", V: d.Args[1], N: 4}}})
					}
				case "crypto/sha256.Sum256", "builtin.append", "encoding/hex.EncodeToString", "builtin.len":
					// readers
				default:
					if strings.HasSuffix(d.Name, ".ParsePubKey") || strings.HasPrefix(d.Name, "encoding/hex.") || strings.HasSuffix(d.Name, ").Write") {
						continue // readers
					}
					okAll = false
				}
			default:
				okAll = false
			}
		}
	}
	if !okAll {
		return unknownSeg()
	}
	// keep, per range, the write that reaches `at`: it dominates at, and no other write to an overlapping range
	// can run between it and at
	atBlk := at.Block()
	reaches := func(w bufWrite) bool {
		wb := w.in.Block()
		if wb == atBlk {
			if instrIndex(w.in) >= instrIndex(at) {
				return false
			}
		} else if !wb.Dominates(atBlk) {
			return false
		}
		for _, w2 := range writes {
			if w2.in == w.in || w2.hi <= w.lo || w2.lo >= w.hi {
				continue
			}
			// overlapping write w2 on a path w -> w2 -> at ?
			start := PointOf(w.in)
			start.Idx++
			if r1, _ := Reach(start, PointOf(w2.in), NewCut()); r1 {
				s2 := PointOf(w2.in)
				s2.Idx++
				cut := NewCut()
				cut.Barriers[w.in] = true
				if r2, _ := Reach(s2, PointOf(at), cut); r2 {
					return false
				}
			}
		}
		return true
	}
	var live []bufWrite
	isLive := map[ssa.Instruction]bool{}
	for _, w := range writes {
		if reaches(w) {
			live = append(live, w)
			isLive[w.in] = true
		}
	}
	// a write that is not live but can still run before `at` must be overwritten by a live one on every path
	for _, w := range writes {
		if isLive[w.in] {
			continue
		}
		start := PointOf(w.in)
		start.Idx++
		cut := NewCut()
		for _, l := range live {
			if l.lo <= w.lo && l.hi >= w.hi {
				cut.Barriers[l.in] = true
			}
		}
		if r, _ := Reach(start, PointOf(at), cut); r {
			return unknownSeg() // the content depends on the path taken
		}
	}
	sort.Slice(live, func(i, j int) bool { return live[i].lo < live[j].lo })
	var out []byteSeg
	pos := int64(0)
	for _, w := range live {
		if w.lo < pos {
			return unknownSeg() // overlapping live writes
		}
		if w.lo > pos {
			out = append(out, byteSeg{K: "const", S: strings.Repeat("\x00", int(w.lo-pos)), N: w.lo - pos})
		}
		if segsLen(w.segs) != w.hi-w.lo {
			return unknownSeg()
		}
		out = append(out, w.segs...)
		pos = w.hi
	}
	if pos < size {
		out = append(out, byteSeg{K: "const", S: strings.Repeat("\x00", int(size-pos)), N: size - pos})
	}
	return mergeSegs(out)
}
