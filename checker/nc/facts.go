package nc

import (
	"go/constant"
	"go/token"
	"go/types"

	"golang.org/x/tools/go/ssa"
)

// Fact is what is known on one outgoing edge of a conditional branch, in canonical form.
//
//	Kind     meaning when Pos is true
//	errnil   the error value A is nil                         (A: error-typed expression)
//	nil      the pointer/interface/slice/map A is nil
//	bool     the boolean expression A is true                 (call results, flags, ok-values)
//	cmp      A Op B holds, Op in {==, <, <=}                  (orientation normalised)
//
// Pos false means the negation holds.
type Fact struct {
	Kind string
	Pos  bool
	Op   token.Token
	A, B *Ex
	Cond ssa.Value
	str  string
}

func (f *Fact) String() string {
	if f == nil {
		return "<none>"
	}
	if f.str != "" {
		return f.str
	}
	neg := ""
	if !f.Pos {
		neg = "!"
	}
	var s string
	switch f.Kind {
	case "cmp":
		s = neg + "(" + f.A.String() + " " + f.Op.String() + " " + f.B.String() + ")"
	default:
		s = neg + f.Kind + "(" + f.A.String() + ")"
	}
	f.str = s
	return s
}

// Edge identifies a CFG edge by source block and successor index.
type Edge struct {
	From *ssa.BasicBlock
	Succ int
}

// To is the target block. A pseudo edge (Succ < 0, see AcceptEdges) stands for "the tail call whose
// results the block's return passes on succeeded"; its target is the block itself.
func (e Edge) To() *ssa.BasicBlock {
	if e.Succ < 0 {
		return e.From
	}
	return e.From.Succs[e.Succ]
}

// EdgeFact returns the fact established on the given edge, or nil for unconditional edges.
func (o *Origins) EdgeFact(e Edge) *Fact {
	b := e.From
	if len(b.Instrs) == 0 {
		return nil
	}
	ifi, ok := b.Instrs[len(b.Instrs)-1].(*ssa.If)
	if !ok {
		return nil
	}
	return o.condFact(ifi.Cond, e.Succ == 0)
}

// EdgeFacts returns every fact known on the edge: the fact of the branch condition itself and, when the
// condition is a boolean built by short-circuit evaluation and kept in a variable
// (`expired := locktime > 0 && now > locktime; ...; if expired`), the facts of the operands that must have
// been evaluated to reach this outcome. In SSA such a value is a phi whose other inputs are the constant of
// the opposite outcome; the surviving input's value and the branch edges on the single-predecessor chain
// above it all hold on this edge.
func (o *Origins) EdgeFacts(e Edge) []*Fact {
	b := e.From
	if len(b.Instrs) == 0 {
		return nil
	}
	ifi, ok := b.Instrs[len(b.Instrs)-1].(*ssa.If)
	if !ok {
		return nil
	}
	var out []*Fact
	o.condFacts(ifi.Cond, e.Succ == 0, &out, 0)
	return out
}

func (o *Origins) condFacts(c ssa.Value, truth bool, out *[]*Fact, depth int) {
	if f := o.condFact(c, truth); f != nil {
		*out = append(*out, f)
	}
	if depth > 4 {
		return
	}
	for {
		u, ok := c.(*ssa.UnOp)
		if !ok || u.Op != token.NOT {
			break
		}
		c, truth = u.X, !truth
	}
	phi, ok := c.(*ssa.Phi)
	if !ok || !isBool(phi.Type()) {
		return
	}
	// inputs that are the constant of the opposite outcome are impossible on this edge
	surviving := -1
	for i, in := range phi.Edges {
		if k, ok := in.(*ssa.Const); ok && k.Value != nil {
			if constant.BoolVal(k.Value) != truth {
				continue
			}
		}
		if surviving >= 0 {
			return // several possible inputs: nothing more is known
		}
		surviving = i
	}
	if surviving < 0 {
		return
	}
	in := phi.Edges[surviving]
	if _, isConst := in.(*ssa.Const); !isConst {
		o.condFacts(in, truth, out, depth+1)
	}
	// branch edges on the single-predecessor chain above the surviving input
	blk := phi.Block().Preds[surviving]
	child := phi.Block()
	for steps := 0; steps < 8; steps++ {
		if n := len(blk.Instrs); n > 0 {
			if ifi, ok := blk.Instrs[n-1].(*ssa.If); ok {
				// which successor leads to child? (both may: then nothing is known)
				s0, s1 := blk.Succs[0] == child, blk.Succs[1] == child
				if s0 != s1 {
					o.condFacts(ifi.Cond, s0, out, depth+1)
				}
			}
		}
		if len(blk.Preds) != 1 {
			break
		}
		child, blk = blk, blk.Preds[0]
	}
}

// altFacts lists, for a boolean phi reached with the given outcome, one fact set per input that can produce that
// outcome: what is known when the value came through that input (the input's own facts and the branch edges on
// the single-predecessor chain above it). nil when c is not such a phi or fewer than two inputs survive.
func (o *Origins) altFacts(c ssa.Value, truth bool) [][]*Fact {
	for {
		u, ok := c.(*ssa.UnOp)
		if !ok || u.Op != token.NOT {
			break
		}
		c, truth = u.X, !truth
	}
	phi, ok := c.(*ssa.Phi)
	if !ok || !isBool(phi.Type()) {
		return nil
	}
	var out [][]*Fact
	for i, in := range phi.Edges {
		if k, ok := in.(*ssa.Const); ok && k.Value != nil && constant.BoolVal(k.Value) != truth {
			continue
		}
		var fs []*Fact
		if _, isConst := in.(*ssa.Const); !isConst {
			o.condFacts(in, truth, &fs, 1)
		}
		blk := phi.Block().Preds[i]
		child := phi.Block()
		for steps := 0; steps < 8; steps++ {
			if n := len(blk.Instrs); n > 0 {
				if ifi, ok := blk.Instrs[n-1].(*ssa.If); ok {
					s0, s1 := blk.Succs[0] == child, blk.Succs[1] == child
					if s0 != s1 {
						o.condFacts(ifi.Cond, s0, &fs, 1)
					}
				}
			}
			if len(blk.Preds) != 1 {
				break
			}
			child, blk = blk, blk.Preds[0]
		}
		out = append(out, fs)
	}
	if len(out) < 2 {
		return nil
	}
	return out
}

// condFact canonicalises "cond evaluates to truth".
func (o *Origins) condFact(c ssa.Value, truth bool) *Fact {
	// ok of a look-up in a position index of a list: "a matching element exists" (see indexMapSearch)
	if ex, isEx := c.(*ssa.Extract); isEx && ex.Index == 1 {
		if lk, isLk := ex.Tuple.(*ssa.Lookup); isLk {
			if se := o.indexMapSearch(lk); se != nil {
				zero := &Ex{K: "const", S: "0", Idx: -1}
				if truth {
					return &Fact{Kind: "cmp", Pos: true, Op: token.LEQ, A: zero, B: se, Cond: c}
				}
				return &Fact{Kind: "cmp", Pos: true, Op: token.LSS, A: se, B: zero, Cond: c}
			}
		}
	}
	switch x := c.(type) {
	case *ssa.UnOp:
		if x.Op == token.NOT {
			return o.condFact(x.X, !truth)
		}
	case *ssa.BinOp:
		switch x.Op {
		case token.EQL, token.NEQ:
			pos := truth == (x.Op == token.EQL)
			l, r := x.X, x.Y
			if isNilConst(l) {
				l, r = r, l
			}
			if isNilConst(r) {
				a := o.Of(l)
				kind := "nil"
				if IsErrorType(l.Type()) {
					kind = "errnil"
				}
				return &Fact{Kind: kind, Pos: pos, A: a, Cond: c}
			}
			a, b := o.Of(l), o.Of(r)
			// put constants on the right, otherwise order textually
			if a.K == "const" && b.K != "const" || (a.K != "const" && b.K != "const" && a.String() > b.String()) {
				a, b = b, a
			}
			// boolean comparisons against true/false constants
			if b.K == "const" && (b.S == "true" || b.S == "false") {
				return &Fact{Kind: "bool", Pos: pos == (b.S == "true"), A: a, Cond: c}
			}
			return &Fact{Kind: "cmp", Pos: pos, Op: token.EQL, A: a, B: b, Cond: c}
		case token.LSS, token.LEQ, token.GTR, token.GEQ:
			a, b := o.Of(x.X), o.Of(x.Y)
			op := x.Op
			// normalise > and >= by swapping operands
			if op == token.GTR {
				a, b, op = b, a, token.LSS
			} else if op == token.GEQ {
				a, b, op = b, a, token.LEQ
			}
			if truth {
				return &Fact{Kind: "cmp", Pos: true, Op: op, A: a, B: b, Cond: c}
			}
			// !(a < b) == b <= a ; !(a <= b) == b < a
			if op == token.LSS {
				return &Fact{Kind: "cmp", Pos: true, Op: token.LEQ, A: b, B: a, Cond: c}
			}
			return &Fact{Kind: "cmp", Pos: true, Op: token.LSS, A: b, B: a, Cond: c}
		}
	}
	if bt, ok := c.Type().Underlying().(*types.Basic); ok && bt.Info()&types.IsBoolean != 0 {
		return &Fact{Kind: "bool", Pos: truth, A: o.Of(c), Cond: c}
	}
	return nil
}

func isNilConst(v ssa.Value) bool {
	c, ok := v.(*ssa.Const)
	return ok && c.Value == nil
}

// AllEdges enumerates every conditional edge of fn with its fact.
func (o *Origins) AllEdges() []Edge {
	var out []Edge
	for _, b := range o.Fn.Blocks {
		if len(b.Instrs) == 0 {
			continue
		}
		if _, ok := b.Instrs[len(b.Instrs)-1].(*ssa.If); ok {
			out = append(out, Edge{b, 0}, Edge{b, 1})
		}
	}
	return out
}
