package nc

import (
	"fmt"
	"go/constant"
	"go/token"
	"go/types"
	"os"
	"path/filepath"
	"sort"
	"strings"

	"golang.org/x/tools/go/ssa"
)

// Route is one registered HTTP route.
type Route struct {
	Path    string
	Handler *ssa.Function
	Ops     []*ssa.Function // exported methods of the core type called by the handler
	OpCalls []ssa.CallInstruction
	Site    ssa.Instruction
}

// StmtSite is one SQL statement executed by a storage method.
type StmtSite struct {
	Method  string
	Fn      *ssa.Function
	Exec    ssa.CallInstruction // the call that executes the statement
	Prepare ssa.CallInstruction // the Prepare call for prepared statements (else nil)
	SQL     *SQLStmt
	Args    []ssa.Value   // bound parameters when passed as a literal variadic list; nil when dynamic
	ArgsFn  *ssa.Function // the function the Args values live in (the caller, when a helper forwards its own variadic list)
	Dynamic bool          // parameters passed as a run-time built slice
	OnTx    bool          // executed on a transaction (or a statement prepared on one)
	Scan    ssa.CallInstruction
	Dests   []ssa.Value // Scan destinations
}

// Vocab is the vocabulary extracted from the repository: who plays which role.
type Vocab struct {
	covered map[*ssa.Function]bool // functions whose statements belong to a storage interface method
	P       *Program

	Routes     []*Route
	ServerType types.Type // receiver type of the handlers
	CoreType   *types.Named
	CoreField  string // name of the field of the server holding the core

	DBIface                                                                         *types.Named
	DBField                                                                         string
	DBImpls                                                                         []types.Type
	LNIface                                                                         *types.Named
	LNField                                                                         string
	LNImpls                                                                         []types.Type
	PayMeths                                                                        map[string]int // lightning pay methods -> index of the maxFee parameter (excluding receiver)
	StatusMeth, InvoiceStatusMeth, CreateInvoiceMeth, FeeReserveMeth, SubscribeMeth string

	Stmts       map[string][]*StmtSite // storage method -> statements (first implementation)
	StmtsByImpl map[string]map[string][]*StmtSite
	MethodRoles map[string][]string // storage method -> roles ("INSERT proofs")
	RoleMethods map[string][]string // role -> storage methods

	Schema      *SQLSchema
	SchemaFiles map[string]string
	Problems    []string
}

func (v *Vocab) problem(format string, a ...any) {
	v.Problems = append(v.Problems, fmt.Sprintf(format, a...))
}

// Op returns the core operation behind a route path; nil when not resolvable.
func (v *Vocab) Op(path string) *ssa.Function {
	for _, r := range v.Routes {
		if r.Path == path && len(r.Ops) == 1 {
			return r.Ops[0]
		}
	}
	return nil
}

func (v *Vocab) Route(path string) *Route {
	for _, r := range v.Routes {
		if r.Path == path {
			return r
		}
	}
	return nil
}

// MethodsWithRole returns the storage interface methods that have the given role.
func (v *Vocab) MethodsWithRole(role string) []string { return v.RoleMethods[role] }

// HasRole reports whether a storage method has a role.
func (v *Vocab) HasRole(method, role string) bool {
	for _, r := range v.MethodRoles[method] {
		if r == role {
			return true
		}
	}
	return false
}

// IsDBCall reports whether the call is an invoke of a storage interface method; returns the method name.
func (v *Vocab) IsDBCall(d *CallDesc) (string, bool) {
	if d.Iface == nil || v.DBIface == nil {
		// also accept static calls on an implementation
		if d.Static != nil && d.Static.Signature.Recv() != nil {
			for _, t := range v.DBImpls {
				if types.Identical(d.Static.Signature.Recv().Type(), t) {
					if _, ok := v.MethodRoles[d.Static.Name()]; ok {
						return d.Static.Name(), true
					}
				}
			}
		}
		return "", false
	}
	recvT := d.Common.Value.Type()
	if types.Identical(recvT, v.DBIface) || types.Identical(recvT.Underlying(), v.DBIface.Underlying()) {
		return d.Iface.Name(), true
	}
	return "", false
}

// IsLNCall reports whether the call is an invoke of a Lightning client method.
func (v *Vocab) IsLNCall(d *CallDesc) (string, bool) {
	if d.Iface == nil || v.LNIface == nil {
		return "", false
	}
	if types.Identical(d.Common.Value.Type(), v.LNIface) {
		return d.Iface.Name(), true
	}
	return "", false
}

// DBRole reports whether the call is a storage call having the role.
func (v *Vocab) DBRole(d *CallDesc, role string) bool {
	m, ok := v.IsDBCall(d)
	return ok && v.HasRole(m, role)
}

const muxHandleFunc = "mux.(*Router).HandleFunc"

// BuildVocab extracts the vocabulary.
func BuildVocab(p *Program) *Vocab {
	v := &Vocab{P: p, PayMeths: map[string]int{}, Stmts: map[string][]*StmtSite{},
		StmtsByImpl: map[string]map[string][]*StmtSite{}, MethodRoles: map[string][]string{}, RoleMethods: map[string][]string{}}
	v.findRoutes()
	v.findCore()
	v.findInterfaces()
	v.findStatements()
	v.loadSchema()
	return v
}

func (v *Vocab) findRoutes() {
	p := v.P
	for _, f := range p.Funcs {
		for _, ci := range Calls(f) {
			d := p.Describe(ci)
			if d.Name != muxHandleFunc || len(d.Args) != 2 {
				continue
			}
			c, ok := d.Args[0].(*ssa.Const)
			if !ok || c.Value == nil || c.Value.Kind() != constant.String {
				v.problem("route with non-constant path at %s", p.InstrPos(ci))
				continue
			}
			h := resolveFuncValue(d.Args[1])
			if h == nil {
				v.problem("route %s: handler not resolvable at %s", constant.StringVal(c.Value), p.InstrPos(ci))
				continue
			}
			v.Routes = append(v.Routes, &Route{Path: constant.StringVal(c.Value), Handler: h, Site: ci})
		}
	}
	sort.Slice(v.Routes, func(i, j int) bool { return v.Routes[i].Path < v.Routes[j].Path })
}

// resolveFuncValue finds the declared function behind a function value (method value, closure, func).
func resolveFuncValue(val ssa.Value) *ssa.Function {
	switch x := val.(type) {
	case *ssa.Function:
		return unwrapBound(x)
	case *ssa.MakeClosure:
		if f, ok := x.Fn.(*ssa.Function); ok {
			return unwrapBound(f)
		}
	case *ssa.ChangeType:
		return resolveFuncValue(x.X)
	}
	return nil
}

func unwrapBound(f *ssa.Function) *ssa.Function {
	if f.Synthetic == "" {
		return f
	}
	// bound method wrapper / thunk: single call to the real method
	for _, b := range f.Blocks {
		for _, in := range b.Instrs {
			if c, ok := in.(*ssa.Call); ok {
				if sc := c.Call.StaticCallee(); sc != nil {
					return unwrapBound(sc)
				}
			}
		}
	}
	return f
}

func (v *Vocab) findCore() {
	p := v.P
	// the core type is the (pointer to) named struct type whose exported methods the handlers call
	// through a field of the handler's receiver.
	count := map[*types.Named]int{}
	for _, r := range v.Routes {
		if r.Handler.Signature.Recv() == nil {
			continue
		}
		for _, ci := range Calls(r.Handler) {
			d := p.Describe(ci)
			if d.Static == nil || d.Static.Signature.Recv() == nil || !d.Static.Object().Exported() {
				continue
			}
			if d.Static.Pkg == nil || !p.InModule(d.Static.Pkg.Pkg.Path()) {
				continue
			}
			rt := d.Static.Signature.Recv().Type()
			if pt, ok := rt.(*types.Pointer); ok {
				rt = pt.Elem()
			}
			n, ok := rt.(*types.Named)
			if !ok {
				continue
			}
			// receiver must be loaded from a field of the handler's receiver
			if d.Recv == nil {
				continue
			}
			o := p.OriginsOf(r.Handler)
			e := o.Of(d.Recv)
			if e.K == "field" && len(e.Args) == 1 && e.Args[0].K == "param" {
				count[n]++
			}
		}
	}
	var best *types.Named
	for n, c := range count {
		if best == nil || c > count[best] || (c == count[best] && n.Obj().Name() < best.Obj().Name()) {
			best = n
		}
	}
	v.CoreType = best
	if best == nil {
		v.problem("core operation type not found (no handler calls an exported method through a field of its receiver)")
		return
	}
	for _, r := range v.Routes {
		for _, ci := range Calls(r.Handler) {
			d := p.Describe(ci)
			if d.Static == nil || d.Static.Signature.Recv() == nil || !d.Static.Object().Exported() {
				continue
			}
			rt := d.Static.Signature.Recv().Type()
			if pt, ok := rt.(*types.Pointer); ok {
				rt = pt.Elem()
			}
			if n, ok := rt.(*types.Named); ok && n == best {
				dup := false
				for _, o := range r.Ops {
					if o == d.Static {
						dup = true
					}
				}
				if !dup {
					r.Ops = append(r.Ops, d.Static)
				}
				r.OpCalls = append(r.OpCalls, ci)
			}
		}
	}
}

func (v *Vocab) findInterfaces() {
	p := v.P
	if v.CoreType == nil {
		return
	}
	st, ok := v.CoreType.Underlying().(*types.Struct)
	if !ok {
		v.problem("core type %s is not a struct", v.CoreType)
		return
	}
	for i := 0; i < st.NumFields(); i++ {
		f := st.Field(i)
		n, ok := f.Type().(*types.Named)
		if !ok {
			continue
		}
		it, ok := n.Underlying().(*types.Interface)
		if !ok || n.Obj().Pkg() == nil || !p.InModule(n.Obj().Pkg().Path()) {
			continue
		}
		// Lightning: has a method with a parameter named maxFee
		isLN := false
		for m := 0; m < it.NumMethods(); m++ {
			sig := it.Method(m).Type().(*types.Signature)
			for k := 0; k < sig.Params().Len(); k++ {
				if sig.Params().At(k).Name() == "maxFee" {
					isLN = true
					v.PayMeths[it.Method(m).Name()] = k
				}
			}
		}
		if isLN {
			v.LNIface, v.LNField = n, f.Name()
			v.LNImpls = p.ImplementsIn(it)
			for m := 0; m < it.NumMethods(); m++ {
				meth := it.Method(m)
				sig := meth.Type().(*types.Signature)
				if _, pay := v.PayMeths[meth.Name()]; pay {
					continue
				}
				res := sig.Results()
				if res.Len() == 2 && IsErrorType(res.At(1).Type()) {
					r0 := res.At(0).Type()
					if nn, ok := r0.(*types.Named); ok {
						// same result type as the pay methods -> outgoing payment status
						for pm := range v.PayMeths {
							for mm := 0; mm < it.NumMethods(); mm++ {
								if it.Method(mm).Name() == pm {
									pr := it.Method(mm).Type().(*types.Signature).Results().At(0).Type()
									if types.Identical(pr, nn) {
										v.StatusMeth = meth.Name()
									}
								}
							}
						}
					}
				}
			}
			// the remaining roles are told apart by signature
			for m := 0; m < it.NumMethods(); m++ {
				meth := it.Method(m)
				sig := meth.Type().(*types.Signature)
				if meth.Name() == v.StatusMeth {
					continue
				}
				if _, pay := v.PayMeths[meth.Name()]; pay {
					continue
				}
				res, par := sig.Results(), sig.Params()
				switch {
				case res.Len() == 1 && par.Len() == 1 && isUint64(res.At(0).Type()) && isUint64(par.At(0).Type()):
					v.FeeReserveMeth = meth.Name()
				case res.Len() == 2 && par.Len() == 1 && isUint64(par.At(0).Type()):
					v.CreateInvoiceMeth = meth.Name()
				case res.Len() == 2 && par.Len() == 1 && isString(par.At(0).Type()):
					v.InvoiceStatusMeth = meth.Name()
				case res.Len() == 2 && par.Len() == 2:
					if _, isIface := res.At(0).Type().Underlying().(*types.Interface); isIface {
						v.SubscribeMeth = meth.Name()
					}
				}
			}
			continue
		}
		// storage: implementations use database/sql
		impls := p.ImplementsIn(it)
		usesSQL := false
		for _, t := range impls {
			for m := 0; m < it.NumMethods(); m++ {
				fn := p.MethodOf(t, it.Method(m).Name())
				if fn == nil {
					continue
				}
				for _, ci := range Calls(fn) {
					if strings.HasPrefix(p.Describe(ci).Name, "database/sql.") {
						usesSQL = true
					}
				}
			}
		}
		if usesSQL {
			v.DBIface, v.DBField, v.DBImpls = n, f.Name(), impls
		}
	}
	if v.DBIface == nil {
		v.problem("storage interface of %s not found", v.CoreType.Obj().Name())
	}
	if v.LNIface == nil {
		v.problem("lightning interface of %s not found", v.CoreType.Obj().Name())
	}
}

func isUint64(t types.Type) bool {
	b, ok := t.Underlying().(*types.Basic)
	return ok && b.Kind() == types.Uint64
}

func isString(t types.Type) bool {
	b, ok := t.Underlying().(*types.Basic)
	return ok && b.Kind() == types.String
}

// constStringParts collects the constant pieces of a string expression built with +.
func constStringParts(val ssa.Value) (parts []string, complete bool) {
	switch x := val.(type) {
	case *ssa.Const:
		if x.Value != nil && x.Value.Kind() == constant.String {
			return []string{constant.StringVal(x.Value)}, true
		}
		return nil, false
	case *ssa.BinOp:
		if x.Op == token.ADD {
			l, lc := constStringParts(x.X)
			r, rc := constStringParts(x.Y)
			return append(l, r...), lc && rc
		}
	case *ssa.Phi:
		return nil, false
	}
	return nil, false
}

// constStringPartsBound is constStringParts with parameters replaced by the constants bound to them.
func constStringPartsBound(val ssa.Value, bind map[*ssa.Parameter]ssa.Value) (parts []string, complete bool) {
	switch x := val.(type) {
	case *ssa.Parameter:
		if b, ok := bind[x]; ok {
			return constStringParts(b)
		}
		return nil, false
	case *ssa.BinOp:
		if x.Op == token.ADD {
			l, lc := constStringPartsBound(x.X, bind)
			r, rc := constStringPartsBound(x.Y, bind)
			if len(l) > 0 && len(r) > 0 && lc && rc {
				// pieces of one text: joined without a separator
				return []string{strings.Join(l, "") + strings.Join(r, "")}, true
			}
			return append(l, r...), lc && rc
		}
	}
	return constStringParts(val)
}

// VarArgs unpacks a literal variadic argument list ([]any built by the compiler).
func VarArgs(val ssa.Value) ([]ssa.Value, bool) {
	if c, ok := val.(*ssa.Const); ok && c.Value == nil {
		return []ssa.Value{}, true
	}
	sl, ok := val.(*ssa.Slice)
	if !ok {
		return nil, false
	}
	al, ok := sl.X.(*ssa.Alloc)
	if !ok {
		return nil, false
	}
	arr, ok := al.Type().Underlying().(*types.Pointer).Elem().Underlying().(*types.Array)
	if !ok {
		return nil, false
	}
	out := make([]ssa.Value, arr.Len())
	for _, r := range *al.Referrers() {
		ia, ok := r.(*ssa.IndexAddr)
		if !ok {
			continue
		}
		idx, ok := constInt(ia.Index)
		if !ok {
			return nil, false
		}
		for _, r2 := range *ia.Referrers() {
			if st, ok := r2.(*ssa.Store); ok && st.Addr == ssa.Value(ia) {
				if idx >= 0 && int(idx) < len(out) {
					out[idx] = st.Val
				}
			}
		}
	}
	for _, o := range out {
		if o == nil {
			return nil, false
		}
	}
	return out, true
}

func (v *Vocab) findStatements() {
	p := v.P
	if v.DBIface == nil {
		return
	}
	it := v.DBIface.Underlying().(*types.Interface)
	for _, t := range v.DBImpls {
		tname := typeShort(p, t)
		v.StmtsByImpl[tname] = map[string][]*StmtSite{}
		for m := 0; m < it.NumMethods(); m++ {
			name := it.Method(m).Name()
			fn := p.MethodOf(t, name)
			if fn == nil || fn.Blocks == nil {
				v.problem("storage method %s.%s has no body", tname, name)
				continue
			}
			sites := v.stmtsIn(fn, name)
			v.StmtsByImpl[tname][name] = sites
		}
	}
	// roles from the first implementation; siblings must agree
	var first string
	var names []string
	for n := range v.StmtsByImpl {
		names = append(names, n)
	}
	sort.Strings(names)
	if len(names) > 0 {
		first = names[0]
		v.Stmts = v.StmtsByImpl[first]
	}
	roleSet := func(sites []*StmtSite) []string {
		set := map[string]bool{}
		for _, s := range sites {
			set[s.SQL.Role()] = true
		}
		var out []string
		for r := range set {
			out = append(out, r)
		}
		sort.Strings(out)
		return out
	}
	for m, sites := range v.Stmts {
		v.MethodRoles[m] = roleSet(sites)
		for _, r := range v.MethodRoles[m] {
			v.RoleMethods[r] = append(v.RoleMethods[r], m)
		}
	}
	for r := range v.RoleMethods {
		sort.Strings(v.RoleMethods[r])
	}
	for _, n := range names[min(1, len(names)):] {
		for m, sites := range v.StmtsByImpl[n] {
			if strings.Join(roleSet(sites), ",") != strings.Join(v.MethodRoles[m], ",") {
				v.problem("storage implementations disagree on the role of %s: %s has %v, %s has %v",
					m, first, v.MethodRoles[m], n, roleSet(sites))
			}
		}
	}
}

var sqlExecNames = map[string]bool{"Exec": true, "ExecContext": true, "Query": true, "QueryContext": true,
	"QueryRow": true, "QueryRowContext": true}

// stmtsIn finds the SQL statements executed by fn (and the module functions it calls, depth 2).
func (v *Vocab) stmtsIn(fn *ssa.Function, method string) []*StmtSite {
	p := v.P
	var out []*StmtSite
	seen := map[*ssa.Function]bool{}
	// bind: parameters of a storage-package helper read as the (constant) arguments of the call that reached it:
	// a helper that takes the table / view name as a parameter is read once per caller with that name filled in
	bind := map[*ssa.Parameter]ssa.Value{}
	// a helper that forwards its own variadic list (`exec(query string, args ...any)` -> `db.Exec(query, args...)`)
	// executes the statement with the literal list of the call that reached it
	bindVar := map[*ssa.Parameter][]ssa.Value{}
	bindVarFn := map[*ssa.Parameter]*ssa.Function{}
	var visit func(f *ssa.Function, depth int)
	visit = func(f *ssa.Function, depth int) {
		if seen[f] || f.Blocks == nil {
			return
		}
		seen[f] = true
		if v.covered == nil {
			v.covered = map[*ssa.Function]bool{}
		}
		for _, g := range WithClosures(f) {
			v.covered[g] = true
		}
		for _, ci := range Calls(f) {
			d := p.Describe(ci)
			if d.Static == nil {
				continue
			}
			if d.Static.Pkg != nil && p.InModule(d.Static.Pkg.Pkg.Path()) && depth < 2 {
				// helper inside the storage package
				if d.Static.Pkg == fn.Pkg {
					cargs := ci.Common().Args
					for i, prm := range d.Static.Params {
						if i < len(cargs) {
							if k, isConst := cargs[i].(*ssa.Const); isConst {
								bind[prm] = k
							}
							if i == len(d.Static.Params)-1 && d.Static.Signature.Variadic() {
								if va, ok := VarArgs(cargs[i]); ok {
									bindVar[prm], bindVarFn[prm] = va, f
								} else if k, isConst := cargs[i].(*ssa.Const); isConst && k.IsNil() {
									bindVar[prm], bindVarFn[prm] = []ssa.Value{}, f
								}
							}
						}
					}
					visit(d.Static, depth+1)
				}
				continue
			}
			if !strings.HasPrefix(d.Name, "database/sql.(*") {
				continue
			}
			recvName := d.Name[len("database/sql.(*"):strings.Index(d.Name, ")")]
			mname := d.Static.Name()
			if !sqlExecNames[mname] {
				continue
			}
			site := &StmtSite{Method: method, Fn: f, Exec: ci}
			args := d.Args
			if strings.HasSuffix(mname, "Context") && len(args) > 0 {
				args = args[1:]
			}
			var queryVal ssa.Value
			switch recvName {
			case "DB", "Tx", "Conn":
				if len(args) < 1 {
					continue
				}
				queryVal = args[0]
				args = args[1:]
				site.OnTx = recvName == "Tx"
			case "Stmt":
				// find the Prepare call that produced the receiver
				pc := prepareOf(p, d.Recv)
				if pc == nil {
					v.problem("%s: prepared statement of %s not resolvable", p.InstrPos(ci), method)
					continue
				}
				site.Prepare = pc
				pd := p.Describe(pc)
				pargs := pd.Args
				if strings.HasSuffix(pd.Static.Name(), "Context") {
					pargs = pargs[1:]
				}
				queryVal = pargs[0]
				site.OnTx = strings.Contains(pd.Name, "(*Tx)")
			default:
				continue
			}
			parts, complete := constStringPartsBound(queryVal, bind)
			if len(parts) == 0 {
				v.problem("%s: SQL text of %s is not constant", p.InstrPos(ci), method)
				continue
			}
			sql, err := ParseSQL(strings.Join(parts, " "))
			if err != nil {
				v.problem("%s: %v", p.InstrPos(ci), err)
				continue
			}
			sql.Incomplete = !complete
			site.SQL = sql
			site.ArgsFn = f
			if len(args) == 1 {
				if va, ok := VarArgs(args[0]); ok {
					site.Args = va
				} else if prm, isPrm := args[0].(*ssa.Parameter); isPrm && bindVar[prm] != nil {
					site.Args, site.ArgsFn = bindVar[prm], bindVarFn[prm]
				} else {
					site.Dynamic = true
				}
			}
			// Scan call on the result
			site.Scan, site.Dests = scanOf(p, ci)
			out = append(out, site)
		}
	}
	visit(fn, 0)
	return out
}

func prepareOf(p *Program, stmt ssa.Value) ssa.CallInstruction {
	for i := 0; i < 6; i++ {
		switch x := stmt.(type) {
		case *ssa.Extract:
			if c, ok := x.Tuple.(*ssa.Call); ok {
				d := p.Describe(c)
				if d.Static != nil && strings.HasPrefix(d.Static.Name(), "Prepare") && strings.HasPrefix(d.Name, "database/sql.") {
					return c
				}
			}
			return nil
		case *ssa.Phi:
			if len(x.Edges) > 0 {
				stmt = x.Edges[0]
				continue
			}
		}
		return nil
	}
	return nil
}

// scanOf finds the Scan call consuming the rows/row produced by a query call.
func scanOf(p *Program, q ssa.CallInstruction) (ssa.CallInstruction, []ssa.Value) {
	qv, ok := q.(ssa.Value)
	if !ok {
		return nil, nil
	}
	// the result (or its extract #0) is the receiver of Scan somewhere in the function
	cands := map[ssa.Value]bool{qv: true}
	if refs := qv.Referrers(); refs != nil {
		for _, r := range *refs {
			if ex, ok := r.(*ssa.Extract); ok && ex.Index == 0 {
				cands[ex] = true
			}
		}
	}
	return scanOn(p, q.Parent(), cands, 0)
}

// scanOn: the Scan call whose receiver is one of cands in fn, or - the row handed to a helper that is new on
// this tree (scanQuote(row), also through an interface both *sql.Row and *sql.Rows satisfy) - in that helper.
func scanOn(p *Program, fn *ssa.Function, cands map[ssa.Value]bool, depth int) (ssa.CallInstruction, []ssa.Value) {
	for _, ci := range Calls(fn) {
		d := p.Describe(ci)
		isSQL := d.Static != nil && d.Static.Name() == "Scan" && strings.HasPrefix(d.Name, "database/sql.")
		isIface := d.Iface != nil && d.Iface.Name() == "Scan" && d.Iface.Pkg() != nil && p.InModule(d.Iface.Pkg().Path())
		if !isSQL && !isIface {
			continue
		}
		recv := d.Recv
		if isIface {
			recv = ci.Common().Value
		}
		if recv != nil && cands[recv] && len(d.Args) == 1 {
			if va, ok := VarArgs(d.Args[0]); ok {
				return ci, va
			}
			return ci, nil
		}
	}
	if depth >= 2 {
		return nil, nil
	}
	for _, ci := range Calls(fn) {
		h := ci.Common().StaticCallee()
		if h == nil || h.Blocks == nil || !p.IsNewFunc(h) {
			continue
		}
		for i, a := range ci.Common().Args {
			base := a
			if mi, ok := a.(*ssa.MakeInterface); ok {
				base = mi.X
			}
			if !cands[base] && !cands[a] || i >= len(h.Params) {
				continue
			}
			if sc, dests := scanOn(p, h, map[ssa.Value]bool{h.Params[i]: true}, depth+1); sc != nil {
				return sc, dests
			}
		}
	}
	return nil, nil
}

func (v *Vocab) loadSchema() {
	p := v.P
	v.SchemaFiles = map[string]string{}
	// migration files live next to the storage implementation: <pkgdir>/migrations/*.up.sql
	dirs := map[string]bool{}
	for _, t := range v.DBImpls {
		var n *types.Named
		if pt, ok := t.(*types.Pointer); ok {
			n, _ = pt.Elem().(*types.Named)
		} else {
			n, _ = t.(*types.Named)
		}
		if n == nil || n.Obj().Pkg() == nil {
			continue
		}
		for _, pkg := range p.Pkgs {
			if pkg.PkgPath == n.Obj().Pkg().Path() && len(pkg.GoFiles) > 0 {
				dirs[filepath.Dir(pkg.GoFiles[0])] = true
			}
		}
	}
	for d := range dirs {
		matches, _ := filepath.Glob(filepath.Join(d, "migrations", "*.up.sql"))
		for _, m := range matches {
			b, err := os.ReadFile(m)
			if err != nil {
				v.problem("cannot read migration %s: %v", m, err)
				continue
			}
			v.SchemaFiles[filepath.Base(m)] = string(b)
		}
	}
	if len(v.SchemaFiles) == 0 {
		v.problem("no migration files found")
		return
	}
	sc, err := FoldMigrations(v.SchemaFiles)
	if err != nil {
		v.problem("schema: %v", err)
		return
	}
	v.Schema = sc
}

// StrayStmt is an SQL statement executed outside the storage-interface methods (start-up code, helpers
// that no interface method reaches, other packages).
type StrayStmt struct {
	Fn   *ssa.Function
	Exec ssa.CallInstruction
	SQL  *SQLStmt // nil when the text is not a constant or does not parse
	Why  string
}

// StrayStatements lists the database/sql statements of the module that are not part of a storage
// interface method (the statements the role vocabulary does not cover).
func (v *Vocab) StrayStatements() []*StrayStmt {
	p := v.P
	var out []*StrayStmt
	for _, f := range p.Funcs {
		if v.covered[f] || f.Blocks == nil {
			continue
		}
		top := EnclosingTop(f)
		if top.Pkg != nil && p.Rel(top.Pkg.Pkg.Path()) == "testutils" {
			continue
		}
		for _, ci := range Calls(f) {
			d := p.Describe(ci)
			if d.Static == nil || !strings.HasPrefix(d.Name, "database/sql.(*") || !sqlExecNames[d.Static.Name()] {
				continue
			}
			recvName := d.Name[len("database/sql.(*"):strings.Index(d.Name, ")")]
			if recvName != "DB" && recvName != "Tx" && recvName != "Conn" {
				continue // a prepared statement is reported at its Prepare
			}
			args := d.Args
			if strings.HasSuffix(d.Static.Name(), "Context") && len(args) > 0 {
				args = args[1:]
			}
			if len(args) < 1 {
				continue
			}
			st := &StrayStmt{Fn: f, Exec: ci}
			parts, complete := constStringParts(args[0])
			if (!complete || len(parts) == 0) && f.Parent() == nil && len(f.Params) > 0 {
				// the text arrives through a parameter of a shared helper: one statement per call site, read with
				// the constant argument filled in
				sites := v.callSitesOf(f)
				okAll := len(sites) > 0
				var bound []*StrayStmt
				for _, site := range sites {
					bind := map[*ssa.Parameter]ssa.Value{}
					for i, prm := range f.Params {
						if i < len(site.Common().Args) {
							if k, isConst := site.Common().Args[i].(*ssa.Const); isConst {
								bind[prm] = k
							}
						}
					}
					pb, cb := constStringPartsBound(args[0], bind)
					if !cb || len(pb) == 0 {
						okAll = false
						break
					}
					sql, err := ParseSQL(strings.Join(pb, " "))
					if err != nil {
						okAll = false
						break
					}
					bound = append(bound, &StrayStmt{Fn: f, Exec: ci, SQL: sql})
				}
				if okAll {
					out = append(out, bound...)
					continue
				}
			}
			if len(parts) == 0 {
				st.Why = "SQL text is not a constant"
			} else if sql, err := ParseSQL(strings.Join(parts, " ")); err != nil {
				st.Why = err.Error()
			} else {
				st.SQL = sql
			}
			out = append(out, st)
		}
	}
	return out
}

// callSitesOf: the static call sites of fn in the module.
func (v *Vocab) callSitesOf(fn *ssa.Function) []ssa.CallInstruction {
	var out []ssa.CallInstruction
	for _, f := range v.P.Funcs {
		for _, ci := range Calls(f) {
			if ci.Common().StaticCallee() == fn {
				out = append(out, ci)
			}
		}
	}
	return out
}
