package nc

import (
	"fmt"
	"go/types"
	"reflect"
	"sort"
	"strings"

	"golang.org/x/tools/go/ssa"
)

func init() {
	register("C14", "Decides (R1) that no source-level panic site in the token decoders, constructors and every method of the two Token "+
		"implementations (and what they reach in the module) can fire for any input string / decoded token; and (R2) field coverage of the "+
		"token formats: the V4 builder copies Amount, Secret, C (hex-decoded), Witness of every proof of the whole list into the group of "+
		"that proof's Id, attaches the DLEQ {e,s,r} exactly under (includeDLEQ parameter AND proof has a DLEQ); the V4 accessor rebuilds "+
		"every proof of every group with all five fields and the DLEQ when present; V3 carries the proofs by value with all fields; "+
		"Amount() of both formats sums every proof of every group; mint URL and unit are stored in and returned from the same field; "+
		"Serialize prefixes and the decoders' prefix tests use the same constants and the decoders accept padded and raw base64url; the "+
		"CBOR/JSON keys of the V4 structs are pairwise distinct. Value equality of the round trip (CBOR/JSON library behaviour) is not decided.", rulesC14)
}

func (c *Ctx) tokenScope() map[*ssa.Function]bool {
	var roots []*ssa.Function
	for _, k := range []string{"cashu.DecodeToken", "cashu.DecodeTokenV3", "cashu.DecodeTokenV4", "cashu.NewTokenV3", "cashu.NewTokenV4"} {
		if f := c.P.Func(k); f != nil {
			roots = append(roots, f)
		}
	}
	// every method of every implementation of the Token interface
	if tn := c.P.NamedType("cashu", "Token"); tn != nil {
		if it, ok := tn.Underlying().(*types.Interface); ok {
			for _, t := range c.P.ImplementsIn(it) {
				for _, tt := range []types.Type{t, types.NewPointer(t)} {
					ms := c.P.SSA.MethodSets.MethodSet(tt)
					for i := 0; i < ms.Len(); i++ {
						if f := c.P.SSA.MethodValue(ms.At(i)); f != nil && f.Synthetic == "" {
							roots = append(roots, f)
						}
					}
				}
				roots = append(roots, c.jsonMethodsOf([]types.Type{t}, "MarshalJSON", "UnmarshalJSON", "MarshalCBOR", "UnmarshalCBOR")...)
			}
		}
	}
	return c.ModuleReach(roots)
}

func rulesC14(c *Ctx) {
	R := c.R
	R.Rule("R1", "no panic site in token decoding/accessors can fire", 8)
	R.Rule("R2", "field coverage of the V3/V4 builders and accessors, amounts, mint/unit, prefixes, distinct keys", 20)
	R.Rule("R3", "the decoders never answer a failed step with success: in package cashu the error of every call is tested nil, classified or handed on before a return that may report success; where a fallback decoder is tried, success is reported only behind the fallback's success (shared with C20.R6)", 6)
	c.ruleErrorDisciplinePkgs("R3", []string{"cashu"}, errToleratedMint, 6)
	scope := c.tokenScope()
	if len(scope) < 8 {
		R.Unresolved("R1", "token functions", "fewer than 8 token functions found")
	}
	R.Analysed["functions_in_token_scope"] = len(scope)
	var fns []*ssa.Function
	for f := range scope {
		fns = append(fns, f)
	}
	sort.Slice(fns, func(i, j int) bool { return c.P.FuncKey(fns[i]) < c.P.FuncKey(fns[j]) })
	for _, f := range fns {
		fk := c.P.FuncKey(f)
		for _, s := range c.PanicSites(f) {
			ok, how := c.Discharge(s, 0)
			R.Check("R1", fk, s.Kind+" "+s.Desc, c.P.InstrPos(s.Instr), ok, "panic site "+s.Desc+" cannot fire ("+how+")", how)
		}
	}
	// the command-line wallet passes the argument straight in: nothing between argv and DecodeToken may index it
	if dt := c.P.Func("cashu.DecodeToken"); dt != nil {
		n := 0
		for _, cs := range c.callersOf(dt) {
			top := EnclosingTop(cs.Parent())
			if top.Pkg == nil || !strings.HasPrefix(c.P.Rel(top.Pkg.Pkg.Path()), "cmd/") {
				continue
			}
			n++
			R.Trivial("R1", c.P.FuncKey(cs.Parent()), "DecodeToken call", c.P.InstrPos(cs), "call site passes its string to the total decoder")
		}
		_ = n
	}

	c.c14V4Accessor()
	c.c14V4Builder()
	c.c14V3()
	c.c14Amounts()
	c.c14Prefixes()
	c.c14Keys()
	c.c14DecoderCaps()
}

// fieldsOfWith gives the field values of a struct built by a composite literal / field stores. When the
// value is a merge of several such builds (a field set on one branch only) each field is the merge of
// its values, a field that a branch leaves unset contributing zero:unset.
func fieldsOfWith(e *Ex) map[string]*Ex {
	out := map[string]*Ex{}
	if e == nil {
		return out
	}
	if e.K == "phi" {
		var maps []map[string]*Ex
		for _, a := range e.Args {
			if a.K != "with" {
				return out
			}
			maps = append(maps, fieldsOfWith(a))
		}
		keys := map[string]bool{}
		for _, m := range maps {
			for k := range m {
				keys[k] = true
			}
		}
		for k := range keys {
			var alts []*Ex
			for _, m := range maps {
				if v, ok := m[k]; ok {
					alts = append(alts, v)
				} else {
					alts = append(alts, mk("zero", "unset"))
				}
			}
			out[k] = mkPhi(alts)
		}
		return out
	}
	if e.K != "with" {
		return out
	}
	for _, s := range e.Args[1:] {
		if s.K == "set" {
			// a later store to the same field replaces an earlier one on that path
			out[s.S] = s.Args[0]
		}
	}
	return out
}

func (c *Ctx) c14V4Accessor() {
	R := c.R
	f := c.fn("R2", "cashu.(TokenV4).Proofs")
	if f == nil {
		return
	}
	fk := c.P.FuncKey(f)
	o := c.P.OriginsOf(f)
	rets := Returns(f)
	if len(rets) != 1 {
		R.Undecided("R2", fk, "accessor shape", c.P.Pos(f.Pos()), "V4 accessor", "expected a single return")
		return
	}
	e := o.Of(rets[0].Results[0])
	recv := "P:" + f.Params[0].Name()
	ok := e.K == "acc" && e.S == "append" && len(e.Args) == 2
	detail := short(e.String(), 300)
	if ok {
		fs := fieldsOfWith(e.Args[1])
		grp := "elem(" + recv + ".TokenProofs)"
		pr := "elem(" + grp + ".Proofs)"
		want := map[string]string{
			"Amount":  pr + ".Amount",
			"Secret":  pr + ".Secret",
			"Witness": pr + ".Witness",
			"Id":      fnHexEncode + "(" + grp + ".Id)",
			"C":       fnHexEncode + "(" + pr + ".C)",
		}
		for k, w := range want {
			if fs[k] == nil || fs[k].String() != w {
				ok = false
				got := "<missing>"
				if fs[k] != nil {
					got = short(fs[k].String(), 100)
				}
				detail = "field " + k + " is " + got + ", expected " + w
			}
		}
	}
	R.Check("R2", fk, "every proof of every group rebuilt with Amount, Id, Secret, C, Witness", c.P.InstrPos(rets[0]), ok,
		"the accessor appends, for every group and every proof in it, a Proof with all five plain fields taken from that entry", detail)
	// DLEQ: stored under nonnil(proofV4.DLEQ) with E,S,R hex-encoded from it; and on that edge always stored before the append
	var dleqStore *ssa.Store
	for _, b := range f.Blocks {
		for _, in := range b.Instrs {
			if st, ok := in.(*ssa.Store); ok {
				if fa, ok := st.Addr.(*ssa.FieldAddr); ok && fieldName(fa) == "DLEQ" {
					dleqStore = st
				}
			}
		}
	}
	if dleqStore == nil {
		// the per-proof conversion moved into a helper that is new on this tree
		if hs := c.dleqStoreInHelper(f); hs != nil {
			src := "elem(elem(" + recv + ".TokenProofs).Proofs).DLEQ"
			c.dleqHelperForm("R2", f, hs, func(k string) string { return fnHexEncode + "(" + src + "." + k + ")" },
				[]*Cond{{Name: "entry has a DLEQ", Match: func(f2 *Fact, _ *Origins) bool { return f2.Kind == "nil" && !f2.Pos && f2.A.String() == src }}},
				&Cond{Name: "this entry has no DLEQ", Match: func(f2 *Fact, _ *Origins) bool { return f2.Kind == "nil" && f2.Pos && f2.A.String() == src }},
				"DLEQ store <= entry has a DLEQ", "the rebuilt DLEQ carries e, s and r of the stored one")
			return
		}
		R.Check("R2", fk, "DLEQ copied when present", c.P.Pos(f.Pos()), false, "the accessor copies the DLEQ of a proof when it has one", "no store into a DLEQ field")
		return
	}
	val := o.ContentAt(dleqStore.Val, dleqStore)
	fs := fieldsOfWith(val)
	src := "elem(elem(" + recv + ".TokenProofs).Proofs).DLEQ"
	okD := true
	for _, k := range []string{"E", "S", "R"} {
		w := fnHexEncode + "(" + src + "." + k + ")"
		if fs[k] == nil || fs[k].String() != w {
			okD = false
		}
	}
	R.Check("R2", fk, "DLEQ fields e, s, r copied", c.P.InstrPos(dleqStore), okD, "the rebuilt DLEQ carries e, s and r of the stored one", short(val.String(), 200))
	nn := &Cond{Name: "entry has a DLEQ", Match: func(f2 *Fact, _ *Origins) bool { return f2.Kind == "nil" && !f2.Pos && f2.A.String() == src }}
	okG, why := o.Requires(dleqStore, nn)
	R.Check("R2", fk, "DLEQ store <= entry has a DLEQ", c.P.InstrPos(dleqStore), okG, "the DLEQ is dereferenced only when present", why)
	c.dleqAlwaysBeforeAppend("R2", f, o, dleqStore, func(f2 *Fact) bool { return f2.Kind == "nil" && !f2.Pos && f2.A.String() == src })
}

// dleqAlwaysBeforeAppend: from every edge on which the DLEQ is known present (and wanted), the element is not
// appended / stored into the result without passing the DLEQ store.
func (c *Ctx) dleqAlwaysBeforeAppend(rule string, f *ssa.Function, o *Origins, dleqStore *ssa.Store, isPresent func(*Fact) bool) {
	R := c.R
	fk := c.P.FuncKey(f)
	// sinks: append calls and map updates after the store's block in the same loop body
	var sinks []ssa.Instruction
	for _, b := range f.Blocks {
		for _, in := range b.Instrs {
			switch x := in.(type) {
			case *ssa.Call:
				if bi, ok := x.Call.Value.(*ssa.Builtin); ok && bi.Name() == "append" {
					sinks = append(sinks, in)
				}
			case *ssa.MapUpdate:
				sinks = append(sinks, in)
			}
		}
	}
	cut := NewCut()
	cut.Barriers[dleqStore] = true
	ok, why := true, ""
	n := 0
	for _, e := range o.AllEdges() {
		ft := o.EdgeFact(e)
		if ft == nil || !isPresent(ft) {
			continue
		}
		n++
		for _, s := range sinks {
			// only sinks inside the same innermost loop as the store
			if o.Loops.InnermostContaining(s.Block()) != o.Loops.InnermostContaining(dleqStore.Block()) {
				continue
			}
			// stay within one iteration: do not follow the back edge
			itCut := NewCut()
			itCut.Barriers[dleqStore] = true
			if l := o.Loops.InnermostContaining(dleqStore.Block()); l != nil {
				for _, lb := range l.Latches {
					for i, sc := range lb.Succs {
						if sc == l.Header {
							itCut.Edges[Edge{lb, i}] = true
						}
					}
				}
			}
			if reach, path := Reach(Point{e.To(), 0}, PointOf(s), itCut); reach {
				ok = false
				why = "element stored at " + c.P.InstrPos(s) + " without the DLEQ although it is present: " + c.P.PathString(path)
			}
		}
	}
	if n == 0 {
		ok, why = false, "no edge establishing that the DLEQ is present (and requested)"
	}
	R.Check(rule, fk, "DLEQ attached whenever present (and requested)", c.P.InstrPos(dleqStore), ok,
		"on every path where the proof has a DLEQ (and it is requested) the DLEQ is attached before the element is stored", why)
}

func (c *Ctx) c14V4Builder() {
	R := c.R
	f := c.fn("R2", "cashu.NewTokenV4")
	if f == nil {
		return
	}
	fk := c.P.FuncKey(f)
	o := c.P.OriginsOf(f)
	if len(f.Params) < 4 {
		R.Undecided("R2", fk, "builder shape", c.P.Pos(f.Pos()), "V4 builder", "unexpected parameters")
		return
	}
	proofs, incl := "P:"+f.Params[0].Name(), "P:"+f.Params[3].Name()
	el := "elem(" + proofs + ")"
	// the grouping map update
	var mu *ssa.MapUpdate
	for _, b := range f.Blocks {
		for _, in := range b.Instrs {
			if x, ok := in.(*ssa.MapUpdate); ok {
				mu = x
			}
		}
	}
	if mu == nil {
		R.Check("R2", fk, "proofs grouped by keyset id", c.P.Pos(f.Pos()), false, "the builder groups the proofs by keyset id", "no map update found")
		return
	}
	key := o.Of(mu.Key)
	val := o.Of(mu.Value)
	okKey := key.String() == el+".Id"
	R.Check("R2", fk, "group key is the proof's own Id", c.P.InstrPos(mu), okKey, "every proof goes into the group of its own keyset id", "key is "+short(key.String(), 100))
	okVal := val.K == "append" && len(val.Args) == 2 && val.Args[0].K == "lookup" && val.Args[0].Args[1].String() == key.String()
	var elem *Ex
	if okVal {
		if call, ok := mu.Value.(*ssa.Call); ok && len(call.Call.Args) == 2 {
			if elems, isLit := VarArgs(call.Call.Args[1]); isLit && len(elems) == 1 {
				elem = o.Of(elems[0])
			}
		}
	}
	fs := fieldsOfWith(elem)
	want := map[string]string{
		"Amount":  el + ".Amount",
		"Secret":  el + ".Secret",
		"Witness": el + ".Witness",
		"C":       fnHexDecode + "#0(" + el + ".C)",
	}
	okF, detail := okVal && elem != nil, ""
	if !okF {
		detail = "appended value is " + short(val.String(), 200)
	}
	for k, w := range want {
		if fs[k] == nil || fs[k].String() != w {
			okF = false
			got := "<missing>"
			if fs[k] != nil {
				got = short(fs[k].String(), 100)
			}
			detail = "field " + k + " is " + got + ", expected " + w
		}
	}
	R.Check("R2", fk, "group entry carries Amount, Secret, C, Witness of that proof", c.P.InstrPos(mu), okF,
		"the entry appended to the group is built from that proof's own fields", detail)
	// executed for every proof of the list: the map update is inside the whole-range loop over the parameter
	l := o.Loops.InnermostContaining(mu.Block())
	okLoop := l != nil && l.RangeOf != nil && o.Of(l.RangeOf).String() == proofs
	R.Check("R2", fk, "every proof of the list is grouped", c.P.InstrPos(mu), okLoop, "the grouping runs over the whole proofs parameter", "map update is not inside a whole-range loop over "+proofs)
	// no iteration skips the update except by returning an error
	if okLoop {
		cut := NewCut()
		cut.Barriers[mu] = true
		for b := range l.Blocks {
			for i, s := range b.Succs {
				if !l.Blocks[s] {
					cut.Edges[Edge{b, i}] = true
				}
			}
		}
		body := l.Header.Succs[l.BodySucc]
		reach, path := Reach(Point{body, 0}, Point{l.Header, 0}, cut)
		why := ""
		if reach {
			why = "an iteration can complete without storing the proof: " + c.P.PathString(path)
		}
		R.Check("R2", fk, "no proof is skipped", c.P.InstrPos(mu), !reach, "every completed iteration stores its proof", why)
	}
	// DLEQ
	var dleqStore *ssa.Store
	for _, b := range f.Blocks {
		for _, in := range b.Instrs {
			if st, ok := in.(*ssa.Store); ok {
				if fa, ok := st.Addr.(*ssa.FieldAddr); ok && fieldName(fa) == "DLEQ" {
					dleqStore = st
				}
			}
		}
	}
	if dleqStore == nil {
		if hs := c.dleqStoreInHelper(f); hs != nil {
			c.dleqHelperForm("R2", f, hs, func(k string) string { return fnHexDecode + "#0(" + el + ".DLEQ." + k + ")" },
				[]*Cond{
					{Name: "includeDLEQ parameter is true", Match: func(f2 *Fact, _ *Origins) bool { return f2.Kind == "bool" && f2.Pos && f2.A.String() == incl }},
					{Name: "proof has a DLEQ", Match: func(f2 *Fact, _ *Origins) bool { return f2.Kind == "nil" && !f2.Pos && f2.A.String() == el+".DLEQ" }},
				},
				&Cond{Name: "DLEQ not requested (parameter) or absent (this proof)", Match: func(f2 *Fact, _ *Origins) bool {
					return (f2.Kind == "bool" && !f2.Pos && f2.A.String() == incl) || (f2.Kind == "nil" && f2.Pos && f2.A.String() == el+".DLEQ")
				}},
				"", "the attached DLEQ carries the hex-decoded e, s and r of the proof's DLEQ")
		} else {
			R.Check("R2", fk, "DLEQ attached when requested", c.P.Pos(f.Pos()), false, "the builder attaches the DLEQ when requested", "no store into a DLEQ field")
			return
		}
	}
	if dleqStore != nil {
		dv := fieldsOfWith(o.ContentAt(dleqStore.Val, dleqStore))
		okD := true
		for _, k := range []string{"E", "S", "R"} {
			w := fnHexDecode + "#0(" + el + ".DLEQ." + k + ")"
			if dv[k] == nil || dv[k].String() != w {
				okD = false
			}
		}
		R.Check("R2", fk, "DLEQ fields e, s, r copied", c.P.InstrPos(dleqStore), okD, "the attached DLEQ carries the hex-decoded e, s and r of the proof's DLEQ", short(o.ContentAt(dleqStore.Val, dleqStore).String(), 200))
		want2 := func(f2 *Fact) bool { return f2.Kind == "bool" && f2.Pos && f2.A.String() == incl }
		present := func(f2 *Fact) bool { return f2.Kind == "nil" && !f2.Pos && f2.A.String() == el+".DLEQ" }
		for _, cd := range []*Cond{
			{Name: "includeDLEQ parameter is true", Match: func(f2 *Fact, _ *Origins) bool { return want2(f2) }},
			{Name: "proof has a DLEQ", Match: func(f2 *Fact, _ *Origins) bool { return present(f2) }},
		} {
			ok, why := o.Requires(dleqStore, cd)
			R.Check("R2", fk, "DLEQ store <= "+cd.Name, c.P.InstrPos(dleqStore), ok, "the DLEQ is attached only when ["+cd.Name+"]", why)
		}
		// completeness: requested and present => attached. Within one iteration the element reaches the result without
		// passing the DLEQ store only over an edge that says "the includeDLEQ PARAMETER is false" or "this proof has no
		// DLEQ" (a flag recomputed from something else - the first proof, a length - is not an excuse).
		{
			excuse := &Cond{Name: "DLEQ not requested (parameter) or absent (this proof)", Match: func(f2 *Fact, _ *Origins) bool {
				return (f2.Kind == "bool" && !f2.Pos && f2.A.String() == incl) || (f2.Kind == "nil" && f2.Pos && f2.A.String() == el+".DLEQ")
			}}
			cut := NewCut()
			for e := range o.AcceptEdges(excuse) {
				cut.Edges[e] = true
			}
			cut.Barriers[dleqStore] = true
			l := o.Loops.InnermostContaining(dleqStore.Block())
			okC, whyC := l != nil, "the DLEQ store is not inside the loop over the proofs"
			if l != nil {
				for _, lb := range l.Latches {
					for i, sc := range lb.Succs {
						if sc == l.Header {
							cut.Edges[Edge{lb, i}] = true
						}
					}
				}
				nS := 0
				for b := range l.Blocks {
					for _, in := range b.Instrs {
						isSink := false
						switch x := in.(type) {
						case *ssa.Call:
							if bi, ok := x.Call.Value.(*ssa.Builtin); ok && bi.Name() == "append" {
								isSink = true
							}
						case *ssa.MapUpdate:
							isSink = true
						}
						if !isSink || o.Loops.InnermostContaining(b) != l {
							continue
						}
						nS++
						if reach, path := Reach(Point{l.Header, 0}, PointOf(in), cut); reach {
							okC = false
							whyC = "element stored at " + c.P.InstrPos(in) + " without the DLEQ on a path that neither tests the includeDLEQ parameter false nor finds the proof's DLEQ absent: " + c.P.PathString(path)
						}
					}
				}
				if nS == 0 {
					okC, whyC = false, "no store of the element into the result found in the loop"
				}
			}
			R.Check("R2", fk, "DLEQ attached whenever present (and requested)", c.P.InstrPos(dleqStore), okC,
				"on every path where the includeDLEQ parameter is true and the proof has a DLEQ, the DLEQ is attached before the element is stored", whyC)
		}
	}
	// mint url and unit
	for _, r := range o.SuccessReturns() {
		t := o.Of(r.Results[0])
		fs := fieldsOfWith(t)
		okM := fs["MintURL"] != nil && fs["MintURL"].String() == "P:"+f.Params[1].Name()
		R.Check("R2", fk, "mint URL stored", c.P.InstrPos(r), okM, "the token stores the mint parameter as its mint URL", short(t.String(), 160))
	}
	if g := c.P.Func("cashu.(TokenV4).Mint"); g != nil {
		og := c.P.OriginsOf(g)
		for _, r := range Returns(g) {
			e := og.Of(r.Results[0])
			R.Check("R2", c.P.FuncKey(g), "mint URL returned from the stored field", c.P.InstrPos(r), e.String() == "P:"+g.Params[0].Name()+".MintURL", "Mint() returns the stored mint URL", e.String())
		}
	}
}

func (c *Ctx) c14V3() {
	R := c.R
	f := c.fn("R2", "cashu.NewTokenV3")
	if f == nil {
		return
	}
	fk := c.P.FuncKey(f)
	o := c.P.OriginsOf(f)
	proofs, mint := "P:"+f.Params[0].Name(), "P:"+f.Params[1].Name()
	for _, r := range o.SuccessReturns() {
		t := o.Of(r.Results[0])
		fs := fieldsOfWith(t)
		tok := fs["Token"]
		ok, detail := false, short(t.String(), 200)
		if tok != nil {
			// &slicelit -> element literal
			inner := tok
			if inner.K == "addr" {
				inner = inner.Args[0]
			}
			// find the TokenV3Proof literal stored into the slice literal
			for _, b := range f.Blocks {
				for _, in := range b.Instrs {
					if st, isSt := in.(*ssa.Store); isSt {
						v := o.Of(st.Val)
						if v.K == "with" && strings.Contains(v.Args[0].String(), "TokenV3Proof") {
							tf := fieldsOfWith(v)
							pOK := tf["Proofs"] != nil && (tf["Proofs"].String() == proofs || c.allProofFields(tf["Proofs"], proofs))
							mOK := tf["Mint"] != nil && tf["Mint"].String() == mint
							ok = pOK && mOK
							if !ok {
								detail = "entry is " + short(v.String(), 200)
							}
						}
					}
				}
			}
		}
		R.Check("R2", fk, "V3 carries the proofs with all fields and the mint", c.P.InstrPos(r), ok,
			"the V3 token holds the proofs parameter itself (or copies with every field) and the mint parameter", detail)
	}
	// stripping DLEQ only when not requested, over the whole list
	var strip *ssa.Store
	for _, b := range f.Blocks {
		for _, in := range b.Instrs {
			if st, ok := in.(*ssa.Store); ok {
				if fa, ok := st.Addr.(*ssa.FieldAddr); ok && fieldName(fa) == "DLEQ" && isNilConst(st.Val) {
					strip = st
				}
			}
		}
	}
	if strip != nil {
		incl := "P:" + f.Params[3].Name()
		ok, why := o.Requires(strip, &Cond{Name: "includeDLEQ is false", Match: func(f2 *Fact, _ *Origins) bool { return f2.Kind == "bool" && !f2.Pos && f2.A.String() == incl }})
		R.Check("R2", fk, "DLEQ stripped only when not requested", c.P.InstrPos(strip), ok, "V3 strips the DLEQ only when includeDLEQ is false", why)
	}
	if g := c.P.Func("cashu.(TokenV3).Proofs"); g != nil {
		og := c.P.OriginsOf(g)
		for _, r := range Returns(g) {
			e := og.Of(r.Results[0])
			recv := "P:" + g.Params[0].Name()
			ok := e.K == "acc" && e.S == "append" && len(e.Args) == 2 && e.Args[1].String() == "spread:(elem("+recv+".Token).Proofs)"
			R.Check("R2", c.P.FuncKey(g), "V3 accessor returns every proof of every entry", c.P.InstrPos(r), ok, "Proofs() appends all proofs of all entries", short(e.String(), 200))
		}
	}
}

// allProofFields: map(X => Proof literal with every plain field of elem(X)).
func (c *Ctx) allProofFields(e *Ex, proofs string) bool {
	if e == nil || e.K != "map" || e.Args[0].String() != proofs {
		return false
	}
	fs := fieldsOfWith(e.Args[1])
	for _, k := range []string{"Amount", "Id", "Secret", "C", "Witness"} {
		if fs[k] == nil || fs[k].String() != "elem("+proofs+")."+k {
			return false
		}
	}
	return true
}

func (c *Ctx) c14Amounts() {
	R := c.R
	// Proofs.Amount is the whole-list sum: then Proofs.Amount(X) stands for the sum of elem(X).Amount
	const listSum = "cashu.(Proofs).Amount"
	listSumOK := false
	if f := c.P.Func(listSum); f != nil {
		o := c.P.OriginsOf(f)
		listSumOK = true
		for _, r := range Returns(f) {
			if o.Of(r.Results[0]).String() != "acc(+; #0; elem(P:"+f.Params[0].Name()+").Amount)" {
				listSumOK = false
			}
		}
	}
	if f := c.P.Func("cashu.(TokenV3).Amount"); f != nil {
		o := c.P.OriginsOf(f)
		recv := "P:" + f.Params[0].Name()
		for _, r := range Returns(f) {
			e := o.Of(r.Results[0])
			ok := e.K == "acc" && e.S == "+" && len(e.Args) == 2 && isConst(e.Args[0], "0") && (e.Args[1].String() == "elem(elem("+recv+".Token).Proofs).Amount" ||
				(listSumOK && e.Args[1].String() == listSum+"(elem("+recv+".Token).Proofs)"))
			R.Check("R2", c.P.FuncKey(f), "V3 amount sums every proof of every entry", c.P.InstrPos(r), ok, "Amount() is the sum over all entries and all proofs", short(e.String(), 200))
		}
	} else {
		R.Unresolved("R2", "cashu.(TokenV3).Amount", "not found")
	}
	if f := c.P.Func("cashu.(TokenV4).Amount"); f != nil {
		o := c.P.OriginsOf(f)
		recv := "P:" + f.Params[0].Name()
		for _, r := range Returns(f) {
			e := o.Of(r.Results[0])
			w1 := "elem(cashu.(TokenV4).Proofs(" + recv + ")).Amount"
			w2 := "elem(elem(" + recv + ".TokenProofs).Proofs).Amount"
			ok := e.K == "acc" && e.S == "+" && len(e.Args) == 2 && isConst(e.Args[0], "0") && (e.Args[1].String() == w1 || e.Args[1].String() == w2)
			if !ok && listSumOK && e.String() == listSum+"(cashu.(TokenV4).Proofs("+recv+"))" {
				ok = true
			}
			R.Check("R2", c.P.FuncKey(f), "V4 amount sums every proof", c.P.InstrPos(r), ok, "Amount() is the sum over all proofs of the token", short(e.String(), 200))
		}
	} else {
		R.Unresolved("R2", "cashu.(TokenV4).Amount", "not found")
	}
}

func (c *Ctx) c14Prefixes() {
	R := c.R
	for _, v := range []struct{ ser, dec, prefix string }{
		{"cashu.(TokenV3).Serialize", "cashu.DecodeTokenV3", "cashuA"},
		{"cashu.(TokenV4).Serialize", "cashu.DecodeTokenV4", "cashuB"},
	} {
		ser, dec := c.fn("R2", v.ser), c.fn("R2", v.dec)
		if ser == nil || dec == nil {
			continue
		}
		so := c.P.OriginsOf(ser)
		okS := false
		for _, r := range so.SuccessReturns() {
			e := so.Of(r.Results[0])
			okS = e.K == "bin" && e.S == "+" && isConst(e.Args[0], "\""+v.prefix+"\"")
		}
		R.Check("R2", v.ser, "serialised token starts with "+v.prefix, c.P.Pos(ser.Pos()), okS, "Serialize prefixes the version tag "+v.prefix, "")
		do := c.P.OriginsOf(dec)
		// every success return is cut by prefix == constant, and both base64 alphabets are tried
		prefix := &Cond{Name: "prefix == " + v.prefix, Match: func(f *Fact, _ *Origins) bool {
			if f.Kind == "cmp" && f.Pos && f.Op.String() == "==" && isConst(f.B, "\""+v.prefix+"\"") {
				return f.A.K == "slice" && (isConst(f.A.Args[2], fmt.Sprint(len(v.prefix))) || f.A.Args[2].String() == "len(#\""+v.prefix+"\")") &&
					(f.A.Args[1] == nil || f.A.Args[1].K == "none" || isConst(f.A.Args[1], "0"))
			}
			if f.Kind == "bool" && f.Pos && isCall(f.A, "strings.CutPrefix") && f.A.Idx == 1 && isConst(arg(f.A, 1), "\""+v.prefix+"\"") {
				return true
			}
			return f.Kind == "bool" && f.Pos && isCall(f.A, "strings.HasPrefix") && isConst(arg(f.A, 1), "\""+v.prefix+"\"")
		}}
		R.Check("R2", v.dec, "decoder tests the same prefix", c.P.Pos(dec.Pos()), do.SuccessCut(prefix), "the decoder accepts only strings that start with "+v.prefix, "a success return is reachable without the prefix test")
		pad, raw := false, false
		var decCalls []ssa.CallInstruction
		for _, g := range c.OpFuncs(dec) {
			decCalls = append(decCalls, Calls(g)...)
		}
		for _, ci := range decCalls {
			d := c.P.Describe(ci)
			if d.Name == "encoding/base64.(*Encoding).DecodeString" {
				src := c.P.OriginsOf(ci.Parent()).Of(d.Recv).String()
				if strings.Contains(src, "RawURLEncoding") {
					raw = true
				} else if strings.Contains(src, "URLEncoding") {
					pad = true
				}
			}
		}
		R.Check("R2", v.dec, "decoder accepts padded and raw base64url", c.P.Pos(dec.Pos()), pad && raw, "both base64url variants are tried", "")
	}
}

// c14DecoderCaps: R2 (clause). The CBOR decoder accepts whatever the encoder emits: when a decoding mode is
// configured in the token package, its size limits (array elements, map pairs, nesting) are not set below the
// library defaults - the encoder has no such cap, so a lower limit makes valid tokens undecodable.
func (c *Ctx) c14DecoderCaps() {
	R := c.R
	defaults := map[string]int64{"MaxArrayElements": 131072, "MaxMapPairs": 131072, "MaxNestedLevels": 32}
	n := 0
	ok, why := true, ""
	for _, f := range c.P.Funcs {
		if f.Pkg == nil || c.P.Rel(f.Pkg.Pkg.Path()) != "cashu" {
			continue
		}
		for _, b := range f.Blocks {
			for _, in := range b.Instrs {
				st, isSt := in.(*ssa.Store)
				if !isSt {
					continue
				}
				fa, isFA := st.Addr.(*ssa.FieldAddr)
				if !isFA || !strings.HasSuffix(fa.X.Type().String(), "cbor/v2.DecOptions") {
					continue
				}
				def, limited := defaults[fieldName(fa)]
				if !limited {
					continue
				}
				n++
				if k, isC := constInt(st.Val); !isC || (k != 0 && k < def) {
					ok = false
					why = fmt.Sprintf("%s is set to %s at %s (library default %d)", fieldName(fa), c.P.OriginsOf(f).Of(st.Val).String(), c.P.InstrPos(st), def)
				}
			}
		}
	}
	if n == 0 {
		R.Trivial("R2", "cashu", "CBOR decoder size limits", "cashu/cashu.go", "no decoding mode with size limits is configured (library defaults)")
		return
	}
	R.Check("R2", "cashu", "CBOR decoder size limits", "cashu/cashu.go", ok, "a configured CBOR decoding mode does not cap arrays, maps or nesting below the library defaults", why)
}

func (c *Ctx) c14Keys() {
	R := c.R
	for _, tn := range []string{"TokenV4", "TokenV4Proof", "ProofV4", "DLEQV4", "TokenV3", "TokenV3Proof", "Proof", "DLEQProof"} {
		n := c.P.NamedType("cashu", tn)
		if n == nil {
			R.Unresolved("R2", "type cashu."+tn, "not found")
			continue
		}
		st, ok := n.Underlying().(*types.Struct)
		if !ok {
			continue
		}
		seen := map[string]string{}
		okK, why := true, ""
		for i := 0; i < st.NumFields(); i++ {
			tag := reflect.StructTag(st.Tag(i)).Get("json")
			name := strings.Split(tag, ",")[0]
			if name == "" {
				name = st.Field(i).Name()
			}
			if name == "-" {
				continue
			}
			if prev, dup := seen[name]; dup {
				okK = false
				why = "fields " + prev + " and " + st.Field(i).Name() + " share key " + name
			}
			seen[name] = st.Field(i).Name()
		}
		R.Check("R2", "cashu."+tn, "serialisation keys pairwise distinct", "cashu/cashu.go", okK, "no two fields of "+tn+" share a JSON/CBOR key", why)
	}
}

// dleqStoreInHelper: the (single) store into a DLEQ field inside a helper that is new on this tree and belongs to f.
func (c *Ctx) dleqStoreInHelper(f *ssa.Function) *ssa.Store {
	var found *ssa.Store
	for _, g := range c.OpFuncs(f) {
		if g == f || g.Parent() != nil {
			continue
		}
		for _, b := range g.Blocks {
			for _, in := range b.Instrs {
				if st, ok := in.(*ssa.Store); ok {
					if fa, ok := st.Addr.(*ssa.FieldAddr); ok && fieldName(fa) == "DLEQ" {
						found = st
					}
				}
			}
		}
	}
	return found
}

// dleqHelperForm asks the DLEQ questions of a conversion helper: in every calling context the stored DLEQ carries
// e, s, r as wanted; the store lies behind each guard (inside the helper or before its call); and the helper hands
// back a value without passing the store only over an edge that excuses it (no DLEQ / not requested).
func (c *Ctx) dleqHelperForm(rule string, f *ssa.Function, st *ssa.Store, want func(field string) string, guards []*Cond, excuse *Cond, guardKey, copyWhat string) {
	R := c.R
	fk := c.P.FuncKey(f)
	h := st.Parent()
	ctxs := c.CtxsOf(st)
	okD, detail := len(ctxs) > 0, ""
	for _, oc := range ctxs {
		val := oc.ContentAt(st.Val, st)
		fs := fieldsOfWith(val)
		for _, k := range []string{"E", "S", "R"} {
			if fs[k] == nil || fs[k].String() != want(k) {
				okD = false
				detail = short(val.String(), 200)
			}
		}
	}
	R.Check(rule, fk, "DLEQ fields e, s, r copied", c.P.InstrPos(st), okD, copyWhat, detail)
	for _, cd := range guards {
		ok, why := c.RequireAt(st, cd)
		key := "DLEQ store <= " + cd.Name
		if guardKey != "" {
			key = guardKey
		}
		R.Check(rule, fk, key, c.P.InstrPos(st), ok, "the DLEQ is attached only when ["+cd.Name+"]", why)
	}
	okC, whyC := len(ctxs) > 0, ""
	for _, oc := range ctxs {
		cut := NewCut()
		for e := range oc.AcceptEdges(excuse) {
			cut.Edges[e] = true
		}
		cut.Barriers[st] = true
		rets := oc.SuccessReturns()
		if len(rets) == 0 {
			okC, whyC = false, "the conversion helper has no success return"
		}
		for _, r := range rets {
			if reach, path := Reach(Point{h.Blocks[0], 0}, PointOf(r), cut); reach {
				okC = false
				whyC = "the helper returns the element without the DLEQ on a path that is not excused by [" + excuse.Name + "]: " + c.P.PathString(path)
			}
		}
	}
	R.Check(rule, fk, "DLEQ attached whenever present (and requested)", c.P.InstrPos(st), okC,
		"on every path where the proof has a DLEQ (and it is requested) the DLEQ is attached before the element is handed back", whyC)
}
