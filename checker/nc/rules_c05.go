package nc

import (
	"fmt"
	"go/ast"
	"go/constant"
	"go/token"
	"go/types"
	"strings"

	"golang.org/x/tools/go/ssa"
)

func init() {
	register("C05", "Decides, on every path of the melt operation, the melt-quote poll and the proof-state check, the decision table that "+
		"ties proof/quote effects to the Lightning answer: (R1) inputs are marked spent and the quote set PAID only behind 'pay status == "+
		"Succeeded', 'status look-up == Succeeded' or internal settlement; inputs are released and the quote set UNPAID only behind a "+
		"definitive failure (look-up error is the not-found sentinel / gRPC NotFound, or look-up status == Failed) and only after the pay "+
		"call was classified Failed; any additional way into those effects (a weaker condition, a generic error, a deferred clean-up) is a "+
		"violation; on the success edges every success return passes unlock + mark-spent of the same inputs + PAID with that answer's "+
		"preimage, on the failure edges UNPAID + unlock, with the constants written checked; (R2) the status field of a Lightning answer is "+
		"read only where the paired error is nil or after the explicit Failed override; (R3) in every backend a PaymentStatus value whose "+
		"status is the zero value (Succeeded) is returned only with a non-nil error; (R4) the poll touches the backend and storage only for "+
		"PENDING quotes; (R5) the proof-state check resolves pending quotes before its final reads. It decides the mint's reaction table, "+
		"not the truthfulness or timing of backend answers.", rulesC05)
}

// ExtConst looks a constant up in an imported (non-module) package.
func (p *Program) ExtConst(path, name string) (string, bool) {
	for _, pkg := range p.Pkgs {
		if imp, ok := pkg.Imports[path]; ok && imp.Types != nil {
			if c, ok := imp.Types.Scope().Lookup(name).(*types.Const); ok {
				return c.Val().ExactString(), true
			}
		}
	}
	return "", false
}

// innerArgs gives the provenance of the actual effect call's arguments (receiver first), evaluated in
// the calling context of the operation when the effect sits in a helper.
func (c *Ctx) innerArgs(s EffectSite) []*Ex {
	var o *Origins
	if s.Direct {
		o = c.P.OriginsOf(s.Instr.Parent())
	} else {
		callee := s.Instr.Common().StaticCallee()
		if callee != nil && s.Inner.Parent() == callee {
			o = c.P.OriginsOf(s.Instr.Parent()).Enter(callee, s.Instr)
		} else {
			o = c.P.OriginsOf(s.Inner.Parent())
		}
	}
	d := c.P.Describe(s.Inner)
	var out []*Ex
	if d.Recv != nil {
		out = append(out, o.Of(d.Recv))
	}
	for _, a := range d.Args {
		out = append(out, o.Of(a))
	}
	return out
}

type lnFacts struct {
	c                          *Ctx
	succ, failed, pending, nf  string
	sentinel                   string
	payStatus, lookStatus      func(*Ex) bool
	payCall, lookCall          func(*Ex, int) bool
	paySucceeded, payFailed    *Cond
	lookSucceeded, lookFailed  *Cond
	lookNotFound, lookErrNil   *Cond
	successAny, definitiveFail *Cond
}

func (c *Ctx) lnFacts(rule string, internal func(*Fact) bool) *lnFacts {
	l := &lnFacts{c: c}
	var ok bool
	if l.succ, ok = c.P.ConstVal("mint/lightning", "Succeeded"); !ok {
		c.R.Unresolved(rule, "lightning.Succeeded", "constant not found")
		return nil
	}
	l.failed, _ = c.P.ConstVal("mint/lightning", "Failed")
	l.pending, _ = c.P.ConstVal("mint/lightning", "Pending")
	if l.nf, ok = c.P.ExtConst("google.golang.org/grpc/codes", "NotFound"); !ok {
		l.nf = "5"
		c.R.Note("grpc codes.NotFound not resolvable from imports; using its documented value 5")
	}
	l.sentinel = "G:mint/lightning.OutgoingPaymentNotFound"
	l.payCall = func(e *Ex, idx int) bool {
		if e == nil || e.K != "call" || e.Idx != idx || e.Call == nil {
			return false
		}
		m, isLN := c.V.IsLNCall(c.P.Describe(e.Call))
		_, pay := c.V.PayMeths[m]
		return isLN && pay
	}
	l.lookCall = func(e *Ex, idx int) bool {
		if e == nil || e.K != "call" || e.Idx != idx || e.Call == nil {
			return false
		}
		m, isLN := c.V.IsLNCall(c.P.Describe(e.Call))
		return isLN && m == c.V.StatusMeth
	}
	l.payStatus = func(e *Ex) bool {
		n := 0
		for _, a := range e.Alts() {
			if isConst(a, l.failed) {
				continue
			}
			if isField(a, "PaymentStatus") && l.payCall(a.Args[0], 0) {
				n++
				continue
			}
			return false
		}
		return n > 0
	}
	l.lookStatus = func(e *Ex) bool { return isField(e, "PaymentStatus") && l.lookCall(e.Args[0], 0) }
	eq := func(name string, isVal func(*Ex) bool, val string) *Cond {
		return &Cond{Name: name, Match: func(f *Fact, o *Origins) bool {
			return f.Kind == "cmp" && f.Pos && f.Op.String() == "==" && isVal(f.A) && isConst(f.B, val)
		}}
	}
	l.paySucceeded = eq("pay status == Succeeded", l.payStatus, l.succ)
	l.payFailed = eq("pay status == Failed", l.payStatus, l.failed)
	l.lookSucceeded = eq("look-up status == Succeeded", l.lookStatus, l.succ)
	l.lookFailed = eq("look-up status == Failed", l.lookStatus, l.failed)
	l.lookErrNil = &Cond{Name: "look-up error is nil", Match: func(f *Fact, o *Origins) bool {
		return f.Kind == "errnil" && f.Pos && l.lookCall(f.A, 1)
	}}
	l.lookNotFound = &Cond{Name: "look-up says no such payment", Match: func(f *Fact, o *Origins) bool {
		if f.Kind == "bool" && f.Pos && isCall(f.A, "errors.Is") && l.lookCall(arg(f.A, 0), 1) && exprIs(arg(f.A, 1), l.sentinel) {
			return true
		}
		if f.Kind == "cmp" && f.Pos && f.Op.String() == "==" && isCallSuffix(f.A, "status.Code") && l.lookCall(arg(f.A, 0), 1) && isConst(f.B, l.nf) {
			return true
		}
		return false
	}}
	l.successAny = &Cond{Name: "payment succeeded (pay answer, look-up answer or internal settlement)", Match: func(f *Fact, o *Origins) bool {
		return l.paySucceeded.Match(f, o) || l.lookSucceeded.Match(f, o) || (internal != nil && internal(f))
	}}
	l.definitiveFail = &Cond{Name: "definitive failure (no such payment, or look-up status Failed)", Match: func(f *Fact, o *Origins) bool {
		return l.lookNotFound.Match(f, o) || l.lookFailed.Match(f, o)
	}}
	return l
}

// paramOfColumn finds which parameter (index excluding receiver) of a storage method is bound to a column.
func (c *Ctx) paramOfColumn(method, role, col string) int {
	for _, st := range c.V.Stmts[method] {
		if st.SQL.Role() != role || st.Args == nil {
			continue
		}
		// bound parameters in statement order: SET columns then WHERE columns for UPDATE; column list for INSERT
		var cols []string
		switch st.SQL.Verb {
		case "UPDATE":
			cols = append(append(cols, st.SQL.Cols...), st.SQL.Where...)
		case "INSERT":
			cols = st.SQL.Cols
		default:
			cols = st.SQL.Where
		}
		afn := st.ArgsFn
		if afn == nil {
			afn = st.Fn
		}
		o := c.P.OriginsOf(afn)
		for i, cn := range cols {
			if cn != col || i >= len(st.Args) {
				continue
			}
			e := o.Of(st.Args[i])
			for pi, prm := range afn.Params {
				if pi == 0 {
					continue
				}
				want := "P:" + prm.Name()
				if e.Has(func(x *Ex) bool { return x.K == "param" && x.String() == want }) {
					return pi - 1
				}
			}
		}
	}
	return -1
}

// afterEdges: every success return reachable from any of the given edges passes an edge establishing cond.
func (c *Ctx) afterEdges(o *Origins, from map[Edge]bool, cond *Cond) (bool, string, int) {
	acc := o.AcceptEdges(cond)
	cut := NewCut()
	for e := range acc {
		cut.Edges[e] = true
	}
	n := 0
	for e := range from {
		cut := forcedByEntry(e, cut)
		for _, r := range o.SuccessReturns() {
			if reach, _ := Reach(Point{e.To(), 0}, PointOf(r), NewCut()); !reach {
				continue
			}
			n++
			if reach, path := Reach(Point{e.To(), 0}, PointOf(r), cut); reach {
				return false, fmt.Sprintf("success return at %s reachable after the edge at %s without [%s]: %s", c.P.InstrPos(r), c.P.InstrPos(e.From.Instrs[len(e.From.Instrs)-1]), cond.Name, c.P.PathString(path)), n
			}
		}
	}
	return true, "", n
}

// forcedByEntry: a block entered over the edge e may start with phis that take a boolean constant on that
// edge (the join of a short-circuit `a || b` kept in a local); a branch on such a phi has one feasible
// side for a walk that starts on e. The other side is added to a copy of the cut, as long as the
// branch cannot be reached a second time from the side taken.
func forcedByEntry(e Edge, cut *Cut) *Cut {
	if e.Succ < 0 {
		return cut
	}
	known := map[ssa.Value]bool{}
	out := cut
	cur := e
	for steps := 0; steps < 8; steps++ {
		t := cur.To()
		pi := -1
		for i, p := range t.Preds {
			if p == cur.From {
				if pi >= 0 {
					return out // both sides of a branch lead here: the edge does not identify the phi input
				}
				pi = i
			}
		}
		if pi < 0 || len(t.Instrs) == 0 {
			return out
		}
		for _, in := range t.Instrs {
			phi, ok := in.(*ssa.Phi)
			if !ok {
				break
			}
			switch v := phi.Edges[pi].(type) {
			case *ssa.Const:
				if v.Value != nil && v.Value.Kind() == constant.Bool {
					known[phi] = constant.BoolVal(v.Value)
				}
			default:
				if b, ok := known[v]; ok {
					known[phi] = b
				}
			}
		}
		ifi, ok := t.Instrs[len(t.Instrs)-1].(*ssa.If)
		if !ok {
			return out
		}
		val, ok := known[ifi.Cond]
		if !ok {
			if un, isNot := ifi.Cond.(*ssa.UnOp); isNot && un.Op == token.NOT {
				if b, ok2 := known[un.X]; ok2 {
					val, ok = !b, true
				}
			}
		}
		if !ok {
			return out
		}
		taken, other := 0, 1
		if !val {
			taken, other = 1, 0
		}
		if back, _ := Reach(Point{t.Succs[taken], 0}, Point{t, 0}, NewCut()); back {
			return out
		}
		if out == cut {
			out = NewCut()
			for k := range cut.Edges {
				out.Edges[k] = true
			}
			for k := range cut.Barriers {
				out.Barriers[k] = true
			}
		}
		out.Edges[Edge{t, other}] = true
		cur = Edge{t, taken}
	}
	return out
}

func rulesC05(c *Ctx) {
	R := c.R
	R.Rule("R9", "who may release locked inputs: every call chain to a DELETE on the pending table starts in the melt operation or the melt-quote poll (shared with C01.R11, C07.R6)", 3)
	R.Rule("R8", "the storage readers of a melt quote report what is stored: every column scanned into a local (state kept as text, the MPP flag and amount) is carried into the returned quote", 4)
	R.Rule("R1", "melt op / poll: spend + PAID only behind success facts; release + UNPAID only behind definitive-failure facts after a Failed pay; completeness on both edges; constants and preimage written", 30)
	R.Rule("R2", "Lightning answer status is read only where the paired error is nil or after the Failed override", 4)
	R.Rule("R7", "the lock on a melt's inputs is exclusive: the pending-table insert is a plain INSERT in one transaction (a second melt cannot take over or share the lock; shared with C01.R6)", 4)
	c.checkAtomicMultiRow("R7", roleLock)
	R.Rule("R6", "the melt-quote poll asks the backend whenever the stored state is PENDING (once the backend knows the outcome the next poll adopts it)", 1)
	c.ruleMeltPollCompleteness("R6")
	R.Rule("R3", "backends: a PaymentStatus with zero (Succeeded) status is returned only with a non-nil error", 12)
	R.Rule("R4", "poll touches backend and storage only for PENDING quotes", 5)
	R.Rule("R5", "proof-state check resolves pending quotes before its final reads", 2)
	c.vocabProblems("R1")
	c.meltDecisionTable("R1", true)
	c.c05Backends()
	c.scannedLocalsReachResult("R8", "GetMeltQuote", "GetMeltQuoteByPaymentRequest")
	c.ruleUnlockCallers("R9")
	c.ruleResolveBeforeAnswer("R5")
	R.Rule("R12", "a melt quote outlives its payment: no statement of the module deletes or replaces rows of melt_quotes (a PENDING quote that disappears can never adopt the Lightning outcome, its inputs stay locked or a late success is never recorded)", 1)
	c.ruleNoEraseTable("R12", "melt_quotes", "melt quotes are never deleted", false)
	R.Rule("R11", "what is released / marked spent: in the melt operation the request's inputs (their Ys), in the poll every row the pending table holds for the quote's id (Y for the release, the proof rebuilt field by field for the spent table)", 8)
	c.ruleMeltEffectOperands("R11")
	R.Rule("R10", "the melt answer reports what was stored: after a successful melt-quote write the returned quote carries the written state and preimage (operation, poll, internal settlement and helpers new on this tree)", 8)
	c.ruleAnswerReportsStored("R10", []*ssa.Function{c.op("R10", "/v1/melt/{method}"), c.op("R10", "/v1/melt/quote/{method}/{quote_id}")},
		roleSetMelt, roleReadMelt, map[string]string{"state": "State", "preimage": "Preimage"}, 8)
}

// meltDecisionTable decides the effect/outcome table of the melt op and the melt-quote poll
// (C05.R1, also used as C01.R5 and C07); full adds the status-read and poll-scope rules.
func (c *Ctx) meltDecisionTable(r1 string, full bool) {
	R := c.R

	melt := c.op(r1, "/v1/melt/{method}")
	poll := c.op(r1, "/v1/melt/quote/{method}/{quote_id}")
	paid, ok1 := c.P.ConstVal("cashu/nuts/nut05", "Paid")
	unpaid, ok2 := c.P.ConstVal("cashu/nuts/nut05", "Unpaid")
	pendingQ, ok3 := c.P.ConstVal("cashu/nuts/nut05", "Pending")
	if !ok1 || !ok2 || !ok3 {
		R.Unresolved(r1, "nut05 state constants", "not found")
		return
	}
	setMeths := c.V.MethodsWithRole(roleSetMelt)
	if len(setMeths) != 1 {
		R.Unresolved(r1, "storage method with role "+roleSetMelt, fmt.Sprintf("found %v", setMeths))
		return
	}
	pState := c.paramOfColumn(setMeths[0], roleSetMelt, "state")
	pPre := c.paramOfColumn(setMeths[0], roleSetMelt, "preimage")
	pID := c.paramOfColumn(setMeths[0], roleSetMelt, "id")
	if pState < 0 || pPre < 0 || pID < 0 {
		R.Unresolved(r1, "parameters of "+setMeths[0], fmt.Sprintf("state=%d preimage=%d id=%d", pState, pPre, pID))
		return
	}

	for _, opInfo := range []struct {
		name string
		op   *ssa.Function
	}{{"melt", melt}, {"poll", poll}} {
		op := opInfo.op
		if op == nil {
			continue
		}
		fk := c.P.FuncKey(op)
		o := c.P.OriginsOf(op)
		isQuote := func(e *Ex) bool {
			return e != nil && e.K == "call" && e.Idx == 0 && c.dbCallWithRole(e, roleReadMelt)
		}
		var internal func(*Fact) bool
		if opInfo.name == "melt" {
			internal = func(f *Fact) bool {
				// the internal-settlement branch: a mint quote with the same payment hash exists
				return f.Kind == "errnil" && f.Pos && f.A.K == "call" && f.A.Idx == 1 && c.dbCallWithRole(f.A, roleReadMint) &&
					isField(arg(f.A, 1), "PaymentHash") && isQuote(arg(f.A, 1).Args[0])
			}
		}
		ln := c.lnFacts(r1, internal)
		if ln == nil {
			return
		}
		// what counts as a definitive failure: in the melt operation the look-up follows the operation's own pay
		// call, so "no such payment" means it was never attempted. The poll can run while that pay call is still in
		// flight (the backend may not know the payment yet): there only a look-up that answers Failed is definitive.
		defFail := ln.definitiveFail
		if opInfo.name == "poll" {
			defFail = &Cond{Name: "definitive failure (look-up status Failed with a nil error)", Match: ln.lookFailed.Match}
		}
		inputs := ""
		if opInfo.name == "melt" {
			inputs = c.inputsOf(r1, melt)
		}
		spent := c.roleSites(op, roleMarkSpent)
		unlock := c.roleSites(op, roleUnlock)
		setq := c.roleSites(op, roleSetMelt)
		if len(spent) == 0 || len(unlock) == 0 || len(setq) == 0 {
			R.Unresolved(r1, "effects of "+opInfo.name+" op", fmt.Sprintf("mark-spent=%d unlock=%d set-quote=%d", len(spent), len(unlock), len(setq)))
			continue
		}
		markSpentCond := c.condErrNilRole("inputs marked spent", roleMarkSpent, map[int]func(*Ex) bool{})
		unlockCond := c.condErrNilRole("inputs unlocked", roleUnlock, map[int]func(*Ex) bool{})
		// --- spend side
		for _, s := range spent {
			ok, why := c.RequireAt(s.Instr, ln.successAny)
			R.Check(r1, fk, "MARK_SPENT "+siteDesc(c, s)+" <= payment succeeded", c.P.InstrPos(s.Instr), ok,
				opInfo.name+": inputs are marked spent only when the backend reported success (or internal settlement)", why)
		}
		// --- unlock sites: settle or release
		for _, s := range unlock {
			isSettle, _, n := c.AfterRequire(s.Instr, markSpentCond)
			// a helper that unlocks and marks spent in one go is a settle site as well
			if !s.Direct {
				for _, sp := range spent {
					if sp.Instr == s.Instr {
						isSettle, n = true, 1
					}
				}
			}
			if isSettle && n > 0 {
				ok, why := c.RequireAt(s.Instr, ln.successAny)
				R.Check(r1, fk, "UNLOCK(settle) "+siteDesc(c, s)+" <= payment succeeded", c.P.InstrPos(s.Instr), ok,
					opInfo.name+": a settle (unlock followed by mark-spent) happens only on success", why)
				continue
			}
			ok, why := c.RequireAt(s.Instr, defFail)
			R.Check(r1, fk, "UNLOCK(release) "+siteDesc(c, s)+" <= definitive failure", c.P.InstrPos(s.Instr), ok,
				opInfo.name+": inputs are released only on "+defFail.Name, why)
			if opInfo.name == "melt" {
				ok, why = c.RequireAt(s.Instr, ln.payFailed)
				R.Check(r1, fk, "UNLOCK(release) "+siteDesc(c, s)+" <= pay classified Failed", c.P.InstrPos(s.Instr), ok,
					"melt: a release happens only after the pay call was classified Failed (never after Succeeded or Pending)", why)
			}
		}
		// --- quote writes
		for _, s := range setq {
			// (a write inside a helper that is new on this tree is read once per call that reaches it; an argument
			// is then one of the values the callers hand in)
			var args []*Ex
			for _, ca := range c.siteArgs(s) {
				if args == nil {
					args = append([]*Ex{}, ca...)
					continue
				}
				for i := range args {
					if i < len(ca) && args[i].String() != ca[i].String() {
						args[i] = mkPhi([]*Ex{args[i], ca[i]})
					}
				}
			}
			if len(args) < 4 {
				R.Undecided(r1, fk, "SET_MELTQUOTE "+siteDesc(c, s), c.P.InstrPos(s.Instr), "quote write", "unexpected arity")
				continue
			}
			val, pre := args[1+pState], args[1+pPre]
			pos := c.P.InstrPos(s.Instr)
			switch {
			case isConst(val, paid):
				ok, why := c.RequireAt(s.Instr, ln.successAny)
				R.Check(r1, fk, "SET(PAID) "+siteDesc(c, s)+" <= payment succeeded", pos, ok, opInfo.name+": the quote is set PAID only on success", why)
				// preimage comes from a Lightning answer (pay answer, look-up answer or invoice look-up for internal settlement)
				okPre := false
				for _, a := range pre.Alts() {
					okPre = isField(a, "Preimage") && a.Args[0].K == "call" && a.Args[0].Call != nil &&
						func() bool { _, isLN := c.V.IsLNCall(c.P.Describe(a.Args[0].Call)); return isLN }()
					if !okPre {
						break
					}
				}
				R.Check(r1, fk, "SET(PAID) "+siteDesc(c, s)+" stores the answer's preimage", pos, okPre, "PAID is stored together with the preimage of a backend answer", "preimage argument is "+short(pre.String(), 160))
				// the preimage belongs to the answer whose status was tested: same call as in a success fact on the
				// path. A write inside a helper that is new on this tree is decided per call chain: the preimage the
				// chain hands in, against the facts on the way to that call
				if okPre && s.Direct {
					type chain struct {
						at  ssa.Instruction
						pre *Ex
					}
					var chains []chain
					dd := c.P.Describe(s.Instr)
					plain := c.P.OriginsOf(s.Instr.Parent()).Of(dd.Args[pPre])
					fromCaller := false
					if c.P.IsNewFunc(s.Instr.Parent()) {
						for _, a := range plain.Alts() {
							// the value itself is handed in (a parameter, or a field of one), not obtained by a call here
							if a.K == "param" || (a.K == "field" && len(a.Args) > 0 && a.Args[0].K != "call") {
								fromCaller = true
							}
						}
					}
					if !fromCaller {
						// the answer is obtained where the write is: one question, in place (helpers and callers above)
						chains = append(chains, chain{s.Instr, pre})
					} else {
						for _, oc := range c.CtxsOf(s.Instr) {
							at := ssa.Instruction(s.Instr)
							if oc.call != nil && oc.Fn == s.Instr.Parent() {
								at = oc.call
							}
							chains = append(chains, chain{at, oc.Of(dd.Args[pPre])})
						}
					}
					ok, why := true, ""
					for _, ch := range chains {
						pre2 := ch.pre
						same := &Cond{Name: "status == Succeeded of the answer that supplies the preimage", Match: func(f *Fact, o2 *Origins) bool {
							if !(ln.paySucceeded.Match(f, o2) || ln.lookSucceeded.Match(f, o2)) {
								return false
							}
							// every preimage alternative's call occurs among the status alternatives
							for _, a := range pre2.Alts() {
								found := false
								for _, b := range f.A.Alts() {
									if b.K == "field" && len(a.Args) > 0 && b.Args[0].Call == a.Args[0].Call {
										found = true
									}
								}
								if !found {
									return false
								}
							}
							return true
						}}
						if ok1, why1 := c.RequireAt(ch.at, same); !ok1 {
							ok, why = false, why1
						}
					}
					R.Check(r1, fk, "SET(PAID) "+siteDesc(c, s)+" preimage from the tested answer", pos, ok, "the stored preimage is the one of the answer whose status was Succeeded", why)
				}
			case isConst(val, unpaid):
				ok, why := c.RequireAt(s.Instr, defFail)
				R.Check(r1, fk, "SET(UNPAID) "+siteDesc(c, s)+" <= definitive failure", pos, ok, opInfo.name+": the quote is set UNPAID only on a definitive failure", why)
			case isConst(val, pendingQ):
				// the PENDING write precedes the pay call (C01.R4 / C07 decide the ordering)
				if opInfo.name == "melt" {
					before := true
					for _, ps := range c.paySites(op) {
						if reach, _ := o.ReachAvoiding(ps.Instr, s.Instr, NewCut()); reach && ps.Instr.Parent() == s.Instr.Parent() {
							before = false
						}
					}
					R.Check(r1, fk, "SET(PENDING) "+siteDesc(c, s)+" precedes paying", pos, before, "melt: PENDING is written before any pay call, never after", "a pay call can precede this PENDING write")
				} else {
					R.Check(r1, fk, "SET(PENDING) "+siteDesc(c, s), pos, false, "the poll never writes PENDING", "poll writes PENDING")
				}
			default:
				R.Check(r1, fk, "SET_MELTQUOTE "+siteDesc(c, s)+" writes a constant", pos, false, "every melt-quote state write is a constant", "writes "+short(val.String(), 120))
			}
		}
		// --- completeness on the success and failure edges
		// (the outcome edges sit in the operation or in a helper of it that is new on this tree - the part of
		// the operation that talks to the backend moved into its own function; each is examined in place)
		ctxs := c.OpContexts(op)
		edgesOfIn := func(og *Origins, cd *Cond) map[Edge]bool {
			out := map[Edge]bool{}
			for _, e := range og.AllEdges() {
				if f := og.EdgeFact(e); f != nil && cd.Match(f, og) {
					out[e] = true
				}
			}
			return out
		}
		succCond := &Cond{Name: "succ", Match: func(f *Fact, o2 *Origins) bool { return ln.paySucceeded.Match(f, o2) || ln.lookSucceeded.Match(f, o2) }}
		setPaid := c.condErrNilRole("quote set PAID", roleSetMelt, map[int]func(*Ex) bool{1 + pState: func(e *Ex) bool { return isConst(e, paid) }})
		setUnpaid := c.condErrNilRole("quote set UNPAID", roleSetMelt, map[int]func(*Ex) bool{1 + pState: func(e *Ex) bool { return isConst(e, unpaid) }})
		spentSame := markSpentCond
		if inputs != "" {
			spentSame = c.condErrNilRole("the request's inputs marked spent", roleMarkSpent, map[int]func(*Ex) bool{1: func(e *Ex) bool { return exprIs(e, inputs) }})
		}
		for _, t := range []struct {
			outcome *Cond
			cd      *Cond
			what    string
		}{
			{succCond, unlockCond, "success => inputs unlocked"},
			{succCond, spentSame, "success => inputs marked spent"},
			{succCond, setPaid, "success => quote PAID"},
			{defFail, setUnpaid, "definitive failure => quote UNPAID"},
			{defFail, unlockCond, "definitive failure => inputs unlocked"},
		} {
			found := false
			ok, why, n := true, "", 0
			for _, og := range ctxs {
				edges := edgesOfIn(og, t.outcome)
				if len(edges) == 0 {
					continue
				}
				found = true
				ok1, why1, n1 := c.afterEdges(og, edges, t.cd)
				n += n1
				if !ok1 {
					ok, why = false, why1
				}
			}
			if !found {
				R.Check(r1, fk, t.what, c.P.Pos(op.Pos()), false, opInfo.name+": "+t.what, "no edge with that Lightning outcome found")
				continue
			}
			if n == 0 {
				ok, why = false, "no success return reachable after the outcome edges"
			}
			R.Check(r1, fk, t.what, c.P.Pos(op.Pos()), ok, opInfo.name+": "+t.what+" before every success return", why)
		}

		// --- R2 status reads
		if full {
			c.c05StatusReads(op, ln)
		}

		// --- R4 poll only for pending quotes
		if opInfo.name == "poll" && full {
			isPending := &Cond{Name: "stored quote state == PENDING", Match: func(f *Fact, o2 *Origins) bool {
				return f.Kind == "cmp" && f.Pos && f.Op.String() == "==" && isField(f.A, "State") && isQuote(f.A.Args[0]) && isConst(f.B, pendingQ)
			}}
			var all []EffectSite
			all = append(all, spent...)
			all = append(all, unlock...)
			all = append(all, setq...)
			all = append(all, c.Effects(op, func(d *CallDesc) bool { _, isLN := c.V.IsLNCall(d); return isLN })...)
			for _, s := range all {
				ok, why := c.RequireAt(s.Instr, isPending)
				R.Check("R4", fk, siteDesc(c, s)+" <= quote PENDING", c.P.InstrPos(s.Instr), ok, "the poll touches backend and storage only for PENDING quotes", why)
			}
		}
	}
}

// c05StatusReads: R2.
func (c *Ctx) c05StatusReads(top *ssa.Function, ln *lnFacts) {
	for _, og := range c.OpContexts(top) {
		c.c05StatusReadsIn(top, og, ln)
	}
}

func (c *Ctx) c05StatusReadsIn(top *ssa.Function, o *Origins, ln *lnFacts) {
	R := c.R
	op := o.Fn
	fk := c.P.FuncKey(top)
	for _, b := range op.Blocks {
		if len(b.Instrs) == 0 {
			continue
		}
		ifi, ok := b.Instrs[len(b.Instrs)-1].(*ssa.If)
		if !ok {
			continue
		}
		f := o.EdgeFact(Edge{b, 0})
		if f == nil || f.A == nil {
			continue
		}
		var calls []ssa.CallInstruction
		isPay := false
		switch {
		case ln.payStatus(f.A):
			isPay = true
			for _, a := range f.A.Alts() {
				if a.K == "field" {
					calls = append(calls, a.Args[0].Call)
				}
			}
		case ln.lookStatus(f.A):
			calls = append(calls, f.A.Args[0].Call)
		default:
			continue
		}
		cut := NewCut()
		for _, e := range o.AllEdges() {
			ef := o.EdgeFact(e)
			if ef == nil || ef.Kind != "errnil" || !ef.Pos {
				continue
			}
			// errnil of (a phi of) the error results of exactly these calls
			okAll := true
			n := 0
			for _, a := range ef.A.Alts() {
				found := false
				for _, cc := range calls {
					if a.K == "call" && a.Call == cc && a.Idx == 1 {
						found = true
					}
				}
				// the error of a helper new on this tree that hands on the error of exactly these calls
				// (`return client.SendPayment(..)` moved into payQuote())
				if !found && a.K == "call" && a.Call != nil {
					if g := a.Call.Common().StaticCallee(); g != nil && g.Blocks != nil && c.P.IsNewFunc(g) && a.Idx == g.Signature.Results().Len()-1 {
						tails := tailErrorCalls(g)
						okT := len(tails) > 0
						for _, tc := range tails {
							in := false
							for _, cc := range calls {
								if ssa.CallInstruction(tc) == cc {
									in = true
								}
							}
							if !in {
								okT = false
							}
						}
						found = okT
					}
				}
				if !found {
					okAll = false
				}
				n++
			}
			if okAll && n > 0 {
				cut.Edges[e] = true
			}
		}
		if isPay {
			// the explicit override: a store of the constant Failed into the status field of the answer variable
			for _, bb := range op.Blocks {
				for _, in := range bb.Instrs {
					if st, ok := in.(*ssa.Store); ok {
						if cst, ok := st.Val.(*ssa.Const); ok && cst.Value != nil && cst.Value.ExactString() == ln.failed {
							if fa, ok := st.Addr.(*ssa.FieldAddr); ok {
								stt := fa.X.Type().Underlying().(*types.Pointer).Elem().Underlying().(*types.Struct)
								if stt.Field(fa.Field).Name() == "PaymentStatus" {
									cut.Barriers[st] = true
								}
							}
						}
					}
				}
			}
		}
		reach, path := ReachFromEntry(op, ifi, cut)
		if reach {
			// the branch may test a local that merges the raw status with constants (outcome := answer.Status;
			// if err != nil { outcome = Failed }): then the raw status is read only along the merge's incoming
			// edges that carry it, and each of those must be cut
			if ph := comparedPhi(ifi); ph != nil {
				reach, path = false, nil
				for i, ev := range ph.Edges {
					if _, isConst := ev.(*ssa.Const); isConst {
						continue
					}
					pred := ph.Block().Preds[i]
					for si, sb := range pred.Succs {
						if sb != ph.Block() || cut.Edges[Edge{pred, si}] {
							continue
						}
						if r2, p2 := Reach(Point{op.Blocks[0], 0}, Point{pred, len(pred.Instrs) - 1}, cut); r2 {
							reach, path = true, append(p2, ph.Block())
						}
					}
				}
			}
		}
		why := ""
		if reach {
			why = "status is read on a path where the call's error was not tested nil and no override happened: " + c.P.PathString(path)
		}
		kind := "look-up"
		if isPay {
			kind = "pay"
		}
		R.Check("R2", fk, kind+" status read guarded", c.P.InstrPos(ifi), !reach,
			"the PaymentStatus of a "+kind+" answer is read only where its error is nil (or after the explicit Failed override): the zero value means Succeeded", why)
	}
}

// comparedPhi returns the phi whose value the branch compares with a constant (nil when the compared value is
// not a phi of the branch's own function).
func comparedPhi(ifi *ssa.If) *ssa.Phi {
	bo, ok := ifi.Cond.(*ssa.BinOp)
	if !ok {
		return nil
	}
	for _, v := range []ssa.Value{bo.X, bo.Y} {
		if ph, ok := UnwrapConv(v).(*ssa.Phi); ok {
			return ph
		}
	}
	return nil
}

// c05Backends: R3.
func (c *Ctx) c05Backends() {
	R := c.R
	succ, _ := c.P.ConstVal("mint/lightning", "Succeeded")
	failedConst, _ := c.P.ConstVal("mint/lightning", "Failed")
	meths := []string{c.V.StatusMeth}
	for m := range c.V.PayMeths {
		meths = append(meths, m)
	}
	for _, t := range c.V.LNImpls {
		for _, m := range meths {
			f := c.P.MethodOf(t, m)
			if f == nil || f.Blocks == nil {
				continue
			}
			fk := c.P.FuncKey(f)
			// the method and the helpers new on this tree that build its answers, each return examined in place
			type retIn struct {
				o *Origins
				r *ssa.Return
			}
			var rets []retIn
			for _, g := range c.OpFuncs(f) {
				og := c.P.OriginsOf(g)
				for _, r := range Returns(g) {
					if len(r.Results) != 2 {
						continue
					}
					if ex, ok := r.Results[0].(*ssa.Extract); ok {
						if call, ok := ex.Tuple.(*ssa.Call); ok && c.P.IsNewFunc(call.Call.StaticCallee()) {
							continue // passes on the answer of a helper that is examined itself
						}
					}
					rets = append(rets, retIn{og, r})
				}
			}
			for _, ri := range rets {
				o, r := ri.o, ri.r
				st := project(o.Of(r.Results[0]), "PaymentStatus")
				// the status look-up answers a definitive outcome (Succeeded, Failed) with a nil error only behind a test
				// that the node's answer EQUALS a named status: what a status dispatch does not name (a state added
				// later, "initiated", "unknown") is ambiguous and reads as Pending or as an error
				if m == c.V.StatusMeth && !o.IsFailureReturn(r) && len(st.Alts()) == 1 && st.K == "const" && (st.S == succ || st.S == failedConst) && !fromOwnTable(st.String()) {
					named := &Cond{Name: "the node's answer equals a named status", Match: func(ft *Fact, _ *Origins) bool {
						if ft.Kind != "cmp" || !ft.Pos || ft.Op.String() != "==" {
							return false
						}
						return (ft.A.K == "const") != (ft.B.K == "const")
					}}
					ok, why := o.Requires(r, named)
					R.Check("R3", fk, "definitive status "+st.S+" answered only for a named node status", c.P.InstrPos(r), ok,
						"the look-up reports Succeeded / Failed with a nil error only behind an equality test on the node's status (never as the fall-through of a dispatch)", why)
				}
				zero := false
				for _, a := range st.Alts() {
					if a.K == "zero" || isConst(a, succ) {
						zero = true
					}
				}
				// an answer returned with a nil error carries a status that is an explicit constant on every path:
				// a status computed from the backend's text (table look-up, conversion) reads as the zero value
				// - Succeeded - for any answer the table does not know
				if !o.IsFailureReturn(r) {
					computed := ""
					for _, a := range st.Alts() {
						if a.K != "const" && a.K != "zero" {
							computed = a.String()
						}
					}
					if computed != "" {
						if fromOwnTable(computed) {
							R.Trivial("R3", fk, "status read from the backend's own record", c.P.InstrPos(r), "the in-memory test backend answers with the status stored in its own invoice table")
						} else {
							R.Check("R3", fk, "status of a nil-error answer is an explicit constant", c.P.InstrPos(r), false,
								"every status returned with a nil error is one of the State constants chosen by an explicit case (an unknown backend answer must not read as the zero value Succeeded)", "status is computed: "+short(computed, 120))
						}
						continue
					}
				}
				if !zero {
					R.Trivial("R3", fk, "return with explicit non-success status", c.P.InstrPos(r), "status is set explicitly to a non-success value")
					continue
				}
				explicit := true
				for _, a := range st.Alts() {
					if a.K == "zero" {
						explicit = false
					}
				}
				if explicit {
					// explicit Succeeded: must be returned with a nil error
					ok := isConst(o.Of(r.Results[1]), "nil")
					R.Check("R3", fk, "explicit Succeeded returned with nil error", c.P.InstrPos(r), ok, "an explicit Succeeded status is returned with a nil error", "Succeeded returned together with error "+short(o.Of(r.Results[1]).String(), 100))
					continue
				}
				R.Check("R3", fk, "zero-status answer only with error", c.P.InstrPos(r), o.IsFailureReturn(r),
					"a PaymentStatus whose status field is left at the zero value (= Succeeded) is returned only with a non-nil error", "zero-status answer may be returned with a nil error")
			}
		}
	}
	c.c05NoZeroValueState("R3")
	c.c05ClnPreimageFields("R3")
}

// c05ClnPreimageFields: CLN names the preimage payment_preimage in the answer of pay and preimage in the entries of
// listpays. A PAID quote must carry the preimage: the field the adapter reads it from has the JSON key of the very
// call it decodes (a shared response type silently yields an empty preimage for one of the two).
func (c *Ctx) c05ClnPreimageFields(rule string) {
	R := c.R
	want := map[string]string{"SendPayment": "payment_preimage", "PayPartialAmount": "payment_preimage", c.V.StatusMeth: "preimage"}
	for _, t := range c.V.LNImpls {
		if !strings.Contains(typeShort(c.P, t), "CLN") {
			continue
		}
		for meth, key := range want {
			f := c.P.MethodOf(t, meth)
			if f == nil || f.Blocks == nil {
				continue
			}
			fk := c.P.FuncKey(f)
			// the struct fields whose value reaches the Preimage of a returned PaymentStatus
			var tags []string
			for _, g := range c.OpFuncs(f) {
				for _, b := range g.Blocks {
					for _, in := range b.Instrs {
						var stt *types.Struct
						idx := -1
						var val ssa.Value
						switch x := in.(type) {
						case *ssa.FieldAddr:
							if pt, ok := x.X.Type().Underlying().(*types.Pointer); ok {
								stt, _ = pt.Elem().Underlying().(*types.Struct)
							}
							idx, val = x.Field, x
						case *ssa.Field:
							stt, _ = x.X.Type().Underlying().(*types.Struct)
							idx, val = x.Field, x
						}
						if stt == nil || idx < 0 || !strings.Contains(strings.ToLower(stt.Field(idx).Name()), "preimage") {
							continue
						}
						tag := reflectTagJSON(stt.Tag(idx))
						if tag == "" {
							continue // the adapter's own result type, not a decoded answer
						}
						_ = val
						tags = append(tags, tag)
					}
				}
			}
			ok := len(tags) > 0
			for _, tg := range tags {
				if tg != key {
					ok = false
				}
			}
			R.Check(rule, fk, "preimage read from the answer's own JSON key", c.P.Pos(f.Pos()), ok,
				"the preimage is decoded from the key CLN uses in this call's answer ("+key+")", "decoded preimage fields have JSON keys "+strings.Join(tags, ","))
		}
	}
}

func reflectTagJSON(tag string) string {
	const k = `json:"`
	i := strings.Index(tag, k)
	if i < 0 {
		return ""
	}
	rest := tag[i+len(k):]
	j := strings.IndexAny(rest, `",`)
	if j < 0 {
		return ""
	}
	return rest[:j]
}

// c05NoZeroValueState: the zero value of lightning.State is Succeeded. A State variable declared without an
// initial value therefore "defaults to success": a switch over the backend's text that misses a case, or an early
// return, hands Succeeded on. No such variable may exist in the adapter package (the constant can only be chosen
// explicitly).
func (c *Ctx) c05NoZeroValueState(rule string) {
	R := c.R
	n := 0
	for _, pkg := range c.P.Pkgs {
		if c.P.Rel(pkg.PkgPath) != "mint/lightning" {
			continue
		}
		for _, file := range pkg.Syntax {
			ast.Inspect(file, func(nd ast.Node) bool {
				gd, ok := nd.(*ast.GenDecl)
				if !ok || gd.Tok != token.VAR {
					return true
				}
				for _, sp := range gd.Specs {
					vs, ok := sp.(*ast.ValueSpec)
					if !ok || len(vs.Values) != 0 {
						continue
					}
					for _, name := range vs.Names {
						obj := pkg.TypesInfo.Defs[name]
						if obj == nil {
							continue
						}
						if nt, ok := obj.Type().(*types.Named); ok && nt.Obj().Name() == "State" && nt.Obj().Pkg() != nil && nt.Obj().Pkg().Path() == pkg.PkgPath {
							n++
							R.Check(rule, "mint/lightning", "State variable "+name.Name+" starts at an explicit value", c.P.Pos(name.Pos()), false,
								"no variable of type State is declared without an initial value (its zero value means Succeeded)", "var "+name.Name+" State has no initialiser")
						}
					}
				}
				return true
			})
		}
	}
	if n == 0 {
		R.Trivial(rule, "mint/lightning", "no State variable starts at its zero value", "mint/lightning", "every State variable of the adapter package is initialised explicitly")
	}
}

// fromOwnTable: the status is read from the Invoices table of the in-memory fake backend (set by SetInvoiceStatus).
func fromOwnTable(e string) bool {
	return strings.Contains(e, ".Invoices") && strings.Contains(e, ".Status")
}

// ruleResolveBeforeAnswer: the proof-state check calls the melt-quote poll for the pending quotes before the reads
// whose results it answers with (shared by C05.R5 and C15).
func (c *Ctx) ruleResolveBeforeAnswer(rule string) {
	R := c.R
	op := c.op(rule, "/v1/checkstate")
	poll := c.V.Op("/v1/melt/quote/{method}/{quote_id}")
	if op == nil || poll == nil {
		return
	}
	fk := c.P.FuncKey(op)
	o := c.P.OriginsOf(op)
	// the poll calls inside a range loop
	var pollCalls []ssa.CallInstruction
	for _, ci := range Calls(op) {
		if c.P.Describe(ci).Static == poll {
			pollCalls = append(pollCalls, ci)
		}
	}
	if len(pollCalls) == 0 {
		R.Check(rule, fk, "pending quotes are resolved", c.P.Pos(op.Pos()), false, "the proof-state check polls the pending melt quotes", "no call of "+c.P.FuncKey(poll))
		return
	}
	// reads that feed the returned states
	var ret *ssa.Return
	for _, r := range o.SuccessReturns() {
		ret = r
	}
	if ret == nil {
		R.Undecided(rule, fk, "result", c.P.Pos(op.Pos()), "resolve before answer", "no success return")
		return
	}
	res := o.Of(ret.Results[0])
	for _, role := range []string{roleReadLocked, roleReadSpent} {
		var used []ssa.CallInstruction
		res.Walk(func(x *Ex) bool {
			if x.K == "call" && x.Call != nil && c.dbCallWithRole(x, role) {
				dup := false
				for _, u := range used {
					if u == x.Call {
						dup = true
					}
				}
				if !dup {
					used = append(used, x.Call)
				}
			}
			return true
		})
		if len(used) == 0 {
			R.Check(rule, fk, role+" feeds the answer", c.P.InstrPos(ret), false, "the answer is computed from a "+role+" read", "no such read flows into the returned states: "+short(res.String(), 200))
			continue
		}
		for _, u := range used {
			// every poll call precedes this read: the read is not reachable from entry without ... the loop; simpler:
			// the read cannot reach any poll call (no poll after the read)
			okOrder := true
			why := ""
			for _, pc := range pollCalls {
				if reach, path := o.ReachAvoiding(u, pc, NewCut()); reach {
					okOrder = false
					why = "a poll call is reachable after the read: " + path
				}
			}
			// and the read is dominated by the loop that polls: the exit edge of the loop containing the poll call
			l := o.Loops.InnermostContaining(pollCalls[0].Block())
			if l == nil {
				okOrder = false
				why = "poll call is not inside a loop over the pending quotes"
			} else {
				cut := NewCut()
				for b := range l.Blocks {
					for i, s := range b.Succs {
						if !l.Blocks[s] && !o.isErrorExit(s) {
							cut.Edges[Edge{b, i}] = true
						}
					}
				}
				if reach, path := ReachFromEntry(op, u, cut); reach {
					okOrder = false
					why = "the read is reachable without running the resolution loop: " + c.P.PathString(path)
				}
			}
			R.Check(rule, fk, role+" read after resolution", c.P.InstrPos(u), okOrder,
				"the "+role+" read that feeds the answer happens after every pending quote was polled", why)
		}
	}
	_ = strings.TrimSpace
}

// isErrorExit: the block only leads to failure returns.
func (o *Origins) isErrorExit(b *ssa.BasicBlock) bool {
	for _, r := range o.SuccessReturns() {
		if reach, _ := Reach(Point{b, 0}, PointOf(r), NewCut()); reach {
			return false
		}
	}
	return true
}

// ruleMeltPollCompleteness: C05.R6. In the melt-quote state op every path to a success return either leaves
// through "stored state != PENDING" or makes the payment-status look-up.
func (c *Ctx) ruleMeltPollCompleteness(rule string) {
	op := c.op(rule, "/v1/melt/quote/{method}/{quote_id}")
	pend, ok := c.P.ConstVal("cashu/nuts/nut05", "Pending")
	if op == nil || !ok {
		return
	}
	notPending := &Cond{Name: "stored state is not PENDING", Match: func(f *Fact, _ *Origins) bool {
		if f.Kind != "cmp" || f.Op.String() != "==" || !isField(f.A, "State") || f.B.K != "const" {
			return false
		}
		return (!f.Pos && isConst(f.B, pend)) || (f.Pos && !isConst(f.B, pend))
	}}
	c.ruleMustHit(rule, "PENDING quote => payment status looked up", "a poll of a PENDING melt quote always asks the Lightning backend for the payment", op, []*Cond{notPending},
		func(d *CallDesc) bool { m, ok := c.V.IsLNCall(d); return ok && m == c.V.StatusMeth })
}

// ruleUnlockCallers: who may release locked inputs. Every call chain that ends in a DELETE on the pending table
// starts in the melt operation or in the melt-quote poll - the two places whose releases the decision table
// decides. A release reached from anywhere else (start-up "recovery", the state check itself, a background task)
// runs without those facts: it can free inputs of a melt whose payment is in flight or already settled.
func (c *Ctx) ruleUnlockCallers(rule string) {
	R := c.R
	melt := c.V.Op("/v1/melt/{method}")
	poll := c.V.Op("/v1/melt/quote/{method}/{quote_id}")
	if melt == nil || poll == nil {
		R.Unresolved(rule, "melt operation / melt-quote poll", "routes not resolved")
		return
	}
	allowed := map[*ssa.Function]bool{melt: true, poll: true}
	var direct []ssa.CallInstruction
	for _, f := range c.P.Funcs {
		top := EnclosingTop(f)
		if top.Pkg == nil || c.P.Rel(top.Pkg.Pkg.Path()) == "testutils" {
			continue
		}
		for _, ci := range Calls(f) {
			if c.V.DBRole(c.P.Describe(ci), roleUnlock) {
				direct = append(direct, ci)
			}
		}
	}
	if len(direct) == 0 {
		R.Unresolved(rule, "calls that release pending proofs", "none found")
		return
	}
	for _, ci := range direct {
		start := EnclosingTop(ci.Parent())
		ok, why := true, ""
		seen := map[*ssa.Function]bool{}
		var up func(g *ssa.Function, chain string, depth int)
		up = func(g *ssa.Function, chain string, depth int) {
			if !ok || allowed[g] || seen[g] {
				return
			}
			seen[g] = true
			if depth > 6 {
				ok, why = false, "call chain too deep: "+chain
				return
			}
			callers := c.callersOf(g)
			if len(callers) == 0 {
				ok = false
				why = "released from " + c.P.FuncKey(g) + ", which is not reached from the melt operation or the melt-quote poll (chain: " + chain + ")"
				return
			}
			for _, site := range callers {
				h := EnclosingTop(site.Parent())
				if _, isGo := site.(*ssa.Go); isGo {
					ok, why = false, "released from a goroutine started in "+c.P.FuncKey(h)
					return
				}
				up(h, c.P.FuncKey(h)+" -> "+chain, depth+1)
			}
		}
		up(start, c.P.FuncKey(start), 0)
		R.Check(rule, c.P.FuncKey(start), "pending proofs released only from the melt operation / the melt-quote poll", c.P.InstrPos(ci), ok,
			"every call chain to a release of locked inputs starts in the melt operation or the melt-quote poll", why)
	}
}
