package nc

import (
	"strings"

	"golang.org/x/tools/go/ssa"
)

func init() {
	register("C15", "Decides (R1) that swap and mint return signatures only after the signature save of (B_ of every output, those signatures) "+
		"succeeded; (R2) consuming operations mark inputs spent (C01.R3 / decision table) — referenced, decided there; (R3) the structure of "+
		"the state check: one entry per requested Y in request order carrying that Y, SPENT only behind a hit of that Y in the spent read, "+
		"PENDING only behind a miss there and a hit in the pending read (priority), the witness taken from the matching row, both reads "+
		"keyed by the request's Ys, and pending quotes resolved before the reads that feed the answer; (R4) the structure of restore: one "+
		"signature read per message by that message's B_, a message is skipped exactly when the read says 'no rows', any other read error "+
		"fails the request, output and signature are appended together and the stored signature is returned unmodified; storage reads "+
		"hand the driver's error back in a form errors.Is can see through; (R5) every SQL statement of the storage layer agrees with its Go "+
		"arguments and scan destinations (column order incl. SELECT * against the folded schema, NULL wrappers not inverted). Equality with "+
		"a reference model over histories is not decided.", rulesC15)
}

func rulesC15(c *Ctx) {
	R := c.R
	R.Rule("R1", "signatures are returned only after they were saved for exactly the outputs' B_", 2)
	R.Rule("R3", "state check: per-Y entry, SPENT/PENDING priority behind hits of that Y, witness of the matching row, resolve before answer", 9)
	R.Rule("R4", "restore: per-message read by B_, skip exactly on no-rows, other errors fail, lock-step append of unmodified signatures; error wrapping visible to errors.Is", 7)
	R.Rule("R5", "SQL statements agree with Go arguments and scan destinations", 25)
	R.Rule("R8", "the Lightning adapters never report success by default (shared with C05.R3): a status returned with a nil error is an explicit constant, a zero-value answer comes only with an error - otherwise a time-out or unknown answer makes pending proofs read SPENT", 20)
	R.Rule("R7", "proofs of a melt that settles later are moved from the pending to the spent table with all their fields (amount, id, secret, C, witness) taken from the pending row", 6)
	R.Rule("R6", "restore returns nothing for outputs the mint refused: swap stores signatures only after the spent-table insert succeeded (shared with C01.R3)", 1)
	c.vocabProblems("R1")
	c.ruleSigsAfterSpent("R6")

	c.ruleSigsSavedForOutputs("R1")

	c.c15StateCheck()
	c.c15Restore()
	c.ruleSQLAgreement("R5", nil)
	c.scanLocalsCopied("R5", "GetProofsUsed", map[string]string{"witness": "Witness"})
	c.scanLocalsCopied("R5", "GetPendingProofs", map[string]string{"witness": "Witness"})
	c.scanLocalsCopied("R5", "GetPendingProofsByQuote", map[string]string{"witness": "Witness"})
	c.c15PendingToSpentKeepsFields()
	R.Rule("R9", "what a melt did is what the tables say: the melt decision table (shared with C05.R1) - a paid melt leaves its inputs in the spent table, a failed one leaves them nowhere", 20)
	c.meltDecisionTable("R9", false)
	c.runAs("R3", "R8", func(cc *Ctx) { cc.c05Backends() })
	c.runAs("R9", "R8", func(cc *Ctx) { cc.ruleUnlockCallers("R9") })
	c.readersReturnEveryRow("R5", "GetProofsUsed", "GetPendingProofs", "GetPendingProofsByQuote", "GetBlindSignatures")
	// the witness a proof was spent with is reported by the state check: the nullable column is carried into the row
	// and read on the side where it is valid
	c.scannedLocalsReachResult("R5", "GetProofsUsed", "GetPendingProofs", "GetPendingProofsByQuote")
	R.Rule("R11", "restore knows every signature the mint hands out: blind signatures are produced only inside the swap and mint operations, whose save-before-hand-out is decided above (who-signs census shared with C02.R16; a new signing path - melt change - is not examined)", 3)
	c.ruleWhoSigns("R11")
	R.Rule("R10", "state check and restore answer from the tables as they are now: neither endpoint is served from the mint's response cache (shared with C20.R4; a cached answer hides what was spent or signed since)", 10)
	c.runAs("R4", "R10", func(cc *Ctx) { cc.c20Cache() })
}

// c15PendingToSpentKeepsFields: R7. When a pending melt is settled later (poll / state check), the proofs that go
// into the spent table are rebuilt from the pending rows: every field the state check answers with - above all the
// witness - is taken from the same row, unchanged.
func (c *Ctx) c15PendingToSpentKeepsFields() {
	R := c.R
	f := c.fn("R7", "mint.(*Mint).removePendingProofsForQuote")
	if f == nil {
		return
	}
	fk := c.P.FuncKey(f)
	o := c.P.OriginsOf(f)
	n := 0
	for _, r := range o.SuccessReturns() {
		if len(r.Results) == 0 {
			continue
		}
		ret := o.Of(r.Results[0])
		if ret.K != "map" {
			R.Undecided("R7", fk, "settled proofs rebuilt field by field from the pending rows", c.P.InstrPos(r), "the returned list is the element-wise image of the pending rows", "returned value is "+short(ret.String(), 120))
			continue
		}
		n++
		list, el := ret.Args[0].String(), ret.Args[1]
		src := ret.Args[0]
		okSrc := src.K == "call" && src.Idx == 0 && c.dbCallWithRole(src, roleReadLocked)
		R.Check("R7", fk, "settled proofs come from the pending rows of the quote", c.P.InstrPos(r), okSrc, "the list is built over the rows read from the pending table", short(list, 100))
		for _, fld := range []string{"Amount", "Id", "Secret", "C", "Witness"} {
			got := project(el, fld)
			R.Check("R7", fk, "field "+fld+" carried over from the pending row", c.P.InstrPos(r), got.String() == "elem("+list+")."+fld,
				"the proof marked spent carries the row's own "+fld+" (the state check reports the witness of the spent row)", fld+" = "+short(got.String(), 100))
		}
	}
	if n == 0 {
		R.Check("R7", fk, "settled proofs rebuilt field by field from the pending rows", c.P.Pos(f.Pos()), false, "a success return hands back the rebuilt proofs", "no such return")
	}
}

func (c *Ctx) c15StateCheck() {
	R := c.R
	op := c.op("R3", "/v1/checkstate")
	if op == nil {
		return
	}
	fk := c.P.FuncKey(op)
	o := c.P.OriginsOf(op)
	ys := ""
	for _, prm := range op.Params[1:] {
		if strings.HasPrefix(prm.Type().String(), "[]string") {
			ys = "P:" + prm.Name()
		}
	}
	if ys == "" {
		R.Unresolved("R3", "Ys parameter of "+fk, "no []string parameter")
		return
	}
	spentC, _ := c.P.ConstVal("cashu/nuts/nut07", "Spent")
	pendC, _ := c.P.ConstVal("cashu/nuts/nut07", "Pending")
	unspC, _ := c.P.ConstVal("cashu/nuts/nut07", "Unspent")
	var ret *ssa.Return
	for _, r := range o.SuccessReturns() {
		ret = r
	}
	if ret == nil {
		R.Undecided("R3", fk, "result", c.P.Pos(op.Pos()), "state check", "no success return")
		return
	}
	res := o.Of(ret.Results[0])
	okShape := res.K == "map" && exprIs(res.Args[0], ys)
	var fs map[string]*Ex
	if okShape {
		fs = fieldsOfWith(res.Args[1])
		okShape = fs["Y"] != nil && fs["Y"].String() == "elem("+ys+")"
	}
	R.Check("R3", fk, "one entry per requested Y, in request order, carrying that Y", c.P.InstrPos(ret), okShape,
		"the answer has an entry for every element of the request's Ys at the same index, with Y = that element", short(res.String(), 200))
	if !okShape {
		return
	}
	// reads keyed by the request's Ys
	isRead := func(e *Ex, role string) bool {
		return e != nil && e.K == "call" && e.Idx == 0 && c.dbCallWithRole(e, role) && exprIs(arg(e, 1), ys)
	}
	idxOf := func(e *Ex, role string) bool {
		// slices.IndexFunc(read(Ys), pred)
		return isCall(e, "slices.IndexFunc") && isRead(arg(e, 0), role)
	}
	hit := func(role string) *Cond {
		return &Cond{Name: "Y found in " + role, Match: func(ft *Fact, _ *Origins) bool {
			return ft.Kind == "cmp" && ft.Pos && ft.Op.String() == "<=" && isConst(ft.A, "0") && idxOf(ft.B, role)
		}}
	}
	miss := func(role string) *Cond {
		return &Cond{Name: "Y not found in " + role, Match: func(ft *Fact, _ *Origins) bool {
			return ft.Kind == "cmp" && ft.Pos && ft.Op.String() == "<" && idxOf(ft.A, role) && isConst(ft.B, "0")
		}}
	}
	// the search predicate compares the row's Y with the requested Y. The searches are the IndexFunc
	// expressions tested by the branch facts (slices.IndexFunc with a closure, or a hand-written
	// first-index helper in its canonical form slices.IndexFunc(list, pred:(...)))
	okPred := func(e *Ex) bool {
		if e == nil || e.K != "bin" || e.S != "==" {
			return false
		}
		a0, a1 := unwrapAnyof(e.Args[0]), unwrapAnyof(e.Args[1])
		return (strings.HasSuffix(a0.String(), ".Y") && a1.String() == "elem("+ys+")") || (strings.HasSuffix(a1.String(), ".Y") && a0.String() == "elem("+ys+")")
	}
	nPred := 0
	seenSearch := map[ssa.Value]bool{}
	ctxs := c.OpContexts(op)
	type ctxEdge struct {
		o *Origins
		e Edge
	}
	var allEdges []ctxEdge
	for _, og := range ctxs {
		for _, e := range og.AllEdges() {
			allEdges = append(allEdges, ctxEdge{og, e})
		}
	}
	for _, ce := range allEdges {
		ft := ce.o.EdgeFact(ce.e)
		if ft == nil || ft.Kind != "cmp" {
			continue
		}
		for _, side := range []*Ex{ft.A, ft.B} {
			if !isCall(side, "slices.IndexFunc") || side.V == nil || seenSearch[side.V] || len(side.Args) != 2 {
				continue
			}
			seenSearch[side.V] = true
			if side.Args[1].K == "pred" {
				nPred++
				pos := c.P.Pos(side.V.Pos())
				if in, ok := side.V.(ssa.Instruction); ok {
					pos = c.P.InstrPos(in)
				}
				R.Check("R3", fk, "row matched by its Y against the requested Y", pos, okPred(side.Args[1].Args[0]), "a row matches when its Y equals the Y being answered", short(side.Args[1].String(), 120))
				continue
			}
			if side.Call == nil {
				continue
			}
			var pred *ssa.Function
			if len(side.Call.Common().Args) == 2 {
				switch v := side.Call.Common().Args[1].(type) {
				case *ssa.MakeClosure:
					pred, _ = v.Fn.(*ssa.Function)
				case *ssa.Function:
					pred = v
				}
			}
			if pred == nil {
				continue
			}
			ao := ce.o.EnterClosure(pred)
			for _, r := range Returns(pred) {
				if len(r.Results) != 1 {
					continue
				}
				nPred++
				pe := ao.Of(r.Results[0])
				R.Check("R3", c.P.FuncKey(pred), "row matched by its Y against the requested Y", c.P.InstrPos(r), okPred(pe), "a row matches when its Y equals the Y being answered", short(pe.String(), 120))
			}
		}
	}
	if nPred < 2 {
		R.Check("R3", fk, "search predicates", c.P.Pos(op.Pos()), false, "rows are matched by Y", "fewer than two search predicates found")
	}
	// state stores
	var stateCell *ssa.Alloc
	nSpent, nPend := 0, 0
	var opBlocks []*ssa.BasicBlock
	for _, g := range c.OpFuncs(op) {
		opBlocks = append(opBlocks, g.Blocks...)
	}
	for _, b := range opBlocks {
		for _, in := range b.Instrs {
			st, ok := in.(*ssa.Store)
			if !ok {
				continue
			}
			v := c.P.OriginsOf(b.Parent()).Of(st.Val)
			if !(isConst(v, spentC) || isConst(v, pendC)) {
				continue
			}
			if al, ok := st.Addr.(*ssa.Alloc); ok && strings.Contains(typeShort(c.P, al.Type()), "nut07.State") {
				stateCell = al
			} else if _, ok := st.Addr.(*ssa.FieldAddr); !ok {
				continue
			}
			if isConst(v, spentC) {
				nSpent++
				ok2, why := c.RequireAt(st, hit(roleReadSpent))
				R.Check("R3", fk, "SPENT <= Y found in the spent read", c.P.InstrPos(st), ok2, "an entry is SPENT only when that Y is in the spent table read for the request's Ys", why)
			} else {
				nPend++
				ok2, why := c.RequireAt(st, hit(roleReadLocked))
				R.Check("R3", fk, "PENDING <= Y found in the pending read", c.P.InstrPos(st), ok2, "an entry is PENDING only when that Y is in the pending table read for the request's Ys", why)
				ok2, why = c.RequireAt(st, miss(roleReadSpent))
				R.Check("R3", fk, "PENDING <= Y not in the spent read (priority)", c.P.InstrPos(st), ok2, "SPENT takes priority over PENDING", why)
			}
		}
	}
	_ = stateCell
	// lifted form: the state is a phi of constants; then check through the value of the State field
	if nSpent == 0 || nPend == 0 {
		stv := fs["State"]
		okS := stv != nil
		if okS {
			alts := map[string]bool{}
			for _, a := range stv.Alts() {
				alts[a.String()] = true
			}
			okS = alts["#"+spentC] && alts["#"+pendC] && alts["#"+unspC] && len(alts) == 3
		}
		R.Check("R3", fk, "state is one of UNSPENT / PENDING / SPENT", c.P.InstrPos(ret), okS, "the entry's state is exactly one of the three constants", "state is "+short(func() string {
			if stv != nil {
				return stv.String()
			}
			return "<missing>"
		}(), 120))
		// priority through the branch structure: the block that yields SPENT is behind hit(spent), PENDING behind miss(spent) & hit(pending)
		c.c15PhiStates(op, o, fs, hit, miss, spentC, pendC)
	}
	// witness of the matching row
	wv := fs["Witness"]
	okW := wv != nil
	if okW {
		for _, a := range wv.Alts() {
			s := a.String()
			if a.K == "zero" || isConst(a, "\"\"") {
				continue
			}
			if !(strings.HasSuffix(s, ".Witness") && strings.Contains(s, "slices.IndexFunc(")) {
				okW = false
			}
		}
	}
	R.Check("R3", fk, "witness taken from the matching row", c.P.InstrPos(ret), okW, "the reported witness is the one stored in the row that matched this Y", "witness is "+short(func() string {
		if wv != nil {
			return wv.String()
		}
		return "<missing>"
	}(), 160))
	c.ruleResolveBeforeAnswer("R3")
}

// c15PhiStates handles the SSA form in which the state variable was lifted to a phi.
func (c *Ctx) c15PhiStates(op *ssa.Function, o *Origins, fs map[string]*Ex, hit, miss func(string) *Cond, spentC, pendC string) {
	R := c.R
	fk := c.P.FuncKey(op)
	// find the phi that merges the constants
	for _, b := range op.Blocks {
		for _, in := range b.Instrs {
			ph, ok := in.(*ssa.Phi)
			if !ok || !strings.Contains(typeShort(c.P, ph.Type()), "nut07.State") {
				continue
			}
			for i, e := range ph.Edges {
				pred := b.Preds[i]
				last := pred.Instrs[len(pred.Instrs)-1]
				v := o.Of(e)
				switch {
				case isConst(v, spentC):
					ok2, why := o.Requires(last, hit(roleReadSpent))
					R.Check("R3", fk, "SPENT <= Y found in the spent read", c.P.InstrPos(last), ok2, "an entry is SPENT only when that Y is in the spent table read for the request's Ys", why)
				case isConst(v, pendC):
					ok2, why := o.Requires(last, hit(roleReadLocked))
					R.Check("R3", fk, "PENDING <= Y found in the pending read", c.P.InstrPos(last), ok2, "an entry is PENDING only when that Y is in the pending table read for the request's Ys", why)
					ok2, why = o.Requires(last, miss(roleReadSpent))
					R.Check("R3", fk, "PENDING <= Y not in the spent read (priority)", c.P.InstrPos(last), ok2, "SPENT takes priority over PENDING", why)
				}
			}
		}
	}
}

func (c *Ctx) c15Restore() {
	R := c.R
	op := c.op("R4", "/v1/restore")
	if op == nil {
		return
	}
	fk := c.P.FuncKey(op)
	o := c.P.OriginsOf(op)
	msgs := c.outputsOf("R4", op)
	if msgs == "" {
		return
	}
	el := "elem(" + msgs + ")"
	isRead := func(e *Ex, idx int) bool {
		return e != nil && e.K == "call" && e.Idx == idx && c.dbCallWithRole(e, roleReadSigs) && exprIs(arg(e, 1), el+".B_")
	}
	for _, r := range o.SuccessReturns() {
		outs, sigs := o.Of(r.Results[0]), o.Of(r.Results[1])
		okO := outs.K == "acc" && strings.HasPrefix(outs.S, "append") && len(outs.Args) == 2 && outs.Args[1].String() == el
		okS := sigs.K == "acc" && strings.HasPrefix(sigs.S, "append") && len(sigs.Args) == 2 && isRead(sigs.Args[1], 0)
		R.Check("R4", fk, "returned outputs are the request's messages that were found", c.P.InstrPos(r), okO, "the returned outputs are appended from the request's own messages", short(outs.String(), 160))
		R.Check("R4", fk, "returned signatures are the stored ones, unmodified, read by that message's B_", c.P.InstrPos(r), okS, "each returned signature is the stored row read by the message's B_, unchanged", short(sigs.String(), 200))
	}
	// lock-step: the two appends are in the same block
	var appends []*ssa.Call
	for _, b := range op.Blocks {
		for _, in := range b.Instrs {
			if call, ok := in.(*ssa.Call); ok {
				if bi, ok := call.Call.Value.(*ssa.Builtin); ok && bi.Name() == "append" {
					appends = append(appends, call)
				}
			}
		}
	}
	okLock := len(appends) == 2 && appends[0].Block() == appends[1].Block()
	R.Check("R4", fk, "output and signature appended together", c.P.Pos(op.Pos()), okLock, "a message and its signature are appended in the same step (the two lists stay aligned)", "")
	// the skip edge is exactly errors.Is(read error, sql.ErrNoRows); any other error fails
	var loop *Loop
	for _, l := range o.Loops.Loops {
		if l.RangeOf != nil && o.Of(l.RangeOf).String() == msgs {
			loop = l
		}
	}
	if loop == nil || len(appends) == 0 {
		R.Check("R4", fk, "scan over all messages", c.P.Pos(op.Pos()), false, "every message of the request is looked up", "no whole-range loop over the messages")
		return
	}
	cut := NewCut()
	for _, e := range o.AllEdges() {
		ft := o.EdgeFact(e)
		if ft == nil {
			continue
		}
		if ft.Kind == "bool" && ft.Pos && isCall(ft.A, "errors.Is") && isRead(arg(ft.A, 0), 1) && exprIs(arg(ft.A, 1), "G:database/sql.ErrNoRows") {
			cut.Edges[e] = true // legitimate skip
		}
	}
	cut.Barriers[appends[0]] = true
	for b := range loop.Blocks {
		for i, s := range b.Succs {
			if !loop.Blocks[s] {
				cut.Edges[Edge{b, i}] = true
			}
		}
	}
	body := loop.Header.Succs[loop.BodySucc]
	reach, path := Reach(Point{body, 0}, Point{loop.Header, 0}, cut)
	why := ""
	if reach {
		why = "a message can be skipped without the read having said 'no rows' and without being appended: " + c.P.PathString(path)
	}
	R.Check("R4", fk, "a message is skipped only when the read says no rows", c.P.Pos(op.Pos()), !reach,
		"an iteration completes either by appending the found signature or because errors.Is(read error, sql.ErrNoRows)", why)
	// appended only when the read succeeded
	okRead := &Cond{Name: "signature read succeeded", Match: func(ft *Fact, _ *Origins) bool {
		if ft.Kind == "errnil" && ft.Pos && isRead(ft.A, 1) {
			return true
		}
		return false
	}}
	ok2, why2 := o.Requires(appends[0], okRead)
	R.Check("R4", fk, "append <= signature read succeeded", c.P.InstrPos(appends[0]), ok2, "a signature is returned only when its read succeeded", why2)

	// storage reads hand the driver's error back visibly: callers that test errors.Is(err, sql.ErrNoRows)
	for _, role := range []string{roleReadSigs, roleReadSpent, roleReadLocked} {
		for _, m := range c.V.MethodsWithRole(role) {
			for _, st := range c.V.Stmts[m] {
				if st.SQL.Role() != role || st.Scan == nil {
					continue
				}
				f := st.Fn
				okWrap, whyW := true, ""
				// (the method and the helpers new on this tree whose error it hands on, each read in place)
				type fr struct {
					fo *Origins
					r  *ssa.Return
				}
				var frs []fr
				for _, g := range c.OpFuncs(f) {
					if g.Parent() != nil {
						continue
					}
					go2 := c.P.OriginsOf(g)
					for _, r := range Returns(g) {
						if go2.IsFailureReturn(r) {
							frs = append(frs, fr{go2, r})
						}
					}
				}
				for _, x := range frs {
					fo, r := x.fo, x.r
					e := fo.Of(r.Results[len(r.Results)-1])
					for _, a := range e.Alts() {
						if a.K == "call" && a.Call != nil && strings.HasPrefix(c.P.Describe(a.Call).Name, "database/sql.") {
							continue // the driver's error itself
						}
						if a.K == "call" && a.Call != nil && c.P.IsNewFunc(a.Call.Common().StaticCallee()) {
							continue // the error of a helper examined itself
						}
						if a.K == "call" && a.Call != nil && a.Call.Common().IsInvoke() && a.Call.Common().Method.Name() == "Scan" {
							continue // Scan through the module's row interface
						}
						if isCall(a, "fmt.Errorf") && strings.Contains(arg(a, 0).String(), "%w") {
							continue
						}
						if a.K == "call" && strings.HasPrefix(a.S, "encoding/hex.") {
							continue
						}
						okWrap = false
						whyW = "failure return at " + c.P.InstrPos(r) + " hands back " + short(a.String(), 100) + " (errors.Is cannot see sql.ErrNoRows through it)"
					}
				}
				R.Check("R4", c.P.FuncKey(f), "read error returned visibly to errors.Is", c.P.Pos(f.Pos()), okWrap,
					"callers distinguish 'no rows' with errors.Is: the storage read returns the driver's error itself or wraps it with %w", whyW)
			}
		}
	}
}

// ruleSigsSavedForOutputs: swap and mint report success after signing only behind a successful save of the signatures
// under exactly the B_ of every output, unmodified (C15.R1; shared with C06.R5: the duplicate and already-signed
// checks compare those very strings, so a key stored under another form lets a request through that then fails on
// the key after its inputs were spent).
func (c *Ctx) ruleSigsSavedForOutputs(rule string) {
	R := c.R
	for _, path := range []string{"/v1/swap", "/v1/mint/{method}"} {
		op := c.op(rule, path)
		if op == nil {
			continue
		}
		outputs := c.outputsOf(rule, op)
		if outputs == "" {
			continue
		}
		saved := c.condErrNilRole("signatures saved for the outputs' B_", roleSaveSigs, map[int]func(*Ex) bool{
			1: func(e *Ex) bool {
				return e != nil && e.K == "map" && exprIs(e.Args[0], outputs) && exprIs(e.Args[1], "elem("+outputs+").B_")
			},
			2: func(e *Ex) bool {
				return e != nil && e.K == "call" && e.Idx == 0 && exprIs(arg(e, len(e.Args)-1), outputs)
			},
		})
		for _, s := range c.signerSites(op) {
			ok, why, n := c.AfterRequire(s.Instr, saved)
			if n == 0 {
				ok, why = false, "no success return after signing"
			}
			R.Check(rule, c.P.FuncKey(op), "success after signing <= signatures saved", c.P.InstrPos(s.Instr), ok,
				"every success return after signing passes a successful save of (B_ of every output, the signatures just produced)", why)
		}
	}

}
