package nc

import (
	"flag"
	"fmt"
	"os"
	"sort"
	"strings"

	"golang.org/x/tools/go/ssa"
)

// Main is the entry point of the nutcheck binary.
func Main(args []string) int {
	fs := flag.NewFlagSet("nutcheck", flag.ContinueOnError)
	repo := fs.String("repo", "/repo", "repository to analyse")
	prop := fs.String("property", "", "property id (C01..C20) or 'all'")
	tier := fs.String("tier", "quick", "quick | thorough")
	verif := fs.String("verif", "/verif", "verification directory (evidence, known findings)")
	dump := fs.String("dump", "", "debug: dump origins and edge facts of the function with this key")
	list := fs.Bool("list", false, "debug: list function keys")
	genRef := fs.Bool("gen-ref", false, "maintenance: print the reference signatures (refsigs.txt) of the tree")
	dumpErr := fs.Bool("dump-errdiscipline", false, "debug: census of the error-discipline rule over every module function")
	replay := fs.String("replay", "", "re-decide the obligation recorded in this replay file")
	noEvidence := fs.Bool("no-evidence", false, "do not write evidence files (used by self-tests and seeded runs)")
	verbose := fs.Bool("v", false, "print every obligation")
	if err := fs.Parse(args); err != nil {
		return 2
	}
	if *dump != "" || *list || *dumpErr || *genRef {
		p, err := Load(LoadOptions{Repo: *repo})
		if err != nil {
			fmt.Fprintln(os.Stderr, "load:", err)
			return 2
		}
		if *genRef {
			GenRef(p)
			return 0
		}
		if *dumpErr {
			DumpErrorDiscipline(p)
			return 0
		}
		if *list {
			for _, f := range p.Funcs {
				fmt.Println(p.FuncKey(f), p.Pos(f.Pos()))
			}
			return 0
		}
		f := p.Func(*dump)
		if f == nil {
			fmt.Fprintln(os.Stderr, "no such function:", *dump)
			return 2
		}
		DumpFunc(p, f)
		return 0
	}
	return RunChecks(Options{Repo: *repo, Property: *prop, Tier: *tier, Verif: *verif, Replay: *replay, NoEvidence: *noEvidence, Verbose: *verbose})
}

// DumpFunc prints calls with argument origins and conditional edges with facts.
func DumpFunc(p *Program, f *ssa.Function) {
	o := p.OriginsOf(f)
	fmt.Printf("== %s (%s)\n", p.FuncKey(f), p.Pos(f.Pos()))
	for _, l := range o.Loops.Loops {
		r := "-"
		if l.RangeOf != nil {
			r = o.Of(l.RangeOf).String()
		}
		fmt.Printf("  loop header b%d blocks=%d range=%s\n", l.Header.Index, len(l.Blocks), r)
	}
	for _, b := range f.Blocks {
		for _, in := range b.Instrs {
			switch x := in.(type) {
			case ssa.CallInstruction:
				d := p.Describe(x)
				var as []string
				if d.Recv != nil {
					as = append(as, "recv="+o.Of(d.Recv).String())
				}
				for _, a := range d.Args {
					as = append(as, o.Of(a).String())
				}
				fmt.Printf("  b%d %s CALL %s(%s)\n", b.Index, p.InstrPos(in), d.Name, strings.Join(as, ", "))
			case *ssa.If:
				for s := 0; s < 2; s++ {
					fmt.Printf("  b%d %s IF[%d -> b%d] %s\n", b.Index, p.InstrPos(in), s, b.Succs[s].Index, o.EdgeFact(Edge{b, s}))
				}
			case *ssa.Return:
				var rs []string
				for _, r := range x.Results {
					rs = append(rs, o.Of(r).String())
				}
				fmt.Printf("  b%d %s RETURN %s\n", b.Index, p.InstrPos(in), strings.Join(rs, " ; "))
			case *ssa.Store:
				fmt.Printf("  b%d %s STORE %s <- %s\n", b.Index, p.InstrPos(in), o.Of(x.Addr), o.Of(x.Val))
			}
		}
	}
	var anon []string
	for _, a := range f.AnonFuncs {
		anon = append(anon, p.FuncKey(a))
	}
	sort.Strings(anon)
	if len(anon) > 0 {
		fmt.Println("  anon:", strings.Join(anon, " "))
	}
}
