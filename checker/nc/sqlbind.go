package nc

import (
	"fmt"
	"go/token"
	"go/types"
	"sort"
	"strings"

	"golang.org/x/tools/go/ssa"
)

// ---- agreement of SQL statements with their Go arguments and scan destinations (E5) ----

func normName(s string) string {
	s = strings.ToLower(s)
	s = strings.ReplaceAll(s, "_", "")
	return s
}

// sqlLeaf extracts the "name" a bound argument carries: the field, parameter or variable it ultimately is.
// It also returns a complaint when a wrapper changes the meaning (NullString with an inverted Valid flag).
func (c *Ctx) sqlLeaf(e *Ex) (string, string) {
	if e == nil {
		return "", ""
	}
	switch e.K {
	case "const":
		return "#" + strings.Trim(e.S, "\""), ""
	case "param":
		return e.S, ""
	case "field":
		return e.S, ""
	case "elem", "index":
		l, w := c.sqlLeaf(e.Args[0])
		return l, w
	case "alloc":
		name := e.S
		if i := strings.Index(name, "@"); i >= 0 {
			name = name[:i]
		}
		return name, ""
	case "addr":
		return c.sqlLeaf(e.Args[0])
	case "deref":
		return c.sqlLeaf(e.Args[0])
	case "call":
		// Y derivation
		if isCall(e, fnHexEncode) {
			if s := arg(e, 0); (isCallSuffix(s, sfxSerComp) || isCallSuffix(s, sfxSerCompPtr)) && isCall(arg(s, 0), fnHashToCurve) {
				return "Y", ""
			}
			return c.sqlLeaf(arg(e, 0))
		}
		if strings.HasSuffix(e.S, ").String") || strings.HasSuffix(e.S, ").SerializeCompressed") || strings.HasSuffix(e.S, ").Serialize") {
			return c.sqlLeaf(arg(e, 0))
		}
		return e.S, ""
	case "phi":
		// alternatives must agree on the leaf (ignoring zero values)
		leaf := ""
		for _, a := range e.Args {
			if a.K == "zero" || isConst(a, "\"\"") {
				continue
			}
			l, w := c.sqlLeaf(a)
			if w != "" {
				return l, w
			}
			if leaf != "" && l != leaf {
				return leaf + "|" + l, ""
			}
			leaf = l
		}
		return leaf, ""
	case "with":
		// sql.NullString{String: X, Valid: V}
		if strings.Contains(e.Args[0].String(), "Null") {
			fs := fieldsOfWith(e)
			var x *Ex
			for k, v := range fs {
				if k != "Valid" {
					x = v
				}
			}
			l, w := c.sqlLeaf(x)
			if v := fs["Valid"]; v != nil && x != nil {
				vs := v.String()
				xs := x.String()
				okValid := vs == "#true" || vs == "(#0 < len("+xs+"))" || vs == "(len("+xs+") > #0)" || vs == "(len("+xs+") != #0)" || vs == "("+xs+" != #\"\")"
				if !okValid {
					w = "NULL-wrapper Valid flag is " + short(vs, 80) + " (expected: true when the value is non-empty)"
				}
			}
			return l, w
		}
	}
	return "", ""
}

func colCompatible(col, leaf string) bool {
	if leaf == "" {
		return false
	}
	n1, n2 := normName(col), normName(strings.TrimPrefix(leaf, "#"))
	if n1 == n2 || n2 == n1+"s" {
		return true
	}
	if len(n2) >= 2 && strings.HasSuffix(n1, n2) {
		return true
	}
	if len(n1) >= 2 && strings.HasSuffix(n2, n1) {
		return true
	}
	// view column "balance" is SUM(amount)
	if n1 == "balance" && n2 == "amount" {
		return true
	}
	return false
}

// columnsOf lists, in binding order, the columns a statement's placeholders belong to.
func paramColumns(st *SQLStmt) []string {
	switch st.Verb {
	case "INSERT":
		return st.Cols
	case "UPDATE":
		return append(append([]string{}, st.Cols...), st.Where...)
	default:
		return st.Where
	}
}

// ruleSQLAgreement checks every statement of the storage layer that touches one of the tables.
func (c *Ctx) ruleSQLAgreement(rule string, tables map[string]bool) {
	R := c.R
	if c.V.Schema == nil {
		R.Unresolved(rule, "schema", "migrations could not be folded")
		return
	}
	var meths []string
	for m := range c.V.Stmts {
		meths = append(meths, m)
	}
	sort.Strings(meths)
	for _, m := range meths {
		for _, st := range c.V.Stmts[m] {
			if tables != nil && !tables[st.SQL.Table] {
				continue
			}
			fk := c.P.FuncKey(st.Fn)
			pos := c.P.InstrPos(st.Exec)
			o := c.P.OriginsOf(st.Fn)
			tab := c.V.Schema.Tables[st.SQL.Table]
			if tab == nil {
				R.Check(rule, fk, st.SQL.Role()+" table exists", pos, false, "the statement's table exists after all migrations", "no table/view "+st.SQL.Table)
				continue
			}
			// columns named by the statement exist
			for _, col := range append(append([]string{}, st.SQL.Cols...), st.SQL.Where...) {
				if col == "*" || strings.HasSuffix(col, "(...)") {
					continue
				}
				found := false
				for _, cn := range tab.ColNames() {
					if cn == col {
						found = true
					}
				}
				if !found {
					R.Check(rule, fk, st.SQL.Role()+" column "+col+" exists", pos, false, "every column the statement names exists in "+st.SQL.Table, "column "+col+" is not in "+strings.Join(tab.ColNames(), ","))
				}
			}
			// bound parameters
			cols := paramColumns(st.SQL)
			if st.Args != nil {
				if len(st.Args) != st.SQL.NParams || (st.SQL.Verb == "INSERT" && len(cols) != st.SQL.NParams) {
					R.Check(rule, fk, st.SQL.Role()+" placeholder count", pos, false, "placeholders, columns and arguments agree in number",
						fmt.Sprintf("%d placeholders, %d columns, %d arguments", st.SQL.NParams, len(cols), len(st.Args)))
				} else {
					okAll, why := true, ""
					used := map[string]string{}
					if st.ArgsFn != nil && st.ArgsFn != st.Fn {
						o = c.P.OriginsOf(st.ArgsFn)
					}
					afn := st.Fn
					if st.ArgsFn != nil {
						afn = st.ArgsFn
					}
					for i, a := range st.Args {
						if i >= len(cols) {
							break
						}
						if len(st.Args) == 1 && len(afn.Params) == 2 {
							// a single placeholder bound to the method's single parameter: nothing to confuse
							if e := o.Of(a); e.K == "param" {
								continue
							}
						}
						leaf, warn := c.sqlLeaf(o.Of(a))
						if warn != "" {
							okAll, why = false, "column "+cols[i]+": "+warn
							break
						}
						if !colCompatible(cols[i], leaf) {
							okAll = false
							why = fmt.Sprintf("placeholder %d is column %s but is bound to %q (%s)", i+1, cols[i], leaf, short(o.Of(a).String(), 80))
							break
						}
						if prev, dup := used[leaf]; dup && !strings.HasPrefix(leaf, "#") {
							okAll = false
							why = "value " + leaf + " bound to both " + prev + " and " + cols[i]
							break
						}
						used[leaf] = cols[i]
					}
					R.Check(rule, fk, st.SQL.Role()+" arguments match columns", pos, okAll, "argument i is the value of column i ("+strings.Join(cols, ",")+")", why)
				}
			} else if st.Dynamic && st.SQL.Verb == "INSERT" {
				// a multi-row INSERT whose argument list is built at run time: which value lands in which column
				// of which row is not visible to the positional comparison - a row could pair values of
				// different elements. Not decided (the single-row prepared INSERT inside a transaction is the
				// form the rules read).
				R.Undecided(rule, fk, st.SQL.Role()+" arguments match columns", pos, "argument i is the value of column i, row by row", "the INSERT's arguments are assembled at run time (multi-row form): row/column pairing is not decided")
			} else if st.Dynamic {
				// IN-list built at run time: the bound values are exactly the elements of the storage method's
				// whole list parameter (a look-up that covers only part of the list reports the rest as absent)
				okIn, whyIn := c.inListCoversParam(st)
				R.Check(rule, fk, st.SQL.Role()+" IN-list arguments", pos, okIn, "the IN-list binds every element of the method's list parameter, unmodified", whyIn)
			}
			// scan destinations
			if st.Scan != nil && st.SQL.Verb == "SELECT" {
				sel := st.SQL.Cols
				if len(sel) == 1 && sel[0] == "*" {
					sel = tab.ColNames()
				}
				if st.Dests == nil {
					R.Undecided(rule, fk, st.SQL.Role()+" scan destinations", c.P.InstrPos(st.Scan), "scan agreement", "destinations are not a literal list")
					continue
				}
				if len(sel) != len(st.Dests) {
					R.Check(rule, fk, st.SQL.Role()+" scan count", c.P.InstrPos(st.Scan), false, "one destination per selected column",
						fmt.Sprintf("%d columns (%s) scanned into %d destinations", len(sel), strings.Join(sel, ","), len(st.Dests)))
					continue
				}
				okAll, why := true, ""
				used := map[string]string{}
				for i, dv := range st.Dests {
					leaf := destLeaf(dv)
					if strings.HasSuffix(sel[i], "(...)") {
						continue // an aggregate / expression column: not a column of the table, any destination
					}
					if !colCompatible(sel[i], leaf) {
						okAll = false
						why = fmt.Sprintf("column %d (%s) is scanned into %q", i+1, sel[i], leaf)
						break
					}
					if prev, dup := used[leaf]; dup {
						okAll = false
						why = "destination " + leaf + " receives both " + prev + " and " + sel[i]
						break
					}
					used[leaf] = sel[i]
				}
				R.Check(rule, fk, st.SQL.Role()+" scan destinations match columns", c.P.InstrPos(st.Scan), okAll, "column i ("+strings.Join(sel, ",")+") is scanned into its own field", why)
			}
		}
	}
}

// destLeaf names a Scan destination: &x.Field -> Field, &local -> local.
func destLeaf(v ssa.Value) string {
	v = UnwrapConv(v)
	switch x := v.(type) {
	case *ssa.FieldAddr:
		st := x.X.Type().Underlying().(*types.Pointer).Elem().Underlying().(*types.Struct)
		return st.Field(x.Field).Name()
	case *ssa.Alloc:
		if x.Comment != "" {
			return x.Comment
		}
		return x.Name()
	}
	return ""
}

// scanLocalsCopied: the nullable column `col` of the statement's SELECT list is scanned into a sql.Null* local;
// that local's value field is what is stored into the result field `field` - in the storage method itself or
// in a helper that is new on this tree and receives the local (by value) from it. The local is identified as
// the Scan destination bound to the column, not by its name.
func (c *Ctx) scanLocalsCopied(rule string, method string, pairs map[string]string) {
	R := c.R
	for _, st := range c.V.Stmts[method] {
		if st.Scan == nil {
			continue
		}
		f := st.Fn
		fk := c.P.FuncKey(f)
		cols := st.SQL.Cols
		if len(cols) == 1 && cols[0] == "*" && c.V.Schema != nil {
			if tab := c.V.Schema.Tables[st.SQL.Table]; tab != nil {
				cols = tab.ColNames()
			}
		}
		for col, field := range pairs {
			var dest *ssa.Alloc
			selected := false
			for _, cn := range cols {
				if strings.EqualFold(cn, col) {
					selected = true
				}
			}
			if !selected {
				continue // a statement that does not read this column (a count, a projection of other columns)
			}
			for i, cn := range cols {
				if strings.EqualFold(cn, col) && i < len(st.Dests) {
					dv := st.Dests[i]
					if mi, ok := dv.(*ssa.MakeInterface); ok {
						dv = mi.X
					}
					dest, _ = dv.(*ssa.Alloc)
				}
			}
			if dest == nil {
				R.Check(rule, fk, "nullable "+col+" copied into "+field, c.P.Pos(f.Pos()), false, "the nullable column scanned into "+col+" is copied into the result's "+field, "scan destination of the column is not a local")
				continue
			}
			// is v the value field of (a copy of) the destination local?
			var fromDest func(v ssa.Value, g *ssa.Function, depth int) bool
			isDestVal := func(x ssa.Value, g *ssa.Function, depth int) bool {
				// x is the struct value: a load of the destination, or a parameter every caller binds to such a load
				switch y := x.(type) {
				case *ssa.UnOp:
					if al, ok := y.X.(*ssa.Alloc); ok {
						if al == dest {
							return true
						}
						// a parameter spilled into a local of the helper
						for _, ref := range *al.Referrers() {
							if sto, ok := ref.(*ssa.Store); ok && sto.Addr == al {
								if prm, ok := sto.Val.(*ssa.Parameter); ok {
									return fromDest(prm, g, depth+1)
								}
							}
						}
					}
				case *ssa.Parameter:
					return fromDest(y, g, depth+1)
				}
				return false
			}
			fromDest = func(v ssa.Value, g *ssa.Function, depth int) bool {
				if depth > 3 {
					return false
				}
				if prm, ok := v.(*ssa.Parameter); ok {
					var sites []ssa.CallInstruction
					for _, site := range c.callersOf(g) {
						for _, pf := range c.OpFuncs(f) {
							if site.Parent() == pf {
								sites = append(sites, site)
							}
						}
					}
					if len(sites) == 0 {
						return false
					}
					for _, site := range sites {
						idx := -1
						for i, p := range g.Params {
							if p == prm {
								idx = i
							}
						}
						if idx < 0 || idx >= len(site.Common().Args) || !isDestVal(site.Common().Args[idx], site.Parent(), depth) {
							return false
						}
					}
					return true
				}
				return false
			}
			found := false
			for _, g := range c.OpFuncs(f) {
				for _, b := range g.Blocks {
					for _, in := range b.Instrs {
						s, ok := in.(*ssa.Store)
						if !ok {
							continue
						}
						fa, ok := s.Addr.(*ssa.FieldAddr)
						if !ok || fieldName(fa) != field {
							continue
						}
						switch ld := UnwrapConv(s.Val).(type) {
						case *ssa.UnOp:
							// load of <struct>.String through its address
							if fa2, ok := ld.X.(*ssa.FieldAddr); ok {
								if al, ok := fa2.X.(*ssa.Alloc); ok {
									if al == dest {
										found = true
									} else {
										for _, ref := range *al.Referrers() {
											if sto, ok := ref.(*ssa.Store); ok && sto.Addr == al {
												if prm, ok := sto.Val.(*ssa.Parameter); ok && fromDest(prm, g, 0) {
													found = true
												}
											}
										}
									}
								}
							}
						case *ssa.Field:
							if isDestVal(ld.X, g, 0) {
								found = true
							}
						}
					}
				}
			}
			R.Check(rule, fk, "nullable "+col+" copied into "+field, c.P.Pos(f.Pos()), found, "the nullable column scanned into "+col+" is copied into the result's "+field, "no copy found")
		}
	}
}

// inListCoversParam: the variadic arguments of a run-time built IN-list statement are map(L => elem(L)) with L a
// list parameter of the storage method; when the statement sits in a helper that is new on this tree, L is the
// helper's parameter and every call site hands it the method's whole list (or the chunks of slices.Chunk over it).
func (c *Ctx) inListCoversParam(st *StmtSite) (bool, string) {
	d := c.P.Describe(st.Exec)
	if len(d.Args) == 0 {
		return false, "statement without arguments"
	}
	o := c.P.OriginsOf(st.Fn)
	a := o.Of(d.Args[len(d.Args)-1])
	if a.K != "map" || a.Args[1].String() != "elem("+a.Args[0].String()+")" || !strings.HasPrefix(a.Args[0].String(), "P:") {
		return false, "bound values are " + short(a.String(), 140) + " (expected the elements of a list parameter, one to one)"
	}
	if !c.P.IsNewFunc(st.Fn) {
		return true, ""
	}
	// helper: follow the list parameter to the call sites
	pname := strings.TrimPrefix(a.Args[0].String(), "P:")
	pi := -1
	for i, p := range st.Fn.Params {
		if p.Name() == pname {
			pi = i
		}
	}
	sites := c.callersOf(st.Fn)
	if pi < 0 || len(sites) == 0 {
		return false, "helper " + st.Fn.Name() + ": list parameter or call sites not found"
	}
	for _, site := range sites {
		caller := site.Parent()
		args := site.Common().Args
		if pi >= len(args) {
			return false, "call of " + st.Fn.Name() + " without the list argument"
		}
		e := c.P.OriginsOf(caller).Of(args[pi])
		whole := e.K == "param" || (strings.HasPrefix(e.String(), "P:") && !strings.ContainsAny(e.String(), "[("))
		chunk := e.K == "elem" && isCall(e.Args[0], "slices.Chunk") && strings.HasPrefix(arg(e.Args[0], 0).String(), "P:")
		if !(whole || chunk) || c.P.IsNewFunc(caller) {
			return false, "helper " + st.Fn.Name() + " is called at " + c.P.InstrPos(site) + " with " + short(e.String(), 100) + ": that the calls together cover the method's whole list is not decided"
		}
	}
	return true, ""
}

// scannedLocalsReachResult: every column of a reader statement that is scanned into a LOCAL variable (nullable
// columns, states stored as text, flags) flows on into the value the method returns: through conversions, calls,
// field reads, phis, into a store to a field of another variable, an append, or a return. A local that is scanned
// and then dropped means the reader reports the column's zero value whatever is stored (a quote that always reads
// UNPAID, a proof without its witness).
func (c *Ctx) scannedLocalsReachResult(rule string, methods ...string) {
	R := c.R
	n := 0
	for _, method := range methods {
		for _, st := range c.V.Stmts[method] {
			if st.Scan == nil || st.Dests == nil {
				continue
			}
			f := st.Fn
			fk := c.P.FuncKey(f)
			cols := st.SQL.Cols
			if len(cols) == 1 && cols[0] == "*" && c.V.Schema != nil {
				if tab := c.V.Schema.Tables[st.SQL.Table]; tab != nil {
					cols = tab.ColNames()
				}
			}
			for i, dv := range st.Dests {
				if mi, ok := dv.(*ssa.MakeInterface); ok {
					dv = mi.X
				}
				dest, ok := dv.(*ssa.Alloc)
				if !ok {
					continue // scanned straight into a field of the result
				}
				col := "?"
				if i < len(cols) {
					col = cols[i]
				}
				n++
				R.Check(rule, fk, "column "+col+" scanned into local "+dest.Comment+" reaches the result", c.P.InstrPos(st.Scan), flowsOut(dest),
					"a column scanned into a local variable is carried into the returned value", "the local is not used for anything the method returns")
				if okV, whyV, isNullable := nullableReadWhenValid(c, dest); isNullable {
					R.Check(rule, fk, "nullable column "+col+" is read where it is valid", c.P.InstrPos(st.Scan), okV,
						"the value of a nullable column is taken on the side of the test where the column is valid (not only where it is NULL)", whyV)
				}
			}
		}
	}
	if n == 0 {
		// the row scan may sit in a helper that is new on this tree (scanQuote(row)): examine every database/sql Scan
		// reachable from the reader methods through such helpers
		for _, method := range methods {
			for _, t := range c.V.DBImpls {
				f := c.P.MethodOf(t, method)
				if f == nil {
					continue
				}
				for _, g := range c.OpFuncs(f) {
					for _, ci := range Calls(g) {
						d := c.P.Describe(ci)
						// (*sql.Row).Scan / (*sql.Rows).Scan, or Scan on an interface of the module that both satisfy
						// (`type rowScanner interface{ Scan(dest ...any) error }` shared by single-row and list readers)
						isSQLScan := d.Static != nil && d.Static.Name() == "Scan" && strings.HasPrefix(d.Name, "database/sql.")
						isIfaceScan := d.Iface != nil && d.Iface.Name() == "Scan" && d.Iface.Pkg() != nil && c.P.InModule(d.Iface.Pkg().Path())
						if !(isSQLScan || isIfaceScan) || len(d.Args) != 1 {
							continue
						}
						dests, ok := VarArgs(d.Args[0])
						if !ok {
							continue
						}
						for _, dv := range dests {
							if mi, ok := dv.(*ssa.MakeInterface); ok {
								dv = mi.X
							}
							dest, ok := dv.(*ssa.Alloc)
							if !ok {
								continue
							}
							n++
							R.Check(rule, c.P.FuncKey(f), "column scanned into local "+dest.Comment+" reaches the result", c.P.InstrPos(ci), flowsOut(dest),
								"a column scanned into a local variable is carried into the returned value", "the local is not used for anything the method returns")
						}
					}
				}
			}
		}
	}
	if n == 0 {
		R.Unresolved(rule, "reader statements with local scan destinations in "+strings.Join(methods, ","), "none found")
	}
}

// flowsOut: some value derived from the content of cell is stored into another variable's field / element, appended,
// passed on in a return, or (being a struct the cell is part of) the cell itself is returned.
func flowsOut(cell *ssa.Alloc) bool {
	seen := map[ssa.Value]bool{}
	var work []ssa.Value
	push := func(v ssa.Value) {
		if v != nil && !seen[v] {
			seen[v] = true
			work = append(work, v)
		}
	}
	// start: loads of the cell and of its fields
	var addrs []ssa.Value
	addrs = append(addrs, cell)
	for i := 0; i < len(addrs) && i < 64; i++ {
		refs := addrs[i].Referrers()
		if refs == nil {
			continue
		}
		for _, r := range *refs {
			switch y := r.(type) {
			case *ssa.FieldAddr:
				if y.X == addrs[i] {
					addrs = append(addrs, y)
				}
			case *ssa.UnOp:
				if y.Op == token.MUL && y.X == addrs[i] {
					push(y)
				}
			}
		}
	}
	for len(work) > 0 && len(seen) < 512 {
		v := work[len(work)-1]
		work = work[:len(work)-1]
		refs := v.Referrers()
		if refs == nil {
			continue
		}
		for _, r := range *refs {
			switch y := r.(type) {
			case *ssa.Return:
				return true
			case *ssa.Store:
				if y.Val != v {
					continue
				}
				root, _ := addrRoot(y.Addr)
				if root != ssa.Value(cell) {
					return true
				}
			case *ssa.MapUpdate:
				return true
			case *ssa.If, *ssa.DebugRef:
				// a test only (e.g. .Valid): not a use of the value
			case *ssa.Call:
				if bi, ok := y.Call.Value.(*ssa.Builtin); ok && bi.Name() == "append" {
					return true
				}
				push(y)
			case *ssa.Extract:
				push(y)
			case ssa.Value:
				// conversions, field reads, arithmetic, phis, interface boxing ...
				if _, isBool := y.Type().Underlying().(*types.Basic); isBool && y.Type().Underlying().(*types.Basic).Kind() == types.Bool {
					if _, isField := y.(*ssa.Field); !isField {
						continue // comparison results do not carry the value
					}
				}
				push(y)
			}
		}
	}
	return false
}

// readersReturnEveryRow: the list readers hand back every row they scan: the list returned after the row loop is the
// accumulation (append) of the values filled by the row scan, one per iteration of the rows.Next loop.
func (c *Ctx) readersReturnEveryRow(rule string, methods ...string) {
	R := c.R
	n := 0
	for _, method := range methods {
		for _, st := range c.V.Stmts[method] {
			if st.Scan == nil {
				continue
			}
			f := st.Fn
			o := c.P.OriginsOf(f)
			l := o.Loops.InnermostContaining(st.Scan.Block())
			if l == nil {
				continue // single-row reader
			}
			fk := c.P.FuncKey(f)
			n++
			ok, why := false, "no success return after the row loop"
			for _, r := range o.SuccessReturns() {
				if len(r.Results) == 0 || l.Blocks[r.Block()] {
					continue
				}
				// only returns that can follow the loop
				if reach, _ := Reach(Point{l.Header, 0}, PointOf(r), NewCut()); !reach {
					continue
				}
				e := o.Of(r.Results[0])
				ok = e.K == "acc" && strings.HasPrefix(e.S, "append") && len(e.Args) >= 2 && strings.Contains(e.Args[len(e.Args)-1].String(), "Scan@")
				why = "returned list is " + short(e.String(), 140)
				if !ok {
					break
				}
			}
			// every completed iteration appends: the latch is not reachable from the scan's success edge without the append
			if ok {
				cut := NewCut()
				for _, b := range f.Blocks {
					for _, in := range b.Instrs {
						if call, isCall := in.(*ssa.Call); isCall {
							if bi, isB := call.Call.Value.(*ssa.Builtin); isB && bi.Name() == "append" && l.Blocks[b] {
								cut.Barriers[in] = true
							}
						}
					}
				}
				scanOK := &Cond{Name: "row scanned", Match: func(ft *Fact, _ *Origins) bool {
					return ft.Kind == "errnil" && ft.Pos && ft.A != nil && ft.A.K == "call" && ft.A.Call == st.Scan
				}}
				for e := range o.AcceptEdges(scanOK) {
					if reach, path := Reach(Point{e.To(), 0}, Point{l.Header, 0}, cut); reach {
						ok = false
						why = "the next row can be fetched without the scanned row having been appended: " + c.P.PathString(path)
					}
				}
			}
			R.Check(rule, fk, "every scanned row is returned", c.P.InstrPos(st.Scan), ok, "the reader returns the list of all rows it scanned (a dropped row reads as 'not spent' / 'not pending' / 'not signed')", why)
			// a success return that does not follow the row loop answers without having asked the table: only an
			// empty request list may be answered that way (a fast path, a batched variant, a cache are other answers
			// than the statement's and are not examined by the binding rules)
			emptyReq := &Cond{Name: "request list is empty", Match: func(ft *Fact, _ *Origins) bool {
				x := lenZero(ft)
				return x != nil && strings.HasPrefix(x.String(), "P:")
			}}
			for _, r := range o.SuccessReturns() {
				if len(r.Results) == 0 || l.Blocks[r.Block()] {
					continue
				}
				if reach, _ := Reach(Point{l.Header, 0}, PointOf(r), NewCut()); reach {
					continue
				}
				okE, whyE := o.Requires(r, emptyReq)
				R.Check(rule, fk, "answer without the statement only for an empty request", c.P.InstrPos(r), okE,
					"every success return of the reader follows the row loop of its statement, except the answer to an empty list", whyE)
			}
		}
	}
	if n == 0 {
		R.Unresolved(rule, "list readers "+strings.Join(methods, ","), "no row loop found")
	}
}

// nullableReadWhenValid: dest is a local of a database/sql Null type. Some read of its value member must be
// reachable with every "Valid is false" edge removed (and constant branches folded): a test with the wrong
// polarity, or a branch switched off, reads the value only for NULL columns.
func nullableReadWhenValid(c *Ctx, dest *ssa.Alloc) (ok bool, why string, nullable bool) {
	if !strings.HasPrefix(strings.TrimPrefix(typeShort(c.P, dest.Type()), "*"), "sql.Null") || dest.Referrers() == nil {
		return true, "", false
	}
	g := dest.Parent()
	cut := NewCut()
	var reads []ssa.Instruction
	for _, r := range *dest.Referrers() {
		fa, isFA := r.(*ssa.FieldAddr)
		if !isFA || fa.Referrers() == nil {
			continue
		}
		for _, r2 := range *fa.Referrers() {
			ld, isLd := r2.(*ssa.UnOp)
			if !isLd || ld.Op != token.MUL {
				continue
			}
			if fieldName(fa) != "Valid" {
				reads = append(reads, ld)
				continue
			}
			// branches on this Valid load (possibly negated)
			for _, bb := range g.Blocks {
				if len(bb.Instrs) == 0 {
					continue
				}
				ifi, isIf := bb.Instrs[len(bb.Instrs)-1].(*ssa.If)
				if !isIf {
					continue
				}
				cond, neg := ifi.Cond, false
				if un, isNot := cond.(*ssa.UnOp); isNot && un.Op == token.NOT {
					cond, neg = un.X, true
				}
				if cond == ssa.Value(ld) {
					cut.Edges[Edge{bb, 1 - boolInt(neg)}] = true // the side taken when Valid is false
				}
			}
		}
	}
	if len(reads) == 0 {
		return true, "", true // flowsOut decides whether it is used at all
	}
	for _, rd := range reads {
		if reach, _ := ReachFromEntry(g, rd, cut); reach {
			return true, "", true
		}
	}
	return false, "every read of " + dest.Comment + "'s value lies on the side where " + dest.Comment + ".Valid is false (or in a branch that is never taken)", true
}
