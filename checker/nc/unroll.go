package nc

import (
	"go/constant"
	"go/token"
	"go/types"

	"golang.org/x/tools/go/ssa"
)

// FoldAtExit gives the value a loop-carried variable has behind a loop that runs once over a list
// written out in the function (`for _, x := range [...]T{a, b, c} { v = f(v, x) }`): the body is applied
// to the elements one after the other, v_0 = init, v_k+1 = step[v := v_k, x := e_k], and the value at
// `at` - a use behind the loop, reached only over the loop's own exit - is v_N. It answers nil whenever
// one of the conditions is not met (the caller then keeps the general loop-carried form):
//   - the loop counts an index from 0 (or -1 in the range form) in steps of one up to a constant N <= 8,
//     or up to len() of a slice of a fresh [N]T;
//   - the list is a local array (or a slice of one) whose N cells are each stored once, at a constant
//     index, before the loop, and that is not referenced otherwise;
//   - every way out of the loop other than the header's exit ends the function without reaching `at`;
//   - after substitution nothing in the result depends on the loop index or on the variable itself.
func (o *Origins) FoldAtExit(v ssa.Value, at ssa.Instruction) *Ex {
	ph, ok := v.(*ssa.Phi)
	if !ok || at == nil {
		return nil
	}
	l := o.loopOfHeader(ph.Block())
	if l == nil || l.Blocks[at.Block()] {
		return nil
	}
	h := l.Header
	ifi, ok := h.Instrs[len(h.Instrs)-1].(*ssa.If)
	if !ok || len(h.Succs) != 2 || !l.Blocks[h.Succs[0]] || l.Blocks[h.Succs[1]] {
		return nil
	}
	cmp, ok := ifi.Cond.(*ssa.BinOp)
	if !ok || cmp.Op != token.LSS {
		return nil
	}
	// the index: phi from 0 stepping +1, or (phi from -1) + 1 in the range form
	var idx ssa.Value
	counts := func(p ssa.Value, start int64) bool {
		ip, ok := p.(*ssa.Phi)
		if !ok || ip.Block() != h {
			return false
		}
		for i, e := range ip.Edges {
			if l.Blocks[h.Preds[i]] {
				b, ok := e.(*ssa.BinOp)
				if !ok || b.Op != token.ADD || b.X != ssa.Value(ip) {
					return false
				}
				if one, okc := constInt(b.Y); !okc || one != 1 {
					return false
				}
			} else if c, okc := constInt(e); !okc || c != start {
				return false
			}
		}
		return true
	}
	if add, ok := cmp.X.(*ssa.BinOp); ok && add.Op == token.ADD && add.Block() == h && counts(add.X, -1) {
		if one, okc := constInt(add.Y); okc && one == 1 {
			idx = add
		}
	}
	if idx == nil && counts(cmp.X, 0) {
		idx = cmp.X
	}
	if idx == nil {
		return nil
	}
	// the bound and the list
	var cells *ssa.Alloc
	var n int64
	var reads []ssa.Value // the values that read list[idx] in the loop
	arrayOf := func(a *ssa.Alloc) int64 {
		if at, ok := a.Type().Underlying().(*types.Pointer).Elem().Underlying().(*types.Array); ok {
			return at.Len()
		}
		return -1
	}
	if k, okc := constInt(cmp.Y); okc {
		n = k
		// an array value loaded from a local before the loop and indexed in the body
		for b := range l.Blocks {
			for _, in := range b.Instrs {
				if ix, ok := in.(*ssa.Index); ok && ix.Index == idx {
					ld, ok := ix.X.(*ssa.UnOp)
					if !ok || ld.Op != token.MUL || l.Blocks[ld.Block()] {
						return nil
					}
					a, ok := ld.X.(*ssa.Alloc)
					if !ok || (cells != nil && cells != a) {
						return nil
					}
					cells = a
					reads = append(reads, ix)
				}
			}
		}
	} else if x := lenArg(cmp.Y); x != nil {
		sl, ok := x.(*ssa.Slice)
		if !ok || sl.Low != nil || sl.High != nil || sl.Max != nil || l.Blocks[sl.Block()] {
			return nil
		}
		a, ok := sl.X.(*ssa.Alloc)
		if !ok {
			return nil
		}
		cells, n = a, arrayOf(a)
		for b := range l.Blocks {
			for _, in := range b.Instrs {
				if ia, ok := in.(*ssa.IndexAddr); ok && ia.X == ssa.Value(sl) && ia.Index == idx {
					for _, r := range *ia.Referrers() {
						ld, ok := r.(*ssa.UnOp)
						if !ok || ld.Op != token.MUL {
							return nil
						}
						reads = append(reads, ld)
					}
				}
			}
		}
		// the slice is used for len() and for these reads only
		for _, r := range *sl.Referrers() {
			switch y := r.(type) {
			case *ssa.IndexAddr:
				if y.Index != idx || !l.Blocks[y.Block()] {
					return nil
				}
			case *ssa.Call:
				if lenArg(y) != ssa.Value(sl) {
					return nil
				}
			case *ssa.DebugRef:
			default:
				return nil
			}
		}
	}
	if cells == nil || n <= 0 || n > 8 || arrayOf(cells) != n || l.Blocks[cells.Block()] || len(reads) == 0 {
		return nil
	}
	// each cell stored once before the loop; no other reference to the array
	elems := make([]*Ex, n)
	for _, r := range *cells.Referrers() {
		switch y := r.(type) {
		case *ssa.IndexAddr:
			k, okc := constInt(y.Index)
			if !okc || k < 0 || k >= n || elems[k] != nil || !y.Block().Dominates(h) || l.Blocks[y.Block()] {
				return nil
			}
			refs := *y.Referrers()
			if len(refs) != 1 {
				return nil
			}
			st, ok := refs[0].(*ssa.Store)
			if !ok || st.Addr != ssa.Value(y) || st.Block() != y.Block() {
				return nil
			}
			elems[k] = o.Of(st.Val)
		case *ssa.UnOp:
			if y.Op != token.MUL || l.Blocks[y.Block()] || !y.Block().Dominates(h) {
				return nil
			}
		case *ssa.Slice:
			if l.Blocks[y.Block()] || !y.Block().Dominates(h) {
				return nil
			}
		case *ssa.DebugRef:
		default:
			return nil
		}
	}
	for _, e := range elems {
		if e == nil {
			return nil
		}
	}
	// ways out of the loop other than the header's exit must not lead to `at`
	for b := range l.Blocks {
		for _, s := range b.Succs {
			if l.Blocks[s] || b == h {
				continue
			}
			if s == at.Block() {
				return nil
			}
			if reach, _ := Reach(Point{s, 0}, PointOf(at), NewCut()); reach {
				return nil
			}
		}
	}
	// init and step of the variable
	var initV, stepV ssa.Value
	for i, e := range ph.Edges {
		if l.Blocks[h.Preds[i]] {
			if stepV != nil && stepV != e {
				return nil
			}
			stepV = e
		} else {
			if initV != nil && initV != e {
				return nil
			}
			initV = e
		}
	}
	if initV == nil || stepV == nil {
		return nil
	}
	whole := o.Of(ph)
	if whole.K != "loopvar" || len(whole.Args) != 1 || whole.Args[0].K != "phi" || len(whole.Args[0].Args) != 2 {
		return nil
	}
	init := o.Of(initV)
	var step *Ex
	for _, a := range whole.Args[0].Args {
		if a.String() != init.String() {
			step = a
		}
	}
	if step == nil {
		return nil
	}
	readStr := map[string]bool{}
	for _, r := range reads {
		readStr[o.Of(r).String()] = true
	}
	idxStr := o.Of(idx).String()
	cur := init
	for k := int64(0); k < n; k++ {
		prev, el := cur, elems[k]
		cur = rewriteEx(step, func(x *Ex) *Ex {
			if x.K == "self" && x.V == ssa.Value(ph) {
				return prev
			}
			if readStr[x.String()] {
				return el
			}
			return nil
		})
		if cur.Has(func(x *Ex) bool { return x.K == "self" || x.String() == idxStr }) {
			return nil
		}
	}
	return cur
}

// rewriteEx rebuilds e with every sub-expression for which f answers non-nil replaced (outermost first),
// folding sums of two constants the way the compiler folds them in source text.
func rewriteEx(e *Ex, f func(*Ex) *Ex) *Ex {
	if e == nil {
		return nil
	}
	if r := f(e); r != nil {
		return r
	}
	if len(e.Args) == 0 {
		return e
	}
	changed := false
	args := make([]*Ex, len(e.Args))
	for i, a := range e.Args {
		args[i] = rewriteEx(a, f)
		if args[i] != a {
			changed = true
		}
	}
	if !changed {
		return e
	}
	out := &Ex{K: e.K, S: e.S, Args: args, V: e.V, Call: e.Call, Idx: e.Idx}
	if out.K == "bin" && out.S == "+" && args[0].K == "const" && args[1].K == "const" {
		if c := foldSum(args[0].S, args[1].S, e.V); c != "" {
			return &Ex{K: "const", S: c, V: e.V, Idx: -1}
		}
	}
	return out
}

// foldSum adds two integer constants when the sum is representable in the type of v without wrapping.
func foldSum(a, b string, v ssa.Value) string {
	if v == nil {
		return ""
	}
	bt, ok := v.Type().Underlying().(*types.Basic)
	if !ok || bt.Info()&types.IsInteger == 0 {
		return ""
	}
	x, y := constant.MakeFromLiteral(a, token.INT, 0), constant.MakeFromLiteral(b, token.INT, 0)
	if x.Kind() != constant.Int || y.Kind() != constant.Int {
		return ""
	}
	sum := constant.BinaryOp(x, token.ADD, y)
	if !representable(sum, bt) {
		return ""
	}
	return sum.ExactString()
}

func representable(c constant.Value, bt *types.Basic) bool {
	bits := map[types.BasicKind]int{types.Int8: 8, types.Int16: 16, types.Int32: 32, types.Int64: 64, types.Int: 64,
		types.Uint8: 8, types.Uint16: 16, types.Uint32: 32, types.Uint64: 64, types.Uint: 64, types.Uintptr: 64}[bt.Kind()]
	if bits == 0 || constant.Sign(c) < 0 {
		return false
	}
	if bt.Info()&types.IsUnsigned == 0 {
		bits--
	}
	lim := constant.Shift(constant.MakeInt64(1), token.SHL, uint(bits))
	return constant.Compare(c, token.LSS, lim)
}
