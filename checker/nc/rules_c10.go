package nc

import (
	"go/types"
	"strings"

	"golang.org/x/tools/go/ssa"
)

func init() {
	register("C10", "The algebraic identities (unblinding yields k*hash_to_curve(secret), DLEQ soundness, tamper evidence) quantify over group "+
		"elements and are NOT decided statically; the primitives are pinned by the repository's vectors. Decided is the wiring around them "+
		"that no test executes: (R1) the signer signs the parsed B_ with key k and builds the DLEQ from the same k, the same B_ and the "+
		"signature just produced, emitting hex(C_), hex(e), hex(s); (R2) the signature table stores and returns (b_, c_, keyset_id, amount, "+
		"e, s) in matching positions and rebuilds the DLEQ from (e, s); (R3) the wallet's proof construction verifies each DLEQ against the "+
		"keyset's key for the signature's own amount, that output's B_ and that signature's C_, stores r = the blinding factor of the same "+
		"index, unblinds with the same r and key, after comparing the list lengths; (R4) a signature carrying a DLEQ becomes a proof only "+
		"on the true edge of its verification; (R5) the proof-DLEQ verifier re-blinds with the proof's own secret and r and the given key; "+
		"(R6) the list verifier returns true only if every proof has no DLEQ or has a key for its amount and verifies; (R7) crypto.Verify "+
		"compares the full point k*Y with C (one of the enumerated full-point equality idioms).", rulesC10)
}

func rulesC10(c *Ctx) {
	R := c.R
	R.Rule("R1", "signer: Sign(B_, k), GenerateDLEQ(k, B_, that C_), emitted hex fields", 3)
	R.Rule("R2", "blind_signatures statements agree with Go; DLEQ rebuilt from (e, s)", 6)
	R.Rule("R3", "wallet proof construction wiring (key by amount, B_ and r of the same index, lengths compared)", 6)
	R.Rule("R4", "proof built only on the true edge of the DLEQ verification", 1)
	R.Rule("R5", "proof-DLEQ verifier re-blinds with the proof's own secret, r and the key", 3)
	R.Rule("R6", "list verifier: every proof has no DLEQ, or a key for its amount and a valid DLEQ", 1)
	R.Rule("R7", "crypto.Verify compares the full point", 1)
	R.Rule("R8", "hash_to_curve hashes the whole secret (census shared with C11.R1): a signature is bound to the complete secret", 6)
	R.Rule("R9", "restore returns the stored signature unmodified (shared with C15.R4)", 7)
	R.Rule("R10", "the BDHKE functions are pure in their arguments: no in-place scalar / field / point operation of the curve library is applied to memory reached from a parameter (blinding factors and keys handed in stay what they were)", 4)
	R.Rule("R12", "swap and mint hand out, position by position, the signatures just produced for the request's own output list (the wallet pairs signature i with output i)", 2)
	c.c10HandedOutAreSigned("R12")
	c.vocabProblems("R2")
	c.c10ArgumentsNotMutated()
	// the signer's wiring (shared with C02.R5 / C09.R4): key, emitted amount and id belong to one keyset
	if ks := c.keysetsMapField("R1"); ks != "" {
		c.signerRulesAs("R1", ks)
	}
	R.Rule("R11", "restore pairs each returned signature with the blinding factor of the output it was made for (shared with C19.R2/R3: the restore scan and its matching by B_)", 5)
	{
		sub := NewReport(c.R.Prop, c.R.Tier)
		cc := &Ctx{P: c.P, V: c.V, R: sub, Opt: c.Opt}
		cc.c19Restore()
		for _, o := range sub.Obls {
			o.Rule = strings.Replace(o.Rule, ".R2", ".R3", 1)
			o.Key = strings.Replace(o.Key, c.R.Prop+".R2|", c.R.Prop+".R3|", 1)
		}
		c.adopt(sub, "R3", "R11")
	}

	// ---- R1
	for _, f := range c.P.Funcs {
		if f.Pkg == nil || c.V.CoreType == nil || f.Pkg.Pkg != c.V.CoreType.Obj().Pkg() {
			continue
		}
		o := c.P.OriginsOf(f)
		var sign, dleq *ssa.Call
		for _, ci := range Calls(f) {
			switch c.P.Describe(ci).Name {
			case fnSignBlinded:
				sign, _ = ci.(*ssa.Call)
			case "crypto.GenerateDLEQ":
				dleq, _ = ci.(*ssa.Call)
			}
		}
		if sign == nil {
			continue
		}
		fk := c.P.FuncKey(f)
		if dleq == nil {
			R.Check("R1", fk, "DLEQ generated for every signature", c.P.InstrPos(sign), false, "every blind signature carries a DLEQ proof", "no call of crypto.GenerateDLEQ next to the signing call")
			continue
		}
		sd, dd := c.P.Describe(sign), c.P.Describe(dleq)
		b1, k1 := o.Of(sd.Args[0]).String(), o.Of(sd.Args[1]).String()
		k2, b2, c2 := o.Of(dd.Args[0]).String(), o.Of(dd.Args[1]).String(), o.Of(dd.Args[2])
		okW := k1 == k2 && b1 == b2 && c2.K == "call" && c2.Call == ssa.CallInstruction(sign) && sign.Block() == dleq.Block()
		R.Check("R1", fk, "GenerateDLEQ(k, B_, C_) uses the signing key, the signed point and the signature", c.P.InstrPos(dleq), okW,
			"the DLEQ is built from the same k and B_ as the signature and from that signature", "sign("+short(b1, 60)+", "+short(k1, 60)+") vs dleq("+short(k2, 60)+", "+short(b2, 60)+", "+short(c2.String(), 60)+")")
		// emitted fields
		var ret *Ex
		for _, r := range o.SuccessReturns() {
			if len(r.Results) > 0 {
				ret = o.Of(r.Results[0])
			}
		}
		okE, detail := false, "no success return"
		if ret != nil && ret.K != "map" && c.P.IsNewFunc(f) {
			// a helper that is new on this tree and signs one message returns the single signature
			ret = &Ex{K: "map", Args: []*Ex{mk("none", ""), ret}, Idx: -1}
		}
		if ret != nil && ret.K == "map" {
			fs := fieldsOfWith(ret.Args[1])
			cOK := fs["C_"] != nil && isCall(fs["C_"], fnHexEncode) && strings.HasSuffix(arg(fs["C_"], 0).S, "SerializeCompressed") && arg(arg(fs["C_"], 0), 0).Call == ssa.CallInstruction(sign)
			okE = cOK && fs["DLEQ"] != nil
			detail = short(ret.Args[1].String(), 200)
		}
		R.Check("R1", fk, "emitted C_ is the compressed signature, with a DLEQ", c.P.InstrPos(sign), okE, "signature i carries hex(compressed C_) of the signature just made and a non-nil DLEQ", detail)
		// DLEQ literal: E from result 0, S from result 1
		okES := false
		for _, b := range f.Blocks {
			for _, in := range b.Instrs {
				st, ok := in.(*ssa.Store)
				if !ok {
					continue
				}
				fa, ok := st.Addr.(*ssa.FieldAddr)
				if !ok || fieldName(fa) != "DLEQ" {
					continue
				}
				lit := fieldsOfWith(o.ContentAt(st.Val, st))
				e, s := lit["E"], lit["S"]
				isHexOf := func(x *Ex, idx int) bool {
					return isCall(x, fnHexEncode) && strings.HasSuffix(arg(x, 0).S, ".Serialize") && arg(arg(x, 0), 0).Call == ssa.CallInstruction(dleq) && arg(arg(x, 0), 0).Idx == idx
				}
				okES = e != nil && s != nil && isHexOf(e, 0) && isHexOf(s, 1) && lit["R"] == nil
			}
		}
		R.Check("R1", fk, "emitted DLEQ = {hex(e), hex(s)}", c.P.InstrPos(dleq), okES, "the emitted DLEQ carries e and s of that proof in their own fields (and no r)", "")
	}

	// ---- R2
	c.ruleSQLAgreement("R2", map[string]bool{"blind_signatures": true})
	for _, m := range c.V.MethodsWithRole(roleReadSigs) {
		for _, st := range c.V.Stmts[m] {
			if st.Scan == nil {
				continue
			}
			f := st.Fn
			o := c.P.OriginsOf(f)
			okD := false
			for _, b := range f.Blocks {
				for _, in := range b.Instrs {
					s, ok := in.(*ssa.Store)
					if !ok || isNilConst(s.Val) {
						continue
					}
					fa, ok := s.Addr.(*ssa.FieldAddr)
					if !ok || fieldName(fa) != "DLEQ" {
						continue
					}
					lit := fieldsOfWith(o.ContentAt(s.Val, s))
					e, sv := lit["E"], lit["S"]
					okD = e != nil && sv != nil && strings.Contains(e.String(), "Scan") && strings.HasSuffix(e.String(), ".String") && strings.HasSuffix(sv.String(), ".String") && e.String() != sv.String()
				}
			}
			_ = okD
			// the nullable locals e and s are copied into E and S respectively
			c.scanLocalsCopied("R2", m, map[string]string{"e": "E", "s": "S"})
			break
		}
	}

	// ---- R3 / R4
	if f := c.fn("R3", "wallet.constructProofs"); f != nil {
		c.c10ConstructProofs(f)
	}
	// ---- R5
	if f := c.fn("R5", "cashu/nuts/nut12.VerifyProofDLEQ"); f != nil {
		o := c.P.OriginsOf(f)
		fk := c.P.FuncKey(f)
		proof, A := "P:"+f.Params[0].Name(), "P:"+f.Params[1].Name()
		parse := "cashu/nuts/nut12.ParseDLEQ"
		_ = o
		for _, og := range c.OpContexts(f) {
			o := og
			for _, ci := range Calls(og.Fn) {
				d := c.P.Describe(ci)
				switch d.Name {
				case "crypto.BlindMessage":
					a0, a1 := o.Of(d.Args[0]), o.Of(d.Args[1])
					ok := a0.String() == proof+".Secret" && isCall(a1, parse) && a1.Idx == 2 && strings.Contains(arg(a1, 0).String(), proof+".DLEQ")
					R.Check("R5", fk, "re-blinds the proof's own secret with the proof's own r", c.P.InstrPos(ci), ok, "B_ is recomputed from the proof's secret and the r in its DLEQ", short(a0.String()+" / "+a1.String(), 160))
				case "crypto.VerifyDLEQ":
					e, s, a, b := o.Of(d.Args[0]), o.Of(d.Args[1]), o.Of(d.Args[2]), o.Of(d.Args[3])
					ok := isCall(e, parse) && e.Idx == 0 && isCall(s, parse) && s.Idx == 1 && a.String() == A && isCall(b, "crypto.BlindMessage") && b.Idx == 0
					R.Check("R5", fk, "VerifyDLEQ(e, s, A, recomputed B_, recomputed C_)", c.P.InstrPos(ci), ok, "the DLEQ is checked with e, s in their places, the given key and the recomputed B_", short(e.String()+" / "+s.String()+" / "+a.String(), 200))
				case "secp256k1.ScalarMultNonConst":
					// r*A
					k := o.Of(d.Args[0])
					ok := strings.Contains(k.String(), parse+"#2(") && strings.HasSuffix(k.String(), ".Key")
					R.Check("R5", fk, "C_ recomputed as C + r*A", c.P.InstrPos(ci), ok, "the blinded signature is recomputed with the proof's r", short(k.String(), 120))
				}
			}
		}
	}
	// ---- R6
	if f := c.fn("R6", "cashu/nuts/nut12.VerifyProofsDLEQ"); f != nil {
		o := c.P.OriginsOf(f)
		fk := c.P.FuncKey(f)
		proofs, keyset := "P:"+f.Params[0].Name(), "P:"+f.Params[1].Name()
		el := "elem(" + proofs + ")"
		key := keyset + ".PublicKeys[" + el + ".Amount]"
		cd := &Cond{Name: "proof has no DLEQ, or verifies under the key for its amount", ForAll: proofs, Match: func(ft *Fact, _ *Origins) bool {
			if ft.Kind == "nil" && ft.Pos && ft.A.String() == el+".DLEQ" {
				return true
			}
			return ft.Kind == "bool" && ft.Pos && isCall(ft.A, "cashu/nuts/nut12.VerifyProofDLEQ") && exprIs(arg(ft.A, 0), el) && exprIs(arg(ft.A, 1), key)
		}}
		okAll, why := true, ""
		n := 0
		for _, r := range Returns(f) {
			if isConst(o.Of(r.Results[0]), "false") {
				continue
			}
			n++
			ok, w := o.Requires(r, cd)
			if !ok {
				okAll, why = false, w
			}
		}
		// and the key lookup hit precedes the verification
		hit := &Cond{Name: "key for the amount exists", Match: func(ft *Fact, _ *Origins) bool {
			return ft.Kind == "bool" && ft.Pos && ft.A.String() == "ok("+key+")"
		}}
		for _, ci := range Calls(f) {
			if c.P.Describe(ci).Name == "cashu/nuts/nut12.VerifyProofDLEQ" {
				ok, w := o.Requires(ci, hit)
				if !ok {
					okAll, why = false, "verification without a key hit: "+w
				}
			}
		}
		R.Check("R6", fk, "true <= every proof has no DLEQ or verifies", c.P.Pos(f.Pos()), okAll && n > 0, "the list verifier accepts only when every DLEQ-carrying proof has a key for its amount and verifies", why)
	}
	// ---- R7
	c.ruleFullPointCompare("R7")
	c.ruleHashToCurveCensus("R8")
	sub := NewReport(c.R.Prop, c.R.Tier)
	cc := &Ctx{P: c.P, V: c.V, R: sub, Opt: c.Opt}
	cc.c15Restore()
	c.adopt(sub, "R4", "R9")
}

// ruleFullPointCompare: crypto.verify returns a full-point equality of C and k*Y.
func (c *Ctx) ruleFullPointCompare(rule string) {
	R := c.R
	// the comparison sits in the unexported helper of the reference tree or, when that was inlined, in the
	// exported verifier itself (whose early exit on a hash-to-curve failure answers false)
	f := c.P.Func("crypto.verify")
	inlined := false
	if f == nil {
		inlined = true
		if f = c.fn(rule, fnVerify); f == nil {
			return
		}
	}
	if len(f.Params) < 3 {
		R.Unresolved(rule, c.P.FuncKey(f), "expected (Y or secret, k, C) parameters")
		return
	}
	o := c.P.OriginsOf(f)
	fk := c.P.FuncKey(f)
	cParam := "P:" + f.Params[2].Name()
	for _, r := range Returns(f) {
		e := o.Of(r.Results[0])
		if inlined && isConst(e, "false") {
			continue
		}
		ok := false
		isProduct := func(x *Ex) bool {
			return x != nil && strings.Contains(x.String(), "NewPublicKey(") || (x != nil && x.K == "call" && strings.HasSuffix(x.S, "secp256k1.NewPublicKey"))
		}
		switch {
		case isCallSuffix(e, "secp256k1.(*PublicKey).IsEqual") && len(e.Args) == 2:
			a, b := e.Args[0], e.Args[1]
			ok = (a.String() == cParam && isProduct(b)) || (b.String() == cParam && isProduct(a))
		case (isCall(e, "bytes.Equal") || isCall(e, "slices.Equal") || isCall(e, "reflect.DeepEqual")) && len(e.Args) == 2:
			ser := func(x *Ex) bool { return x.K == "call" && strings.Contains(x.S, ".Serialize") }
			ok = ser(e.Args[0]) && ser(e.Args[1]) && strings.Contains(e.String(), cParam)
		}
		R.Check(rule, fk, "result is a full-point equality of C and k*Y", c.P.InstrPos(r), ok,
			"verification compares both coordinates of C with the computed point (IsEqual, or equality of the serialised points)", short(e.String(), 200))
	}
}

func (c *Ctx) c10ConstructProofs(f *ssa.Function) {
	R := c.R
	o := c.P.OriginsOf(f)
	fk := c.P.FuncKey(f)
	sigs, msgs, secrets, rs, keyset := "P:"+f.Params[0].Name(), "P:"+f.Params[1].Name(), "P:"+f.Params[2].Name(), "P:"+f.Params[3].Name(), "P:"+f.Params[4].Name()
	el := "elem(" + sigs + ")"
	key := keyset + ".PublicKeys[" + el + ".Amount]"
	var loop *Loop
	for _, l := range o.Loops.Loops {
		if l.RangeOf != nil && o.Of(l.RangeOf).String() == sigs {
			loop = l
		}
	}
	if loop == nil {
		R.Check("R3", fk, "scan over the signatures", c.P.Pos(f.Pos()), false, "every signature is turned into a proof", "no whole-range loop over the signatures")
		return
	}
	idx := o.Of(loop.Index).String()
	at := func(list string) string { return list + "[" + idx + "]" }
	var verify ssa.CallInstruction
	for _, ci := range Calls(f) {
		d := c.P.Describe(ci)
		switch d.Name {
		case "cashu/nuts/nut12.VerifyBlindSignatureDLEQ":
			verify = ci
			a := []string{o.Of(d.Args[0]).String(), o.Of(d.Args[1]).String(), o.Of(d.Args[2]).String(), o.Of(d.Args[3]).String()}
			ok := a[0] == el+".DLEQ" && a[1] == key && a[2] == at(msgs)+".B_" && a[3] == el+".C_"
			R.Check("R3", fk, "DLEQ verified against key[amount], that output's B_, that signature's C_", c.P.InstrPos(ci), ok,
				"the DLEQ of signature i is checked with the keyset's key for its own amount, B_ of output i and its own C_", short(strings.Join(a, " / "), 240))
		case "wallet.unblindSignature":
			a := []string{o.Of(d.Args[0]).String(), o.Of(d.Args[1]).String(), o.Of(d.Args[2]).String()}
			ok := a[0] == el+".C_" && a[1] == at(rs) && a[2] == key
			R.Check("R3", fk, "unblind(C_ of i, r of i, key[amount])", c.P.InstrPos(ci), ok, "signature i is unblinded with the blinding factor of index i and the key for its amount", short(strings.Join(a, " / "), 200))
		}
	}
	// lengths compared first
	for _, other := range []string{secrets, rs} {
		cd := &Cond{Name: "len(signatures) == len(" + other + ")", Match: func(ft *Fact, _ *Origins) bool {
			if ft.Kind != "cmp" || !ft.Pos || ft.Op.String() != "==" {
				return false
			}
			a, b := ft.A.String(), ft.B.String()
			return (a == "len("+sigs+")" && b == "len("+other+")") || (b == "len("+sigs+")" && a == "len("+other+")")
		}}
		ok, why := o.Requires(loop.Header.Instrs[len(loop.Header.Instrs)-1], cd)
		R.Check("R3", fk, cd.Name+" before the scan", c.P.Pos(f.Pos()), ok, "the parallel lists are compared for equal length before they are indexed together", why)
	}
	// the proof stored for i
	var store *ssa.Store
	for b := range loop.Blocks {
		for _, in := range b.Instrs {
			if st, ok := in.(*ssa.Store); ok {
				if ia, ok := st.Addr.(*ssa.IndexAddr); ok && ia.Index == loop.Index {
					store = st
				}
			}
		}
	}
	if store == nil {
		R.Check("R3", fk, "proof i stored", c.P.Pos(f.Pos()), false, "proof i is stored at index i", "no indexed store found")
		return
	}
	fs := fieldsOfWith(o.Of(store.Val))
	okP := fs["Amount"] != nil && fs["Amount"].String() == el+".Amount" && fs["Id"] != nil && fs["Id"].String() == el+".Id" &&
		fs["Secret"] != nil && fs["Secret"].String() == at(secrets) && fs["C"] != nil && isCall(fs["C"], "wallet.unblindSignature") && fs["C"].Idx == 0
	R.Check("R3", fk, "proof i = (amount, id of signature i, secret i, unblinded C)", c.P.InstrPos(store), okP, "proof i takes amount and id from signature i, the secret of index i and the unblinded point", short(o.Of(store.Val).String(), 200))
	// r stored in the DLEQ is rs[i]
	okR := false
	for b := range loop.Blocks {
		for _, in := range b.Instrs {
			if st, ok := in.(*ssa.Store); ok {
				if fa, ok := st.Addr.(*ssa.FieldAddr); ok && fieldName(fa) == "R" {
					v := o.Of(st.Val)
					okR = isCall(v, fnHexEncode) && strings.HasSuffix(arg(v, 0).S, ".Serialize") && arg(arg(v, 0), 0).String() == at(rs)
				}
			}
		}
	}
	R.Check("R3", fk, "stored r is the blinding factor of index i", c.P.InstrPos(store), okR, "the r kept with proof i is the hex of rs[i]", "")
	// R4
	if verify != nil {
		cd := &Cond{Name: "no DLEQ, or DLEQ verified", Match: func(ft *Fact, _ *Origins) bool {
			if ft.Kind == "nil" && ft.Pos && ft.A.String() == el+".DLEQ" {
				return true
			}
			return ft.Kind == "bool" && ft.Pos && ft.A.K == "call" && ft.A.Call == verify
		}}
		// within the iteration
		cut := NewCut()
		for e := range o.AcceptEdges(cd) {
			cut.Edges[e] = true
		}
		body := loop.Header.Succs[loop.BodySucc]
		reach, path := Reach(Point{body, 0}, PointOf(store), cut)
		why := ""
		if reach {
			why = "a signature with a DLEQ becomes a proof without a successful verification: " + c.P.PathString(path)
		}
		R.Check("R4", fk, "proof stored <= no DLEQ or DLEQ verified", c.P.InstrPos(store), !reach, "a signature that carries a DLEQ becomes a proof only when the DLEQ verified", why)
	} else {
		R.Check("R4", fk, "DLEQ verification present", c.P.Pos(f.Pos()), false, "DLEQs returned by the mint are verified", "no call of VerifyBlindSignatureDLEQ")
	}
}

// c10ArgumentsNotMutated: R10. In package crypto, a method of the curve library's scalar / field / point types
// that writes its receiver (everything outside a short read-only list) is never called on an address derived from
// a parameter: ModNScalar.Negate() on &r.Key flips the caller's blinding factor although the returned point is right.
func (c *Ctx) c10ArgumentsNotMutated() {
	R := c.R
	readOnly := map[string]bool{"IsZero": true, "IsZeroBit": true, "IsOdd": true, "IsOne": true, "IsOverHalfOrder": true, "Equals": true, "Bytes": true,
		"PutBytes": true, "PutBytesUnchecked": true, "String": true, "IsGtOrEqPrimeMinusOrder": true, "IsOneBit": true, "IsOddBit": true,
		"ToECDSA": true, "PubKey": true, "Serialize": true, "SerializeCompressed": true, "SerializeUncompressed": true, "AsJacobian": true,
		"IsEqual": true, "IsOnCurve": true, "X": true, "Y": true}
	var paramRoot func(v ssa.Value, depth int) *ssa.Parameter
	paramRoot = func(v ssa.Value, depth int) *ssa.Parameter {
		if depth > 6 {
			return nil
		}
		switch x := v.(type) {
		case *ssa.Parameter:
			if _, isPtr := x.Type().Underlying().(*types.Pointer); isPtr {
				return x
			}
		case *ssa.FieldAddr:
			return paramRoot(x.X, depth+1)
		case *ssa.IndexAddr:
			return paramRoot(x.X, depth+1)
		case *ssa.UnOp:
			if x.Op.String() == "*" {
				// a pointer loaded from memory reached from a parameter
				return paramRoot(x.X, depth+1)
			}
		case *ssa.ChangeType:
			return paramRoot(x.X, depth+1)
		}
		return nil
	}
	n := 0
	for _, f := range c.P.Funcs {
		top := EnclosingTop(f)
		if top.Pkg == nil || c.P.Rel(top.Pkg.Pkg.Path()) != "crypto" {
			continue
		}
		fk := c.P.FuncKey(top)
		bad := ""
		calls := 0
		for _, ci := range Calls(f) {
			cc := ci.Common()
			callee := cc.StaticCallee()
			if callee == nil || callee.Signature.Recv() == nil || callee.Pkg == nil || !strings.Contains(callee.Pkg.Pkg.Path(), "secp256k1") || len(cc.Args) == 0 {
				continue
			}
			if _, ptrRecv := callee.Signature.Recv().Type().(*types.Pointer); !ptrRecv {
				continue
			}
			calls++
			if readOnly[callee.Name()] {
				continue
			}
			if p := paramRoot(cc.Args[0], 0); p != nil {
				bad = callee.Name() + " writes its receiver, which is memory of parameter " + p.Name() + " (" + c.P.InstrPos(ci) + ")"
			}
		}
		if calls == 0 {
			continue
		}
		n++
		R.Check("R10", fk, "arguments are not modified in place", c.P.Pos(top.Pos()), bad == "", "no receiver-writing curve operation is applied to memory reached from a parameter", bad)
	}
	if n == 0 {
		R.Unresolved("R10", "curve-library method calls in package crypto", "none found")
	}
}

// c10HandedOutAreSigned: R12. The wallet pairs the i-th returned signature with its i-th output (key by amount, r by
// index); a signature list that is not, position by position, what the signer produced for the request's outputs - a
// stored list read back in table order, say - does not unblind to valid proofs. Decided by provenance: every success
// return of the swap and the mint operation hands back the result of the signing helper applied to the request's own,
// unmodified output list.
func (c *Ctx) c10HandedOutAreSigned(rule string) {
	R := c.R
	for _, path := range []string{"/v1/swap", "/v1/mint/{method}"} {
		op := c.op(rule, path)
		if op == nil {
			continue
		}
		o := c.P.OriginsOf(op)
		fk := c.P.FuncKey(op)
		n, total := 0, 0
		for _, r := range o.SuccessReturns() {
			if len(r.Results) < 2 {
				continue
			}
			n++
			e := o.Of(r.Results[0])
			ok, why, signed := true, "", 0
			for _, a := range e.Alts() {
				switch {
				case a.K == "zero", isConst(a, "nil"):
				case a.K == "call" && a.S == "mint.(*Mint).signBlindedMessages" && a.Idx == 0 && len(a.Args) == 2 && strings.HasPrefix(a.Args[1].String(), "P:") && !a.Args[1].Has(func(x *Ex) bool { return x.K == "call" }):
					signed++
				default:
					ok, why = false, "returns "+short(a.String(), 200)
				}
			}
			total += signed
			R.Check(rule, fk, "signatures handed out = signer's result for the request's outputs", c.P.InstrPos(r), ok,
				"the operation returns, in order, exactly the signatures just produced for the outputs of this request", why)
		}
		if n == 0 {
			R.Unresolved(rule, "success return of "+fk, "none found")
		} else if total == 0 {
			R.Check(rule, fk, "the operation hands out the signer's result", c.P.Pos(op.Pos()), false, "some success return hands out what the signer produced", "no success return carries the result of the signing helper")
		}
	}
}
