package nc

import (
	"fmt"
	"sort"
	"strings"

	"golang.org/x/tools/go/ssa"
)

// Effect-trace engine (E2).
//
// For an operation the engine builds the *effect graph*: nodes are the persistent effects (storage
// writes, Lightning calls), the signing step and the returns; an edge S -> T exists when T is reachable
// from just after S in the CFG without passing another node, separately for the two outcomes of S
// (its error is nil / non-nil: the edges testing S's error are cut accordingly). Module helpers that
// contain effects are inlined (fresh nodes per call site), their success / failure returns are
// connected to the caller's continuation for the matching outcome. An edge carries *must-tags*: named
// facts (e.g. "look-up says the payment failed") that every CFG path of that edge passes.
//
// The graph is then interpreted over a small abstract store (spent / locked / signatures saved /
// quote states / payment status / number of active keysets): a failing call leaves the store
// unchanged (storage methods are single transactions - checked by C01.R6 / C03), a succeeding one
// applies its effect. Every (node, store) pair reached is a crash point "the process dies here";
// every return is "the operation ended here" (including after an injected storage error).
// Nothing is executed; the enumeration is over the extracted graph.

type tEdge struct {
	to   *tNode
	tags []string
}

type tNode struct {
	id     int
	kind   string // entry | event | call | ret
	label  string
	write  bool
	ln     bool
	instr  ssa.Instruction
	fn     *ssa.Function
	chain  string
	retOK  bool
	final  bool // top-level return
	ok     []tEdge
	fail   []tEdge
	hasErr bool // event/call returns an error that is tested or passed on
}

type tagCond struct {
	name string
	cond *Cond
	// onlyOutcome: "" any; "ok" the tag counts only on edges taken under the ok outcome of an LN status call, etc.
	only func(src *tNode, outcome string) bool
}

type traceBuilder struct {
	c          *Ctx
	rule       string
	nodes      []*tNode
	tags       []tagCond
	evMemo     map[*ssa.Function]int // 0 unknown, 1 has events, 2 none, 3 in progress
	problems   []string
	stateNames map[string]map[string]string // table -> const value -> name
}

func (c *Ctx) newTraceBuilder(rule string) *traceBuilder {
	tb := &traceBuilder{c: c, rule: rule, evMemo: map[*ssa.Function]int{}, stateNames: map[string]map[string]string{}}
	for tbl, rel := range map[string]string{"mint_quotes": "cashu/nuts/nut04", "melt_quotes": "cashu/nuts/nut05"} {
		tb.stateNames[tbl] = map[string]string{}
		for _, n := range []string{"Unpaid", "Paid", "Pending", "Issued"} {
			if v, ok := c.P.ConstVal(rel, n); ok {
				tb.stateNames[tbl][v] = strings.ToUpper(n)
			}
		}
	}
	return tb
}

func (tb *traceBuilder) node(kind, label string, in ssa.Instruction, fn *ssa.Function, chain string) *tNode {
	n := &tNode{id: len(tb.nodes), kind: kind, label: label, instr: in, fn: fn, chain: chain}
	tb.nodes = append(tb.nodes, n)
	return n
}

// eventLabel classifies a call as an effect.
func (tb *traceBuilder) eventLabel(ci ssa.CallInstruction, o *Origins) (label string, write, ln, ok bool) {
	c := tb.c
	d := c.P.Describe(ci)
	if m, isDB := c.V.IsDBCall(d); isDB {
		var roles []string
		for _, r := range c.V.MethodRoles[m] {
			if strings.HasPrefix(r, "INSERT ") || strings.HasPrefix(r, "UPDATE ") || strings.HasPrefix(r, "DELETE ") {
				roles = append(roles, r)
			}
		}
		if len(roles) == 0 {
			return "", false, false, false
		}
		var parts []string
		for _, role := range roles {
			lab := role
			tbl := strings.SplitN(role, " ", 2)[1]
			switch {
			case strings.HasPrefix(role, "UPDATE ") && (tbl == "mint_quotes" || tbl == "melt_quotes"):
				idx := c.paramOfColumn(m, role, "state")
				val := "?"
				if idx >= 0 && idx < len(d.Args) {
					e := o.Of(d.Args[idx])
					val = tb.constName(tbl, e)
				}
				lab += "(" + val + ")"
			case role == "UPDATE keysets":
				idx := c.paramOfColumn(m, role, "active")
				val := "?"
				if idx >= 0 && idx < len(d.Args) {
					if e := o.Of(d.Args[idx]); e.K == "const" {
						val = e.S
					}
				}
				lab += "(active=" + val + ")"
			case role == "INSERT keysets":
				val := "?"
				if len(d.Args) > 0 {
					if e := project(o.Of(d.Args[0]), "Active"); e != nil && e.K == "const" {
						val = e.S
					}
				}
				lab += "(active=" + val + ")"
			}
			parts = append(parts, lab)
		}
		return strings.Join(parts, "+"), true, false, true
	}
	if m, isLN := c.V.IsLNCall(d); isLN {
		if m == c.V.FeeReserveMeth || m == "ConnectionStatus" {
			return "", false, false, false
		}
		if _, pay := c.V.PayMeths[m]; pay {
			return "LN:PAY", false, true, true
		}
		if m == c.V.StatusMeth {
			return "LN:PAYMENT-STATUS", false, true, true
		}
		return "LN:" + m, false, true, true
	}
	if d.Static != nil && c.moduleFn(d.Static) && c.reachesSigner(d.Static, 0) {
		return "SIGN", false, false, true
	}
	return "", false, false, false
}

// reachesSigner: the module function produces blind signatures, itself or through helpers that are new on this
// tree (the signing function of the reference tree may have been split up).
func (c *Ctx) reachesSigner(f *ssa.Function, depth int) bool {
	for _, in := range Calls(f) {
		d := c.P.Describe(in)
		if d.Name == fnSignBlinded {
			return true
		}
		if depth < 3 && d.Static != nil && d.Static != f && c.moduleFn(d.Static) && d.Static.Parent() == nil && c.P.IsNewFunc(d.Static) && c.reachesSigner(d.Static, depth+1) {
			return true
		}
	}
	return false
}

func (tb *traceBuilder) constName(tbl string, e *Ex) string {
	if e == nil {
		return "?"
	}
	var names []string
	for _, a := range e.Alts() {
		x := a
		if x.K == "call" && strings.HasSuffix(x.S, ").String") && len(x.Args) > 0 {
			x = x.Args[0]
		}
		if x.K != "const" {
			return "?"
		}
		n, ok := tb.stateNames[tbl][x.S]
		if !ok {
			return "?"
		}
		names = append(names, n)
	}
	sort.Strings(names)
	return strings.Join(names, "/")
}

func (tb *traceBuilder) hasEvents(f *ssa.Function, depth int) bool {
	switch tb.evMemo[f] {
	case 1:
		return true
	case 2, 3:
		return false
	}
	tb.evMemo[f] = 3
	res := false
	o := tb.c.P.OriginsOf(f)
	for _, ci := range Calls(f) {
		if _, _, _, ok := tb.eventLabel(ci, o); ok {
			res = true
			break
		}
		if callee := tb.inlinable(ci); callee != nil && depth < 5 && tb.hasEvents(callee, depth+1) {
			res = true
			break
		}
	}
	if res {
		tb.evMemo[f] = 1
	} else {
		tb.evMemo[f] = 2
	}
	return res
}

// inlinable: a direct call (not go / defer) of a module function or of a closure defined in place.
func (tb *traceBuilder) inlinable(ci ssa.CallInstruction) *ssa.Function {
	if _, ok := ci.(*ssa.Call); !ok {
		return nil
	}
	callee := ci.Common().StaticCallee()
	if callee == nil || !tb.c.moduleFn(callee) {
		return nil
	}
	return callee
}

type station struct {
	in     ssa.Instruction
	kind   string // event | call | ret
	label  string
	write  bool
	ln     bool
	callee *ssa.Function
}

func hasErrResult(ci ssa.CallInstruction) bool {
	sig := ci.Common().Signature()
	n := sig.Results().Len()
	return n > 0 && IsErrorType(sig.Results().At(n-1).Type())
}

// inline builds the sub-graph of f in context o. It returns the edges leaving the function entry and the return nodes.
func (tb *traceBuilder) inline(f *ssa.Function, o *Origins, chain string, depth int, active map[*ssa.Function]bool) (entry []tEdge, rets []*tNode) {
	c := tb.c
	var sts []*station
	for _, b := range f.Blocks {
		if b == f.Recover {
			continue
		}
		for _, in := range b.Instrs {
			switch x := in.(type) {
			case *ssa.Return:
				sts = append(sts, &station{in: in, kind: "ret"})
			case ssa.CallInstruction:
				if lab, w, ln, ok := tb.eventLabel(x, o); ok {
					if _, isCall := x.(*ssa.Call); !isCall {
						tb.problems = append(tb.problems, fmt.Sprintf("effect %s at %s is deferred or started in a goroutine; its position in the sequence is not modelled", lab, c.P.InstrPos(in)))
						continue
					}
					sts = append(sts, &station{in: in, kind: "event", label: lab, write: w, ln: ln})
					continue
				}
				if callee := tb.inlinable(x); callee != nil && !active[callee] && depth < 5 && tb.hasEvents(callee, 0) {
					sts = append(sts, &station{in: in, kind: "call", callee: callee, label: c.P.FuncKey(callee)})
				} else if callee != nil && active[callee] && tb.hasEvents(callee, 0) {
					tb.problems = append(tb.problems, fmt.Sprintf("recursive call of %s at %s contains effects; not modelled", c.P.FuncKey(callee), c.P.InstrPos(in)))
				}
			}
		}
	}
	isStation := map[ssa.Instruction]bool{}
	for _, s := range sts {
		isStation[s.in] = true
	}
	// per-station entry node; ret nodes are created per (return, kind)
	entryNode := map[*station]*tNode{}
	subRets := map[*station][]*tNode{}
	retNodes := map[string]*tNode{}
	for _, s := range sts {
		switch s.kind {
		case "event":
			n := tb.node("event", s.label, s.in, f, chain)
			n.write, n.ln = s.write, s.ln
			n.hasErr = hasErrResult(s.in.(ssa.CallInstruction))
			entryNode[s] = n
		case "call":
			n := tb.node("call", s.label, s.in, f, chain)
			entryNode[s] = n
			act := map[*ssa.Function]bool{f: true}
			for k := range active {
				act[k] = true
			}
			ci := s.in.(ssa.CallInstruction)
			sub, rs := tb.inline(s.callee, o.Enter(s.callee, ci), chain+" > "+c.P.FuncKey(s.callee), depth+1, act)
			n.ok = sub
			subRets[s] = rs
		}
	}
	retNode := func(r *ssa.Return, ok bool) *tNode {
		k := fmt.Sprintf("%p/%v", r, ok)
		if n := retNodes[k]; n != nil {
			return n
		}
		n := tb.node("ret", "return", r, f, chain)
		n.retOK = ok
		retNodes[k] = n
		rets = append(rets, n)
		return n
	}
	errIdxOK := func(r *ssa.Return) bool {
		return len(r.Results) > 0 && IsErrorType(r.Results[len(r.Results)-1].Type())
	}
	// successor computation
	succ := func(start Point, src *tNode, srcCall ssa.CallInstruction, outcome string) []tEdge {
		base := NewCut()
		if srcCall != nil && outcome != "" {
			// the tested error may merge the results of sibling calls (if / else assigning the same variable)
			pos := o.TestEdges(&Cond{Name: "call succeeded", Match: func(ft *Fact, _ *Origins) bool {
				if ft.Kind != "errnil" || !ft.Pos {
					return false
				}
				for _, a := range ft.A.Alts() {
					if a.K == "call" && a.Call == srcCall {
						return true
					}
				}
				return false
			}})
			for e := range pos {
				if outcome == "fail" {
					base.Edges[e] = true
				} else {
					for i := range e.From.Succs {
						if i != e.Succ {
							base.Edges[Edge{e.From, i}] = true
						}
					}
				}
			}
		}
		if srcCall != nil && len(base.Edges) > 0 && o.Loops.InnermostContaining(srcCall.Block()) == nil {
			pruneInfeasible(o, f, base)
		}
		var out []tEdge
		for _, t := range sts {
			cut := NewCut()
			for e := range base.Edges {
				cut.Edges[e] = true
			}
			for in := range isStation {
				if in != t.in {
					cut.Barriers[in] = true
				}
			}
			reach, _ := Reach(start, PointOf(t.in), cut)
			if !reach {
				continue
			}
			var tags []string
			for _, tc := range tb.tags {
				if tc.only != nil && !tc.only(src, outcome) {
					continue
				}
				acc := o.AcceptEdges(tc.cond)
				if len(acc) == 0 {
					continue
				}
				cut2 := NewCut()
				for e := range cut.Edges {
					cut2.Edges[e] = true
				}
				for e := range acc {
					cut2.Edges[e] = true
				}
				cut2.Barriers = cut.Barriers
				if r2, _ := Reach(start, PointOf(t.in), cut2); !r2 {
					tags = append(tags, tc.name)
				}
			}
			var to *tNode
			if t.kind == "ret" {
				r := t.in.(*ssa.Return)
				ok := true
				if errIdxOK(r) {
					if o.IsFailureReturn(r) {
						ok = false
					} else if srcCall != nil && outcome != "" {
						// "return call()" / "return x, err" with the untested error of the source call
						ev := o.Of(r.Results[len(r.Results)-1])
						if ev.K == "call" && ev.Call == srcCall {
							ok = outcome == "ok"
						}
					}
				}
				to = retNode(r, ok)
			} else {
				to = entryNode[t]
			}
			out = append(out, tEdge{to: to, tags: tags})
		}
		return out
	}
	after := func(in ssa.Instruction) Point { return Point{in.Block(), instrIndex(in) + 1} }
	entry = succ(Point{f.Blocks[0], 0}, nil, nil, "")
	for _, s := range sts {
		switch s.kind {
		case "event":
			n := entryNode[s]
			ci := s.in.(ssa.CallInstruction)
			if n.hasErr {
				n.ok = succ(after(s.in), n, ci, "ok")
				n.fail = succ(after(s.in), n, ci, "fail")
			} else {
				n.ok = succ(after(s.in), n, nil, "")
			}
		case "call":
			ci := s.in.(ssa.CallInstruction)
			herr := hasErrResult(ci)
			for _, r := range subRets[s] {
				r.kind = "subret"
				if herr {
					if r.retOK {
						r.ok = succ(after(s.in), r, ci, "ok")
					} else {
						r.ok = succ(after(s.in), r, ci, "fail")
					}
				} else {
					r.ok = succ(after(s.in), r, nil, "")
				}
			}
		}
	}
	return entry, rets
}

// pruneInfeasible adds to cut the branch edges that cannot be taken when the edges already in cut are not
// taken: blocks whose every entry is cut are dead, and a comparison of two values that are constants on
// the remaining paths (reaching stores / phi inputs over uncut edges only) has one dead side. It is used
// for one outcome of a call that is not inside a loop, so the cut edges are never taken before the
// comparison either.
func pruneInfeasible(o *Origins, f *ssa.Function, cut *Cut) {
	for iter := 0; iter < 4; iter++ {
		changed := false
		// dead blocks
		for again := true; again; {
			again = false
			for _, b := range f.Blocks {
				if len(b.Preds) == 0 {
					continue
				}
				dead := true
				for _, p := range b.Preds {
					for i, s := range p.Succs {
						if s == b && !cut.Edges[Edge{p, i}] {
							dead = false
						}
					}
				}
				if dead {
					for i := range b.Succs {
						if !cut.Edges[Edge{b, i}] {
							cut.Edges[Edge{b, i}] = true
							again, changed = true, true
						}
					}
				}
			}
		}
		oc := o.WithCut(cut.Edges)
		for _, b := range f.Blocks {
			if len(b.Instrs) == 0 || len(b.Succs) != 2 {
				continue
			}
			ifi, ok := b.Instrs[len(b.Instrs)-1].(*ssa.If)
			if !ok {
				continue
			}
			var truth bool
			if bin, ok := ifi.Cond.(*ssa.BinOp); ok && (bin.Op.String() == "==" || bin.Op.String() == "!=") {
				x, y := oc.Of(bin.X), oc.Of(bin.Y)
				if x.K != "const" || y.K != "const" {
					continue
				}
				truth = x.S == y.S
				if bin.Op.String() == "!=" {
					truth = !truth
				}
			} else if isBool(ifi.Cond.Type()) {
				// a boolean flag (possibly negated) that is constant on the remaining paths
				v, neg := ifi.Cond, false
				for {
					u, ok := v.(*ssa.UnOp)
					if !ok || u.Op.String() != "!" {
						break
					}
					v, neg = u.X, !neg
				}
				if _, isBin := v.(*ssa.BinOp); isBin {
					continue
				}
				x := oc.Of(v)
				if x.K != "const" || (x.S != "true" && x.S != "false") {
					continue
				}
				truth = (x.S == "true") != neg
			} else {
				continue
			}
			dead := 0
			if truth {
				dead = 1
			}
			if !cut.Edges[Edge{b, dead}] {
				cut.Edges[Edge{b, dead}] = true
				changed = true
			}
		}
		if !changed {
			break
		}
	}
}

// ---------------------------------------------------------------------------------------------
// abstract store

type absStore struct {
	spent, locked, sigs, signed bool
	mintQ, meltQ                string
	pay                         string // none | inflight | succeeded | failed
	active                      int
}

func (s absStore) String() string {
	b := func(x bool) string {
		if x {
			return "1"
		}
		return "0"
	}
	return fmt.Sprintf("spent=%s locked=%s sigs=%s signed=%s mintQ=%s meltQ=%s pay=%s active=%d", b(s.spent), b(s.locked), b(s.sigs), b(s.signed), s.mintQ, s.meltQ, s.pay, s.active)
}

// brief renders the variables of the store that the invariants of a family read.
func (s absStore) brief(family string) string {
	b := func(x bool) string {
		if x {
			return "1"
		}
		return "0"
	}
	switch family {
	case "swap":
		return fmt.Sprintf("spent=%s sigs=%s signed=%s", b(s.spent), b(s.sigs), b(s.signed))
	case "mint":
		return fmt.Sprintf("quote=%s sigs=%s signed=%s", s.mintQ, b(s.sigs), b(s.signed))
	case "melt":
		return fmt.Sprintf("spent=%s locked=%s quote=%s pay=%s", b(s.spent), b(s.locked), s.meltQ, s.pay)
	case "rotate":
		return fmt.Sprintf("active=%d", s.active)
	}
	return s.String()
}

type traceOp struct {
	name   string
	fn     *ssa.Function
	init   absStore
	family string // swap | mint | melt | rotate
}

type invariant struct {
	id    string
	text  string
	when  string // "always" | "ok-return"
	holds func(s absStore) bool
}

type traceFinding struct {
	key    string
	inv    invariant
	state  absStore
	sites  map[string]bool
	detail string
}

type traceResult struct {
	nodes, edges, states int
	findings             map[string]*traceFinding
	events               []string
	unknownLabels        []string
}

func (tb *traceBuilder) apply(op *traceOp, label string, s absStore) (absStore, bool) {
	known := true
	for _, l := range strings.Split(label, "+") {
		switch {
		case l == roleMarkSpent:
			s.spent = true
		case l == roleLock:
			s.locked = true
		case l == roleUnlock:
			s.locked = false
		case l == roleSaveSigs:
			s.sigs = true
		case strings.HasPrefix(l, roleSetMint+"("):
			v := strings.TrimSuffix(strings.TrimPrefix(l, roleSetMint+"("), ")")
			if strings.Contains(v, "?") || strings.Contains(v, "/") {
				known = false
			}
			if op.family == "melt" {
				// internal settlement: the mint quote of the same invoice is credited - value has left
				if v == "PAID" {
					s.pay = "succeeded"
				} else {
					known = false
				}
			} else {
				s.mintQ = v
			}
		case strings.HasPrefix(l, roleSetMelt+"("):
			v := strings.TrimSuffix(strings.TrimPrefix(l, roleSetMelt+"("), ")")
			if strings.Contains(v, "?") || strings.Contains(v, "/") {
				known = false
			}
			s.meltQ = v
		case l == "UPDATE keysets(active=false)":
			s.active--
		case l == "UPDATE keysets(active=true)", l == "INSERT keysets(active=true)":
			s.active++
		case l == "INSERT keysets(active=false)":
		case l == "SIGN":
			s.signed = true
		case l == "LN:PAY":
			s.pay = "inflight"
		case strings.HasPrefix(l, "LN:"):
		case l == roleNewMint, l == roleNewMelt, l == "INSERT seed":
		default:
			known = false
		}
	}
	return s, known
}

func applyTags(tags []string, s absStore) absStore {
	for _, t := range tags {
		switch t {
		case "payment-succeeded":
			s.pay = "succeeded"
		case "payment-definitely-failed":
			s.pay = "failed"
		}
	}
	return s
}

// explore interprets the graph.
func (tb *traceBuilder) explore(op *traceOp, entry []tEdge, invs []invariant) *traceResult {
	c := tb.c
	res := &traceResult{findings: map[string]*traceFinding{}}
	type item struct {
		n          *tNode
		s          absStore
		lastWrite  string
		lastFailed string
	}
	seen := map[string]bool{}
	var work []item
	push := func(es []tEdge, s absStore, lw, lf string) {
		for _, e := range es {
			it := item{e.to, applyTags(e.tags, s), lw, lf}
			k := fmt.Sprintf("%d|%s|%s|%s", it.n.id, it.s, it.lastWrite, it.lastFailed)
			if seen[k] {
				continue
			}
			seen[k] = true
			work = append(work, it)
		}
	}
	push(entry, op.init, "-", "-")
	evSeen := map[string]bool{}
	unk := map[string]bool{}
	for len(work) > 0 {
		it := work[len(work)-1]
		work = work[:len(work)-1]
		res.states++
		n := it.n
		// the store on arrival is what a restart finds if the process dies here
		final := n.kind == "ret"
		for _, inv := range invs {
			if inv.when == "ok-return" && !(final && n.retOK) {
				continue
			}
			if inv.holds(it.s) {
				continue
			}
			var key, where string
			if final {
				kind := "error return"
				if n.retOK {
					kind = "success return"
				}
				key = fmt.Sprintf("%s, last write %s, failed call %s", kind, it.lastWrite, it.lastFailed)
				where = c.P.InstrPos(n.instr)
			} else {
				key = fmt.Sprintf("crash after %s", it.lastWrite)
				where = "before " + n.label + " at " + c.P.InstrPos(n.instr)
			}
			key += " {" + it.s.brief(op.family) + "}"
			full := inv.id + "|" + op.name + "|" + key
			f := res.findings[full]
			if f == nil {
				f = &traceFinding{key: key, inv: inv, state: it.s, sites: map[string]bool{}}
				res.findings[full] = f
			}
			f.sites[where] = true
		}
		switch n.kind {
		case "event":
			if !evSeen[n.label] {
				evSeen[n.label] = true
			}
			s2, known := tb.apply(op, n.label, it.s)
			if !known {
				unk[n.label+" at "+c.P.InstrPos(n.instr)] = true
			}
			lw := it.lastWrite
			if n.write || n.label == "LN:PAY" {
				lw = n.label
			}
			push(n.ok, s2, lw, it.lastFailed)
			if n.hasErr {
				sf := it.s
				if n.label == "LN:PAY" {
					// a pay call that returned an error may still have dispatched the payment
					sf.pay = "inflight"
					push(n.fail, sf, n.label, n.label)
				} else {
					push(n.fail, sf, it.lastWrite, n.label)
				}
			}
		case "call", "subret":
			push(n.ok, it.s, it.lastWrite, it.lastFailed)
		}
	}
	for l := range evSeen {
		res.events = append(res.events, l)
	}
	sort.Strings(res.events)
	for l := range unk {
		res.unknownLabels = append(res.unknownLabels, l)
	}
	sort.Strings(res.unknownLabels)
	res.nodes = len(tb.nodes)
	for _, n := range tb.nodes {
		res.edges += len(n.ok) + len(n.fail)
	}
	return res
}

// dumpGraph renders the graph for -v / evidence.
func (tb *traceBuilder) dumpGraph(entry []tEdge) []string {
	c := tb.c
	var out []string
	fmtEdges := func(es []tEdge) string {
		var p []string
		for _, e := range es {
			s := fmt.Sprintf("n%d", e.to.id)
			if len(e.tags) > 0 {
				s += "[" + strings.Join(e.tags, ",") + "]"
			}
			p = append(p, s)
		}
		return strings.Join(p, " ")
	}
	out = append(out, "entry -> "+fmtEdges(entry))
	for _, n := range tb.nodes {
		lab := n.label
		if n.kind == "ret" || n.kind == "subret" {
			if n.retOK {
				lab += "(ok)"
			} else {
				lab += "(fail)"
			}
		}
		line := fmt.Sprintf("n%d %s %s @%s ok-> %s", n.id, n.kind, lab, c.P.InstrPos(n.instr), fmtEdges(n.ok))
		if n.hasErr {
			line += " | fail-> " + fmtEdges(n.fail)
		}
		out = append(out, line)
	}
	return out
}
