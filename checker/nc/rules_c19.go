package nc

import (
	"fmt"
	"go/types"
	"sort"
	"strings"

	"golang.org/x/tools/go/ssa"
)

func init() {
	register("C19", "Decides, for fault-free operation, a pairing discipline between submitting counter-derived outputs and advancing the stored "+
		"counter: (R1) in every wallet operation each successful submission (mint, swap, melt, or the swap helper) of outputs created from "+
		"a keyset counter is followed, on every path to a success return, by a successful counter increment; the counter is never "+
		"incremented on a path where the submission failed; the increment names the keyset the outputs were derived on and the number of "+
		"submitted outputs (or of signatures returned, for melt change); an exported operation may not return success with the obligation "+
		"open; (R2) the restore scan derives consecutive counters without gaps, resets its empty-batch count after a non-empty batch and "+
		"stops only at three consecutive empty ones, and after EVERY batch that returned signatures advances the stored counter by the "+
		"delta since the last advance (not the running total, reset per keyset) before the next batch; (R3) restore derives secret and r "+
		"from the same counter under the keyset's own path and rebuilds each proof with the r of the matched B_. Wallet crash points and "+
		"the numeric completeness of restore are not decided.", rulesC19)
}

const (
	fnIncr       = "IncrementKeysetCounter"
	fnCreateBM   = "wallet.(*Wallet).createBlindedMessages"
	fnCreateSwap = "wallet.(*Wallet).createSwapRequest"
	fnSwapHelper = "wallet.swap"
)

func (c *Ctx) isIncr(d *CallDesc) bool {
	return (d.Iface != nil && d.Iface.Name() == fnIncr) || (d.Static != nil && d.Static.Name() == fnIncr)
}

func (c *Ctx) isSubmit(d *CallDesc) bool {
	switch d.Name {
	case "wallet/client.PostMintBolt11", "wallet/client.PostSwap", "wallet/client.PostMeltBolt11", fnSwapHelper:
		return true
	}
	return false
}

// deterministicOutputs: the expression contains outputs created from a (non-nil) counter.
func deterministicOutputs(e *Ex) (bool, []*Ex) {
	var creators []*Ex
	e.Walk(func(x *Ex) bool {
		if x.K == "call" && (x.S == fnCreateBM) && x.Idx <= 0 && len(x.Args) == 4 && !isConst(x.Args[3], "nil") {
			creators = append(creators, x)
		}
		if x.K == "call" && x.S == fnCreateSwap {
			creators = append(creators, x)
		}
		return true
	})
	return len(creators) > 0, creators
}

func rulesC19(c *Ctx) {
	R := c.R
	R.Rule("R1", "every successful submission of counter-derived outputs is followed by a matching successful counter increment before success; none after a failed submission", 14)
	R.Rule("R2", "restore scan: consecutive counters, three consecutive empty batches, per-batch delta advance after every non-empty batch", 5)
	R.Rule("R3", "restore: secret and r from the same counter and the keyset's own path; proof rebuilt with the r of the matched B_", 2)
	R.Rule("R4", "the stored counter is never overwritten with a stale value: a keyset record is saved with a counter read from storage, or 0 only for a keyset that is not stored yet", 6)
	c.c19NoStaleCounter()
	R.Rule("R5", "outputs are derived from the stored counter of the keyset they are derived on: the counter handed to the derivation was read for the same keyset id", 4)
	c.c19CounterKeysetAgreement()
	R.Rule("R8", "the counter is read from storage at the time of use: the wallet's counter accessor returns the stored value itself, not an in-memory copy that another path can leave behind", 1)
	R.Rule("R10", "a stored keyset record - and with it the keyset's counter - is never deleted: no Delete / DeleteBucket under the keysets bucket except where a mint's records are moved to a new URL", 2)
	c.ruleKeysetRecordsNeverDeleted("R10")
	R.Rule("R9", "restore answers are computed afresh: the restore endpoint is not served from the mint's response cache (shared with C20.R4; a cached 'nothing signed' batch hides what was signed since)", 10)
	R.Rule("R7", "a counter value read for deriving outputs is not made stale before those outputs are submitted: no call that itself derives outputs and advances a counter lies between the read and the submission", 3)
	R.Rule("R6", "the wallet lock is not dropped between reading a keyset counter and advancing it", 3)
	c.c19LockSpan()
	c.c19NoNestedUseBetweenReadAndSubmit()
	if f := c.P.Func("wallet.(*Wallet).counterForKeyset"); f != nil {
		o := c.P.OriginsOf(f)
		ok, why := true, ""
		for _, r := range Returns(f) {
			e := o.Of(r.Results[0])
			if !(e.K == "call" && e.Call != nil && c.P.Describe(e.Call).Iface != nil && c.P.Describe(e.Call).Iface.Name() == "GetKeysetCounter") {
				ok, why = false, "returns "+short(e.String(), 140)
			}
		}
		R.Check("R8", c.P.FuncKey(f), "counter accessor returns the stored counter", c.P.Pos(f.Pos()), ok, "the accessor hands back what storage holds for the keyset (no cache between storage and the derivation)", why)
	} else {
		R.Trivial("R8", "wallet", "counter accessor", "wallet/wallet.go", "the wallet reads the counter straight from storage at every use (no accessor function on this tree)")
	}
	c.runAs("R4", "R9", func(cc *Ctx) { cc.c20Cache() })

	// the swap request helper is consistent: outputs derived on the keyset it records
	if f := c.fn("R1", fnCreateSwap); f != nil {
		o := c.P.OriginsOf(f)
		for _, r := range o.SuccessReturns() {
			fs := fieldsOfWith(o.Of(r.Results[0]))
			outs, ks := fs["outputs"], fs["keyset"]
			ok := outs != nil && ks != nil && isCall(outs, fnCreateBM) && len(outs.Args) == 4 && ks.K == "addr" && outs.Args[2].String() == ks.Args[0].String()+".Id" && !isConst(outs.Args[3], "nil")
			R.Check("R1", c.P.FuncKey(f), "swap request records the keyset its outputs were derived on", c.P.InstrPos(r), ok,
				"the request's keyset is the keyset whose id and counter produced its outputs", short(o.Of(r.Results[0]).String(), 200))
		}
	}
	// the swap helper itself submits and returns (obligation moves to its callers): it must not increment, and must be unexported
	if f := c.P.Func(fnSwapHelper); f != nil {
		n := 0
		for _, ci := range Calls(f) {
			if c.isIncr(c.P.Describe(ci)) {
				n++
			}
		}
		R.Check("R1", fnSwapHelper, "helper leaves the obligation to its callers", c.P.Pos(f.Pos()), n == 0 && !f.Object().Exported(), "the unexported swap helper submits and returns; every caller must advance the counter", "")
	}

	var fns []*ssa.Function
	for _, f := range c.P.Funcs {
		if f.Pkg == nil || c.P.Rel(f.Pkg.Pkg.Path()) != "wallet" || f.Parent() != nil || c.P.FuncKey(f) == fnSwapHelper {
			continue
		}
		if c.P.IsNewFunc(f) && len(c.callersOf(f)) > 0 {
			continue // a helper new on this tree is read as part of the operations that call it
		}
		fns = append(fns, f)
	}
	sort.Slice(fns, func(i, j int) bool { return c.P.FuncKey(fns[i]) < c.P.FuncKey(fns[j]) })
	for _, f := range fns {
		fk := c.P.FuncKey(f)
		o := c.P.OriginsOf(f)
		var submits []ssa.CallInstruction
		var incrs []ctxCall
		for _, ci := range Calls(f) {
			d := c.P.Describe(ci)
			if c.isSubmit(d) {
				submits = append(submits, ci)
			}
		}
		for _, og := range c.OpContexts(f) {
			if og.Fn.Parent() != nil {
				continue
			}
			for _, ci := range Calls(og.Fn) {
				if c.isIncr(c.P.Describe(ci)) {
					incrs = append(incrs, ctxCall{og, ci})
				}
			}
		}
		// increments name an output keyset
		for _, icc := range incrs {
			ic := icc.CI
			d := c.P.Describe(ic)
			k := icc.O.Of(d.Args[0])
			okK := true
			for _, a := range k.Alts() {
				s := a.String()
				if isConst(a, "\"\"") {
					continue
				}
				if !(strings.Contains(s, "getActiveKeyset#0(") || strings.Contains(s, "activeKeyset.Id") || strings.HasSuffix(s, ".keyset.Id") || strings.Contains(s, "GetAllKeysets#0(")) {
					okK = false
				}
			}
			R.Check("R1", fk, "increment names the keyset the outputs are derived on", c.P.InstrPos(ic), okK,
				"the counter that is advanced belongs to the keyset used for deriving outputs (the active keyset / the request's keyset), not to the keyset of some input", "keyset argument is "+short(k.String(), 140))
		}
		for _, s := range submits {
			d := c.P.Describe(s)
			// what is submitted?
			var sub *Ex
			for _, a := range d.Args {
				e := o.Of(a)
				if det, _ := deterministicOutputs(e); det {
					sub = e
				}
			}
			if sub == nil {
				continue // random (non-deterministic) outputs or none: nothing to advance
			}
			_, creators := deterministicOutputs(sub)
			okSubmit := &Cond{Name: "submission succeeded", Match: func(ft *Fact, _ *Origins) bool {
				return ft.Kind == "errnil" && ft.Pos && ft.A.K == "call" && ft.A.Call == s
			}}
			incrOK := &Cond{Name: "counter advanced", Via: func(g *ssa.Function) bool { return c.P.IsNewFunc(g) }, Match: func(ft *Fact, _ *Origins) bool {
				if ft.Kind == "errnil" && ft.Pos && ft.A.K == "call" && ft.A.Call != nil && c.isIncr(c.P.Describe(ft.A.Call)) {
					return true
				}
				// melt: change signatures only when the mint returned some / only when paid
				if d.Name == "wallet/client.PostMeltBolt11" {
					if ft.Kind == "cmp" && ft.Pos && ft.Op.String() == "<=" && strings.HasSuffix(ft.A.String(), ".Change)") && isConst(ft.B, "0") {
						return true
					}
					if ft.Kind == "cmp" && ft.Op.String() == "==" && strings.HasSuffix(ft.A.String(), ".State") {
						// any state case other than PAID carries no signatures
						paid, _ := c.P.ConstVal("cashu/nuts/nut05", "Paid")
						if (ft.Pos && !isConst(ft.B, paid)) || (!ft.Pos && isConst(ft.B, paid)) {
							return true
						}
					}
				}
				return false
			}}
			// A: after a successful submission every success return passes an increment
			acc := o.AcceptEdges(okSubmit)
			okA, whyA := true, ""
			nRet := 0
			if len(acc) == 0 {
				okA, whyA = false, "the submission's error is not tested"
			}
			incAcc := o.AcceptEdges(incrOK)
			cut := NewCut()
			for e := range incAcc {
				cut.Edges[e] = true
			}
			for e := range acc {
				for _, r := range o.SuccessReturns() {
					if reach, _ := Reach(Point{e.To(), 0}, PointOf(r), NewCut()); !reach {
						continue
					}
					nRet++
					if reach, path := Reach(Point{e.To(), 0}, PointOf(r), cut); reach {
						okA = false
						whyA = "success return at " + c.P.InstrPos(r) + " reachable after the successful submission without advancing the counter: " + c.P.PathString(path)
					}
				}
			}
			if nRet == 0 && okA {
				okA, whyA = false, "no success return after the submission"
			}
			R.Check("R1", fk, "submission via "+d.Name+" => counter advanced before success", c.P.InstrPos(s), okA,
				"after outputs derived from a keyset counter were submitted successfully, the stored counter is advanced before the operation reports success", whyA)
			if d.Name == "wallet/client.PostMeltBolt11" {
				// a PENDING answer: the mint keeps the blank outputs and signs them when the payment settles, so
				// they count as submitted for signing although no signature came back yet
				pendingC, _ := c.P.ConstVal("cashu/nuts/nut05", "Pending")
				onlyIncr := &Cond{Name: "counter advanced", Via: func(g *ssa.Function) bool { return c.P.IsNewFunc(g) }, Match: func(ft *Fact, _ *Origins) bool {
					return ft.Kind == "errnil" && ft.Pos && ft.A.K == "call" && ft.A.Call != nil && c.isIncr(c.P.Describe(ft.A.Call))
				}}
				cutP := NewCut()
				for e := range o.AcceptEdges(onlyIncr) {
					cutP.Edges[e] = true
				}
				okP, whyP, nP := true, "", 0
				for _, e := range o.AllEdges() {
					ft := o.EdgeFact(e)
					if ft == nil || ft.Kind != "cmp" || !ft.Pos || ft.Op.String() != "==" || !strings.HasSuffix(ft.A.String(), ".State") || !isConst(ft.B, pendingC) {
						continue
					}
					if !ft.A.Has(func(x *Ex) bool { return x.K == "call" && x.Call == s }) {
						continue
					}
					for _, r := range o.SuccessReturns() {
						if reach, path := Reach(Point{e.To(), 0}, PointOf(r), cutP); reach {
							nP++
							okP = false
							whyP = "success return at " + c.P.InstrPos(r) + " after a PENDING answer without advancing the counter past the submitted outputs: " + c.P.PathString(path)
						} else if reach2, _ := Reach(Point{e.To(), 0}, PointOf(r), NewCut()); reach2 {
							nP++
						}
					}
				}
				if nP == 0 {
					okP, whyP = false, "no PENDING case found after the submission"
				}
				R.Check("R1", fk, "PENDING answer => counter advanced past the outputs the mint keeps", c.P.InstrPos(s), okP,
					"when the mint answers PENDING it keeps the submitted blank outputs and signs them later; the stored counter is advanced past them before the operation returns", whyP)
			}
			// B: no increment unless the submission succeeded (only increments reachable from this submission)
			for _, icc := range incrs {
				ic := icc.CI
				site, _ := c.siteIn(f, ic).(ssa.CallInstruction)
				if site == nil {
					continue
				}
				if reach, _ := o.ReachAvoiding(s, site, NewCut()); !reach {
					continue
				}
				ok, why := c.RequireAt(ic, okSubmit)
				// an increment may belong to another submission of the same function
				if !ok && len(submits) > 1 {
					any := false
					for _, s2 := range submits {
						cd2 := &Cond{Name: "submission succeeded", Match: func(ft *Fact, _ *Origins) bool {
							return ft.Kind == "errnil" && ft.Pos && ft.A.K == "call" && ft.A.Call == s2
						}}
						if ok2, _ := c.RequireAt(ic, cd2); ok2 {
							any = true
						}
					}
					ok = any
				}
				R.Check("R1", fk, "counter advanced <= submission succeeded", c.P.InstrPos(ic), ok, "the counter is never advanced on a path where the submission failed", why)
				// C: keyset and count consistent with the submitted outputs
				id := c.P.Describe(ic)
				k, n := icc.O.Of(id.Args[0]).String(), icc.O.Of(id.Args[1]).String()
				okC, whyC := false, ""
				for _, cr := range creators {
					switch cr.S {
					case fnCreateBM:
						// K = keyset id argument of the creator (or the id of the same keyset object)
						kid := cr.Args[2].String()
						base := strings.TrimSuffix(kid, ".Id")
						if k == kid || strings.HasPrefix(k, base) {
							okC = true
						}
					case fnCreateSwap:
						if k == cr.String()+".keyset.Id" {
							okC = true
						}
					}
				}
				if !okC {
					whyC = "increments keyset " + short(k, 120) + " but the outputs were derived by " + short(creators[0].String(), 120)
				}
				okN := strings.Contains(n, "len(") || strings.Contains(n, "Change")
				if !okN {
					okC = false
					whyC = "count argument is " + short(n, 100) + " (expected the number of submitted outputs / returned signatures)"
				}
				R.Check("R1", fk, "increment matches the submitted outputs (keyset, count)", c.P.InstrPos(ic), okC, "the increment names the keyset the submitted outputs were derived on and counts those outputs", whyC)
			}
		}
	}
	c.c19Restore()
}

func (c *Ctx) c19Restore() {
	R := c.R
	f := c.fn("R2", "wallet.Restore")
	if f == nil {
		return
	}
	fk := c.P.FuncKey(f)
	o := c.P.OriginsOf(f)
	// derivation calls (in Restore itself or in a helper that is new on this tree, read in its calling context)
	var gen ssa.CallInstruction
	var gctx *Origins
	for _, og := range c.OpContexts(f) {
		for _, ci := range Calls(og.Fn) {
			if c.P.Describe(ci).Name == "wallet.generateDeterministicSecret" {
				gen, gctx = ci, og
			}
		}
	}
	if gen == nil {
		R.Check("R2", fk, "deterministic derivation", c.P.Pos(f.Pos()), false, "restore derives the outputs from the seed", "no call of generateDeterministicSecret")
		return
	}
	gd := c.P.Describe(gen)
	path, ctr := gctx.Of(gd.Args[0]), gctx.Of(gd.Args[1])
	// counter: increments by one per derived output, starting at 0 for the keyset. Two shapes:
	//  (A) one running counter: acc(+; 0; 1 ...)
	//  (B) batch start + index: the start is a running counter advanced by exactly the batch size N per batch,
	//      the index runs over 0..N-1 in the loop that derives the batch
	okCtr := true
	var walk func(e *Ex, step string)
	walk = func(e *Ex, step string) {
		if e.K == "acc" && e.S == "+" {
			for _, s := range e.Args[1:] {
				if !isConst(s, step) {
					okCtr = false
				}
			}
			walk(e.Args[0], step)
			return
		}
		if !isConst(e, "0") {
			okCtr = false
		}
	}
	nextStart := ctr.String() // the counter value from which the next batch starts
	switch {
	case ctr.K == "acc":
		walk(ctr, "1")
	case ctr.K == "bin" && ctr.S == "+":
		start, idx := ctr.Args[0], ctr.Args[1]
		for idx.K == "conv" {
			idx = idx.Args[0]
		}
		// bound of the deriving loop
		n := ""
		if l := gctx.Loops.InnermostContaining(gen.Block()); l != nil {
			if ifi, ok := l.Header.Instrs[len(l.Header.Instrs)-1].(*ssa.If); ok {
				if ft := gctx.condFact(ifi.Cond, true); ft != nil && ft.Kind == "cmp" && ft.Op.String() == "<" && ft.B.K == "const" && ft.A.String() == idx.String() {
					n = ft.B.S
				}
			}
		}
		okIdx := idx.K == "acc" && strings.HasPrefix(idx.S, "+") && len(idx.Args) == 2 && isConst(idx.Args[0], "0") && isConst(idx.Args[1], "1")
		if n == "" || !okIdx || start.K != "acc" {
			okCtr = false
		} else {
			walk(start, n)
			nextStart = "(" + start.String() + " + #" + n + ")"
		}
	default:
		okCtr = false
	}
	R.Check("R2", fk, "counters are consecutive from 0 per keyset", c.P.InstrPos(gen), okCtr, "the counter handed to the derivation starts at 0 for each keyset and grows by exactly one per derived output (no gaps, no repeats)", "counter is "+short(ctr.String(), 120))
	okPath := isCall(path, "cashu/nuts/nut13.DeriveKeysetPath") && path.Idx == 0 && strings.HasSuffix(arg(path, 1).String(), ".Id") && strings.Contains(arg(path, 1).String(), "GetAllKeysets#0(")
	R.Check("R3", fk, "derivation under the keyset's own path", c.P.InstrPos(gen), okPath, "secret and r are derived under the path of the keyset being restored", short(path.String(), 160))
	// the proof is rebuilt with the r of the matched B_
	okR := false
	for _, ci := range Calls(f) {
		d := c.P.Describe(ci)
		if d.Name == "wallet.unblindSignature" {
			r := o.Of(d.Args[1])
			// rs[idx] where idx comes from the search over the sent messages comparing B_
			okR = (r.K == "index" || r.K == "elem") && strings.Contains(r.String(), "[:#100]")
		}
	}
	okMatch := false
	for _, e := range o.AllEdges() {
		ft := o.EdgeFact(e)
		if ft != nil && ft.Kind == "cmp" && ft.Op.String() == "==" && strings.Contains(ft.String(), ".B_") && strings.Contains(ft.String(), ".Outputs") {
			okMatch = true
		}
	}
	// library form of the search: slices.IndexFunc(sent messages, func(m) bool { return m.B_ == <returned B_> })
	for _, ci := range Calls(f) {
		d := c.P.Describe(ci)
		if d.Name != "slices.IndexFunc" || len(d.Args) != 2 {
			continue
		}
		pred := resolveFuncValue(d.Args[1])
		if pred == nil {
			continue
		}
		po := o.EnterClosure(pred)
		for _, r := range Returns(pred) {
			e := po.Of(r.Results[0])
			if e.K != "bin" || e.S != "==" {
				continue
			}
			a0, a1 := unwrapAnyof(e.Args[0]), unwrapAnyof(e.Args[1])
			if strings.HasSuffix(a0.String(), ".B_") && strings.HasSuffix(a1.String(), ".B_") && strings.Contains(e.String(), ".Outputs") {
				okMatch = true
			}
		}
	}
	// position in the mint's (filtered) answer is not position in the batch that was sent: inside the loop over the
	// returned signatures the wallet's own per-batch lists (secrets, blinding factors) are never read at the loop's index
	{
		okI, whyI := true, ""
		for _, og := range c.OpContexts(f) {
			g := og.Fn
			if g.Parent() != nil {
				continue
			}
			for _, l := range og.Loops.Loops {
				if l.RangeOf == nil || !strings.HasSuffix(og.Of(l.RangeOf).String(), ".Signatures") {
					continue
				}
				for b := range l.Blocks {
					for _, in := range b.Instrs {
						ld, ok := in.(*ssa.UnOp)
						if !ok || ld.Op.String() != "*" {
							continue
						}
						ia, ok := ld.X.(*ssa.IndexAddr)
						if !ok || og.Loops.byIndex[ia.Index] != l {
							continue
						}
						xe := og.Of(ia.X).String()
						if strings.HasSuffix(xe, ".Signatures") || strings.HasSuffix(xe, ".Outputs") {
							continue // the answer's own lists are parallel to each other
						}
						okI = false
						whyI = "list " + short(xe, 80) + " is read at the index of the returned signature (" + c.P.InstrPos(in) + "); the mint returns only the outputs it signed"
					}
				}
			}
		}
		R.Check("R3", fk, "the wallet's batch lists are not indexed by the answer's position", c.P.Pos(f.Pos()), okI, "secrets and blinding factors are looked up through the matched B_, never by the position of the signature in the answer", whyI)
	}
	R.Check("R3", fk, "proof rebuilt with the r of the matched B_", c.P.Pos(f.Pos()), okR && okMatch, "each returned signature is matched to the sent message with the same B_ and unblinded with that message's r", "")

	// the batch loop: condition emptyBatches < 3
	var batch *Loop
	for _, l := range o.Loops.Loops {
		if ifi, ok := l.Header.Instrs[len(l.Header.Instrs)-1].(*ssa.If); ok {
			ft := o.condFact(ifi.Cond, true)
			if ft != nil && ft.Kind == "cmp" && ft.Op.String() == "<" && isConst(ft.B, "3") {
				batch = l
			}
		}
	}
	if batch == nil {
		R.Check("R2", fk, "scan stops after three consecutive empty batches", c.P.Pos(f.Pos()), false, "the scan continues while fewer than three consecutive batches were empty", "no loop with the condition '< 3' found")
		return
	}
	// the scan of a keyset ends only through the loop condition: every other way out of the batch loop is an
	// error exit (a `break` on some other criterion - a short batch, a count - ends the scan early)
	{
		okExit, whyExit := true, ""
		for b := range batch.Blocks {
			for i, sb := range b.Succs {
				if batch.Blocks[sb] || (b == batch.Header && i == batch.ExitSucc) {
					continue
				}
				for _, r := range o.SuccessReturns() {
					if reach, path := Reach(Point{sb, 0}, PointOf(r), NewCut()); reach {
						okExit = false
						whyExit = "the batch loop is left at " + c.P.PathString([]*ssa.BasicBlock{b, sb}) + " and the operation can still succeed: " + c.P.PathString(path)
					}
				}
			}
		}
		R.Check("R2", fk, "scan ends only through 'three consecutive empty batches'", c.P.InstrPos(batch.Header.Instrs[len(batch.Header.Instrs)-1]), okExit,
			"apart from error exits the batch loop is left only when its condition fails", whyExit)
	}
	ifi := batch.Header.Instrs[len(batch.Header.Instrs)-1].(*ssa.If)
	eb := ifi.Cond.(*ssa.BinOp).X
	okEB := false
	if ph, ok := eb.(*ssa.Phi); ok {
		okEB = true
		nZero, nInc := 0, 0
		for i, e := range ph.Edges {
			pred := ph.Block().Preds[i]
			if !batch.Blocks[pred] {
				if !isConst(o.Of(e), "0") {
					okEB = false
				}
				continue
			}
			// in-loop edges: +1 only behind "no signatures", 0 only behind "some signatures"
			last := pred.Instrs[len(pred.Instrs)-1]
			empty := &Cond{Name: "batch returned no signatures", Match: func(ft *Fact, _ *Origins) bool {
				x := lenZero(ft)
				return x != nil && strings.HasSuffix(x.String(), ".Signatures")
			}}
			nonEmpty := &Cond{Name: "batch returned signatures", Match: func(ft *Fact, _ *Origins) bool {
				x := lenPositive(ft)
				return x != nil && strings.HasSuffix(x.String(), ".Signatures")
			}}
			if b, isAdd := e.(*ssa.BinOp); isAdd && b.X == ssa.Value(ph) {
				nInc++
				if ok2, _ := o.Requires(last, empty); !ok2 {
					okEB = false
				}
			} else if isConst(o.Of(e), "0") {
				nZero++
				if ok2, _ := o.Requires(last, nonEmpty); !ok2 {
					okEB = false
				}
			} else {
				okEB = false
			}
		}
		if nZero == 0 || nInc == 0 {
			okEB = false
		}
	}
	R.Check("R2", fk, "empty-batch count: +1 on an empty batch, reset to 0 on a non-empty one", c.P.InstrPos(ifi), okEB,
		"the scan stops only after three CONSECUTIVE empty batches", "")

	// after every non-empty batch the counter is advanced by the delta before the next batch
	var incr ssa.CallInstruction
	io := o // the context in which the increment's arguments are read
	for _, og := range c.OpContexts(f) {
		if og.Fn.Parent() != nil {
			continue
		}
		for _, ci := range Calls(og.Fn) {
			if !c.isIncr(c.P.Describe(ci)) {
				continue
			}
			if site := c.siteIn(f, ci); site != nil && batch.Blocks[site.Block()] {
				incr, io = ci, og
			}
		}
	}
	if incr == nil {
		R.Check("R2", fk, "counter advanced per batch", c.P.Pos(f.Pos()), false, "the stored counter is advanced inside the batch loop", "no increment in the loop")
		return
	}
	cut := NewCut()
	advanced := errNilOf(incr, "counter advanced")
	advanced.Via = func(g *ssa.Function) bool { return c.P.IsNewFunc(g) }
	for e := range o.AcceptEdges(advanced) {
		cut.Edges[e] = true
	}
	for b := range batch.Blocks {
		for i, s := range b.Succs {
			if !batch.Blocks[s] {
				cut.Edges[Edge{b, i}] = true
			}
		}
	}
	okAdv, whyAdv := true, ""
	n := 0
	for _, e := range o.AllEdges() {
		ft := o.EdgeFact(e)
		if ft == nil || !batch.Blocks[e.From] {
			continue
		}
		if x := lenPositive(ft); x != nil && strings.HasSuffix(x.String(), ".Signatures") {
			n++
			if reach, path := Reach(Point{e.To(), 0}, Point{batch.Header, 0}, cut); reach {
				okAdv = false
				whyAdv = "the next batch can start after a batch that returned signatures without advancing the stored counter: " + c.P.PathString(path)
			}
		}
	}
	if n == 0 {
		okAdv, whyAdv = false, "no 'batch returned signatures' edge found"
	}
	R.Check("R2", fk, "every batch that returned signatures advances the stored counter before the next batch", c.P.InstrPos(incr), okAdv,
		"after any batch in which the mint returned signatures (spent or not) the stored counter moves past that batch", whyAdv)
	// the amount added is the delta (C - S) with S in {0, C}; the keyset is the one being restored
	d := c.P.Describe(incr)
	k, amt := io.Of(d.Args[0]), io.Of(d.Args[1])
	okDelta := amt.K == "bin" && amt.S == "-" && amt.Args[0].String() == nextStart
	why := "amount is " + short(amt.String(), 160)
	if okDelta {
		s := amt.Args[1]
		if s.K == "loopvar" {
			s = s.Args[0]
		}
		for _, a := range s.Alts() {
			if !(isConst(a, "0") || a.String() == nextStart) {
				okDelta = false
				why = "the subtracted 'already saved' value can be " + short(a.String(), 100) + " (it must restart at 0 for each keyset and otherwise equal the counter at the last advance)"
			}
		}
	}
	R.Check("R2", fk, "advance = counter - counter at the last advance (delta, reset per keyset)", c.P.InstrPos(incr), okDelta,
		"the storage call adds to the stored counter, so the amount passed is the delta since the last advance for this keyset", why)
	okK := strings.HasSuffix(k.String(), ".Id") && strings.Contains(k.String(), "GetAllKeysets#0(")
	R.Check("R2", fk, "advance names the keyset being restored", c.P.InstrPos(incr), okK, "the counter of the keyset being restored is advanced", short(k.String(), 120))
	_ = fmt.Sprintf
}

// c19NoStaleCounter: R4. The counter lives in the stored keyset record and is advanced there; the
// wallet's in-memory keyset copies never see those advances. Saving a keyset record therefore must not
// take its Counter from anything but storage - or be 0 for a keyset that provably is not stored yet.
func (c *Ctx) c19NoStaleCounter() {
	R := c.R
	fromStorage := func(e *Ex) bool {
		return e.Has(func(x *Ex) bool {
			if x.K != "call" || x.Call == nil {
				return false
			}
			d := c.P.Describe(x.Call)
			return d.Iface != nil && (d.Iface.Name() == "GetKeyset" || d.Iface.Name() == "GetKeysets" || d.Iface.Name() == "GetKeysetCounter")
		})
	}
	isZero := func(e *Ex) bool {
		// 0, or the Counter field of a zero-valued struct (a composite literal that does not set it)
		return isConst(e, "0") || e.K == "zero" || (e.K == "field" && e.S == "Counter" && (e.Args[0].K == "zero" || isConst(e.Args[0], "nil")))
	}
	// resolve "(result of a module function).Counter" through the function's returns
	var resolve func(e *Ex, depth int) []*Ex
	resolve = func(e *Ex, depth int) []*Ex {
		if depth > 3 || e.K != "field" || e.S != "Counter" {
			return []*Ex{e}
		}
		base := e.Args[0]
		for base.K == "elem" || base.K == "deref" || base.K == "index" {
			base = base.Args[0]
		}
		if base.K != "call" || base.Call == nil {
			return []*Ex{e}
		}
		callee := base.Call.Common().StaticCallee()
		if callee == nil || !c.moduleFn(callee) || callee.Parent() != nil {
			return []*Ex{e}
		}
		co := c.P.OriginsOf(callee)
		idx := base.Idx
		if idx < 0 {
			idx = 0
		}
		var out []*Ex
		for _, r := range co.SuccessReturns() {
			if idx >= len(r.Results) {
				return []*Ex{e}
			}
			v := r.Results[idx]
			var rec *Ex
			if _, isMap := v.Type().Underlying().(*types.Map); isMap {
				// a map result: the values stored into it
				found := false
				for _, b := range callee.Blocks {
					for _, in := range b.Instrs {
						if mu, ok := in.(*ssa.MapUpdate); ok && co.sameValue(mu.Map, v) {
							found = true
							for _, c2 := range project(co.Of(mu.Value), "Counter").Alts() {
								out = append(out, resolve(c2, depth+1)...)
							}
						}
					}
				}
				if found {
					continue
				}
			}
			if _, isPtr := v.Type().Underlying().(*types.Pointer); isPtr {
				rec = co.ContentAt(v, r)
			} else {
				rec = co.Of(v)
			}
			// a list result: its elements
			for _, alt := range rec.Alts() {
				x := alt
				if x.K == "map" && len(x.Args) == 2 {
					x = x.Args[1]
				}
				for x.K == "acc" && strings.HasPrefix(x.S, "append") && len(x.Args) >= 2 {
					x = x.Args[len(x.Args)-1]
				}
				for _, c2 := range project(x, "Counter").Alts() {
					out = append(out, resolve(c2, depth+1)...)
				}
			}
		}
		if len(out) == 0 {
			return []*Ex{e}
		}
		return out
	}
	// "this keyset / mint / wallet is not stored yet"
	fresh := &Cond{Name: "keyset not stored yet (look-up came back empty, mint unknown, or wallet file absent)", Match: func(ft *Fact, _ *Origins) bool {
		switch ft.Kind {
		case "nil":
			if ft.Pos && ft.A.K == "call" && ft.A.Call != nil {
				if d := c.P.Describe(ft.A.Call); d.Iface != nil && d.Iface.Name() == "GetKeyset" {
					return true
				}
			}
		case "bool":
			// _, ok := w.mints[url]; !ok
			// (the map looked up is the wallet's map of mints itself, not a map reached through one of its entries)
			if !ft.Pos && ft.A.K == "ok" && len(ft.A.Args) == 1 && ft.A.Args[0].K == "lookup" {
				if m := ft.A.Args[0].Args[0].String(); strings.HasSuffix(m, ".mints") || strings.Contains(m, "loadWalletMints") {
					return true
				}
			}
		case "errnil":
			// os.Stat(dbpath) failed: there is no wallet file
			if !ft.Pos && isCall(ft.A, "os.Stat") {
				return true
			}
		}
		return false
	}}
	var freshAtCallers func(f *ssa.Function, depth int) (bool, string)
	freshAtCallers = func(f *ssa.Function, depth int) (bool, string) {
		callers := c.callersOf(f)
		if len(callers) == 0 || depth > 2 {
			return false, "no caller establishes that the keyset is not stored yet"
		}
		for _, ci := range callers {
			if ok, _ := c.RequireAt(ci, fresh); ok {
				continue
			}
			if ok, _ := freshAtCallers(EnclosingTop(ci.Parent()), depth+1); ok {
				continue
			}
			return false, "call at " + c.P.InstrPos(ci) + " is not behind a fact that the keyset is not stored yet"
		}
		return true, ""
	}
	n := 0
	for _, f := range c.P.Funcs {
		if f.Pkg == nil || c.P.Rel(f.Pkg.Pkg.Path()) != "wallet" {
			continue
		}
		o := c.P.OriginsOf(f)
		for _, ci := range Calls(f) {
			d := c.P.Describe(ci)
			if d.Iface == nil || d.Iface.Name() != "SaveKeyset" || len(d.Args) != 1 {
				continue
			}
			n++
			rec := o.ContentAt(d.Args[0], ci)
			cnt := project(rec, "Counter")
			ok, why := true, ""
			var alts []*Ex
			for _, a := range cnt.Alts() {
				alts = append(alts, resolve(a, 0)...)
			}
			for _, a := range alts {
				switch {
				case fromStorage(a):
				case isZero(a):
					if okF, _ := c.RequireAt(ci, fresh); okF {
						continue
					}
					if okC, w := freshAtCallers(EnclosingTop(f), 0); okC {
						continue
					} else {
						ok, why = false, "counter 0 is saved but the keyset may already be stored: "+w
					}
				default:
					ok, why = false, "the saved record's counter is "+short(a.String(), 140)+" - an in-memory value that does not see the advances made in storage"
				}
			}
			R.Check("R4", c.P.FuncKey(f), "saved keyset record carries the stored counter", c.P.InstrPos(ci), ok,
				"a keyset record is saved with the counter read from storage (or 0 for a keyset that is not stored yet)", why)
		}
	}
	if n == 0 {
		R.Unresolved("R4", "keyset record writes in the wallet", "no SaveKeyset call found")
	}
}

// c19CounterKeysetAgreement: R5. createBlindedMessages(split, keysetId, &counter): the cell handed in was
// filled by a read of the stored counter for that very keysetId (same provenance). A counter read for one
// keyset and used to derive on another re-uses or skips (keyset, counter) pairs after a rotation.
func (c *Ctx) c19CounterKeysetAgreement() {
	R := c.R
	n := 0
	for _, f := range c.P.Funcs {
		if f.Pkg == nil || c.P.Rel(f.Pkg.Pkg.Path()) != "wallet" {
			continue
		}
		o := c.P.OriginsOf(f)
		for _, ci := range Calls(f) {
			d := c.P.Describe(ci)
			if d.Name != fnCreateBM || len(d.Args) != 3 {
				continue
			}
			cell, ok := d.Args[2].(*ssa.Alloc)
			if !ok {
				continue // nil counter (random outputs) or a counter passed on by the caller
			}
			n++
			ks := o.Of(d.Args[1]).String()
			okAll, why, reads := true, "", 0
			for _, ref := range *cell.Referrers() {
				st, isSt := ref.(*ssa.Store)
				if !isSt || st.Addr != ssa.Value(cell) {
					continue
				}
				call, isCall := st.Val.(*ssa.Call)
				if !isCall {
					continue
				}
				cd := c.P.Describe(call)
				if cd.Name != "wallet.(*Wallet).counterForKeyset" && !(cd.Iface != nil && cd.Iface.Name() == "GetKeysetCounter") {
					continue
				}
				reads++
				if got := o.Of(cd.Args[0]).String(); got != ks {
					okAll = false
					why = "counter read for " + short(got, 100) + " at " + c.P.InstrPos(call) + ", outputs derived on " + short(ks, 100)
				}
			}
			if reads == 0 {
				okAll, why = false, "the counter cell is not filled from the stored counter"
			}
			R.Check("R5", c.P.FuncKey(f), "counter read for the keyset the outputs are derived on", c.P.InstrPos(ci), okAll,
				"the counter handed to the output derivation is the stored counter of the same keyset id", why)
		}
	}
	if n == 0 {
		R.Unresolved("R5", "deterministic output derivations", "no call of "+fnCreateBM+" with a local counter")
	}
}

// c19LockSpan: R6. In every wallet function that reads a stored keyset counter and later advances it, no
// explicit Unlock / RUnlock of the wallet mutex lies between the read and the advance, and a lock the function
// takes before the read is the exclusive one. (Releasing the lock during the round trip to the mint lets a
// second operation read the same counter and submit the same outputs.) Functions that do not lock at all -
// the lock is their caller's - satisfy the rule trivially; that some exported operations never lock is not
// judged here.
// c19NoNestedUseBetweenReadAndSubmit: R7.
func (c *Ctx) c19NoNestedUseBetweenReadAndSubmit() {
	R := c.R
	// functions that (transitively, through static calls inside the wallet package) advance a counter
	adv := map[*ssa.Function]bool{}
	for changed := true; changed; {
		changed = false
		for _, f := range c.P.Funcs {
			top := EnclosingTop(f)
			if top.Pkg == nil || c.P.Rel(top.Pkg.Pkg.Path()) != "wallet" || adv[top] {
				continue
			}
			for _, ci := range Calls(f) {
				if c.isIncr(c.P.Describe(ci)) || adv[ci.Common().StaticCallee()] {
					adv[top] = true
					changed = true
					break
				}
			}
		}
	}
	n := 0
	for _, f := range c.P.Funcs {
		if f.Pkg == nil || c.P.Rel(f.Pkg.Pkg.Path()) != "wallet" || f.Parent() != nil {
			continue
		}
		if c.P.IsNewFunc(f) && len(c.callersOf(f)) > 0 {
			continue
		}
		var reads, submits, advancing []ssa.CallInstruction
		for _, g := range c.OpFuncs(f) {
			if g.Parent() != nil {
				continue
			}
			for _, ci0 := range Calls(g) {
				d := c.P.Describe(ci0)
				ci, _ := c.siteIn(f, ci0).(ssa.CallInstruction)
				if ci == nil {
					continue
				}
				switch {
				case d.Name == "wallet.(*Wallet).counterForKeyset" || (d.Iface != nil && d.Iface.Name() == "GetKeysetCounter"):
					reads = append(reads, ci)
				case c.isSubmit(d):
					submits = append(submits, ci)
				default:
					if callee := ci0.Common().StaticCallee(); callee != nil && adv[callee] && !c.P.IsNewFunc(callee) {
						advancing = append(advancing, ci)
					}
				}
			}
		}
		if len(reads) == 0 || len(submits) == 0 {
			continue
		}
		n++
		o := c.P.OriginsOf(f)
		ok, why := true, ""
		for _, rd := range reads {
			for _, k := range advancing {
				if k == rd {
					continue
				}
				r1, _ := o.ReachAvoiding(rd, k, NewCut())
				if !r1 {
					continue
				}
				for _, s := range submits {
					if s == k {
						continue
					}
					if r2, _ := o.ReachAvoiding(k, s, NewCut()); r2 {
						ok = false
						why = "the counter read at " + c.P.InstrPos(rd) + " is followed by " + c.P.Describe(k).Name + " at " + c.P.InstrPos(k) + " (which derives outputs and advances a counter itself) before the submission at " + c.P.InstrPos(s)
					}
				}
			}
		}
		R.Check("R7", c.P.FuncKey(f), "no counter-advancing call between counter read and submission", c.P.Pos(f.Pos()), ok,
			"between reading the counter that outputs are derived from and submitting those outputs, nothing else derives outputs from (and advances) a keyset counter", why)
	}
	if n == 0 {
		R.Unresolved("R7", "wallet functions that read a counter and submit outputs", "none found")
	}
}

func (c *Ctx) c19LockSpan() {
	R := c.R
	n := 0
	for _, f := range c.P.Funcs {
		if f.Pkg == nil || c.P.Rel(f.Pkg.Pkg.Path()) != "wallet" || f.Parent() != nil {
			continue
		}
		if c.P.IsNewFunc(f) && len(c.callersOf(f)) > 0 {
			continue // read as part of its callers
		}
		var reads, incrs, unlocks, rlocks []ssa.CallInstruction
		var all []ssa.CallInstruction
		for _, g := range c.OpFuncs(f) {
			if g.Parent() == nil {
				all = append(all, Calls(g)...)
			}
		}
		for _, ci0 := range all {
			d := c.P.Describe(ci0)
			// the call is read at the place of f through which it is executed (itself, or the call of the helper
			// new on this tree that holds it)
			ci, _ := c.siteIn(f, ci0).(ssa.CallInstruction)
			if ci == nil {
				continue
			}
			switch {
			case d.Name == "wallet.(*Wallet).counterForKeyset" || (d.Iface != nil && d.Iface.Name() == "GetKeysetCounter"):
				reads = append(reads, ci)
			case c.isIncr(d):
				incrs = append(incrs, ci)
			case d.Name == "sync.(*RWMutex).Unlock" || d.Name == "sync.(*RWMutex).RUnlock" || d.Name == "sync.(*Mutex).Unlock":
				if _, isCall := ci0.(*ssa.Call); isCall {
					unlocks = append(unlocks, ci)
				}
			case d.Name == "sync.(*RWMutex).RLock":
				rlocks = append(rlocks, ci)
			}
		}
		if len(reads) == 0 || len(incrs) == 0 {
			continue
		}
		n++
		o := c.P.OriginsOf(f)
		ok, why := true, ""
		for _, rd := range reads {
			for _, u := range unlocks {
				r1, _ := o.ReachAvoiding(rd, u, NewCut())
				if !r1 {
					continue
				}
				for _, ic := range incrs {
					if r2, _ := o.ReachAvoiding(u, ic, NewCut()); r2 {
						ok = false
						why = "the lock is released at " + c.P.InstrPos(u) + " between the counter read at " + c.P.InstrPos(rd) + " and the advance at " + c.P.InstrPos(ic)
					}
				}
			}
			for _, rl := range rlocks {
				if r1, _ := o.ReachAvoiding(rl, rd, NewCut()); r1 {
					ok = false
					why = "the counter is read under a shared (read) lock taken at " + c.P.InstrPos(rl)
				}
			}
		}
		R.Check("R6", c.P.FuncKey(f), "lock held from counter read to advance", c.P.Pos(f.Pos()), ok,
			"no Unlock lies between reading the keyset counter and advancing it; the counter is not read under a shared lock", why)
	}
	if n == 0 {
		R.Unresolved("R6", "wallet functions that read and advance a counter", "none found")
	}
}

// ruleKeysetRecordsNeverDeleted: R10. The stored keyset record carries the NUT-13 counter; once it is gone the next use
// of that keyset starts at counter 0 and resubmits outputs the mint has signed. Census of the wallet's bolt layer: no
// Delete / DeleteBucket on a bucket reached through the keysets bucket, except in the method of the reference tree
// that moves a mint's records under a new URL (it copies them first; C17 decides that).
func (c *Ctx) ruleKeysetRecordsNeverDeleted(rule string) {
	R := c.R
	name, ok := c.P.ConstVal("wallet/storage", "KEYSETS_BUCKET")
	if !ok {
		R.Unresolved(rule, "KEYSETS_BUCKET constant", "not found in wallet/storage")
		return
	}
	name = strings.Trim(name, "\"")
	var fromKeysets func(v ssa.Value, depth int) bool
	fromKeysets = func(v ssa.Value, depth int) bool {
		if depth > 8 {
			return false
		}
		switch x := v.(type) {
		case *ssa.Call:
			d := c.P.Describe(x)
			if strings.HasSuffix(d.Name, ").Bucket") || strings.HasSuffix(d.Name, ").CreateBucketIfNotExists") || strings.HasSuffix(d.Name, ").CreateBucket") {
				for _, a := range d.Args {
					if cv, ok := a.(*ssa.Convert); ok {
						a = cv.X // []byte("keysets")
					}
					if parts, complete := constStringParts(a); complete && strings.Join(parts, "") == name {
						return true
					}
				}
				if d.Recv != nil {
					return fromKeysets(d.Recv, depth+1)
				}
			}
		case *ssa.Extract:
			return fromKeysets(x.Tuple, depth+1)
		case *ssa.Phi:
			for _, e := range x.Edges {
				if fromKeysets(e, depth+1) {
					return true
				}
			}
		case *ssa.UnOp:
			if al, ok := x.X.(*ssa.Alloc); ok && al.Referrers() != nil {
				for _, r := range *al.Referrers() {
					if st, ok := r.(*ssa.Store); ok && st.Addr == ssa.Value(al) && fromKeysets(st.Val, depth+1) {
						return true
					}
				}
			}
			if fv, ok := x.X.(*ssa.FreeVar); ok {
				// captured bucket variable: look at what the enclosing function stores into it
				if mc := FindMakeClosure(fv.Parent()); mc != nil {
					for i, b := range mc.Bindings {
						if i < len(fv.Parent().FreeVars) && fv.Parent().FreeVars[i] == fv {
							if al, ok := b.(*ssa.Alloc); ok && al.Referrers() != nil {
								for _, r := range *al.Referrers() {
									if st, ok := r.(*ssa.Store); ok && st.Addr == ssa.Value(al) && fromKeysets(st.Val, depth+1) {
										return true
									}
								}
							}
						}
					}
				}
			}
		}
		return false
	}
	n, seen := 0, 0
	for _, f := range c.P.Funcs {
		top := EnclosingTop(f)
		if top.Pkg == nil || c.P.Rel(top.Pkg.Pkg.Path()) != "wallet/storage" {
			continue
		}
		for _, ci := range Calls(f) {
			d := c.P.Describe(ci)
			if !strings.Contains(d.Name, "bbolt") || !(strings.HasSuffix(d.Name, ").Delete") || strings.HasSuffix(d.Name, ").DeleteBucket")) {
				continue
			}
			seen++
			if d.Recv == nil || !fromKeysets(d.Recv, 0) {
				continue
			}
			n++
			okF := c.P.FuncKey(top) == "wallet/storage.(*BoltDB).UpdateKeysetMintURL"
			R.Check(rule, c.P.FuncKey(top), "keyset records are not deleted ("+d.Name[strings.LastIndex(d.Name, ".")+1:]+")", c.P.InstrPos(ci), okF,
				"nothing deletes a stored keyset record (it holds the NUT-13 counter of that keyset)", "a record of the keysets bucket is deleted here")
		}
	}
	if seen == 0 {
		R.Unresolved(rule, "bolt deletions in wallet/storage", "none found")
		return
	}
	R.Check(rule, "wallet/storage", "deletions in the bolt layer examined", "wallet/storage/bolt.go", true, fmt.Sprintf("%d Delete / DeleteBucket calls examined, %d on the keysets bucket", seen, n), "")
}
