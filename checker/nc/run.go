package nc

import (
	"fmt"
	"os"
	"path/filepath"
	"runtime/debug"
	"sort"
)

// Options for a check run.
type Options struct {
	Repo, Property, Tier, Verif, Replay string
	NoEvidence, Verbose                 bool
}

type ruleSet struct {
	run         func(c *Ctx)
	explanation string
}

var properties = map[string]*ruleSet{}

func register(id string, explanation string, run func(c *Ctx)) {
	properties[id] = &ruleSet{run: run, explanation: explanation}
}

// PropertyIDs lists the registered properties.
func PropertyIDs() []string {
	var ids []string
	for id := range properties {
		ids = append(ids, id)
	}
	sort.Strings(ids)
	return ids
}

// RunChecks runs the rules of one property (or all) and writes evidence.
func RunChecks(opt Options) int {
	if opt.Property == "" {
		fmt.Fprintln(os.Stderr, "usage: nutcheck -property Cxx|all [-tier quick|thorough] [-repo dir]")
		return 2
	}
	var ids []string
	if opt.Property == "all" {
		ids = PropertyIDs()
	} else {
		if _, ok := properties[opt.Property]; !ok {
			fmt.Fprintf(os.Stderr, "unknown property %q (have %v)\n", opt.Property, PropertyIDs())
			return 2
		}
		ids = []string{opt.Property}
	}
	known, err := LoadKnown(filepath.Join(opt.Verif, "known_findings.json"))
	if err != nil {
		fmt.Fprintln(os.Stderr, "known findings:", err)
		return 2
	}
	failAll := func(reason string) int {
		// loading or type-checking failed: every requested property fails closed
		for _, id := range ids {
			r := NewReport(id, opt.Tier)
			r.Explanation = properties[id].explanation
			r.Unresolved("load", "repository", reason)
			r.Finish(opt, known)
		}
		return 1
	}
	p, err := Load(LoadOptions{Repo: opt.Repo})
	if err != nil {
		return failAll(err.Error())
	}
	if len(p.Pkgs) < 20 {
		return failAll(fmt.Sprintf("only %d packages loaded, expected the whole module", len(p.Pkgs)))
	}
	v := BuildVocab(p)
	code := 0
	for _, id := range ids {
		r := NewReport(id, opt.Tier)
		r.Explanation = properties[id].explanation
		r.Analysed["packages"] = len(p.Pkgs)
		r.Analysed["files"] = p.NFiles
		r.Analysed["functions"] = len(p.Funcs)
		r.Analysed["routes"] = len(v.Routes)
		r.Trust("Go type checker and go/ssa construction (golang.org/x/tools v0.29.0)")
		func() {
			defer func() {
				if x := recover(); x != nil {
					r.Unresolved("checker", "panic", fmt.Sprintf("%v\n%s", x, debug.Stack()))
				}
			}()
			c := &Ctx{P: p, V: v, R: r, Opt: opt}
			properties[id].run(c)
			if opt.Tier == "thorough" {
				runThorough(c, id)
			}
		}()
		if rc := r.Finish(opt, known); rc != 0 {
			code = rc
		}
	}
	return code
}

// vocabProblems records vocabulary extraction problems that concern a property's rules.
func (c *Ctx) vocabProblems(rule string) {
	for _, pr := range c.V.Problems {
		c.R.Unresolved(rule, "vocabulary", pr)
	}
}
