package nc

import (
	"encoding/json"
	"fmt"
	"os"
	"path/filepath"
	"runtime/debug"
	"sort"
)

// Options for a check run.
type Options struct {
	Repo, Property, Tier, Verif, Replay string
	NoEvidence, Verbose                 bool
}

type ruleSet struct {
	run         func(c *Ctx)
	explanation string
}

var properties = map[string]*ruleSet{}

func register(id string, explanation string, run func(c *Ctx)) {
	properties[id] = &ruleSet{run: run, explanation: explanation}
}

// PropertyIDs lists the registered properties.
func PropertyIDs() []string {
	var ids []string
	for id := range properties {
		ids = append(ids, id)
	}
	sort.Strings(ids)
	return ids
}

// RunChecks runs the rules of one property (or all) and writes evidence.
func RunChecks(opt Options) int {
	if opt.Replay != "" {
		return runReplay(opt)
	}
	if opt.Property == "" {
		fmt.Fprintln(os.Stderr, "usage: nutcheck -property Cxx|all [-tier quick|thorough] [-repo dir]")
		return 2
	}
	var ids []string
	if opt.Property == "all" {
		ids = PropertyIDs()
	} else {
		if _, ok := properties[opt.Property]; !ok {
			fmt.Fprintf(os.Stderr, "unknown property %q (have %v)\n", opt.Property, PropertyIDs())
			return 2
		}
		ids = []string{opt.Property}
	}
	known, err := LoadKnown(filepath.Join(opt.Verif, "known_findings.json"))
	if err != nil {
		fmt.Fprintln(os.Stderr, "known findings:", err)
		return 2
	}
	failAll := func(reason string) int {
		// loading or type-checking failed: every requested property fails closed
		for _, id := range ids {
			r := NewReport(id, opt.Tier)
			r.Explanation = properties[id].explanation
			r.Unresolved("load", "repository", reason)
			r.Finish(opt, known)
		}
		return 1
	}
	p, err := Load(LoadOptions{Repo: opt.Repo})
	if err != nil {
		return failAll(err.Error())
	}
	if len(p.Pkgs) < 20 {
		return failAll(fmt.Sprintf("only %d packages loaded, expected the whole module", len(p.Pkgs)))
	}
	v := BuildVocab(p)
	code := 0
	for _, id := range ids {
		r := NewReport(id, opt.Tier)
		r.Explanation = properties[id].explanation
		r.Analysed["packages"] = len(p.Pkgs)
		r.Analysed["files"] = p.NFiles
		r.Analysed["functions"] = len(p.Funcs)
		r.Analysed["routes"] = len(v.Routes)
		r.Trust("Go type checker and go/ssa construction (golang.org/x/tools v0.29.0)")
		for _, rn := range p.Renamed {
			r.Note("renamed function treated under its reference name: %s", rn)
		}
		func() {
			defer func() {
				if x := recover(); x != nil {
					r.Unresolved("checker", "panic", fmt.Sprintf("%v\n%s", x, debug.Stack()))
				}
			}()
			c := &Ctx{P: p, V: v, R: r, Opt: opt}
			properties[id].run(c)
			if opt.Tier == "thorough" {
				runThorough(c, id)
			}
		}()
		if rc := r.Finish(opt, known); rc != 0 {
			code = rc
		}
	}
	return code
}

// vocabProblems records vocabulary extraction problems that concern a property's rules.
func (c *Ctx) vocabProblems(rule string) {
	for _, pr := range c.V.Problems {
		c.R.Unresolved(rule, "vocabulary", pr)
	}
}

// runReplay re-decides the obligation recorded in a replay file on the current tree: it re-runs the
// rules of the record's property and prints that obligation's current verdict with its reason.
// Exit 1 if the obligation is still violated, 0 if it is discharged or no longer exists.
func runReplay(opt Options) int {
	b, err := os.ReadFile(opt.Replay)
	if err != nil {
		fmt.Fprintln(os.Stderr, "replay:", err)
		return 2
	}
	var rec struct {
		Property   string     `json:"property"`
		Obligation Obligation `json:"obligation"`
	}
	if err := json.Unmarshal(b, &rec); err != nil || rec.Property == "" {
		fmt.Fprintln(os.Stderr, "replay: not a replay record:", opt.Replay)
		return 2
	}
	if _, ok := properties[rec.Property]; !ok {
		fmt.Fprintf(os.Stderr, "replay: unknown property %q\n", rec.Property)
		return 2
	}
	p, err := Load(LoadOptions{Repo: opt.Repo})
	if err != nil {
		fmt.Println("replay: the repository does not load:", err)
		return 1
	}
	r := NewReport(rec.Property, "quick")
	c := &Ctx{P: p, V: BuildVocab(p), R: r, Opt: opt}
	func() {
		defer func() {
			if x := recover(); x != nil {
				r.Unresolved("checker", "panic", fmt.Sprintf("%v", x))
			}
		}()
		properties[rec.Property].run(c)
	}()
	fmt.Printf("replay of %s\n  recorded: [%s] at %s\n    %s\n", rec.Obligation.Key, rec.Obligation.Status, rec.Obligation.Site, rec.Obligation.Detail)
	for _, o := range r.Obls {
		if o.Key != rec.Obligation.Key {
			continue
		}
		fmt.Printf("  now:      [%s] at %s\n    what: %s\n    why:  %s\n", o.Status, o.Site, o.Desc, o.Detail)
		if o.Status != "discharged" {
			fmt.Printf("VIOLATION property=%s replay=%s\n", rec.Property, opt.Replay)
			return 1
		}
		return 0
	}
	fmt.Println("  now:      no obligation with this key exists on the current tree (the construct is gone or the violation no longer occurs)")
	return 0
}
