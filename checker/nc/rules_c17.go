package nc

import (
	"fmt"
	"go/types"
	"strings"

	"golang.org/x/tools/go/ssa"
)

func init() {
	register("C17", "Numeric conservation over histories is NOT decided statically. Decided is a custody discipline on every path: a set of "+
		"proofs taken out of the spendable bucket is, at every return, in exactly one of {pending bucket, spendable bucket again, consumed "+
		"by a success answer}: (R1) Melt records the selected proofs as pending for the quote before sending them; gives them back "+
		"(save + delete pending) only behind the mint's specific payment-failed error or an UNPAID answer, deletes pending on PAID, touches "+
		"nothing on PENDING or any other error; the melt-quote poll deletes pending on PAID, gives back exactly the pending proofs of that "+
		"quote on UNPAID; (R2) Send returns proofs only after they were recorded as pending; the swap-to-send deletes its inputs only "+
		"after the swap succeeded and saves the change before success; receive / mint / reclaim report success only after the new proofs "+
		"were saved; reclaim removes from pending exactly the proofs the mint reported UNSPENT, after the save; (R3) the balances are sums "+
		"over the whole spendable / pending buckets, per mint over the active and all inactive keysets; (R4) the active-keyset refresh "+
		"writes every change of the in-memory mint entry back to the wallet's mint table. The arithmetic, the mint's view, fees and tokens "+
		"in flight are not decided.", rulesC17)
	register("C18", "The exactness of the selection / fee fix-point is arithmetic over runtime multisets and is NOT decided statically (reading "+
		"suggests it does misbehave for some fee/amount combinations on the swap path; that is outside what these rules decide). Decided: "+
		"(R1) the offline branch returns the selected proofs only on the accept edge of 'sum of the selected == amount + fees', fees being "+
		"the fee function applied to those very proofs when fees are included, else 0, and removes exactly those from the spendable bucket; "+
		"(R2) the swap branch returns the unblinded proofs matched one-to-one to the send outputs: each returned proof is removed from the "+
		"candidate list before the next match, so the returned proofs are pairwise distinct; the recipient-fee budget is computed from the "+
		"keyset the new proofs are issued on (the freshly synchronised active keyset); (R3) the wallet's fee function is ceil(sum of the "+
		"per-proof ppk of each proof's own keyset / 1000) — one rounding over the whole list; Send records what it returns as pending "+
		"(C17.R2).", rulesC18)
}

func (c *Ctx) callsOfWalletDB(f *ssa.Function, name string) []ssa.CallInstruction {
	var out []ssa.CallInstruction
	for _, ci := range Calls(f) {
		d := c.P.Describe(ci)
		if d.Iface != nil && d.Iface.Name() == name {
			out = append(out, ci)
		}
	}
	return out
}

// ctxCall is a call instruction together with the provenance context it is read in.
type ctxCall struct {
	O  *Origins
	CI ssa.CallInstruction
}

// opCallsOfWalletDB: like callsOfWalletDB over the operation and the helpers that are new on this tree
// (each read in its calling context).
func (c *Ctx) opCallsOfWalletDB(f *ssa.Function, name string) []ctxCall {
	var out []ctxCall
	for _, og := range c.OpContexts(f) {
		if og.Fn.Parent() != nil {
			continue
		}
		for _, ci := range Calls(og.Fn) {
			d := c.P.Describe(ci)
			if d.Iface != nil && d.Iface.Name() == name {
				out = append(out, ctxCall{og, ci})
			}
		}
	}
	return out
}

func errNilOf(call ssa.CallInstruction, name string) *Cond {
	return &Cond{Name: name, Match: func(ft *Fact, _ *Origins) bool {
		return ft.Kind == "errnil" && ft.Pos && ft.A.K == "call" && ft.A.Call == call
	}}
}

func rulesC17(c *Ctx) {
	R := c.R
	R.Rule("R1", "Melt / melt-quote poll custody table", 14)
	R.Rule("R2", "Send, swap-to-send, receive, mint, reclaim custody ordering", 9)
	R.Rule("R9", "the wallet reads a mint's answer completely: the network layer does not cap response bodies", 1)
	c.c17ClientReadsWholeBody()
	R.Rule("R8", "melt reconciliation is complete: for every melt quote not yet recorded PAID a PAID answer removes its pending record and an UNPAID answer gives its pending proofs back", 2)
	c.c17ReconcileComplete()
	R.Rule("R10", "a refusal by the mint or a failed step is never taken for success: in the wallet, its network client and its storage the error of every call is tested nil, classified or handed on before any return that may report success (sites where continuing is intended are a frozen table)", 70)
	c.ruleErrorDisciplinePkgs("R10", []string{"wallet", "wallet/*"}, errToleratedWallet, 70)
	R.Rule("R11", "Melt commits proofs only to a quote that is neither paid nor in flight: selection and submission lie behind 'stored state != PAID' and behind 'stored state != PENDING, or the re-check answered neither PENDING nor PAID'", 3)
	R.Rule("R14", "who may release: the wallet storage methods that delete pending proofs are called only from the melt, the melt-quote poll and the maintenance calls that ask the mint for the proofs' state first", 5)
	c.ruleWalletPendingReleaseCallers("R14")
	R.Rule("R15", "the wallet never abandons a request on its own clock: the network layer sets no http.Client timeout and no context deadline (an error is read as 'not executed' everywhere above it)", 1)
	c.ruleClientNoOwnDeadline("R15")
	R.Rule("R13", "existing proofs pay the fee of their own keysets: the count-based fee helper is never applied to the length of a list of proofs (shared with C18)", 1)
	c.ruleFeeOfExistingProofs("R13")
	R.Rule("R12", "foreign proofs stay out of the wallet: on the swap-to-trusted path no storage write takes the proofs of the received token (or of its pre-swap at the untrusted mint)", 1)
	c.c17ForeignProofsStayOut("R12")
	c.c17MeltOnlyOpenQuote()
	R.Rule("R3", "balances are whole-bucket sums", 3)
	R.Rule("R4", "active-keyset refresh writes the mint entry back", 2)
	R.Rule("R5", "the wallet's fee functions agree with the mint's: one ceil over the summed per-proof ppk of each proof's own keyset (shared with C18.R3)", 2)
	R.Rule("R6", "the wallet storage hands out whole buckets: bucket readers return every stored entry, writers store every element", 4)
	R.Rule("R7", "signatures the mint hands back are turned into proofs: every wallet operation that reads change signatures from an answer unblinds them (constructProofs) and saves the result", 2)
	c.ruleWalletFeeFormula("R5")
	c.c17StorageTotal()
	c.c17ChangeNotDropped()
	c.c17Melt()
	c.c17Poll()
	c.c17Others()
	c.c17Balances()
	c.c17KeysetRefresh()
}

func (c *Ctx) c17Melt() {
	R := c.R
	f := c.fn("R1", "wallet.(*Wallet).Melt")
	if f == nil {
		return
	}
	fk := c.P.FuncKey(f)
	o := c.P.OriginsOf(f)
	var post ssa.CallInstruction
	for _, ci := range Calls(f) {
		if c.P.Describe(ci).Name == "wallet/client.PostMeltBolt11" {
			post = ci
		}
	}
	addP := c.callsOfWalletDB(f, "AddPendingProofsByQuoteId")
	if post == nil || len(addP) != 1 {
		R.Unresolved("R1", "melt request / pending record in "+fk, fmt.Sprintf("post=%v add-pending=%d", post != nil, len(addP)))
		return
	}
	ad := c.P.Describe(addP[0])
	sel := o.Of(ad.Args[0])
	quoteID := o.Of(ad.Args[1]).String()
	okSel := isCall(sel, "wallet.(*Wallet).getProofsForAmount") && sel.Idx == 0
	R.Check("R1", fk, "pending record holds the selected proofs for this quote", c.P.InstrPos(addP[0]), okSel && strings.HasSuffix(quoteID, ".QuoteId"), "the proofs taken out of the spendable bucket are recorded as pending under the quote", short(sel.String(), 120))
	ok, why := o.Requires(post, errNilOf(addP[0], "selected proofs recorded as pending"))
	R.Check("R1", fk, "melt request <= proofs recorded as pending", c.P.InstrPos(post), ok, "the proofs are sent only after they were recorded as pending", why)
	// the selection has already taken the proofs out of the spendable bucket: nothing that can fail (or
	// return) lies between its success and the pending record - otherwise the proofs are in no bucket
	if okSel && sel.Call != nil && sel.Call.Parent() == f {
		cutW := NewCut()
		cutW.Barriers[addP[0]] = true
		okW, whyW := true, ""
		for e := range o.AcceptEdges(errNilOf(sel.Call, "selection succeeded")) {
			for _, r := range Returns(f) {
				if reach, path := Reach(Point{e.To(), 0}, PointOf(r), cutW); reach {
					okW = false
					whyW = "return at " + c.P.InstrPos(r) + " reachable after the selection and before the pending record: " + c.P.PathString(path)
				}
			}
		}
		R.Check("R1", fk, "no exit between selection and pending record", c.P.InstrPos(addP[0]), okW, "once proofs were selected (deleted from the spendable bucket) the next thing the operation can do is record them as pending", whyW)
	}
	// the request carries those proofs
	req := o.Of(c.P.Describe(post).Args[1])
	in := project(req, "Inputs")
	okIn := strings.Contains(in.String(), sel.String())
	R.Check("R1", fk, "request inputs are the recorded proofs", c.P.InstrPos(post), okIn, "the inputs sent are the proofs that were recorded as pending", short(in.String(), 160))

	unpaid, _ := c.P.ConstVal("cashu/nuts/nut05", "Unpaid")
	paid, _ := c.P.ConstVal("cashu/nuts/nut05", "Paid")
	pendingC, _ := c.P.ConstVal("cashu/nuts/nut05", "Pending")
	lnFail, _ := c.P.ConstVal("cashu", "LightningPaymentErrCode")
	isResp := func(e *Ex, idx int) bool { return e != nil && e.K == "call" && e.Call == post && e.Idx == idx }
	stateIs := func(val string) func(*Fact) bool {
		return func(ft *Fact) bool {
			return ft.Kind == "cmp" && ft.Pos && ft.Op.String() == "==" && isField(ft.A, "State") && isResp(ft.A.Args[0], 0) && isConst(ft.B, val)
		}
	}
	specificFail := func(ft *Fact) bool {
		// err.(cashu.Error).Code == LightningPaymentErrCode
		return ft.Kind == "cmp" && ft.Pos && ft.Op.String() == "==" && strings.HasSuffix(ft.A.String(), ".Code") && strings.Contains(ft.A.String(), "cashu.Error") && isConst(ft.B, lnFail) &&
			ft.A.Has(func(x *Ex) bool { return isResp(x, 1) })
	}
	giveBack := &Cond{Name: "payment definitely failed (specific error or UNPAID answer)", Match: func(ft *Fact, _ *Origins) bool {
		return specificFail(ft) || stateIs(unpaid)(ft)
	}}
	resolved := &Cond{Name: "payment resolved (specific error, UNPAID or PAID answer)", Match: func(ft *Fact, _ *Origins) bool {
		return specificFail(ft) || stateIs(unpaid)(ft) || stateIs(paid)(ft)
	}}
	for _, sp := range c.callsOfWalletDB(f, "SaveProofs") {
		v := o.Of(c.P.Describe(sp).Args[0])
		if v.String() != sel.String() {
			continue // change proofs
		}
		ok, why := o.Requires(sp, giveBack)
		R.Check("R1", fk, "proofs given back <= payment definitely failed", c.P.InstrPos(sp), ok, "the selected proofs return to the spendable bucket only behind the specific payment-failed error or an UNPAID answer", why)
	}
	for _, dp := range c.callsOfWalletDB(f, "DeletePendingProofsByQuoteId") {
		ok, why := o.Requires(dp, resolved)
		R.Check("R1", fk, "pending record deleted <= payment resolved", c.P.InstrPos(dp), ok, "the pending record is deleted only when the payment is resolved (never on PENDING or an ambiguous error)", why)
		okQ := o.Of(c.P.Describe(dp).Args[0]).String() == quoteID
		R.Check("R1", fk, "pending record deleted for this quote", c.P.InstrPos(dp), okQ, "the deleted pending record is the one of this quote", "")
	}
	// completeness on the edges
	saveSel := &Cond{Name: "selected proofs saved back", Match: func(ft *Fact, _ *Origins) bool {
		return ft.Kind == "errnil" && ft.Pos && ft.A.K == "call" && ft.A.Call != nil && c.P.Describe(ft.A.Call).Iface != nil && c.P.Describe(ft.A.Call).Iface.Name() == "SaveProofs" && arg(ft.A, 1).String() == sel.String()
	}}
	delPend := &Cond{Name: "pending record deleted", Match: func(ft *Fact, _ *Origins) bool {
		return ft.Kind == "errnil" && ft.Pos && ft.A.K == "call" && ft.A.Call != nil && c.P.Describe(ft.A.Call).Iface != nil && c.P.Describe(ft.A.Call).Iface.Name() == "DeletePendingProofsByQuoteId"
	}}
	edges := func(pred func(*Fact) bool) map[Edge]bool {
		out := map[Edge]bool{}
		for _, e := range edgesMatching(o, pred) {
			out[e] = true
		}
		return out
	}
	for _, t := range []struct {
		name string
		from map[Edge]bool
		cd   *Cond
	}{
		{"UNPAID answer => proofs saved back", edges(stateIs(unpaid)), saveSel},
		{"UNPAID answer => pending record deleted", edges(stateIs(unpaid)), delPend},
		{"PAID answer => pending record deleted", edges(stateIs(paid)), delPend},
	} {
		if len(t.from) == 0 {
			R.Check("R1", fk, t.name, c.P.Pos(f.Pos()), false, t.name, "no edge for that answer")
			continue
		}
		ok, why, n := c.afterEdges(o, t.from, t.cd)
		if n == 0 {
			ok, why = false, "no success return after that answer"
		}
		R.Check("R1", fk, t.name, c.P.Pos(f.Pos()), ok, t.name+" before the operation returns", why)
	}
	// specific failure: the function returns the error after giving back (failure return), both effects on the way
	for e := range edges(specificFail) {
		cut := NewCut()
		for ed := range o.AcceptEdges(saveSel) {
			cut.Edges[ed] = true
		}
		okS := true
		for _, r := range Returns(f) {
			if reach, _ := Reach(Point{e.To(), 0}, PointOf(r), NewCut()); reach && o.IsFailureReturn(r) {
				// the final "return nil, err" of the give-back branch must be behind the save; storage-fault exits are fine
				ev := o.Of(r.Results[len(r.Results)-1])
				if ev.K == "call" && ev.Call == post {
					if reach2, _ := Reach(Point{e.To(), 0}, PointOf(r), cut); reach2 {
						okS = false
					}
				}
			}
		}
		R.Check("R1", fk, "specific payment-failed error => proofs saved back before returning it", c.P.InstrPos(e.From.Instrs[len(e.From.Instrs)-1]), okS, "on the mint's payment-failed error the proofs are saved back before the error is returned", "")
	}
	// PENDING answer: no bucket write reachable before return
	for e := range edges(stateIs(pendingC)) {
		okP, whyP := true, ""
		for _, name := range []string{"SaveProofs", "DeletePendingProofsByQuoteId", "DeleteProof"} {
			for _, ci := range c.callsOfWalletDB(f, name) {
				if reach, path := Reach(Point{e.To(), 0}, PointOf(ci), NewCut()); reach {
					okP = false
					whyP = name + " at " + c.P.InstrPos(ci) + " reachable after a PENDING answer: " + c.P.PathString(path)
				}
			}
		}
		R.Check("R1", fk, "PENDING answer => buckets untouched", c.P.InstrPos(e.From.Instrs[len(e.From.Instrs)-1]), okP, "while the payment is pending the proofs stay in the pending bucket", whyP)
	}
}

func (c *Ctx) c17Poll() {
	R := c.R
	f := c.fn("R1", "wallet.(*Wallet).CheckMeltQuoteState")
	if f == nil {
		return
	}
	fk := c.P.FuncKey(f)
	o := c.P.OriginsOf(f)
	unpaid, _ := c.P.ConstVal("cashu/nuts/nut05", "Unpaid")
	paid, _ := c.P.ConstVal("cashu/nuts/nut05", "Paid")
	isAns := func(e *Ex) bool { return isCall(e, "wallet/client.GetMeltQuoteState") && e.Idx == 0 }
	stateIs := func(val string) func(*Fact) bool {
		return func(ft *Fact) bool {
			return ft.Kind == "cmp" && ft.Pos && ft.Op.String() == "==" && isField(ft.A, "State") && isAns(ft.A.Args[0]) && isConst(ft.B, val)
		}
	}
	resolved := &Cond{Name: "mint answers PAID or UNPAID", Match: func(ft *Fact, _ *Origins) bool { return stateIs(paid)(ft) || stateIs(unpaid)(ft) }}
	isUnpaid := &Cond{Name: "mint answers UNPAID", Match: func(ft *Fact, _ *Origins) bool { return stateIs(unpaid)(ft) }}
	for _, dp := range c.callsOfWalletDB(f, "DeletePendingProofsByQuoteId") {
		ok, why := o.Requires(dp, resolved)
		R.Check("R1", fk, "pending record deleted <= mint answers PAID or UNPAID", c.P.InstrPos(dp), ok, "the poll deletes the pending record only on a final answer", why)
	}
	for _, sp := range c.callsOfWalletDB(f, "SaveProofs") {
		ok, why := o.Requires(sp, isUnpaid)
		R.Check("R1", fk, "proofs given back <= mint answers UNPAID", c.P.InstrPos(sp), ok, "the poll returns proofs to the spendable bucket only on UNPAID", why)
		v := o.Of(c.P.Describe(sp).Args[0])
		// map(pending proofs of the quote => Proof literal with their fields)
		okV := v.K == "map" && strings.Contains(v.Args[0].String(), "GetPendingProofsByQuoteId(") && func() bool {
			fs := fieldsOfWith(v.Args[1])
			el := "elem(" + v.Args[0].String() + ")"
			for _, k := range []string{"Amount", "Id", "Secret", "C"} {
				if fs[k] == nil || fs[k].String() != el+"."+k {
					return false
				}
			}
			return true
		}()
		R.Check("R1", fk, "given back are exactly the pending proofs of that quote", c.P.InstrPos(sp), okV, "every pending proof of the quote is rebuilt with its own amount, id, secret and C and saved", short(v.String(), 200))
		// save precedes nothing lost: delete pending and save both before success
	}
	for _, t := range []struct {
		name string
		pred func(*Fact) bool
		meth string
	}{
		{"UNPAID => pending proofs saved back", stateIs(unpaid), "SaveProofs"},
		{"UNPAID => pending record deleted", stateIs(unpaid), "DeletePendingProofsByQuoteId"},
		{"PAID => pending record deleted", stateIs(paid), "DeletePendingProofsByQuoteId"},
	} {
		from := map[Edge]bool{}
		for _, e := range edgesMatching(o, t.pred) {
			from[e] = true
		}
		cd := &Cond{Name: t.meth + " succeeded", Match: func(ft *Fact, _ *Origins) bool {
			if ft.Kind == "errnil" && ft.Pos && ft.A.K == "call" && ft.A.Call != nil {
				d := c.P.Describe(ft.A.Call)
				return d.Iface != nil && d.Iface.Name() == t.meth
			}
			// nothing to give back when no proofs are pending for the quote
			if t.meth == "SaveProofs" || t.meth == "DeletePendingProofsByQuoteId" {
				if ft.Kind == "cmp" && ft.Pos && ft.Op.String() == "<=" && strings.Contains(ft.A.String(), "GetPendingProofsByQuoteId(") && isConst(ft.B, "0") {
					return true
				}
			}
			return false
		}}
		if len(from) == 0 {
			R.Check("R1", fk, t.name, c.P.Pos(f.Pos()), false, t.name, "no edge for that answer")
			continue
		}
		ok, why, n := c.afterEdges(o, from, cd)
		if n == 0 {
			ok, why = false, "no success return after that answer"
		}
		R.Check("R1", fk, t.name, c.P.Pos(f.Pos()), ok, t.name+" before the poll returns", why)
	}
}

func (c *Ctx) c17Others() {
	R := c.R
	// Send: returned proofs recorded as pending
	if f := c.fn("R2", "wallet.(*Wallet).Send"); f != nil {
		o := c.P.OriginsOf(f)
		adds := c.callsOfWalletDB(f, "AddPendingProofs")
		for _, r := range o.SuccessReturns() {
			ret := o.Of(r.Results[0])
			ok := false
			why := "no pending record"
			for _, a := range adds {
				if o.Of(c.P.Describe(a).Args[0]).String() == ret.String() {
					ok, why = o.Requires(r, errNilOf(a, "returned proofs recorded as pending"))
				}
			}
			R.Check("R2", c.P.FuncKey(f), "returned proofs <= recorded as pending", c.P.InstrPos(r), ok, "Send hands out proofs only after exactly those proofs were recorded as pending", why)
		}
	}
	// swapToSend
	if f := c.fn("R2", "wallet.(*Wallet).swapToSend"); f != nil {
		fk := c.P.FuncKey(f)
		o := c.P.OriginsOf(f)
		var post ssa.CallInstruction
		for _, g := range c.OpFuncs(f) {
			for _, ci := range Calls(g) {
				if c.P.Describe(ci).Name == "wallet/client.PostSwap" {
					post = ci
				}
			}
		}
		viaNew := func(g *ssa.Function) bool { return c.P.IsNewFunc(g) }
		if post == nil {
			R.Unresolved("R2", "swap request in "+fk, "no PostSwap call")
		} else {
			swapOK := errNilOf(post, "swap succeeded")
			swapOK.Via = viaNew
			for _, cc := range c.opCallsOfWalletDB(f, "DeleteProof") {
				dp := cc.CI
				ok, why := c.RequireAt(dp, swapOK)
				R.Check("R2", fk, "inputs deleted <= swap succeeded", c.P.InstrPos(dp), ok, "the swapped inputs leave the spendable bucket only after the mint accepted the swap", why)
			}
			c.ruleSwapInputsRemovedFirst("R2")
			saves := c.opCallsOfWalletDB(f, "SaveProofs")
			for _, r := range o.SuccessReturns() {
				ok, why := false, "no save of the change"
				for _, s := range saves {
					saved := errNilOf(s.CI, "change saved")
					saved.Via = viaNew
					ok, why = o.Requires(r, saved)
				}
				R.Check("R2", fk, "success <= change proofs saved", c.P.InstrPos(r), ok, "the proofs not handed out are saved before success", why)
			}
		}
	}
	// success only after the new proofs were saved
	for _, key := range []string{"wallet.(*Wallet).Receive", "wallet.(*Wallet).ReceiveHTLC", "wallet.(*Wallet).MintTokens", "wallet.(*Wallet).ReclaimUnspentProofs"} {
		f := c.fn("R2", key)
		if f == nil {
			continue
		}
		o := c.P.OriginsOf(f)
		var producer []ssa.CallInstruction
		for _, ci := range Calls(f) {
			n := c.P.Describe(ci).Name
			if n == fnSwapHelper || n == "wallet.constructProofs" {
				producer = append(producer, ci)
			}
		}
		for _, p := range producer {
			saved := &Cond{Name: "new proofs saved", Match: func(ft *Fact, _ *Origins) bool {
				if ft.Kind != "errnil" || !ft.Pos || ft.A.K != "call" || ft.A.Call == nil {
					return false
				}
				d := c.P.Describe(ft.A.Call)
				if d.Iface == nil || d.Iface.Name() != "SaveProofs" {
					return false
				}
				a := arg(ft.A, 1)
				return a != nil && a.K == "call" && a.Call == p && a.Idx == 0
			}}
			okAll, why := true, ""
			n := 0
			accOK := o.AcceptEdges(errNilOf(p, "new proofs obtained"))
			cut := NewCut()
			for e := range o.AcceptEdges(saved) {
				cut.Edges[e] = true
			}
			for e := range accOK {
				for _, r := range o.SuccessReturns() {
					if reach, _ := Reach(Point{e.To(), 0}, PointOf(r), NewCut()); !reach {
						continue
					}
					n++
					if reach, path := Reach(Point{e.To(), 0}, PointOf(r), cut); reach {
						okAll = false
						why = "success return reachable without saving the new proofs: " + c.P.PathString(path)
					}
				}
			}
			if n == 0 {
				okAll, why = false, "no success return after obtaining the proofs"
			}
			R.Check("R2", key, "success <= new proofs saved", c.P.InstrPos(p), okAll, "the operation reports success only after the proofs it obtained were saved", why)
		}
	}
	// reclaim: removes from pending exactly the reported-unspent ones, after the save
	if f := c.fn("R2", "wallet.(*Wallet).ReclaimUnspentProofs"); f != nil {
		fk := c.P.FuncKey(f)
		o := c.P.OriginsOf(f)
		unspent, _ := c.P.ConstVal("cashu/nuts/nut07", "Unspent")
		for _, dp := range c.callsOfWalletDB(f, "DeletePendingProofs") {
			arg0 := c.P.Describe(dp).Args[0]
			v := o.Of(arg0)
			okA := v.K == "acc" && strings.HasPrefix(v.S, "append") && len(v.Args) == 2 && strings.HasSuffix(v.Args[1].String(), ".Y")
			why := "deleted list is " + short(v.String(), 160)
			if okA {
				// the append that builds it is behind "state == UNSPENT"
				isUnspent := &Cond{Name: "mint reports UNSPENT", Match: func(ft *Fact, _ *Origins) bool {
					return ft.Kind == "cmp" && ft.Pos && ft.Op.String() == "==" && strings.HasSuffix(ft.A.String(), ".State") && isConst(ft.B, unspent)
				}}
				okA = false
				why = "no append building the deleted list found"
				for _, b := range f.Blocks {
					for _, in := range b.Instrs {
						if call, ok := in.(*ssa.Call); ok {
							if bi, ok := call.Call.Value.(*ssa.Builtin); ok && bi.Name() == "append" {
								e := o.Of(call)
								if len(e.Args) == 2 && strings.HasSuffix(elemsOfVarargs(o, call), ".Y") && strings.Contains(v.String(), elemsOfVarargs(o, call)) {
									okA, why = o.Requires(call, isUnspent)
								}
							}
						}
					}
				}
			}
			R.Check("R2", fk, "pending records deleted are exactly those the mint reported UNSPENT", c.P.InstrPos(dp), okA, "only proofs whose state the mint reported as UNSPENT (and that were re-swapped) are removed from pending", why)
			// (the save may sit in the operation or in a helper that is new on this tree: then the helper's
			// success establishes it through its summary)
			savedAny := &Cond{Name: "reclaimed proofs saved", Via: func(g *ssa.Function) bool { return c.P.IsNewFunc(g) }, Match: func(ft *Fact, _ *Origins) bool {
				if ft.Kind != "errnil" || !ft.Pos || ft.A.K != "call" || ft.A.Call == nil {
					return false
				}
				d := c.P.Describe(ft.A.Call)
				return d.Iface != nil && d.Iface.Name() == "SaveProofs"
			}}
			ok, w := o.Requires(dp, savedAny)
			R.Check("R2", fk, "pending deleted <= reclaimed proofs saved", c.P.InstrPos(dp), ok, "the pending records are removed only after the reclaimed value was saved", w)
		}
	}
}

func elemsOfVarargs(o *Origins, call *ssa.Call) string {
	if len(call.Call.Args) == 2 {
		if elems, ok := VarArgs(call.Call.Args[1]); ok && len(elems) == 1 {
			return o.Of(elems[0]).String()
		}
	}
	return ""
}

func (c *Ctx) c17Balances() {
	R := c.R
	if f := c.fn("R3", "wallet.(*Wallet).GetBalance"); f != nil {
		o := c.P.OriginsOf(f)
		for _, r := range Returns(f) {
			e := o.Of(r.Results[0])
			ok := isCall(e, "cashu.(Proofs).Amount") && strings.HasSuffix(arg(e, 0).S, ").GetProofs")
			R.Check("R3", c.P.FuncKey(f), "balance = sum over the whole spendable bucket", c.P.InstrPos(r), ok, "the balance is the amount of all stored spendable proofs", short(e.String(), 120))
		}
	}
	if f := c.fn("R3", "wallet.(*Wallet).PendingBalance"); f != nil {
		o := c.P.OriginsOf(f)
		for _, r := range Returns(f) {
			e := o.Of(r.Results[0])
			ok := isCall(e, "wallet.amount") && strings.HasSuffix(arg(e, 0).S, ").GetPendingProofs")
			R.Check("R3", c.P.FuncKey(f), "pending balance = sum over the whole pending bucket", c.P.InstrPos(r), ok, "the pending balance is the amount of all pending proofs", short(e.String(), 120))
		}
	}
	for _, key := range []string{"cashu.(Proofs).Amount", "wallet.amount"} {
		if f := c.fn("R3", key); f != nil {
			o := c.P.OriginsOf(f)
			for _, r := range Returns(f) {
				e := o.Of(r.Results[0])
				ok := e.K == "acc" && e.S == "+" && len(e.Args) == 2 && isConst(e.Args[0], "0") && e.Args[1].String() == "elem(P:"+f.Params[0].Name()+").Amount"
				R.Check("R3", key, "amount sums every element", c.P.InstrPos(r), ok, "the amount helper adds the amount of every element of the list", short(e.String(), 120))
			}
		}
	}
	if f := c.fn("R3", "wallet.(*Wallet).GetBalanceByMints"); f != nil {
		o := c.P.OriginsOf(f)
		var mu *ssa.MapUpdate
		for _, b := range f.Blocks {
			for _, in := range b.Instrs {
				if x, ok := in.(*ssa.MapUpdate); ok {
					mu = x
				}
			}
		}
		ok := false
		detail := ""
		if mu != nil {
			v := o.Of(mu.Value)
			detail = short(v.String(), 220)
			ok = v.K == "acc" && v.S == "+" && strings.Contains(v.Args[0].String(), ".activeKeyset.Id") && strings.Contains(v.String(), ".inactiveKeysets).Id")
		}
		R.Check("R3", c.P.FuncKey(f), "per-mint balance covers the active and every inactive keyset", c.P.Pos(f.Pos()), ok, "the balance of a mint is the amount under its active keyset plus the amounts under all its inactive keysets", detail)
	}
}

func (c *Ctx) c17KeysetRefresh() {
	R := c.R
	f := c.fn("R4", "wallet.(*Wallet).getActiveKeyset")
	if f == nil {
		return
	}
	fk := c.P.FuncKey(f)
	o := c.P.OriginsOf(f)
	// write-backs into w.mints
	cut := NewCut()
	for _, b := range f.Blocks {
		for _, in := range b.Instrs {
			if mu, ok := in.(*ssa.MapUpdate); ok && strings.HasSuffix(o.Of(mu.Map).String(), ".mints") {
				cut.Barriers[mu] = true
			}
		}
	}
	n := 0
	for _, b := range f.Blocks {
		for _, in := range b.Instrs {
			st, ok := in.(*ssa.Store)
			if !ok {
				continue
			}
			fa, ok := st.Addr.(*ssa.FieldAddr)
			if !ok || fieldName(fa) != "activeKeyset" {
				continue
			}
			n++
			okW, why := true, ""
			for _, r := range o.SuccessReturns() {
				if reach, path := o.ReachAvoiding(st, r, cut); reach {
					okW = false
					why = "success return reachable after changing the active keyset without writing the mint entry back: " + path
				}
			}
			R.Check("R4", fk, "changed mint entry written back to the mint table", c.P.InstrPos(st), okW, "every change of the in-memory mint entry's active keyset is stored back into the wallet's mint table before success", why)
		}
	}
	if n == 0 {
		R.Check("R4", fk, "active keyset updates found", c.P.Pos(f.Pos()), false, "the refresh updates the active keyset of the mint entry", "no store to activeKeyset")
	}
	// a rotation noticed by the wallet stores the PREVIOUS active keyset as inactive: a keyset left active in storage
	// next to the new one is dropped at the next start (one active keyset per mint is loaded) together with the
	// proofs the wallet still holds on it. The record stored inactive is the old in-memory entry.
	var deact ssa.CallInstruction
	for _, cc := range c.opCallsOfWalletDB(f, "SaveKeyset") {
		d := c.P.Describe(cc.CI)
		if len(d.Args) == 0 {
			continue
		}
		content := cc.O.ContentAt(d.Args[0], cc.CI)
		act, id := project(content, "Active"), project(content, "Id")
		if isConst(act, "false") && strings.HasSuffix(id.String(), ".activeKeyset.Id") {
			deact = cc.CI
		}
	}
	R.Check("R4", fk, "rotation stores the previous active keyset as inactive", c.P.Pos(f.Pos()), deact != nil,
		"some SaveKeyset call stores the mint entry's previous active keyset with Active = false", "no SaveKeyset whose record is the old entry (Id = <entry>.activeKeyset.Id) with Active = false")
	if deact != nil {
		// every success return that follows the in-memory deactivation passes that save
		saved := errNilOf(deact, "previous keyset stored inactive")
		saved.Via = func(g *ssa.Function) bool { return c.P.IsNewFunc(g) }
		acc := o.AcceptEdges(saved)
		cutS := NewCut()
		for e := range acc {
			cutS.Edges[e] = true
		}
		okS, whyS, nM := true, "", 0
		for _, b := range f.Blocks {
			for _, in := range b.Instrs {
				mu, ok := in.(*ssa.MapUpdate)
				if !ok || !strings.HasSuffix(o.Of(mu.Map).String(), ".inactiveKeysets") {
					continue
				}
				nM++
				for _, r := range o.SuccessReturns() {
					if reach, path := o.ReachAvoiding(mu, r, cutS); reach {
						okS = false
						whyS = "success return reachable after moving the old keyset to the inactive entries without storing it inactive: " + path
					}
				}
			}
		}
		if nM > 0 {
			R.Check("R4", fk, "in-memory deactivation => stored before success", c.P.InstrPos(deact), okS, "after the old keyset became an inactive entry in memory the operation succeeds only when it was stored inactive", whyS)
		}
	}
}

// ---------------------------------------------------------------------------------------------

func rulesC18(c *Ctx) {
	R := c.R
	R.Rule("R1", "offline branch: returned only on sum(selected) == amount + fees(selected); exactly those removed", 3)
	R.Rule("R2", "swap branch: one-to-one matching with removal; fee budget from the synchronised active keyset", 4)
	R.Rule("R3", "wallet fee function: one ceil over the summed per-proof ppk of each proof's own keyset", 2)
	R.Rule("R4", "every keyset entry the wallet keeps in memory carries that keyset's fee (from the mint's answer, from storage or from the entry it replaces)", 4)
	c.c18KeysetEntriesCarryFee()
	c.c18SendSplit()
	R.Rule("R11", "proof selection does not corrupt its candidate lists: no append into a proper prefix of a list whose remainder is still used (shared backing array)", 1)
	c.ruleNoAppendIntoLivePrefix("R11", []string{"wallet", "wallet/storage", "cashu"})
	R.Rule("R10", "the stored keyset keeps its fee: every storage method that writes or reads one kind of record (keyset, proof, quote) uses a type with the same JSON members - a counter update through a narrower type would drop the keyset's input fee", 5)
	c.ruleStoredRecordShape("R10", "wallet/storage", 5)
	R.Rule("R9", "Send selects and removes its proofs in one critical section: the call that selects the proofs and deletes them from the spendable bucket runs with the wallet mutex held (taken before, released only by the deferred unlock)", 1)
	R.Rule("R8", "the keyset listing the wallet synchronises with is not served from the mint's response cache (shared with C20.R4: only swap and mint are cached; a cached listing keeps naming a rotated-out keyset as active and the swap behind a send is refused)", 10)
	R.Rule("R6", "the mint's fee operation is the formula the wallet mirrors: ceil(sum of the inputs' keyset ppk / 1000), one rounding per transaction (shared with C02.R4)", 1)
	R.Rule("R5", "a swap that the mint accepted removes its inputs from the spendable bucket before anything can fail (a later exact selection must not hand out spent proofs; shared with C17.R2)", 1)
	c.ruleSwapInputsRemovedFirst("R5")

	if f := c.fn("R1", "wallet.(*Wallet).getProofsForAmount"); f != nil {
		fk := c.P.FuncKey(f)
		o := c.P.OriginsOf(f)
		sel := "wallet.(*Wallet).selectProofsForAmount#0(P:w, P:amount, P:mint, P:includeFees)"
		exact := &Cond{Name: "sum(selected) == amount + fees(selected)", Match: func(ft *Fact, _ *Origins) bool {
			if ft.Kind != "cmp" || !ft.Pos || ft.Op.String() != "==" {
				return false
			}
			a, b := ft.A, ft.B
			if !isCall(a, "cashu.(Proofs).Amount") {
				a, b = b, a
			}
			if !isCall(a, "cashu.(Proofs).Amount") || arg(a, 0).String() != sel {
				return false
			}
			// b = amount + fees, fees in {0, feesForProofs(selected, mint)}
			if b.K != "bin" || b.S != "+" || b.Args[0].String() != "P:amount" {
				return false
			}
			for _, alt := range b.Args[1].Alts() {
				if isConst(alt, "0") {
					continue
				}
				if isCall(alt, "wallet.feesForProofs") && arg(alt, 0).String() == sel && arg(alt, 1).String() == "P:mint" {
					continue
				}
				return false
			}
			return true
		}}
		for _, r := range o.SuccessReturns() {
			ret := o.Of(r.Results[0])
			if ret.String() != sel {
				continue
			}
			ok, why := o.Requires(r, exact)
			R.Check("R1", fk, "offline selection returned <= exact", c.P.InstrPos(r), ok, "the stored proofs are handed out directly only when they are worth exactly amount + their own fees", why)
		}
		// fees included only when asked: the fees value is behind includeFees
		for _, g := range c.OpFuncs(f) {
			for _, ci := range Calls(g) {
				if c.P.Describe(ci).Name == "wallet.feesForProofs" {
					ok, why := c.RequireAt(ci, &Cond{Name: "fees requested", Match: func(ft *Fact, _ *Origins) bool {
						return ft.Kind == "bool" && ft.Pos && ft.A.String() == "P:includeFees"
					}})
					R.Check("R1", fk, "fees counted <= fees requested", c.P.InstrPos(ci), ok, "fees are added only when the caller asked for them", why)
				}
			}
		}
		for _, cc := range c.opCallsOfWalletDB(f, "DeleteProof") {
			dp := cc.CI
			v := cc.O.Of(c.P.Describe(dp).Args[0])
			ok := v.String() == "elem("+sel+").Secret"
			R.Check("R1", fk, "exactly the returned proofs are removed", c.P.InstrPos(dp), ok, "every returned proof (and nothing else) leaves the spendable bucket", short(v.String(), 120))
		}
	}

	if f := c.fn("R2", "wallet.(*Wallet).swapToSend"); f != nil {
		fk := c.P.FuncKey(f)
		o := c.P.OriginsOf(f)
		// matching loop: a store into proofsToSend[i] followed by removal of that candidate before the next match
		var store *ssa.Store
		of := o // the context of the operation itself (fee budget, returns)
		for _, og := range c.OpContexts(f) {
			if og.Fn.Parent() != nil {
				continue
			}
			for _, b := range og.Fn.Blocks {
				for _, in := range b.Instrs {
					if st, ok := in.(*ssa.Store); ok {
						if ia, ok := st.Addr.(*ssa.IndexAddr); ok {
							if l := og.Loops.byIndex[ia.Index]; l != nil && strings.Contains(og.Of(l.RangeOf).String(), "createBlindedMessages") || (l != nil && strings.Contains(og.Of(l.RangeOf).String(), "blindedMessagesFromSpendingCondition")) {
								store = st
								o = og // the matching is read in the function that holds it (a helper new on this tree: entered from its call site)
							}
						}
					}
				}
			}
		}
		if store == nil {
			R.Check("R2", fk, "send outputs matched to unblinded proofs", c.P.Pos(f.Pos()), false, "each send output is matched to one unblinded proof", "matching store not found")
		} else {
			// the matched branch leaves the candidate loop (break), so the store sits in the loop over the send outputs
			outer := o.Loops.InnermostContaining(store.Block())
			var searchCall *ssa.Call
			okDel := false
			why := "no removal of the matched candidate"
			if outer != nil {
				cut := NewCut()
				for b := range outer.Blocks {
					for _, in := range b.Instrs {
						if call, ok := in.(*ssa.Call); ok && c.P.Describe(call).Name == "slices.Delete" {
							d := c.P.Describe(call)
							// Delete(candidates, j, j+1) with j the index of the loop over those very candidates
							if l2 := o.Loops.byIndex[d.Args[1]]; l2 != nil && o.sameValue(l2.RangeOf, d.Args[0]) && o.Of(d.Args[2]).String() == "("+o.Of(d.Args[1]).String()+" + #1)" {
								// and the matched proof is the element at that index
								if strings.HasPrefix(o.Of(store.Val).String(), "elem(") {
									cut.Barriers[call] = true
								}
							}
							// search form: j := slices.IndexFunc(candidates, pred); out[i] = candidates[j]; Delete(candidates, j, j+1)
							if sc, ok := UnwrapConv(d.Args[1]).(*ssa.Call); ok && c.P.Describe(sc).Name == "slices.IndexFunc" && o.sameValue(c.P.Describe(sc).Args[0], d.Args[0]) &&
								isPlusOne(o, d.Args[2], d.Args[1]) {
								if ld, ok := store.Val.(*ssa.UnOp); ok {
									if ia, ok := ld.X.(*ssa.IndexAddr); ok && ia.Index == d.Args[1] && o.sameValue(ia.X, d.Args[0]) {
										cut.Barriers[call] = true
										searchCall = sc
									}
								}
							}
						}
					}
				}
				if len(cut.Barriers) > 0 {
					reach, path := Reach(PointOf(store), Point{outer.Header, 0}, cut)
					okDel = !reach
					if reach {
						why = "the next send output can be matched with the same proof still among the candidates: " + c.P.PathString(path)
					}
					// the removed list is what the next iteration searches: the loop-carried value is the Delete result
					if okDel {
						for bar := range cut.Barriers {
							carried := false
							for _, in := range outer.Header.Instrs {
								if ph, ok := in.(*ssa.Phi); ok {
									for _, e := range ph.Edges {
										if e == bar.(ssa.Value) {
											carried = true
										}
									}
									if strings.Contains(o.Of(ph).String(), "slices.Delete(") && o.sameValue(ph, c.P.Describe(bar.(ssa.CallInstruction)).Args[0]) {
										carried = true
									}
								}
							}
							if !carried {
								okDel, why = false, "the result of the removal is not the list searched by the next match"
							}
						}
					}
				}
			}
			R.Check("R2", fk, "matched proof removed from the candidates before the next match", c.P.InstrPos(store), okDel, "the returned proofs are pairwise distinct: a matched proof cannot be matched again", why)
			// matched by amount
			okAmt := false
			whyAmt := ""
			for _, e := range o.AllEdges() {
				ft := o.EdgeFact(e)
				if ft != nil && ft.Kind == "cmp" && ft.Pos && ft.Op.String() == "==" && strings.HasSuffix(ft.A.String(), ".Amount") && strings.HasSuffix(ft.B.String(), ".Amount") {
					if ok, _ := o.Requires(store, &Cond{Name: "amounts equal", Match: func(f2 *Fact, _ *Origins) bool { return f2.String() == ft.String() }}); ok {
						okAmt = true
					}
				}
			}
			if searchCall != nil {
				// the predicate of the search compares the amounts
				var pred *ssa.Function
				switch v := searchCall.Call.Args[1].(type) {
				case *ssa.MakeClosure:
					pred, _ = v.Fn.(*ssa.Function)
				case *ssa.Function:
					pred = v
				}
				if pred != nil {
					ao := o.EnterClosure(pred)
					okAmt = len(Returns(pred)) > 0
					for _, r := range Returns(pred) {
						pe := ao.Of(r.Results[0])
						whyAmt = "search predicate returns " + short(pe.String(), 160)
						isAmt := func(e *Ex) bool {
							t := strings.TrimSuffix(e.String(), ")")
							return strings.HasSuffix(t, ".Amount")
						}
						if !(pe.S == "==" && len(pe.Args) == 2 && isAmt(pe.Args[0]) && isAmt(pe.Args[1]) &&
							(strings.HasPrefix(pe.Args[0].String(), "P:") != strings.HasPrefix(pe.Args[1].String(), "P:"))) {
							okAmt = false
						}
					}
				}
			}
			R.Check("R2", fk, "match is by equal amount", c.P.InstrPos(store), okAmt, "a send output is matched with a proof of the same amount", whyAmt)
		}
		// fee budget from the synchronised active keyset
		o = of
		for _, ci := range Calls(f) {
			d := c.P.Describe(ci)
			if d.Name == "wallet.feesForCount" {
				ks := o.Of(d.Args[1])
				ok := isCall(ks, "wallet.(*Wallet).getActiveKeyset") && ks.Idx == 0
				R.Check("R2", fk, "recipient fee budget uses the synchronised active keyset", c.P.InstrPos(ci), ok,
					"the fee included for the recipient is computed from the keyset the new proofs are issued on (the result of the active-keyset refresh)", "keyset is "+short(ks.String(), 120))
				cnt := o.Of(d.Args[0])
				R.Check("R2", fk, "recipient fee budget counts the send outputs", c.P.InstrPos(ci), strings.Contains(cnt.String(), "len(cashu.AmountSplit(P:amount))"), "the budget is derived from the number of outputs the amount splits into", short(cnt.String(), 100))
			}
		}
		// returned proofs are the matched ones
		for _, r := range o.SuccessReturns() {
			ret := o.Of(r.Results[0])
			ok := ret.K == "make" || ret.K == "map" || strings.HasPrefix(ret.String(), "make:")
			R.Check("R2", fk, "returns the matched proofs", c.P.InstrPos(r), ok, "the proofs handed out are the ones matched to the send outputs", short(ret.String(), 120))
		}
	}

	c.ruleWalletFeeFormula("R3")
	c.runAs("R4", "R8", func(cc *Ctx) { cc.c20Cache() })
	c.c18SendCriticalSection()
	// the mint's side of the same formula (shared with C02.R4): the wallet's estimate is exact only if the mint
	// charges one ceil over the summed ppk of all inputs
	if ks := c.keysetsMapField("R6"); ks != "" {
		n := 0
		for f := range c.feeOpsOfSwap() {
			c.feeFormulaAs("R6", f, ks)
			n++
		}
		if n == 0 {
			c.R.Unresolved("R6", "fee operation of the mint", "not found")
		}
	}
}

// ruleWalletFeeFormula: the wallet's fee functions (C18.R3; shared with C17: an over-estimated fee is value
// given away, an under-estimated one makes the mint refuse the request).
func (c *Ctx) ruleWalletFeeFormula(rule string) {
	R := c.R
	// R3: fee function
	if f := c.fn(rule, "wallet.feesForProofs"); f != nil {
		o := c.P.OriginsOf(f)
		for _, r := range Returns(f) {
			e := o.Of(r.Results[0])
			ok := false
			if e.K == "bin" && e.S == "/" && isConst(e.Args[1], "1000") {
				l := newLin()
				l.add(e.Args[0], 1)
				if len(l.Coef) == 1 && l.Const == 999 {
					for k := range l.Coef {
						a := l.Atom[k]
						// one accumulator over the whole list adding the proof's own keyset ppk (active or inactive)
						ok = a.K == "acc" && strings.HasPrefix(a.S, "+") && isConst(a.Args[0], "0") && len(a.Args) >= 2
						for _, st := range a.Args[1:] {
							s := st.String()
							if !(strings.HasSuffix(s, ".InputFeePpk") && (strings.Contains(s, "activeKeyset") || strings.Contains(s, "inactiveKeysets["))) {
								ok = false
							}
						}
					}
				}
			}
			R.Check(rule, c.P.FuncKey(f), "fee = ceil(sum of each proof's own keyset ppk / 1000)", c.P.InstrPos(r), ok, "one rounding over the summed ppk of the whole list, each proof charged its own keyset's fee", short(e.String(), 200))
		}
	}
	if f := c.fn(rule, "wallet.feesForCount"); f != nil {
		o := c.P.OriginsOf(f)
		for _, r := range Returns(f) {
			e := o.Of(r.Results[0])
			ok := e.K == "bin" && e.S == "/" && isConst(e.Args[1], "1000") && strings.Contains(e.Args[0].String(), "P:keyset.InputFeePpk") && strings.Contains(e.Args[0].String(), "#999")
			if !ok && isConst(e, "0") {
				// early exit for an empty count: ceil(0 * ppk / 1000) is 0
				ok, _ = o.Requires(r, &Cond{Name: "count <= 0", Match: func(ft *Fact, _ *Origins) bool {
					if ft.Kind != "cmp" || !ft.Pos {
						return false
					}
					cnt := "P:" + f.Params[0].Name()
					return (ft.Op.String() == "<=" && ft.A.String() == cnt && isConst(ft.B, "0")) || (ft.Op.String() == "<" && ft.A.String() == cnt && isConst(ft.B, "1")) ||
						(ft.Op.String() == "==" && ft.A.String() == cnt && isConst(ft.B, "0"))
				}})
			}
			R.Check(rule, c.P.FuncKey(f), "count fee = ceil(count * ppk / 1000)", c.P.InstrPos(r), ok, "the fee for a number of proofs is one rounding over count times the keyset's ppk", short(e.String(), 160))
		}
	}
}

// c17StorageTotal: R6. The balances and the custody rules speak about "the spendable bucket" and "the
// pending bucket"; they rest on the storage handing out every stored entry and storing every element.
func (c *Ctx) c17StorageTotal() {
	R := c.R
	c.c17BucketKeysAgree()
	var impls []types.Type
	if nt := c.P.NamedType("wallet/storage", "WalletDB"); nt != nil {
		if it, ok := nt.Underlying().(*types.Interface); ok {
			impls = c.P.ImplementsIn(it)
		}
	}
	if len(impls) == 0 {
		R.Unresolved("R6", "wallet storage implementation", "no implementation of WalletDB found")
		return
	}
	for _, t := range impls {
		// unfiltered readers: every entry of the bucket is appended, except entries that do not decode
		for _, name := range []string{"GetProofs", "GetPendingProofs"} {
			f := c.P.MethodOf(t, name)
			if f == nil {
				R.Unresolved("R6", name, "method not found on "+typeShort(c.P, t))
				continue
			}
			fk := c.P.FuncKey(f)
			found := false
			for _, g := range WithClosures(f) {
				o := c.P.OriginsOf(g)
				for _, b := range g.Blocks {
					for _, in := range b.Instrs {
						call, ok := in.(*ssa.Call)
						if !ok {
							continue
						}
						if bi, ok := call.Call.Value.(*ssa.Builtin); !ok || bi.Name() != "append" {
							continue
						}
						l := o.Loops.InnermostContaining(b)
						if l == nil {
							continue
						}
						found = true
						cut := NewCut()
						cut.Barriers[call] = true
						for _, e := range o.AllEdges() {
							ft := o.EdgeFact(e)
							if ft != nil && ft.Kind == "errnil" && !ft.Pos && isCallSuffix(ft.A, "json.Unmarshal") {
								cut.Edges[e] = true
							}
						}
						okAll, why := true, ""
						for i, s := range l.Header.Succs {
							if !l.Blocks[s] {
								continue
							}
							_ = i
							if reach, path := Reach(Point{s, 0}, Point{l.Header, 0}, cut); reach {
								okAll = false
								why = "an entry that decodes can be skipped: " + c.P.PathString(path)
							}
						}
						R.Check("R6", fk, "every stored entry is returned", c.P.InstrPos(call), okAll,
							"the unfiltered bucket reader appends every entry of the bucket that decodes", why)
					}
				}
			}
			if !found {
				R.Check("R6", fk, "every stored entry is returned", c.P.Pos(f.Pos()), false, "the unfiltered bucket reader appends every entry of the bucket", "no append inside a scan of the bucket found")
			}
		}
		// writers: every element of the list is put
		for _, name := range []string{"SaveProofs", "AddPendingProofsByQuoteId"} {
			f := c.P.MethodOf(t, name)
			if f == nil {
				R.Unresolved("R6", name, "method not found on "+typeShort(c.P, t))
				continue
			}
			fk := c.P.FuncKey(f)
			found := false
			// (the method, its closures, and a helper that is new on this tree and receives the list - two writers
			// merged into one - read with this method's arguments)
			for _, o := range c.OpContexts(f) {
				g := o.Fn
				for _, ci := range Calls(g) {
					if !strings.HasSuffix(c.P.Describe(ci).Name, "(*Bucket).Put") {
						continue
					}
					l := o.Loops.InnermostContaining(ci.Block())
					if l == nil || l.RangeOf == nil {
						continue
					}
					rng := unwrapAnyof(o.Of(l.RangeOf)).String()
					if rng != "P:"+f.Params[1].Name() {
						continue
					}
					found = true
					// an iteration reaches the next one only through a successful Put
					cut := NewCut()
					for e := range o.AcceptEdges(errNilOf(ci, "entry stored")) {
						cut.Edges[e] = true
					}
					body := l.Header.Succs[l.BodySucc]
					reach, path := Reach(Point{body, 0}, Point{l.Header, 0}, cut)
					why := ""
					if reach {
						why = "an element can be passed over without being stored: " + c.P.PathString(path)
					}
					R.Check("R6", fk, "every element is stored", c.P.InstrPos(ci), !reach, "the writer stores every element of the list it is given (or fails)", why)
				}
			}
			if !found {
				R.Check("R6", fk, "every element is stored", c.P.Pos(f.Pos()), false, "the writer stores every element of the list it is given", "no Put inside a whole-range loop over the list found")
			}
		}
	}
}

// c18KeysetEntriesCarryFee: R4. feesForProofs charges each proof the InputFeePpk of the in-memory entry of
// its keyset (active or inactive). An entry written without the fee makes the wallet compute fee 0 for
// proofs of that keyset while the mint still charges.
func (c *Ctx) c18KeysetEntriesCarryFee() {
	R := c.R
	isZeroFee := func(e *Ex) bool {
		// the field of a zero-valued struct: a composite literal that does not set it (an explicit 0, or a
		// value that may be 0, is a legitimate fee)
		// ... and so is a constant: the fee of a keyset is always read from somewhere (the mint's answer, storage,
		// the entry it replaces); a constant reaches an entry only through a variable that was never assigned on
		// that path
		return e.K == "zero" || e.K == "const" || (e.K == "field" && e.S == "InputFeePpk" && (e.Args[0].K == "zero" || isConst(e.Args[0], "nil")))
	}
	check := func(f *ssa.Function, o *Origins, in ssa.Instruction, v *Ex, what string) {
		fee := project(v, "InputFeePpk")
		ok, why := true, ""
		for _, a := range fee.Alts() {
			if isZeroFee(a) {
				ok, why = false, "the entry is written with InputFeePpk = "+short(a.String(), 80)+" (not set by the literal, or a constant instead of the keyset's own fee)"
			}
		}
		R.Check("R4", c.P.FuncKey(f), what, c.P.InstrPos(in), ok, "the keyset entry kept in memory carries the keyset's input fee", why)
	}
	n := 0
	for _, f := range c.P.Funcs {
		if f.Pkg == nil || c.P.Rel(f.Pkg.Pkg.Path()) != "wallet" {
			continue
		}
		o := c.P.OriginsOf(f)
		for _, b := range f.Blocks {
			for _, in := range b.Instrs {
				switch x := in.(type) {
				case *ssa.MapUpdate:
					vt := x.Value.Type()
					if nt, ok := vt.(*types.Named); !ok || nt.Obj().Name() != "WalletKeyset" {
						continue
					}
					n++
					check(f, o, in, c.OfAt(o, in, x.Value), "inactive keyset entry carries the fee")
				case *ssa.Store:
					fa, ok := x.Addr.(*ssa.FieldAddr)
					if !ok || fieldName(fa) != "activeKeyset" {
						continue
					}
					n++
					check(f, o, in, c.OfAt(o, in, x.Val), "active keyset entry carries the fee")
				case ssa.CallInstruction:
					// the record handed to storage is what the entries are loaded from at the next start
					d := c.P.Describe(x)
					if d.Iface == nil || d.Iface.Name() != "SaveKeyset" || len(d.Args) < 1 {
						continue
					}
					arg := d.Args[len(d.Args)-1]
					if _, isPtr := arg.Type().Underlying().(*types.Pointer); !isPtr {
						continue
					}
					n++
					check(f, o, in, c.OriginsAt(o, in).ContentAt(arg, in), "stored keyset record carries the fee")
				}
			}
		}
	}
	if n == 0 {
		R.Unresolved("R4", "in-memory keyset entries", "no write of a keyset entry found in the wallet")
	}
}

// c17ChangeNotDropped: R7. Change signatures in a melt answer are value the wallet paid for with its
// inputs. An operation that looks at them must turn them into proofs and store those.
func (c *Ctx) c17ChangeNotDropped() {
	R := c.R
	n := 0
	for _, f := range c.P.Funcs {
		if f.Pkg == nil || c.P.Rel(f.Pkg.Pkg.Path()) != "wallet" || f.Parent() != nil {
			continue
		}
		o := c.P.OriginsOf(f)
		// reads of the Change field of a mint answer (a client call's result)
		var readSite ssa.Instruction
		var changeEx *Ex
		for _, b := range f.Blocks {
			for _, in := range b.Instrs {
				var fe *Ex
				switch x := in.(type) {
				case *ssa.FieldAddr:
					if fieldName(x) == "Change" {
						fe = o.pointee(x)
					}
				case *ssa.Field:
					fe = o.Of(x)
				}
				if fe == nil || !isField(fe, "Change") {
					continue
				}
				base := fe.Args[0]
				if !base.Has(func(x *Ex) bool { return x.K == "call" && strings.HasPrefix(x.S, "wallet/client.") }) {
					continue
				}
				readSite, changeEx = in, fe
			}
		}
		if readSite == nil {
			continue
		}
		n++
		// some constructProofs call takes those signatures, and its result is saved
		okU, okS := false, false
		// in the operation itself or in a helper that is new on this tree, read in its calling context
		for _, og := range c.OpContexts(f) {
			if og.Fn.Parent() != nil {
				continue
			}
			for _, ci := range Calls(og.Fn) {
				d := c.P.Describe(ci)
				if d.Name != "wallet.constructProofs" {
					continue
				}
				if og.Of(d.Args[0]).String() == changeEx.String() {
					okU = true
					for _, sv := range c.callsOfWalletDB(og.Fn, "SaveProofs") {
						a := og.Of(c.P.Describe(sv).Args[0])
						if a.K == "call" && a.Call == ci {
							okS = true
						}
					}
				}
			}
		}
		why := ""
		if !okU {
			why = "the change signatures of the answer (" + short(changeEx.String(), 100) + ") are looked at but never unblinded into proofs"
		} else if !okS {
			why = "the proofs built from the change signatures are not saved"
		}
		R.Check("R7", c.P.FuncKey(f), "change signatures become stored proofs", c.P.InstrPos(readSite), okU && okS,
			"change signatures returned by the mint are unblinded and the resulting proofs saved", why)
	}
	if n == 0 {
		R.Unresolved("R7", "change signatures", "no wallet operation reads change signatures")
	}
}

// c17ReconcileComplete: R8. In the melt-quote check of the wallet the only excuses for not acting on the mint's
// answer are: the quote is already recorded PAID locally, the answer is a different state, or (for UNPAID)
// there are no pending proofs under the quote. In particular the action must not depend on the local quote
// being recorded PENDING: a melt whose answer was lost leaves the quote UNPAID locally with its proofs pending.
func (c *Ctx) c17ReconcileComplete() {
	f := c.fn("R8", "wallet.(*Wallet).CheckMeltQuoteState")
	paid, ok1 := c.P.ConstVal("cashu/nuts/nut05", "Paid")
	unpaid, ok2 := c.P.ConstVal("cashu/nuts/nut05", "Unpaid")
	if f == nil || !ok1 || !ok2 {
		return
	}
	stateOf := func(e *Ex, src string) bool {
		return isField(e, "State") && strings.Contains(e.Args[0].String(), src)
	}
	const local, answer = "GetMeltQuoteById(", "wallet/client.GetMeltQuoteState#0("
	alreadyPaid := &Cond{Name: "quote already recorded PAID", Match: func(ft *Fact, _ *Origins) bool {
		return ft.Kind == "cmp" && ft.Op.String() == "==" && stateOf(ft.A, local) && isConst(ft.B, paid) && ft.Pos
	}}
	answerNot := func(k string) *Cond {
		return &Cond{Name: "answer is another state", Match: func(ft *Fact, _ *Origins) bool {
			if ft.Kind != "cmp" || ft.Op.String() != "==" || !stateOf(ft.A, answer) || ft.B.K != "const" {
				return false
			}
			return (!ft.Pos && isConst(ft.B, k)) || (ft.Pos && !isConst(ft.B, k))
		}}
	}
	noPending := &Cond{Name: "no pending proofs under the quote", Match: func(ft *Fact, _ *Origins) bool {
		x := lenZero(ft)
		return x != nil && strings.Contains(x.String(), "GetPendingProofsByQuoteId(")
	}}
	walletDB := func(name string) func(d *CallDesc) bool {
		return func(d *CallDesc) bool { return d.Iface != nil && d.Iface.Name() == name }
	}
	c.ruleMustHit("R8", "PAID answer => pending record removed", "unless the quote is already recorded PAID, a PAID answer removes the melt's pending record", f,
		[]*Cond{alreadyPaid, answerNot(paid)}, walletDB("DeletePendingProofsByQuoteId"))
	c.ruleMustHit("R8", "UNPAID answer => pending proofs given back", "unless the quote is already recorded PAID, an UNPAID answer returns the melt's pending proofs to the spendable bucket", f,
		[]*Cond{alreadyPaid, answerNot(unpaid), noPending}, walletDB("SaveProofs"))
}

// c18SendSplit: R2 (clause). The send outputs of the swap branch are split(amount) followed by split(fee
// budget), the budget being 0 or the fee of len(split(amount)) + 1 inputs on the synchronised active keyset:
// the recipient gets proofs worth exactly the amount plus a separate set worth the budget. Splitting the sum
// amount + budget instead changes how many proofs are sent while the budget still assumes the count above.
func (c *Ctx) c18SendSplit() {
	R := c.R
	f := c.fn("R2", "wallet.(*Wallet).swapToSend")
	if f == nil {
		return
	}
	fk := c.P.FuncKey(f)
	o := c.P.OriginsOf(f)
	amount := ""
	for _, p := range f.Params {
		if p.Name() == "amount" {
			amount = "P:amount"
		}
	}
	if amount == "" && len(f.Params) > 1 {
		amount = "P:" + f.Params[1].Name()
	}
	n := 0
	for _, ci := range Calls(f) {
		d := c.P.Describe(ci)
		if d.Name != fnCreateBM && d.Name != "wallet.blindedMessagesFromSpendingCondition" {
			continue
		}
		e := o.Of(d.Args[0])
		if !strings.Contains(e.String(), "cashu.AmountSplit("+amount+")") || isCall(e, "wallet.(*Wallet).splitWalletTarget") {
			continue // the change outputs
		}
		n++
		ok := e.K == "append" && len(e.Args) == 2 && e.Args[0].String() == "cashu.AmountSplit("+amount+")" && isCall(e.Args[1], "cashu.AmountSplit") && len(e.Args[1].Args) == 1
		if ok {
			for _, a := range e.Args[1].Args[0].Alts() {
				if isConst(a, "0") {
					continue
				}
				if !(isCall(a, "wallet.feesForCount") && strings.HasPrefix(arg(a, 0).String(), "(len(cashu.AmountSplit("+amount+")) + #1)")) {
					ok = false
				}
			}
		}
		R.Check("R2", fk, "send outputs = split(amount) ++ split(fee budget)", c.P.InstrPos(ci), ok,
			"the amount and the recipient's fee budget are split separately; the budget is the fee of len(split(amount)) + 1 inputs", short(e.String(), 220))
	}
	if n == 0 {
		R.Check("R2", fk, "send outputs = split(amount) ++ split(fee budget)", c.P.Pos(f.Pos()), false, "the send outputs are derived from the split of the amount", "no output derivation over split(amount) found")
	}
}

// c17ClientReadsWholeBody: R9. A response to a request that the mint has already acted on (signatures issued,
// inputs spent) must not be thrown away because of its size: wallet/client decodes the complete body. Any
// io.LimitReader / http.MaxBytesReader / LimitedReader in that package caps it - the encoder side (the mint)
// has no cap, a large mint or swap answer would be cut and the operation treated as failed.
func (c *Ctx) c17ClientReadsWholeBody() {
	R := c.R
	var caps []string
	n := 0
	for _, f := range c.P.Funcs {
		top := EnclosingTop(f)
		if top.Pkg == nil || c.P.Rel(top.Pkg.Pkg.Path()) != "wallet/client" {
			continue
		}
		for _, ci := range Calls(f) {
			d := c.P.Describe(ci)
			switch d.Name {
			case "io.LimitReader", "net/http.MaxBytesReader", "io.(*LimitedReader).Read":
				caps = append(caps, d.Name+" at "+c.P.InstrPos(ci))
			case "io.ReadAll", "encoding/json.(*Decoder).Decode":
				n++
			}
		}
		for _, b := range f.Blocks {
			for _, in := range b.Instrs {
				if al, ok := in.(*ssa.Alloc); ok && strings.HasSuffix(al.Type().String(), "io.LimitedReader") {
					caps = append(caps, "io.LimitedReader at "+c.P.InstrPos(al))
				}
			}
		}
	}
	if n == 0 {
		R.Unresolved("R9", "response reading in wallet/client", "no io.ReadAll / json Decoder found")
		return
	}
	R.Check("R9", "wallet/client", "response bodies are read without a size cap", "wallet/client/client.go", len(caps) == 0,
		"the client decodes the mint's complete answer", strings.Join(caps, "; "))
}

// ruleSwapInputsRemovedFirst (shared: C17.R2, C18.R5): once the mint accepted the swap in swapToSend the
// inputs are spent; removing them from the spendable bucket is the first thing that happens, before any step
// that can fail and leave them counted (and later handed out) as spendable.
func (c *Ctx) ruleSwapInputsRemovedFirst(rule string) {
	R := c.R
	f := c.fn(rule, "wallet.(*Wallet).swapToSend")
	if f == nil {
		return
	}
	fk := c.P.FuncKey(f)
	var post ssa.CallInstruction
	for _, g := range c.OpFuncs(f) {
		for _, ci := range Calls(g) {
			if c.P.Describe(ci).Name == "wallet/client.PostSwap" {
				post = ci
			}
		}
	}
	if post == nil {
		R.Unresolved(rule, "swap request in "+fk, "no PostSwap call")
		return
	}
	dels := c.opCallsOfWalletDB(f, "DeleteProof")
	okD, whyD := len(dels) > 0, "no removal of the inputs found"
	// walk: from the edges on which the swap is known accepted, no return may be reached before the removal;
	// in a helper that is new on this tree a success return hands the obligation to its (single) call site
	var walk func(g *ssa.Function, from map[Edge]bool, depth int)
	walk = func(g *ssa.Function, from map[Edge]bool, depth int) {
		o := c.P.OriginsOf(g)
		cutD := NewCut()
		for _, cc := range dels {
			in := c.siteIn(g, cc.CI)
			if in == nil {
				continue
			}
			if l := o.Loops.InnermostContaining(in.Block()); l != nil && len(l.Header.Instrs) > 0 {
				cutD.Barriers[l.Header.Instrs[0]] = true
			} else {
				cutD.Barriers[in] = true
			}
		}
		for e := range from {
			for _, r := range Returns(g) {
				reach, path := Reach(Point{e.To(), 0}, PointOf(r), cutD)
				if !reach {
					continue
				}
				if g != f && depth < 3 && !o.IsFailureReturn(r) {
					if sites := c.sitesInScope(c.callersOf(g)); len(sites) == 1 {
						call := sites[0]
						caller := call.Parent()
						walk(caller, c.P.OriginsOf(caller).AcceptEdges(errNilOf(call, "helper succeeded")), depth+1)
						continue
					}
				}
				okD = false
				whyD = "return at " + c.P.InstrPos(r) + " reachable after the accepted swap with the spent inputs still in the spendable bucket: " + c.P.PathString(path)
			}
		}
	}
	g := post.Parent()
	from := c.P.OriginsOf(g).AcceptEdges(errNilOf(post, "swap succeeded"))
	if len(from) == 0 {
		okD, whyD = false, "the result of the swap request is not tested"
	}
	walk(g, from, 0)
	R.Check(rule, fk, "swap accepted => inputs removed before anything can fail", c.P.InstrPos(post), okD,
		"after the mint accepted the swap the inputs leave the spendable bucket before any fallible step", whyD)
}

// c17BucketKeysAgree: R6. Every way an entry enters or leaves the spendable and the pending bucket names it by the
// same key: the proof's secret (spendable) / the raw bytes of its Y (pending). A writer that prefixes or re-encodes the
// key makes the entries invisible to the deleters that still use the plain key (reclaim, remove-spent): value that is
// counted twice or never reconciled.
func (c *Ctx) c17BucketKeysAgree() {
	R := c.R
	n := 0
	for _, f := range c.P.Funcs {
		top := EnclosingTop(f)
		if top.Pkg == nil || c.P.Rel(top.Pkg.Pkg.Path()) != "wallet/storage" {
			continue
		}
		o := c.P.OriginsOf(f)
		for _, ci := range Calls(f) {
			d := c.P.Describe(ci)
			if !(d.Name == "bbolt.(*Bucket).Put" || d.Name == "bbolt.(*Bucket).Delete" || d.Name == "bbolt.(*Bucket).Get") || d.Recv == nil || len(d.Args) == 0 {
				continue
			}
			bucket := o.Of(d.Recv).String()
			key := o.Of(d.Args[0])
			ks := key.String()
			var ok bool
			var class string
			switch {
			case strings.Contains(bucket, `#"pending_proofs"`):
				class = "raw Y bytes"
				ok = (isCallSuffix(key, ".SerializeCompressed") && strings.Contains(ks, "crypto.HashToCurve#0(") && strings.Contains(ks, ".Secret")) ||
					(isCall(key, "encoding/hex.DecodeString") && key.Idx == 0 && (strings.HasPrefix(arg(key, 0).String(), "elem(") || strings.HasSuffix(arg(key, 0).String(), ".Y") || strings.Contains(arg(key, 0).String(), ".Y")))
			case strings.Contains(bucket, `#"proofs"`):
				class = "the proof's secret"
				ok = strings.HasSuffix(ks, ".Secret") || strings.HasSuffix(ks, ".Secret)") || (key.K == "param") || strings.HasPrefix(ks, "anyof:(P:")
			default:
				continue
			}
			n++
			R.Check("R6", c.P.FuncKey(top), strings.TrimPrefix(d.Name, "bbolt.(*Bucket).")+" key of the bucket is "+class, c.P.InstrPos(ci), ok,
				"every writer, reader and deleter of the bucket names an entry by the same key ("+class+", nothing prefixed or re-encoded)", "key is "+short(ks, 140))
		}
	}
	if n == 0 {
		R.Unresolved("R6", "Put / Delete / Get on the proof buckets", "none found")
	}
}

// c18SendCriticalSection: R9.
func (c *Ctx) c18SendCriticalSection() {
	R := c.R
	f := c.fn("R9", "wallet.(*Wallet).Send")
	if f == nil {
		return
	}
	fk := c.P.FuncKey(f)
	var sel ssa.Instruction
	locks := NewCut()
	var unlocks []ssa.Instruction
	for _, g := range c.OpFuncs(f) {
		for _, ci := range Calls(g) {
			d := c.P.Describe(ci)
			site := c.siteIn(f, ci)
			if site == nil {
				continue
			}
			switch {
			case d.Name == "wallet.(*Wallet).getProofsForAmount":
				sel = site
			case d.Name == "sync.(*RWMutex).Lock" || d.Name == "sync.(*Mutex).Lock":
				if _, isCall := ci.(*ssa.Call); isCall && g == f {
					locks.Barriers[ci] = true
				}
			case d.Name == "sync.(*RWMutex).Unlock" || d.Name == "sync.(*Mutex).Unlock":
				if _, isCall := ci.(*ssa.Call); isCall {
					unlocks = append(unlocks, site)
				}
			}
		}
	}
	if sel == nil {
		R.Unresolved("R9", "proof selection in "+fk, "no call of getProofsForAmount")
		return
	}
	ok, why := true, ""
	if len(locks.Barriers) == 0 {
		ok, why = false, "Send does not take the wallet mutex itself"
	} else if reach, path := ReachFromEntry(f, sel, locks); reach {
		ok, why = false, "the selection is reachable without the mutex held: "+c.P.PathString(path)
	}
	o := c.P.OriginsOf(f)
	for _, u := range unlocks {
		for l := range locks.Barriers {
			if r1, _ := o.ReachAvoiding(l, u, NewCut()); r1 {
				if r2, _ := o.ReachAvoiding(u, sel, NewCut()); r2 {
					ok, why = false, "the mutex is released at "+c.P.InstrPos(u)+" before the selection"
				}
			}
		}
	}
	// the callee does not drop / retake the lock around its own selection
	if gp := c.P.Func("wallet.(*Wallet).getProofsForAmount"); gp != nil {
		for _, g := range c.OpFuncs(gp) {
			for _, ci := range Calls(g) {
				if n := c.P.Describe(ci).Name; strings.HasPrefix(n, "sync.(*RWMutex).") || strings.HasPrefix(n, "sync.(*Mutex).") {
					ok, why = false, "getProofsForAmount manipulates the mutex itself ("+n+" at "+c.P.InstrPos(ci)+"): selection and removal are not covered by the caller's critical section"
				}
			}
		}
	}
	R.Check("R9", fk, "selection and removal under the wallet mutex", c.P.InstrPos(sel), ok, "two overlapping sends cannot select the same proofs: the mutex is held from before the selection until the function returns", why)
}

// c17MeltOnlyOpenQuote: R11. Paying a quote a second time (or while the first attempt is in flight) hands the mint
// more proofs for a debt already settled.
func (c *Ctx) c17MeltOnlyOpenQuote() {
	R := c.R
	f := c.fn("R11", "wallet.(*Wallet).Melt")
	if f == nil {
		return
	}
	fk := c.P.FuncKey(f)
	paid, _ := c.P.ConstVal("cashu/nuts/nut05", "Paid")
	pend, _ := c.P.ConstVal("cashu/nuts/nut05", "Pending")
	isStored := func(e *Ex) bool {
		return isField(e, "State") && strings.Contains(e.Args[0].String(), "GetMeltQuoteById")
	}
	isRecheck := func(e *Ex) bool {
		return isField(e, "State") && strings.Contains(e.Args[0].String(), "CheckMeltQuoteState#0(")
	}
	ne := func(name string, who func(*Ex) bool, val string) func(ft *Fact) bool {
		return func(ft *Fact) bool {
			return ft.Kind == "cmp" && ft.Op.String() == "==" && who(ft.A) && ft.B != nil && ft.B.K == "const" &&
				((!ft.Pos && isConst(ft.B, val)) || (ft.Pos && !isConst(ft.B, val)))
		}
	}
	storedNotPaid := ne("", isStored, paid)
	storedNotPending := ne("", isStored, pend)
	recheckNotPending := ne("", isRecheck, pend)
	recheckNotPaid := ne("", isRecheck, paid)
	conds := []*Cond{
		{Name: "stored state != PAID", Via: func(g *ssa.Function) bool { return c.P.IsNewFunc(g) }, Match: func(ft *Fact, _ *Origins) bool { return storedNotPaid(ft) }},
		{Name: "stored state != PENDING, or the re-check did not answer PENDING", Via: func(g *ssa.Function) bool { return c.P.IsNewFunc(g) }, Match: func(ft *Fact, _ *Origins) bool {
			return storedNotPending(ft) || recheckNotPending(ft)
		}},
		{Name: "stored state != PENDING, or the re-check did not answer PAID", Via: func(g *ssa.Function) bool { return c.P.IsNewFunc(g) }, Match: func(ft *Fact, _ *Origins) bool {
			return storedNotPending(ft) || recheckNotPaid(ft)
		}},
	}
	var sites []ssa.CallInstruction
	for _, g := range c.OpFuncs(f) {
		for _, ci := range Calls(g) {
			switch c.P.Describe(ci).Name {
			case "wallet.(*Wallet).getProofsForAmount", "wallet/client.PostMeltBolt11":
				sites = append(sites, ci)
			}
		}
	}
	if len(sites) == 0 {
		R.Unresolved("R11", "selection / submission in "+fk, "not found")
		return
	}
	for _, s := range sites {
		for _, cd := range conds {
			ok, why := c.RequireAt(s, cd)
			R.Check("R11", fk, c.P.Describe(s).Name+" <= "+cd.Name, c.P.InstrPos(s), ok, "Melt selects and submits proofs only for a quote that is still open", why)
		}
	}
}

// ruleFeeOfExistingProofs: R13 (shared with C18). Proofs the wallet already holds each pay the fee of their OWN
// keyset; only outputs that do not exist yet (all on the active keyset) may be priced by a count. Decided as a census
// of the count-based fee helper: no call of it takes the length of a list of proofs as its count.
func (c *Ctx) ruleFeeOfExistingProofs(rule string) {
	R := c.R
	isProofList := func(t types.Type) bool {
		var el types.Type
		switch u := t.Underlying().(type) {
		case *types.Slice:
			el = u.Elem()
		case *types.Array:
			el = u.Elem()
		case *types.Map:
			el = u.Elem()
		default:
			return false
		}
		st, ok := el.Underlying().(*types.Struct)
		if !ok {
			return false
		}
		hasSecret, hasC := false, false
		for i := 0; i < st.NumFields(); i++ {
			switch st.Field(i).Name() {
			case "Secret":
				hasSecret = true
			case "C":
				hasC = true
			}
		}
		return hasSecret && hasC
	}
	var lenOfProofs func(v ssa.Value, depth int) bool
	lenOfProofs = func(v ssa.Value, depth int) bool {
		if depth > 6 {
			return false
		}
		switch x := v.(type) {
		case *ssa.Call:
			if x := lenArg(x); x != nil {
				return isProofList(x.Type())
			}
		case *ssa.BinOp:
			return lenOfProofs(x.X, depth+1) || lenOfProofs(x.Y, depth+1)
		case *ssa.Convert:
			return lenOfProofs(x.X, depth+1)
		case *ssa.ChangeType:
			return lenOfProofs(x.X, depth+1)
		case *ssa.Phi:
			for _, e := range x.Edges {
				if lenOfProofs(e, depth+1) {
					return true
				}
			}
		}
		return false
	}
	n := 0
	for _, f := range c.P.Funcs {
		for _, ci := range Calls(f) {
			d := c.P.Describe(ci)
			if d.Name != "wallet.feesForCount" || len(d.Args) < 1 {
				continue
			}
			n++
			bad := lenOfProofs(d.Args[0], 0)
			R.Check(rule, c.P.FuncKey(EnclosingTop(f)), "count-based fee is not applied to existing proofs", c.P.InstrPos(ci), !bad,
				"the fee of proofs the wallet holds is the sum of their own keysets' fees (feesForProofs), a count and one keyset prices only outputs yet to be made",
				"the count is the length of a list of proofs: their fee is taken from one keyset whatever keyset each belongs to")
		}
	}
	if n == 0 {
		R.Trivial(rule, "wallet", "count-based fee helper", "wallet/wallet.go", "no call of a count-based fee helper on this tree")
	}
}

// ruleWalletPendingReleaseCallers: R14. Pending proofs leave the pending bucket only where the rules above have
// looked: the melt, the melt-quote poll, and the two maintenance calls that ask the mint for the proofs' state
// first. Who-may-call census of the wallet storage methods that delete pending proofs: every call site lies in one of
// those functions, or in a helper new on this tree all of whose callers do.
func (c *Ctx) ruleWalletPendingReleaseCallers(rule string) {
	R := c.R
	allowed := map[string]bool{
		"wallet.(*Wallet).Melt":                 true,
		"wallet.(*Wallet).CheckMeltQuoteState":  true,
		"wallet.(*Wallet).RemoveSpentProofs":    true,
		"wallet.(*Wallet).ReclaimUnspentProofs": true,
	}
	var okFn func(f *ssa.Function, depth int) bool
	okFn = func(f *ssa.Function, depth int) bool {
		f = EnclosingTop(f)
		if allowed[c.P.FuncKey(f)] {
			return true
		}
		if depth > 4 || !c.P.IsNewFunc(f) {
			return false
		}
		callers := c.callersOf(f)
		if len(callers) == 0 {
			return false
		}
		for _, s := range callers {
			if !okFn(s.Parent(), depth+1) {
				return false
			}
		}
		return true
	}
	n := 0
	for _, f := range c.P.Funcs {
		top := EnclosingTop(f)
		if top.Pkg == nil || c.P.Rel(top.Pkg.Pkg.Path()) != "wallet" {
			continue
		}
		for _, name := range []string{"DeletePendingProofsByQuoteId", "DeletePendingProofs"} {
			for _, ci := range c.callsOfWalletDB(f, name) {
				n++
				R.Check(rule, c.P.FuncKey(top), "pending proofs deleted only by the melt, its poll and the state-checked maintenance calls ("+name+")", c.P.InstrPos(ci), okFn(f, 0),
					"pending proofs are released or dropped only where the mint's answer decides it", "this function deletes pending proofs but is not one of the examined ones")
			}
		}
	}
	if n < 5 {
		R.Unresolved(rule, "wallet calls that delete pending proofs", fmt.Sprintf("found %d, expected at least 5", n))
	}
}

// ruleClientNoOwnDeadline: R15. The wallet takes any error of a swap / mint / melt call for "not executed". That is
// only sound while the transport gives up for the mint's reasons, never on the wallet's own clock: a request the mint
// has executed but answers late would otherwise leave spent inputs in the wallet and signed outputs nowhere. Census of
// the network layer: no http.Client with a Timeout, no context deadline.
func (c *Ctx) ruleClientNoOwnDeadline(rule string) {
	R := c.R
	n := 0
	for _, f := range c.P.Funcs {
		top := EnclosingTop(f)
		if top.Pkg == nil || c.P.Rel(top.Pkg.Pkg.Path()) != "wallet/client" {
			continue
		}
		n++
		for _, b := range f.Blocks {
			for _, in := range b.Instrs {
				switch x := in.(type) {
				case *ssa.Store:
					if fa, ok := x.Addr.(*ssa.FieldAddr); ok && fieldName(fa) == "Timeout" {
						if pt, ok := fa.X.Type().Underlying().(*types.Pointer); ok && strings.HasSuffix(pt.Elem().String(), "net/http.Client") {
							if k, isC := x.Val.(*ssa.Const); !isC || (k.Value != nil && k.Value.ExactString() != "0") {
								R.Check(rule, c.P.FuncKey(top), "no client-side timeout on requests to the mint", c.P.InstrPos(in), false,
									"the network layer does not abandon a request on its own clock", "an http.Client with a Timeout is configured")
							}
						}
					}
				case ssa.CallInstruction:
					switch c.P.Describe(x).Name {
					case "context.WithTimeout", "context.WithDeadline", "time.After", "time.AfterFunc":
						R.Check(rule, c.P.FuncKey(top), "no client-side deadline on requests to the mint", c.P.InstrPos(in), false,
							"the network layer does not abandon a request on its own clock", "a deadline / timer is set up in the network layer")
					}
				}
			}
		}
	}
	if n == 0 {
		R.Unresolved(rule, "wallet/client functions", "none found")
		return
	}
	R.Check(rule, "wallet/client", "network layer examined", "wallet/client", true, fmt.Sprintf("%d functions of the network layer examined: none sets a timeout or deadline of its own", n), "")
}
