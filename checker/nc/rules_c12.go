package nc

import (
	"go/types"
	"strings"

	"golang.org/x/tools/go/ssa"
)

const (
	fnHVS       = "cashu/nuts/nut11.HasValidSignatures"
	fnDupSigs   = "cashu/nuts/nut11.DuplicateSignatures"
	fnSigAll    = "cashu/nuts/nut11.ProofsSigAll"
	fnIsSigAll  = "cashu/nuts/nut11.IsSigAll"
	fnParseTags = "cashu/nuts/nut11.ParseP2PKTags"
	fnDeser     = "cashu/nuts/nut10.DeserializeSecret"
	fnPubKeys   = "cashu/nuts/nut11.PublicKeys"
	fnSha256    = "crypto/sha256.Sum256"
	fnVerifyP2P = "cashu/nuts/nut11.VerifyP2PKLockedProof"
	fnVerifyHTL = "cashu/nuts/nut14.VerifyHTLCProof"
)

func init() {
	register("C12", "Decides on every path: (R1) the P2PK verifier returns nil only through one of {locktime set and passed and no refund "+
		"key; locktime passed and HasValidSignatures(sha256(secret), witness signatures, 1, refund keys); not expired and no duplicate "+
		"signatures and HasValidSignatures(sha256(secret), witness signatures, n, data key ∥ listed keys)}, with n = 1 or the positive "+
		"n_sigs, the expiry test comparing the parsed locktime with the current time in the right direction, and the anyone-can-spend exit "+
		"not depending on the witness; (R2) HasValidSignatures removes the matched key from the candidate set on every path from the "+
		"counter increment to the next signature and returns count >= n; (R3) the 'any input is SIG_ALL' scan returns false only after the "+
		"whole list was scanned; (R4) swap signs only behind {no SIG_ALL input, output verification succeeded}, melt pays only behind no "+
		"SIG_ALL input; (R5) the output verifier returns nil only if every input parses, is SIG_ALL, has the same keys and n_sigs as the "+
		"first, and every output has enough valid non-duplicate signatures over sha256(hex-decoded B_); (R6) signing helpers and verifiers "+
		"hash the same message; (R7) validation dispatches every P2PK / HTLC input to its verifier before crypto.Verify. The full "+
		"configuration x witness truth table against an independent evaluator is not decided.", rulesC12)
	register("C13", "Decides on every path: (R1) the HTLC verifier returns nil only through {locktime passed and no refund key; locktime passed "+
		"and a refund-key signature (threshold exactly 1); not expired and the preimage hex-decodes, the lock value is 64 characters, "+
		"hex(sha256(preimage bytes)) equals it, and (n_sigs <= 0 or no duplicates and HasValidSignatures(sha256(secret), signatures, n_sigs, "+
		"listed keys))}; (R2) in the SIG_ALL output verifier every output of an HTLC passes the same preimage facts and the signature "+
		"facts; (R3) the library's helpers hash what the mint verifies (inputs sha256(secret), outputs sha256(hex-decoded B_) in both "+
		"nut11 and nut14) and the helper's can-sign scan is a proper existential scan; plus the shared rules C12.R2/R3/R4/R7. The full "+
		"truth table is not decided.", rulesC13)
}

type lockFacts struct {
	c                       *Ctx
	tags                    func(e *Ex) bool // ParseP2PKTags#0(secret.Data.Tags)
	expired, locktimeSet    *Cond
	noRefund                *Cond
	witnessSigs             func(e *Ex) bool
	hashSecret              func(e *Ex) bool
	hvs                     func(f *Fact, n func(*Ex) bool, keys func(*Ex) bool) bool
	noDup                   *Cond
	secretParam, proofParam string
}

func (c *Ctx) lockFactsFor(f *ssa.Function) *lockFacts {
	l := &lockFacts{c: c}
	l.proofParam, l.secretParam = "P:"+f.Params[0].Name(), "P:"+f.Params[1].Name()
	l.tags = func(e *Ex) bool {
		return isCall(e, fnParseTags) && e.Idx == 0 && exprIs(arg(e, 0), l.secretParam+".Data.Tags")
	}
	tagField := func(e *Ex, name string) bool { return isField(e, name) && l.tags(e.Args[0]) }
	isNow := func(e *Ex) bool {
		return e != nil && strings.Contains(e.String(), "time.Now()") && strings.Contains(e.String(), "Unix")
	}
	l.locktimeSet = &Cond{Name: "locktime > 0", Match: func(ft *Fact, _ *Origins) bool {
		return ft.Kind == "cmp" && ft.Pos && ft.Op.String() == "<" && isConst(ft.A, "0") && tagField(ft.B, "Locktime")
	}}
	l.expired = &Cond{Name: "now > locktime", Match: func(ft *Fact, _ *Origins) bool {
		return ft.Kind == "cmp" && ft.Pos && ft.Op.String() == "<" && tagField(ft.A, "Locktime") && isNow(ft.B)
	}}
	l.noRefund = &Cond{Name: "no refund key", Match: func(ft *Fact, _ *Origins) bool {
		x := lenZero(ft)
		return x != nil && tagField(x, "Refund")
	}}
	l.witnessSigs = func(e *Ex) bool {
		n := 0
		for _, a := range e.Alts() {
			if a.K == "zero" {
				continue
			}
			if isField(a, "Signatures") && a.Args[0].K == "out" && strings.HasPrefix(a.Args[0].S, "encoding/json.Unmarshal") && exprIs(arg(a.Args[0], 0), l.proofParam+".Witness") {
				n++
				continue
			}
			return false
		}
		return n > 0
	}
	l.hashSecret = func(e *Ex) bool { return isCall(e, fnSha256) && exprIs(arg(e, 0), l.proofParam+".Secret") }
	l.hvs = func(ft *Fact, n func(*Ex) bool, keys func(*Ex) bool) bool {
		if ft.Kind != "bool" || !ft.Pos || !isCall(ft.A, fnHVS) || len(ft.A.Args) != 4 {
			return false
		}
		return l.hashSecret(ft.A.Args[0]) && l.witnessSigs(ft.A.Args[1]) && n(ft.A.Args[2]) && keys(ft.A.Args[3])
	}
	l.noDup = &Cond{Name: "no duplicate signatures", Match: func(ft *Fact, _ *Origins) bool {
		return ft.Kind == "bool" && !ft.Pos && isCall(ft.A, fnDupSigs) && l.witnessSigs(arg(ft.A, 0))
	}}
	return l
}

// edgesMatching lists the edges whose fact satisfies the predicate.
func edgesMatching(o *Origins, pred func(*Fact) bool) []Edge {
	var out []Edge
	for _, e := range o.AllEdges() {
		if f := o.EdgeFact(e); f != nil && pred(f) {
			out = append(out, e)
		}
	}
	return out
}

// edgeBehind: every path to the branch that owns the edge passes cond.
func edgeBehind(o *Origins, e Edge, cond *Cond) (bool, string) {
	return o.Requires(e.From.Instrs[len(e.From.Instrs)-1], cond)
}

// ruleLockVerifier decides R1 for the P2PK (htlc=false) or HTLC (htlc=true) verifier.
func (c *Ctx) ruleLockVerifier(rule, key string, htlc bool) {
	R := c.R
	f := c.fn(rule, key)
	if f == nil {
		return
	}
	fk := c.P.FuncKey(f)
	o := c.P.OriginsOf(f)
	l := c.lockFactsFor(f)
	tagField := func(e *Ex, name string) bool { return isField(e, name) && l.tags(e.Args[0]) }
	isOne := func(e *Ex) bool { return isConst(e, "1") }
	refundKeys := func(e *Ex) bool { return tagField(e, "Refund") }
	refundSig := func(ft *Fact) bool { return l.hvs(ft, isOne, refundKeys) }
	var mainSig func(ft *Fact) bool
	var nsigsPositive *Cond
	nsigsPositive = &Cond{Name: "n_sigs > 0", Match: func(ft *Fact, _ *Origins) bool {
		return ft.Kind == "cmp" && ft.Pos && ft.Op.String() == "<" && isConst(ft.A, "0") && tagField(ft.B, "NSigs")
	}}
	if !htlc {
		// n = phi{1 | tags.NSigs}; keys = [data key] ∥ tags.Pubkeys (when n_sigs > 0)
		nOK := func(e *Ex) bool {
			for _, a := range e.Alts() {
				if !(isConst(a, "1") || tagField(a, "NSigs")) {
					return false
				}
			}
			return true
		}
		keysOK := func(e *Ex) bool {
			s := e.String()
			return strings.Contains(s, "slicelit") && (!strings.Contains(s, "append") || strings.Contains(s, ".Pubkeys"))
		}
		mainSig = func(ft *Fact) bool { return l.hvs(ft, nOK, keysOK) }
	} else {
		mainSig = func(ft *Fact) bool {
			return l.hvs(ft, func(e *Ex) bool { return tagField(e, "NSigs") }, func(e *Ex) bool { return tagField(e, "Pubkeys") })
		}
	}
	// the disjunctive cut of all success returns
	accept := &Cond{Name: "one of the accepting alternatives", Match: func(ft *Fact, _ *Origins) bool {
		if l.noRefund.Match(ft, nil) || refundSig(ft) || mainSig(ft) {
			return true
		}
		if htlc {
			// n_sigs <= 0 : no signature needed beyond the preimage
			if ft.Kind == "cmp" && ft.Pos && ft.Op.String() == "<=" && tagField(ft.A, "NSigs") && isConst(ft.B, "0") {
				return true
			}
		}
		return false
	}}
	for _, r := range o.SuccessReturns() {
		ok, why := o.Requires(r, accept)
		R.Check(rule, fk, "return nil <= accepting alternative", c.P.InstrPos(r), ok, "the verifier accepts only through one of the spending alternatives", why)
	}
	// side conditions of the alternatives
	for _, e := range edgesMatching(o, func(ft *Fact) bool { return l.noRefund.Match(ft, nil) }) {
		for _, cd := range []*Cond{l.locktimeSet, l.expired} {
			ok, why := edgeBehind(o, e, cd)
			R.Check(rule, fk, "anyone-can-spend exit <= "+cd.Name, c.P.InstrPos(e.From.Instrs[len(e.From.Instrs)-1]), ok, "the no-refund-key exit is taken only when ["+cd.Name+"]", why)
		}
		// the exit does not depend on the witness: no branch that dominates it tests the witness
		okW, whyW := true, ""
		for _, b := range f.Blocks {
			if len(b.Instrs) == 0 || !b.Dominates(e.From) {
				continue
			}
			if ifi, ok := b.Instrs[len(b.Instrs)-1].(*ssa.If); ok {
				if ft := o.condFact(ifi.Cond, true); ft != nil && ft.A != nil && strings.Contains(ft.String(), ".Witness") {
					okW = false
					whyW = "a test of the witness at " + c.P.InstrPos(ifi) + " precedes the anyone-can-spend exit: " + short(ft.String(), 120)
				}
			}
		}
		R.Check(rule, fk, "anyone-can-spend exit independent of the witness", c.P.InstrPos(e.From.Instrs[len(e.From.Instrs)-1]), okW,
			"after the locktime, with no refund key, the proof is accepted from anyone (no witness required)", whyW)
	}
	nRefund := 0
	for _, e := range edgesMatching(o, refundSig) {
		nRefund++
		for _, cd := range []*Cond{l.locktimeSet, l.expired} {
			ok, why := edgeBehind(o, e, cd)
			R.Check(rule, fk, "refund signature path <= "+cd.Name, c.P.InstrPos(e.From.Instrs[len(e.From.Instrs)-1]), ok, "the refund rule applies only when ["+cd.Name+"]", why)
		}
	}
	if nRefund == 0 {
		R.Check(rule, fk, "refund signature check present", c.P.Pos(f.Pos()), false, "after the locktime a refund-key signature (threshold 1) over sha256(secret) is required when refund keys exist", "no HasValidSignatures(sha256(secret), witness signatures, 1, refund keys) test found")
	}
	nMain := 0
	for _, e := range edgesMatching(o, mainSig) {
		nMain++
		ok, why := edgeBehind(o, e, l.noDup)
		R.Check(rule, fk, "signature threshold path <= no duplicate signatures", c.P.InstrPos(e.From.Instrs[len(e.From.Instrs)-1]), ok, "signatures are counted only after duplicates were rejected", why)
		if htlc {
			ok, why = edgeBehind(o, e, nsigsPositive)
			R.Check(rule, fk, "signature threshold path <= n_sigs > 0", c.P.InstrPos(e.From.Instrs[len(e.From.Instrs)-1]), ok, "the threshold is the positive n_sigs", why)
		}
	}
	if nMain == 0 {
		R.Check(rule, fk, "signature threshold check present", c.P.Pos(f.Pos()), false, "before the locktime the required number of valid signatures by the authorised keys is checked", "no matching HasValidSignatures test found (hash, witness signatures, threshold, keys)")
	}
	if !htlc {
		// n taken from n_sigs only when positive; extra keys only then
		for _, b := range f.Blocks {
			for _, in := range b.Instrs {
				if call, ok := in.(*ssa.Call); ok {
					if bi, ok := call.Call.Value.(*ssa.Builtin); ok && bi.Name() == "append" && strings.Contains(o.Of(call).String(), ".Pubkeys") {
						ok2, why := o.Requires(call, nsigsPositive)
						R.Check(rule, fk, "co-signer keys added <= n_sigs > 0", c.P.InstrPos(call), ok2, "listed keys count only when a threshold is set", why)
					}
				}
			}
		}
	}
	if htlc {
		// preimage facts cut every success return that is not an expiry exit
		pre := func(e *Ex) bool {
			n := 0
			for _, a := range e.Alts() {
				if a.K == "zero" {
					continue
				}
				if isField(a, "Preimage") && a.Args[0].K == "out" && exprIs(arg(a.Args[0], 0), l.proofParam+".Witness") {
					n++
					continue
				}
				return false
			}
			return n > 0
		}
		data := l.secretParam + ".Data.Data"
		conds := []*Cond{
			{Name: "preimage hex-decodes", Match: func(ft *Fact, _ *Origins) bool {
				return ft.Kind == "errnil" && ft.Pos && isCall(ft.A, fnHexDecode) && ft.A.Idx == 1 && pre(arg(ft.A, 0))
			}},
			{Name: "lock value is 64 hex characters", Match: func(ft *Fact, _ *Origins) bool {
				return ft.Kind == "cmp" && ft.Pos && ft.Op.String() == "==" && ft.A.K == "len" && exprIs(ft.A.Args[0], data) && isConst(ft.B, "64")
			}},
			{Name: "hex(sha256(preimage bytes)) == lock value", Match: func(ft *Fact, _ *Origins) bool {
				if ft.Kind != "cmp" || !ft.Pos || ft.Op.String() != "==" {
					return false
				}
				isHash := func(e *Ex) bool {
					return isCall(e, fnHexEncode) && isCall(arg(e, 0), fnSha256) && isCall(arg(arg(e, 0), 0), fnHexDecode) && arg(arg(e, 0), 0).Idx == 0 && pre(arg(arg(arg(e, 0), 0), 0))
				}
				return (exprIs(ft.A, data) && isHash(ft.B)) || (exprIs(ft.B, data) && isHash(ft.A))
			}},
		}
		expiryExit := &Cond{Name: "expiry exit", Match: func(ft *Fact, _ *Origins) bool { return l.expired.Match(ft, nil) }}
		for _, r := range o.SuccessReturns() {
			if ok, _ := o.Requires(r, expiryExit); ok {
				continue // refund / anyone-can-spend exits
			}
			for _, cd := range conds {
				ok, why := o.Requires(r, cd)
				R.Check(rule, fk, "hash-lock return nil <= "+cd.Name, c.P.InstrPos(r), ok, "before the locktime the proof is accepted only when ["+cd.Name+"]", why)
			}
		}
	}
}

// ruleCountingDiscipline: R2.
func (c *Ctx) ruleCountingDiscipline(rule string) {
	R := c.R
	f := c.fn(rule, fnHVS)
	if f == nil {
		return
	}
	fk := c.P.FuncKey(f)
	o := c.P.OriginsOf(f)
	// result: counter >= n
	for _, r := range Returns(f) {
		e := o.Of(r.Results[0])
		ok := e.K == "bin" && ((e.S == ">=" && e.Args[0].K == "acc" && exprIs(e.Args[1], "P:"+f.Params[2].Name())) ||
			(e.S == "<=" && e.Args[1].K == "acc" && exprIs(e.Args[0], "P:"+f.Params[2].Name())))
		R.Check(rule, fk, "result is count >= n", c.P.InstrPos(r), ok, "the helper returns whether the number of valid signatures reaches the threshold parameter", short(e.String(), 120))
	}
	// find the verify test and the counter increment behind it
	var outer *Loop
	for _, l := range o.Loops.Loops {
		if l.RangeOf != nil && o.Of(l.RangeOf).String() == "P:"+f.Params[1].Name() {
			outer = l
		}
	}
	if outer == nil {
		R.Check(rule, fk, "scan over the signatures", c.P.Pos(f.Pos()), false, "every signature of the witness is examined", "no whole-range loop over the signatures parameter")
		return
	}
	var incs []*ssa.BinOp
	for b := range outer.Blocks {
		for _, in := range b.Instrs {
			if bo, ok := in.(*ssa.BinOp); ok && bo.Op.String() == "+" {
				if one, ok := constInt(bo.Y); ok && one == 1 {
					if ph, ok := bo.X.(*ssa.Phi); ok && (ph.Block() == outer.Header || ph.Comment == "validSignatures") && ph.Comment != "rangeindex" {
						incs = append(incs, bo)
					}
				}
			}
		}
	}
	if len(incs) == 0 {
		R.Check(rule, fk, "valid-signature counter", c.P.Pos(f.Pos()), false, "valid signatures are counted", "no counter increment found inside the scan")
		return
	}
	for _, inc := range incs {
		// counted only behind a successful schnorr verification of that signature over the hash parameter
		verified := &Cond{Name: "signature verifies under a candidate key", Match: func(ft *Fact, _ *Origins) bool {
			return ft.Kind == "bool" && ft.Pos && isCallSuffix(ft.A, "schnorr.(*Signature).Verify") && exprIs(arg(ft.A, 1), "P:"+f.Params[0].Name()) &&
				strings.HasPrefix(arg(ft.A, 2).String(), "elem(")
		}}
		ok, why := o.Requires(inc, verified)
		if !ok {
			// search form: i := IndexFunc(candidates, func(k) bool { return sig.Verify(hash, k) }); if i >= 0 { count++ ... }
			for _, e := range o.AllEdges() {
				ft := o.EdgeFact(e)
				if ft == nil || ft.Kind != "cmp" {
					continue
				}
				for _, side := range []*Ex{ft.A, ft.B} {
					if c.verifySearch(o, side, f) && searchHitCond(side).Match(ft, o) {
						ok, why = o.Requires(inc, searchHitCond(side))
					}
				}
			}
		}
		R.Check(rule, fk, "count <= signature verified", c.P.InstrPos(inc), ok, "a signature is counted only when it verifies over the hash under a candidate key", why)
		// from the increment to the next signature the matched key is removed from the candidates
		cut := NewCut()
		for b := range outer.Blocks {
			for _, in := range b.Instrs {
				if call, ok := in.(*ssa.Call); ok && c.P.Describe(call).Name == "slices.Delete" {
					d := c.P.Describe(call)
					// Delete(candidates, i, i+1) with i the range index of the inner loop over the candidates
					hi := o.Of(d.Args[2])
					plus1 := hi.K == "bin" && hi.S == "+" && hi.Args[0].String() == o.Of(d.Args[1]).String() && isConst(hi.Args[1], "1")
					if l2 := o.Loops.byIndex[d.Args[1]]; l2 != nil && o.sameValue(l2.RangeOf, d.Args[0]) {
						if plus1 {
							// and the result is assigned back to the candidate variable (it feeds the loop-carried value)
							cut.Barriers[call] = true
						}
					} else if ie := o.Of(d.Args[1]); c.verifySearch(o, ie, f) && o.sameValue(ie.Call.Common().Args[0], d.Args[0]) && isPlusOne(o, d.Args[2], d.Args[1]) {
						// Delete(candidates, i, i+1) with i the hit of the verifying search over those candidates
						cut.Barriers[call] = true
					}
				}
			}
		}
		// mark form: used := make([]bool, len(candidates)); a key is tried only when !used[i] and a match
		// sets used[i] = true (i the range index of the scan over the candidates) - the key is out of the
		// candidate set from then on
		for b := range outer.Blocks {
			for _, in := range b.Instrs {
				st, ok := in.(*ssa.Store)
				if !ok {
					continue
				}
				ia, ok := st.Addr.(*ssa.IndexAddr)
				if !ok || !isConst(o.Of(st.Val), "true") {
					continue
				}
				ms, ok := ia.X.(*ssa.MakeSlice)
				l2 := o.Loops.byIndex[ia.Index]
				if !ok || l2 == nil || l2.RangeOf == nil || !isBool(ms.Type().Underlying().(*types.Slice).Elem()) {
					continue
				}
				if la := lenArg(ms.Len); la == nil || !o.sameValue(la, l2.RangeOf) {
					continue
				}
				// every verification under a candidate of that scan sits behind !used[i]
				skipUsed := &Cond{Name: "candidate not used yet", PerIteration: true, Match: func(ft *Fact, _ *Origins) bool {
					if ft.Kind != "bool" || ft.Pos {
						return false
					}
					a := ft.A
					return (a.K == "index" || a.K == "elem" || a.K == "lookup" || a.K == "deref") && strings.Contains(a.String(), "make:[]bool")
				}}
				allGuarded, nVer := true, 0
				for lb := range l2.Blocks {
					for _, in2 := range lb.Instrs {
						if vc, ok := in2.(*ssa.Call); ok && strings.HasSuffix(c.P.Describe(vc).Name, "schnorr.(*Signature).Verify") {
							nVer++
							if ok2, _ := o.Requires(vc, skipUsed); !ok2 {
								allGuarded = false
							}
						}
					}
				}
				if allGuarded && nVer > 0 {
					cut.Barriers[st] = true
				}
			}
		}
		reach, path := Reach(PointOf(inc), Point{outer.Header, 0}, cut)
		why2 := ""
		if reach {
			why2 = "the next signature can be examined with the matched key still among the candidates: " + c.P.PathString(path)
		}
		R.Check(rule, fk, "matched key removed before the next signature", c.P.InstrPos(inc), !reach,
			"each authorised key is counted at most once: after a match the key is removed from the candidate set unconditionally", why2)
	}
}

// unwrapAnyof strips the wrapper of a captured variable with a single possible value.
func unwrapAnyof(e *Ex) *Ex {
	for e != nil && e.K == "anyof" && len(e.Args) == 1 {
		e = e.Args[0]
	}
	return e
}

// isPlusOne: hi is the SSA value lo + 1.
func isPlusOne(o *Origins, hi, lo ssa.Value) bool {
	hb, ok := hi.(*ssa.BinOp)
	return ok && hb.Op.String() == "+" && hb.X == lo && isConst(o.Of(hb.Y), "1")
}

// verifySearch: e is slices.IndexFunc(candidates, pred) where pred answers, for its parameter k, exactly
// "the signature verifies over the hash parameter of f under k" (every return of pred is that call).
func (c *Ctx) verifySearch(o *Origins, e *Ex, f *ssa.Function) bool {
	if e == nil || e.K != "call" || !strings.HasSuffix(e.S, "slices.IndexFunc") || e.Call == nil || len(e.Call.Common().Args) != 2 {
		return false
	}
	var pred *ssa.Function
	switch v := e.Call.Common().Args[1].(type) {
	case *ssa.MakeClosure:
		pred, _ = v.Fn.(*ssa.Function)
	case *ssa.Function:
		pred = v
	}
	if pred == nil || len(pred.Params) != 1 || pred.Blocks == nil {
		return false
	}
	po := c.P.OriginsOf(pred)
	rets := Returns(pred)
	if len(rets) == 0 {
		return false
	}
	for _, r := range rets {
		v := po.Of(r.Results[0])
		if !(isCallSuffix(v, "schnorr.(*Signature).Verify") && exprIs(unwrapAnyof(arg(v, 1)), "P:"+f.Params[0].Name()) && exprIs(unwrapAnyof(arg(v, 2)), "P:"+pred.Params[0].Name())) {
			return false
		}
	}
	return true
}

// ruleExistentialScan: R3.
func (c *Ctx) ruleExistentialScan(rule string) {
	R := c.R
	f := c.fn(rule, fnSigAll)
	if f == nil {
		return
	}
	fk := c.P.FuncKey(f)
	o := c.P.OriginsOf(f)
	var loop *Loop
	for _, l := range o.Loops.Loops {
		if l.RangeOf != nil && o.Of(l.RangeOf).String() == "P:"+f.Params[0].Name() {
			loop = l
		}
	}
	if loop == nil {
		// library form: return slices.ContainsFunc(inputs, pred) - an existential scan over the whole list by
		// the library's contract; pred answers true only for a SIG_ALL element
		okLib, why := false, "no whole-range loop over the inputs"
		rets := Returns(f)
		for _, r := range rets {
			e := o.Of(r.Results[0])
			okLib = false
			if !isCall(e, "slices.ContainsFunc") || len(e.Args) != 2 || e.Args[0].String() != "P:"+f.Params[0].Name() || e.Call == nil {
				why = "returns " + short(e.String(), 120)
				break
			}
			pred := resolveFuncValue(e.Call.Common().Args[1])
			if pred == nil || len(pred.Params) != 1 {
				why = "predicate not resolvable"
				break
			}
			po := c.P.OriginsOf(pred)
			want := fnIsSigAll + "(" + fnDeser + "#0(P:" + pred.Params[0].Name() + ".Secret))"
			nSig := 0
			okLib = true
			for _, pr := range Returns(pred) {
				for _, a := range po.Of(pr.Results[0]).Alts() {
					switch {
					case isConst(a, "false"):
						// "not this one" only because the secret does not parse or is not SIG_ALL
						if len(Returns(pred)) > 1 {
							elp := "P:" + pred.Params[0].Name() + ".Secret"
							if ok2, _ := po.Requires(pr, &Cond{Name: "element is not a NUT-10 secret, or not SIG_ALL", Match: func(ft *Fact, _ *Origins) bool {
								if ft.Kind == "errnil" && !ft.Pos && isCall(ft.A, fnDeser) && exprIs(arg(ft.A, 0), elp) {
									return true
								}
								return ft.Kind == "bool" && !ft.Pos && ft.A.String() == want
							}}); !ok2 {
								okLib, why = false, "predicate answers false for a reason other than an unparsable secret or a missing SIG_ALL flag"
							}
						}
					case a.String() == want:
						nSig++
					case isConst(a, "true"):
						if ok2, _ := po.Requires(pr, &Cond{Name: "element is SIG_ALL", Match: func(ft *Fact, _ *Origins) bool {
							return ft.Kind == "bool" && ft.Pos && ft.A.String() == want
						}}); ok2 {
							nSig++
						} else {
							okLib, why = false, "predicate answers true without IsSigAll of the element's parsed secret"
						}
					default:
						okLib, why = false, "predicate returns "+short(a.String(), 120)
					}
				}
			}
			if nSig == 0 {
				okLib = false
			}
			if !okLib {
				break
			}
		}
		if okLib && len(rets) > 0 {
			R.Check(rule, fk, "return true <= some element is SIG_ALL", c.P.Pos(f.Pos()), true, "true is returned only for a SIG_ALL element", "slices.ContainsFunc with a predicate that is true only for IsSigAll(parsed secret)")
			R.Check(rule, fk, "return false <= list exhausted", c.P.Pos(f.Pos()), true, "false is returned only after every input was examined, wherever a SIG_ALL input sits", "slices.ContainsFunc over the whole input list")
			return
		}
		R.Check(rule, fk, "scan over all inputs", c.P.Pos(f.Pos()), false, "the SIG_ALL scan ranges over the whole input list", why)
		return
	}
	// no element is passed over: an iteration moves on to the next input only because this one's secret is not a
	// NUT-10 secret or because it is not SIG_ALL - never because of its kind, its position or anything else
	{
		el := "elem(P:" + f.Params[0].Name() + ").Secret"
		skipOK := &Cond{Name: "element is not a NUT-10 secret, or not SIG_ALL", Match: func(ft *Fact, _ *Origins) bool {
			if ft.Kind == "errnil" && !ft.Pos && isCall(ft.A, fnDeser) && exprIs(arg(ft.A, 0), el) {
				return true
			}
			return ft.Kind == "bool" && !ft.Pos && isCall(ft.A, fnIsSigAll) && isCall(arg(ft.A, 0), fnDeser) && exprIs(arg(arg(ft.A, 0), 0), el)
		}}
		cut := NewCut()
		for e := range o.AcceptEdges(skipOK) {
			cut.Edges[e] = true
		}
		body := loop.Header.Succs[loop.BodySucc]
		reach, path := Reach(Point{body, 0}, Point{loop.Header, 0}, cut)
		why := ""
		if reach {
			why = "an input is passed over although it may be SIG_ALL: " + c.P.PathString(path)
		}
		R.Check(rule, fk, "no input is passed over", c.P.Pos(f.Pos()), !reach, "the scan moves on to the next input only when this one is not a NUT-10 secret or not SIG_ALL", why)
	}
	exhaust := NewCut()
	exhaust.Edges[Edge{loop.Header, loop.ExitSucc}] = true
	for _, r := range Returns(f) {
		v := o.Of(r.Results[0])
		if isConst(v, "true") {
			// true only behind IsSigAll(parsed secret of that element)
			cd := &Cond{Name: "element is SIG_ALL", Match: func(ft *Fact, _ *Origins) bool {
				return ft.Kind == "bool" && ft.Pos && isCall(ft.A, fnIsSigAll) && isCall(arg(ft.A, 0), fnDeser) && exprIs(arg(arg(ft.A, 0), 0), "elem(P:"+f.Params[0].Name()+").Secret")
			}}
			ok, why := o.Requires(r, cd)
			R.Check(rule, fk, "return true <= some element is SIG_ALL", c.P.InstrPos(r), ok, "true is returned only for a SIG_ALL element", why)
			continue
		}
		reach, path := ReachFromEntry(f, r, exhaust)
		why := ""
		if reach {
			why = "false is returned before the whole list was scanned: " + c.P.PathString(path)
		}
		R.Check(rule, fk, "return false <= list exhausted", c.P.InstrPos(r), !reach, "false is returned only after every input was examined, wherever a SIG_ALL input sits", why)
	}
}

func rulesC12(c *Ctx) {
	R := c.R
	R.Rule("R1", "P2PK verifier accepts only through the spending alternatives, with their side conditions and wiring", 8)
	R.Rule("R2", "HasValidSignatures: counted only when verified, matched key always removed, result count >= n", 3)
	R.Rule("R3", "SIG_ALL scan returns false only after exhausting the list and passes over no input", 2)
	R.Rule("R4", "swap signs only behind {no SIG_ALL, outputs verified}; melt pays only behind no SIG_ALL", 3)
	R.Rule("R5", "output verifier: all inputs SIG_ALL with equal keys and n_sigs; every output enough valid non-duplicate signatures", 6)
	R.Rule("R6", "signing helpers hash the message the verifiers check", 2)
	R.Rule("R7", "every P2PK / HTLC input is dispatched to its verifier before crypto.Verify", 2)
	c.vocabProblems("R4")
	c.ruleLockVerifier("R1", fnVerifyP2P, false)
	c.ruleCountingDiscipline("R2")
	c.ruleExistentialScan("R3")
	c.ruleSigAllOps("R4")
	c.ruleOutputVerifier("R5", false)
	c.ruleDecodeIntoFreshValue("R5", "mint.verifyBlindedMessages")
	c.ruleOutputSignerKeys("R5")
	c.ruleHelperAgreement("R6", false)
	c.ruleKindDispatch("R7")
	R.Rule("R8", "a secret is classified as 'not NUT-10' only by the JSON decoder: the parser rejects nothing before it hands the whole secret to json.Unmarshal", 1)
	c.ruleSecretParserTotal("R8")
}

func rulesC13(c *Ctx) {
	R := c.R
	R.Rule("R1", "HTLC verifier accepts only through {expiry alternatives, preimage + optional signature threshold}", 8)
	R.Rule("R2", "output verifier, HTLC branch: every output passes the preimage facts and the signature facts", 4)
	R.Rule("R3", "helpers hash what the mint verifies; the can-sign scan is a proper existential scan", 4)
	R.Rule("R4", "shared: counting discipline, SIG_ALL scan, SIG_ALL handling in swap/melt, kind dispatch", 8)
	R.Rule("R5", "after the locktime only the refund rule applies: the lock value and the preimage are examined only on paths where the lock is not expired", 3)
	c.vocabProblems("R4")
	c.ruleLockVerifier("R1", fnVerifyHTL, true)
	c.ruleOutputVerifier("R2", true)
	c.ruleDecodeIntoFreshValue("R2", "mint.verifyBlindedMessages")
	c.ruleOutputSignerKeys("R2")
	c.ruleHelperAgreement("R3", true)
	c.ruleCountingDiscipline("R4")
	c.ruleExistentialScan("R4")
	c.ruleSigAllOps("R4")
	c.ruleKindDispatch("R4")
	c.ruleSecretParserTotal("R4")
	c.c13HashLockOnlyBeforeExpiry()
}

// ruleOutputSignerKeys: the key list the SIG_ALL output verifier counts signatures against (nut11.PublicKeys) is the
// lock's own keys - the pubkeys tag and, for P2PK, the data key. Refund keys never belong to it: the output verifier
// does not look at the locktime, so a refund key in that list can redirect a signed swap before the lock expires.
func (c *Ctx) ruleOutputSignerKeys(rule string) {
	R := c.R
	f := c.fn(rule, "cashu/nuts/nut11.PublicKeys")
	if f == nil {
		return
	}
	fk := c.P.FuncKey(f)
	ok, why := true, ""
	n := 0
	for _, og := range c.OpContexts(f) {
		if og.Fn != f {
			continue
		}
		for _, r := range og.SuccessReturns() {
			n++
			e := og.Of(r.Results[0])
			if e.Has(func(x *Ex) bool { return x.K == "field" && x.S == "Refund" }) || strings.Contains(e.String(), ".Refund") {
				ok, why = false, "the returned key list contains the refund keys: "+short(e.String(), 160)
			}
			if !strings.Contains(e.String(), ".Pubkeys") {
				ok, why = false, "the returned key list is not built on the pubkeys tag: "+short(e.String(), 160)
			}
		}
	}
	// refund keys reach the list through a helper too: any read of the Refund field inside the function or its new helpers
	for _, g := range c.OpFuncs(f) {
		for _, b := range g.Blocks {
			for _, in := range b.Instrs {
				switch x := in.(type) {
				case *ssa.FieldAddr:
					if fieldName(x) == "Refund" {
						ok, why = false, "the refund keys are read at "+c.P.InstrPos(in)
					}
				case *ssa.Field:
					if st, isSt := x.X.Type().Underlying().(*types.Struct); isSt && st.Field(x.Field).Name() == "Refund" {
						ok, why = false, "the refund keys are read at "+c.P.InstrPos(in)
					}
				}
			}
		}
	}
	R.Check(rule, fk, "output signer keys = lock keys only", c.P.Pos(f.Pos()), ok && n > 0, "the keys whose signatures count on the outputs are the pubkeys tag and the data key, never the refund keys", why)
}

// c13HashLockOnlyBeforeExpiry: R5. After the locktime only the refund rule applies: the verifier looks at the lock
// value and at the preimage only on paths where the lock is not expired (locktime unset, or now <= locktime). A
// test of the lock value that runs before the expiry decision refuses an expired HTLC whose lock value is
// malformed although the refund key (or anyone) may spend it.
func (c *Ctx) c13HashLockOnlyBeforeExpiry() {
	R := c.R
	f := c.fn("R5", fnVerifyHTL)
	if f == nil {
		return
	}
	fk := c.P.FuncKey(f)
	isLocktime := func(e *Ex) bool { return e != nil && strings.HasSuffix(e.String(), ".Locktime") }
	isNow := func(e *Ex) bool { return e != nil && strings.Contains(e.String(), "time.Now()") }
	notExpired := &Cond{Name: "the lock is not expired (no locktime, or now <= locktime)", Match: func(ft *Fact, _ *Origins) bool {
		if ft.Kind != "cmp" {
			return false
		}
		op := ft.Op.String()
		switch {
		case isLocktime(ft.A) && isConst(ft.B, "0"): // locktime <= 0
			return (op == "<=" && ft.Pos) || (op == ">" && !ft.Pos) || (op == "==" && ft.Pos)
		case isConst(ft.A, "0") && isLocktime(ft.B): // !(0 < locktime)
			return (op == "<" && !ft.Pos) || (op == ">=" && ft.Pos)
		case isNow(ft.A) && isLocktime(ft.B): // now <= locktime
			return (op == "<=" && ft.Pos) || (op == ">" && !ft.Pos) || (op == "<" && ft.Pos)
		case isLocktime(ft.A) && isNow(ft.B): // !(locktime < now)
			return (op == "<" && !ft.Pos) || (op == ">=" && ft.Pos) || (op == ">" && ft.Pos)
		}
		return false
	}}
	n := 0
	for _, og := range c.OpContexts(f) {
		g := og.Fn
		if g.Parent() != nil {
			continue
		}
		lock := "P:" + f.Params[1].Name() + ".Data.Data"
		for _, b := range g.Blocks {
			if len(b.Instrs) == 0 {
				continue
			}
			ifi, ok := b.Instrs[len(b.Instrs)-1].(*ssa.If)
			if !ok {
				continue
			}
			ft := og.EdgeFact(Edge{b, 0})
			if ft == nil {
				continue
			}
			txt := ft.String()
			if !strings.Contains(txt, lock) && !strings.Contains(txt, ".Preimage") {
				continue
			}
			n++
			okE, why := c.RequireAt(ifi, notExpired)
			R.Check("R5", fk, "hash lock consulted <= lock not expired", c.P.InstrPos(ifi), okE,
				"the lock value and the preimage are examined only while the lock is not expired; after the locktime only the refund rule decides", why)
		}
	}
	if n == 0 {
		R.Check("R5", fk, "hash lock consulted <= lock not expired", c.P.Pos(f.Pos()), false, "the verifier examines the lock value somewhere", "no test of the lock value or the preimage found")
	}
}

// ruleSigAllOps: R4.
func (c *Ctx) ruleSigAllOps(rule string) {
	R := c.R
	swap := c.op(rule, "/v1/swap")
	melt := c.op(rule, "/v1/melt/{method}")
	if swap != nil {
		inputs, outputs := c.inputsOf(rule, swap), c.outputsOf(rule, swap)
		cd := &Cond{Name: "no SIG_ALL input, or outputs verified", Match: func(ft *Fact, _ *Origins) bool {
			if ft.Kind == "bool" && !ft.Pos && isCall(ft.A, fnSigAll) && exprIs(arg(ft.A, 0), inputs) {
				return true
			}
			if ft.Kind != "errnil" || !ft.Pos || !isCall(ft.A, "mint.verifyBlindedMessages") {
				return false
			}
			// the request's inputs and outputs are among the arguments, in this order (a logger or context argument
			// may have been added in front of or between them)
			ii, oi := -1, -1
			for i, a := range ft.A.Args {
				if ii < 0 && exprIs(a, inputs) {
					ii = i
				} else if oi < 0 && exprIs(a, outputs) {
					oi = i
				}
			}
			return ii >= 0 && oi > ii
		}}
		for _, s := range c.signerSites(swap) {
			ok, why := c.RequireAt(s.Instr, cd)
			R.Check(rule, c.P.FuncKey(swap), siteDesc(c, s)+" <= "+cd.Name, c.P.InstrPos(s.Instr), ok, "swap signs only when no input is SIG_ALL or the outputs carry the required signatures", why)
		}
	}
	if melt != nil {
		inputs := c.inputsOf(rule, melt)
		cd := &Cond{Name: "no SIG_ALL input", Match: func(ft *Fact, _ *Origins) bool {
			return ft.Kind == "bool" && !ft.Pos && isCall(ft.A, fnSigAll) && exprIs(arg(ft.A, 0), inputs)
		}}
		for _, s := range append(c.paySites(melt), c.roleSites(melt, roleSetMint)...) {
			ok, why := c.RequireAt(s.Instr, cd)
			R.Check(rule, c.P.FuncKey(melt), siteDesc(c, s)+" <= "+cd.Name, c.P.InstrPos(s.Instr), ok, "SIG_ALL inputs cannot be melted", why)
		}
	}
}

// ruleOutputVerifier: R5 (P2PK part) / C13.R2 (HTLC part).
func (c *Ctx) ruleOutputVerifier(rule string, htlc bool) {
	R := c.R
	f := c.fn(rule, "mint.verifyBlindedMessages")
	if f == nil {
		return
	}
	fk := c.P.FuncKey(f)
	o := c.P.OriginsOf(f)
	// parameters are found by their types: an added context / logger parameter does not move them
	proofs, outs := paramOfType(f, "cashu.Proofs", "P:"+f.Params[0].Name()), paramOfType(f, "cashu.BlindedMessages", "P:"+f.Params[len(f.Params)-1].Name())
	first := fnDeser + "#0(" + proofs + "[#0].Secret)"
	cur := fnDeser + "#0(elem(" + proofs + ").Secret)"
	outEl := "elem(" + outs + ")"
	sigs := func(e *Ex) bool {
		n := 0
		for _, a := range e.Alts() {
			if a.K == "zero" {
				continue
			}
			if isField(a, "Signatures") && a.Args[0].K == "out" && exprIs(arg(a.Args[0], 0), outEl+".Witness") {
				n++
				continue
			}
			return false
		}
		return n > 0
	}
	nsig := func(e *Ex, sec string) bool {
		for _, a := range e.Alts() {
			if !(isConst(a, "1") || a.String() == fnParseTags+"#0("+sec+".Data.Tags).NSigs") {
				return false
			}
		}
		return true
	}
	{
		// (shared by C12.R5 and C13.R2: a SIG_ALL request of HTLC inputs rests on the same agreement of its inputs)
		perProof := []*Cond{
			{Name: "input parses as a NUT-10 secret", ForAll: proofs, Match: func(ft *Fact, _ *Origins) bool {
				return ft.Kind == "errnil" && ft.Pos && isCall(ft.A, fnDeser) && ft.A.Idx == 1 && exprIs(arg(ft.A, 0), "elem("+proofs+").Secret")
			}},
			{Name: "input is SIG_ALL", ForAll: proofs, Match: func(ft *Fact, _ *Origins) bool {
				return ft.Kind == "bool" && ft.Pos && isCall(ft.A, fnIsSigAll) && exprIs(arg(ft.A, 0), cur)
			}},
			{Name: "same authorised keys as the first input", ForAll: proofs, Match: func(ft *Fact, _ *Origins) bool {
				if ft.Kind != "bool" || !ft.Pos || !isCall(ft.A, "reflect.DeepEqual") {
					return false
				}
				a, b := arg(ft.A, 0).String(), arg(ft.A, 1).String()
				w1, w2 := fnPubKeys+"#0("+first+")", fnPubKeys+"#0("+cur+")"
				return (a == w1 && b == w2) || (a == w2 && b == w1)
			}},
			{Name: "same n_sigs as the first input", ForAll: proofs, Match: func(ft *Fact, _ *Origins) bool {
				if ft.Kind != "cmp" || !ft.Pos || ft.Op.String() != "==" {
					return false
				}
				return (nsig(ft.A, first) && nsig(ft.B, cur) && strings.Contains(ft.B.String(), "elem(")) || (nsig(ft.B, first) && nsig(ft.A, cur) && strings.Contains(ft.A.String(), "elem("))
			}},
		}
		for _, cd := range perProof {
			for _, r := range o.SuccessReturns() {
				ok, why := o.Requires(r, cd)
				R.Check(rule, fk, "return nil <= forall input: "+cd.Name, c.P.InstrPos(r), ok, "the output verifier accepts only when every input ["+cd.Name+"]", why)
			}
		}
	}
	hashOut := func(e *Ex) bool {
		return isCall(e, fnSha256) && isCall(arg(e, 0), fnHexDecode) && arg(e, 0).Idx == 0 && exprIs(arg(arg(e, 0), 0), outEl+".B_")
	}
	perOut := []*Cond{
		{Name: "enough valid signatures over sha256(hex-decoded B_) by the authorised keys", ForAll: outs, Match: func(ft *Fact, _ *Origins) bool {
			if ft.Kind != "bool" || !ft.Pos || !isCall(ft.A, fnHVS) || len(ft.A.Args) != 4 {
				return false
			}
			return hashOut(ft.A.Args[0]) && sigs(ft.A.Args[1]) && nsig(ft.A.Args[2], first) && exprIs(ft.A.Args[3], fnPubKeys+"#0("+first+")")
		}},
		{Name: "no duplicate signatures", ForAll: outs, Match: func(ft *Fact, _ *Origins) bool {
			return ft.Kind == "bool" && !ft.Pos && isCall(ft.A, fnDupSigs) && sigs(arg(ft.A, 0))
		}},
	}
	if htlc {
		pre := func(e *Ex) bool {
			n := 0
			for _, a := range e.Alts() {
				if a.K == "zero" {
					continue
				}
				if isField(a, "Preimage") && a.Args[0].K == "out" && exprIs(arg(a.Args[0], 0), outEl+".Witness") {
					n++
					continue
				}
				return false
			}
			return n > 0
		}
		data := first + ".Data.Data"
		kindIsHTLC := func(ft *Fact) bool {
			return ft.Kind == "cmp" && ft.Op.String() == "==" && exprIs(ft.A, first+".Kind")
		}
		_ = kindIsHTLC
		// for outputs of an HTLC: either the kind is not HTLC (P2PK branch) or the preimage facts hold
		notHTLC := func(ft *Fact) bool {
			return ft.Kind == "cmp" && ft.Pos && ft.Op.String() == "==" && exprIs(ft.A, first+".Kind") && isConst(ft.B, "1")
		}
		perOut = []*Cond{
			{Name: "HTLC output: preimage hex-decodes", ForAll: outs, Match: func(ft *Fact, _ *Origins) bool {
				return notHTLC(ft) || (ft.Kind == "errnil" && ft.Pos && isCall(ft.A, fnHexDecode) && ft.A.Idx == 1 && pre(arg(ft.A, 0)))
			}},
			{Name: "HTLC output: lock value is 64 hex characters", ForAll: outs, Match: func(ft *Fact, _ *Origins) bool {
				return notHTLC(ft) || (ft.Kind == "cmp" && ft.Pos && ft.Op.String() == "==" && ft.A.K == "len" && exprIs(ft.A.Args[0], data) && isConst(ft.B, "64"))
			}},
			{Name: "HTLC output: hex(sha256(preimage bytes)) == lock value", ForAll: outs, Match: func(ft *Fact, _ *Origins) bool {
				if notHTLC(ft) {
					return true
				}
				if ft.Kind != "cmp" || !ft.Pos || ft.Op.String() != "==" {
					return false
				}
				isHash := func(e *Ex) bool {
					return isCall(e, fnHexEncode) && isCall(arg(e, 0), fnSha256) && isCall(arg(arg(e, 0), 0), fnHexDecode) && pre(arg(arg(arg(e, 0), 0), 0))
				}
				return (exprIs(ft.A, data) && isHash(ft.B)) || (exprIs(ft.B, data) && isHash(ft.A))
			}},
			perOut[0],
		}
	}
	for _, cd := range perOut {
		for _, r := range o.SuccessReturns() {
			ok, why := o.Requires(r, cd)
			R.Check(rule, fk, "return nil <= forall output: "+cd.Name, c.P.InstrPos(r), ok, "the output verifier accepts only when every output ["+cd.Name+"]", why)
		}
	}
}

// ruleHelperAgreement: R6 / C13.R3.
func (c *Ctx) ruleHelperAgreement(rule string, htlc bool) {
	R := c.R
	type helper struct {
		key  string
		want func(el string) string
	}
	inputsMsg := func(el string) string { return fnSha256 + "(" + el + ".Secret)" }
	outputsMsg := func(el string) string { return fnSha256 + "(" + fnHexDecode + "#0(" + el + ".B_))" }
	hs := []helper{
		{"cashu/nuts/nut11.AddSignatureToInputs", inputsMsg},
		{"cashu/nuts/nut11.AddSignatureToOutputs", outputsMsg},
	}
	if htlc {
		hs = []helper{
			{"cashu/nuts/nut14.AddWitnessHTLC", inputsMsg},
			{"cashu/nuts/nut14.AddWitnessHTLCToOutputs", outputsMsg},
			{"cashu/nuts/nut11.AddSignatureToOutputs", outputsMsg},
		}
	}
	for _, h := range hs {
		f := c.fn(rule, h.key)
		if f == nil {
			continue
		}
		el := "elem(P:" + f.Params[0].Name() + ")"
		n := 0
		// (the Sign call sits in the helper or in a function new on this tree that it hands the message to;
		// the message is read with this caller's arguments; an indexed element is the element)
		for _, o := range c.OpContexts(f) {
			for _, ci := range Calls(o.Fn) {
				d := c.P.Describe(ci)
				if d.Name != "schnorr.Sign" {
					continue
				}
				n++
				msg := o.Of(d.Args[1]).String()
				R.Check(rule, h.key, "signed message", c.P.InstrPos(ci), msg == h.want(el), "the helper signs the message the mint verifies ("+h.want("x")+")", "signs "+short(msg, 160))
			}
		}
		if n == 0 {
			R.Check(rule, h.key, "signed message", c.P.Pos(f.Pos()), false, "the helper signs the message the mint verifies", "no schnorr.Sign call found")
		}
	}
	if htlc {
		// the can-sign scan in AddWitnessHTLC: a flag that is only ever set to true on a match
		if f := c.P.Func("cashu/nuts/nut14.AddWitnessHTLC"); f != nil {
			o := c.P.OriginsOf(f)
			nFlag := 0
			for _, e := range o.AllEdges() {
				ft := o.EdgeFact(e)
				if ft == nil || ft.Kind != "bool" || e.Succ != 0 || ft.A == nil {
					continue
				}
				// a library scan is existential by construction
				if as := ft.A.String(); strings.HasPrefix(as, "slices.ContainsFunc") || strings.HasPrefix(as, "slices.Contains(") || strings.HasPrefix(as, "slices.IndexFunc") || strings.Contains(as, "slices.IndexFunc(") {
					nFlag++
					R.Check(rule, c.P.FuncKey(f), "can-sign scan is existential", c.P.InstrPos(e.From.Instrs[len(e.From.Instrs)-1]), true,
						"the holder may sign when ANY listed key is his (library scan)", "")
					continue
				}
				// a boolean flag variable (not a direct call result / parameter)
				if ft.A.K == "call" || ft.A.K == "param" || ft.A.K == "field" {
					continue
				}
				nFlag++
				str := ft.A.String()
				okFlag := str == "phi{#false | #true}"
				R.Check(rule, c.P.FuncKey(f), "can-sign scan is existential", c.P.InstrPos(e.From.Instrs[len(e.From.Instrs)-1]), okFlag,
					"the holder may sign when ANY listed key is his: the flag starts false, is set to true on a match and is never overwritten by a later comparison", "flag is "+short(str, 160))
			}
			if nFlag == 0 {
				R.Check(rule, c.P.FuncKey(f), "can-sign scan is existential", c.P.Pos(f.Pos()), false, "the helper decides by an existential scan whether the holder's key is listed", "no flag test found")
			}
		}
	}
}

// ruleKindDispatch: R7.
func (c *Ctx) ruleKindDispatch(rule string) {
	R := c.R
	f := c.fn(rule, "mint.(*Mint).verifyProofs")
	if f == nil {
		return
	}
	fk := c.P.FuncKey(f)
	inputsParam := paramOfType(f, "cashu.Proofs", "P:"+f.Params[1].Name())
	el := "elem(" + inputsParam + ")"
	sec := fnDeser + "#0(" + el + ".Secret)"
	// the signature check of an input, in the validator or in a helper of it that is new on this tree
	var verifies []ssa.CallInstruction
	for _, g := range c.OpFuncs(f) {
		for _, ci := range Calls(g) {
			if c.P.Describe(ci).Name == fnVerify {
				verifies = append(verifies, ci)
			}
		}
	}
	if len(verifies) == 0 {
		R.Unresolved(rule, "crypto.Verify call in "+fk, "not found")
		return
	}
	p2pk, _ := c.P.ConstVal("cashu/nuts/nut10", "P2PK")
	htlcK, _ := c.P.ConstVal("cashu/nuts/nut10", "HTLC")
	for _, k := range []struct{ name, val, fn string }{{"P2PK", p2pk, fnVerifyP2P}, {"HTLC", htlcK, fnVerifyHTL}} {
		// within one iteration the signature check is reached only when the secret did not parse as NUT-10,
		// is not of this kind, or the kind's lock verifier accepted (input, parsed secret)
		k := k
		cd := &Cond{Name: "not a " + k.name + " input, or its lock verifier succeeded", PerIteration: true, Match: func(ft *Fact, _ *Origins) bool {
			switch {
			case ft.Kind == "errnil" && !ft.Pos && exprIs(ft.A, fnDeser+"#1("+el+".Secret)"):
				return true // not a NUT-10 secret: a plain input
			case ft.Kind == "cmp" && ft.Op.String() == "==" && exprIs(ft.A, sec+".Kind") && ft.B.K == "const":
				// kind != k: the false edge of the test against k, or the true edge of a test against another kind
				return (!ft.Pos && isConst(ft.B, k.val)) || (ft.Pos && !isConst(ft.B, k.val))
			case ft.Kind == "errnil" && ft.Pos && isCall(ft.A, k.fn) && exprIs(arg(ft.A, 0), el) && exprIs(arg(ft.A, 1), sec):
				return true
			}
			return false
		}}
		// the kind is tested at all (otherwise "not of this kind" could never be established honestly)
		tested := false
		for _, og := range c.OpContexts(f) {
			for _, e := range og.AllEdges() {
				ft := og.EdgeFact(e)
				if ft != nil && ft.Kind == "cmp" && ft.Op.String() == "==" && exprIs(ft.A, sec+".Kind") && isConst(ft.B, k.val) {
					tested = true
				}
			}
		}
		if !tested {
			R.Check(rule, fk, k.name+" inputs dispatched", c.P.Pos(f.Pos()), false, "inputs of kind "+k.name+" are recognised", "no test of the parsed secret's kind against "+k.name)
			continue
		}
		for _, v := range verifies {
			ok, why := c.RequireAt(v, cd)
			R.Check(rule, fk, k.name+" input <= its verifier succeeded", c.P.InstrPos(v), ok, "an input of kind "+k.name+" is accepted only when "+k.fn+"(input, parsed secret) returned nil", why)
		}
		// and no input gets around the dispatch: the validator accepts only when this held for EVERY input
		// (an iteration that is skipped - a cache hit, a fast path - never asked the lock verifier)
		all := &Cond{Name: "every input: not a " + k.name + " input, or its lock verifier succeeded", ForAll: inputsParam, Match: cd.Match}
		okAll := c.P.OriginsOf(f).SuccessCut(all)
		R.Check(rule, fk, "accept <= every "+k.name+" input passed its verifier", c.P.Pos(f.Pos()), okAll,
			"the validator returns nil only when every input that is a "+k.name+" secret was accepted by "+k.fn, "a success return is reachable on which some input was not dispatched")
	}
}

// ruleSecretParserTotal: C12.R8 (shared C13). The mint treats "does not parse as a NUT-10 secret" as "plain
// secret, no spending condition". The parser must therefore not be narrower than the JSON it claims to read:
// every failure return of DeserializeSecret lies behind the json.Unmarshal of the complete secret text (a
// pre-filter on raw bytes - first character, length, prefix - classifies locked secrets that JSON-based
// wallets honour, e.g. with leading whitespace, as plain ones and skips every lock check).
func (c *Ctx) ruleSecretParserTotal(rule string) {
	R := c.R
	f := c.fn(rule, fnDeser)
	if f == nil {
		return
	}
	fk := c.P.FuncKey(f)
	o := c.P.OriginsOf(f)
	whole := "P:" + f.Params[0].Name()
	cut := NewCut()
	n := 0
	for _, g := range c.OpFuncs(f) {
		for _, ci := range Calls(g) {
			d := c.P.Describe(ci)
			if d.Name == "encoding/json.Unmarshal" && len(d.Args) == 2 && c.CtxOf(ci).Of(d.Args[0]).String() == whole {
				if in := c.siteIn(f, ci); in != nil {
					cut.Barriers[in] = true
					n++
				}
			}
		}
	}
	if n == 0 {
		R.Check(rule, fk, "whole secret handed to the JSON decoder", c.P.Pos(f.Pos()), false, "the parser decodes the complete secret text with json.Unmarshal", "no json.Unmarshal of the secret parameter")
		return
	}
	ok, why := true, ""
	for _, r := range Returns(f) {
		if reach, path := ReachFromEntry(f, r, cut); reach {
			ok = false
			why = "return at " + c.P.InstrPos(r) + " is reachable before the secret was handed to the JSON decoder: " + c.P.PathString(path)
		}
	}
	R.Check(rule, fk, "no classification before the JSON decoder", c.P.Pos(f.Pos()), ok, "every return of the parser lies behind json.Unmarshal of the complete secret", why)

	// what makes the parser answer "not a NUT-10 secret" (= plain secret, no lock is checked): only the failure
	// of a plain json.Unmarshal or a length test of the decoded array. A stricter decoder (Decoder options
	// such as DisallowUnknownFields) or a validation of the lock's content (hex, length of the data field ...)
	// would turn a locked secret that other implementations honour into an anyone-can-spend one.
	cause := NewCut()
	nCause := 0
	for _, e := range o.AllEdges() {
		ft := o.EdgeFact(e)
		if ft == nil {
			continue
		}
		switch {
		case ft.Kind == "errnil" && !ft.Pos && ft.A != nil && ft.A.K == "call" && ft.A.Call != nil && c.P.Describe(ft.A.Call).Name == "encoding/json.Unmarshal":
			cause.Edges[e] = true
			nCause++
		case ft.Kind == "cmp" && ft.A != nil && ft.B != nil && ft.A.K == "len" && ft.B.K == "const":
			// len(raw array) compared with a constant: the shape test (either edge may be the failing one)
			if t := ft.A.Args[0]; t != nil && strings.Contains(typeOfEx(t), "json.RawMessage") {
				cause.Edges[e] = true
				nCause++
			}
		}
	}
	okC, whyC := nCause > 0, "no JSON failure edge found"
	for _, r := range Returns(f) {
		if !o.IsFailureReturn(r) {
			continue
		}
		if reach, path := ReachFromEntry(f, r, cause); reach {
			okC = false
			whyC = "failure return at " + c.P.InstrPos(r) + " is reachable without a failing json.Unmarshal or a length test of the decoded array: " + c.P.PathString(path)
		}
	}
	// the decoder is the plain one: no json.Decoder in the parser
	for _, g := range c.OpFuncs(f) {
		for _, ci := range Calls(g) {
			if n := c.P.Describe(ci).Name; strings.HasPrefix(n, "encoding/json.(*Decoder).") || n == "encoding/json.NewDecoder" {
				okC = false
				whyC = "the parser uses a json.Decoder (" + n + " at " + c.P.InstrPos(ci) + "): decoder options can make it stricter than json.Unmarshal"
			}
			if g != f && c.P.IsNewFunc(g) {
				// failure causes inside helpers that are new on this tree are not followed
				for _, r := range Returns(g) {
					if c.P.OriginsOf(g).IsFailureReturn(r) && g.Signature.Results().Len() > 0 && IsErrorType(g.Signature.Results().At(g.Signature.Results().Len()-1).Type()) {
						okC = false
						whyC = "a helper new on this tree (" + g.Name() + ") can make the parser fail; its causes are not decided"
					}
				}
			}
		}
	}
	R.Check(rule, fk, "only JSON shape makes the parser refuse a secret", c.P.Pos(f.Pos()), okC,
		"a secret is classified as 'not NUT-10' (and then spendable without any lock check) only when plain json.Unmarshal fails or the decoded array is too short", whyC)
}

// typeOfEx names the static type of the value an expression was computed for ("" when unknown).
func typeOfEx(e *Ex) string {
	if e == nil || e.V == nil {
		return ""
	}
	return e.V.Type().String()
}

// ruleDecodeIntoFreshValue: a decoder (encoding/json, cbor) leaves the members of its destination that the input
// does not mention untouched. A destination that is decoded into once per iteration of a loop therefore has to be a
// fresh variable of that iteration (declared in the loop body) or be reset in the iteration before the decode;
// otherwise what an earlier element carried (a preimage, signatures) is seen again for an element that omits it.
// Examined: every decode call inside a loop in the functions that make up fn (the function, its closures, helpers
// new on this tree) whose destination is a local variable.
func (c *Ctx) ruleDecodeIntoFreshValue(rule string, fnKey string) {
	R := c.R
	f := c.fn(rule, fnKey)
	if f == nil {
		return
	}
	n := 0
	for _, g := range c.OpFuncs(f) {
		o := c.P.OriginsOf(g)
		for _, ci := range Calls(g) {
			d := c.P.Describe(ci)
			di := -1
			switch {
			case d.Name == "encoding/json.Unmarshal" || strings.HasSuffix(d.Name, "cbor.Unmarshal") || strings.HasSuffix(d.Name, "cbor/v2.Unmarshal"):
				di = 1
			case strings.HasSuffix(d.Name, ".Decode") && (strings.HasPrefix(d.Name, "encoding/json.") || strings.Contains(d.Name, "cbor")):
				di = 0
			}
			if di < 0 || di >= len(d.Args) {
				continue
			}
			l := o.Loops.InnermostContaining(ci.Block())
			if l == nil {
				continue
			}
			dst := d.Args[di]
			if mi, ok := dst.(*ssa.MakeInterface); ok {
				dst = mi.X
			}
			root, _ := addrRoot(dst)
			al, ok := root.(*ssa.Alloc)
			if !ok {
				continue // not a local variable of this function
			}
			n++
			fresh := l.Blocks[al.Block()]
			why := ""
			if !fresh {
				// reset in the iteration: a store of a whole value to the variable on every path from the body entry to the decode
				cut := NewCut()
				for _, b := range g.Blocks {
					if !l.Blocks[b] {
						continue
					}
					for _, in := range b.Instrs {
						if st, ok := in.(*ssa.Store); ok && st.Addr == ssa.Value(al) {
							cut.Barriers[st] = true
						}
					}
				}
				body := l.Header.Succs[l.BodySucc]
				reach, path := Reach(Point{body, 0}, PointOf(ci), cut)
				fresh = !reach && len(cut.Barriers) > 0
				if !fresh {
					why = "the destination is declared outside the loop and not reset in the iteration (members the input omits keep what an earlier element set): " + c.P.PathString(path)
				}
			}
			R.Check(rule, c.P.FuncKey(g), "decode into a fresh value each iteration ("+short(o.Of(d.Args[0]).String(), 60)+")", c.P.InstrPos(ci), fresh,
				"a value decoded once per element starts from the zero value for every element", why)
		}
	}
	_ = n
}

// paramOfType: "P:<name>" of the first parameter of f whose type prints with the given suffix; def when none.
func paramOfType(f *ssa.Function, suffix, def string) string {
	for _, p := range f.Params {
		if strings.HasSuffix(p.Type().String(), suffix) {
			return "P:" + p.Name()
		}
	}
	return def
}
