package nc

import (
	"sort"
	"strconv"
	"strings"

	"golang.org/x/tools/go/ssa"
)

// Lin is a linear form over opaque atoms (provenance expressions), in mathematical integers:
// sum(Coef[a]*a) + Const. Raw records machine additions/subtractions that were folded in
// (they may wrap); Checked records calls of the repository's checked helpers whose result was
// used (exact only on the edge where their overflow flag is false).
type Lin struct {
	Coef    map[string]int
	Atom    map[string]*Ex
	Const   int64
	Raw     []*Ex // bin + / - expressions folded (with the sign under which they occur)
	RawSign []int
	Checked []*Ex // helper call expressions (result #0) folded
	Strict  bool
}

const (
	fnOverflowAdd  = "cashu.OverflowAddUint64"
	fnUnderflowSub = "cashu.UnderflowSubUint64"
)

func newLin() *Lin { return &Lin{Coef: map[string]int{}, Atom: map[string]*Ex{}} }

func (l *Lin) add(e *Ex, sign int) {
	if e == nil {
		return
	}
	switch {
	case e.K == "const":
		if v, err := strconv.ParseInt(e.S, 10, 64); err == nil {
			l.Const += int64(sign) * v
			return
		}
	case e.K == "bin" && e.S == "+":
		l.Raw = append(l.Raw, e)
		l.RawSign = append(l.RawSign, sign)
		l.add(e.Args[0], sign)
		l.add(e.Args[1], sign)
		return
	case e.K == "bin" && e.S == "-":
		l.Raw = append(l.Raw, e)
		l.RawSign = append(l.RawSign, sign)
		l.add(e.Args[0], sign)
		l.add(e.Args[1], -sign)
		return
	case e.K == "call" && e.S == fnOverflowAdd && e.Idx == 0 && len(e.Args) == 2:
		l.Checked = append(l.Checked, e)
		l.add(e.Args[0], sign)
		l.add(e.Args[1], sign)
		return
	case e.K == "call" && e.S == fnUnderflowSub && e.Idx == 0 && len(e.Args) == 2:
		l.Checked = append(l.Checked, e)
		l.add(e.Args[0], sign)
		l.add(e.Args[1], -sign)
		return
	}
	k := e.String()
	l.Coef[k] += sign
	l.Atom[k] = e
	if l.Coef[k] == 0 {
		delete(l.Coef, k)
	}
}

// linOfFact turns a comparison fact into "form >= 0" (Strict: form > 0). Returns nil for other facts.
func linOfFact(f *Fact) *Lin {
	if f == nil || f.Kind != "cmp" || !f.Pos {
		return nil
	}
	l := newLin()
	switch f.Op.String() {
	case "<=": // A <= B  ==>  B - A >= 0
		l.add(f.B, 1)
		l.add(f.A, -1)
	case "<":
		l.add(f.B, 1)
		l.add(f.A, -1)
		l.Strict = true
	default:
		return nil
	}
	return l
}

type atomReq struct {
	name string
	coef int
	pred func(*Ex) bool
}

// match reports whether the form consists exactly of the required atoms with the required
// coefficients and a constant that does not weaken the inequality (form >= 0 with Const <= 0).
func (l *Lin) match(reqs []atomReq) (bool, map[string]*Ex) {
	if l == nil || len(l.Coef) != len(reqs) {
		return false, nil
	}
	used := map[string]bool{}
	bound := map[string]*Ex{}
	for _, r := range reqs {
		found := false
		var keys []string
		for k := range l.Coef {
			keys = append(keys, k)
		}
		sort.Strings(keys)
		for _, k := range keys {
			if used[k] || l.Coef[k] != r.coef || !r.pred(l.Atom[k]) {
				continue
			}
			used[k] = true
			bound[r.name] = l.Atom[k]
			found = true
			break
		}
		if !found {
			return false, nil
		}
	}
	// form + Const >= 0 must imply form_required >= 0: Const <= 0 (or strict with Const <= 1)
	if l.Const > 0 && !(l.Strict && l.Const <= 1) {
		return false, nil
	}
	return true, bound
}

func (l *Lin) String() string {
	var ks []string
	for k, c := range l.Coef {
		ks = append(ks, strconv.Itoa(c)+"*"+k)
	}
	sort.Strings(ks)
	op := ">="
	if l.Strict {
		op = ">"
	}
	return strings.Join(ks, " + ") + " + " + strconv.FormatInt(l.Const, 10) + " " + op + " 0"
}

// isWholeSum recognises acc(+; 0; elem(X).field): the raw sum of a field over the whole range of X.
func isWholeSum(e *Ex, x, field string) bool {
	if e != nil && e.K == "call" && e.Call != nil && (e.Idx == 0 || e.Idx == -1) {
		// a call of a module function that is itself the whole-list sum of that field over its first parameter
		// (cashu.Proofs.Amount): the call stands for the sum over its argument
		if f := e.Call.Common().StaticCallee(); f != nil && sumFuncField(f) == field && field != "" {
			return exprIs(arg(e, 0), x)
		}
		return false
	}
	if e == nil || e.K != "acc" || e.S != "+" || len(e.Args) != 2 {
		return false
	}
	if !isConst(e.Args[0], "0") {
		return false
	}
	return isField(e.Args[1], field) && exprIs(e.Args[1].Args[0], "elem("+x+")")
}

// flagFalseCond: the overflow/underflow flag (result #1) of the given checked-helper call is false.
func flagFalseCond(helper *Ex) *Cond {
	want := helper.Call
	return &Cond{Name: "no overflow/underflow in " + short(helper.String(), 70), Match: func(f *Fact, o *Origins) bool {
		return f.Kind == "bool" && !f.Pos && f.A.K == "call" && f.A.Call == want && f.A.Idx == 1
	}}
}

// theProgram is the program under analysis (set by Load).
var theProgram *Program

var sumFuncMemo = map[*ssa.Function]string{}

// sumFuncField returns F when every return of the module function f yields 0 + sum of elem(first parameter).F
// over the whole list (a plain summing helper), else "".
func sumFuncField(f *ssa.Function) string {
	if v, ok := sumFuncMemo[f]; ok {
		return v
	}
	sumFuncMemo[f] = ""
	p := theProgram
	if p == nil || f.Blocks == nil || f.Pkg == nil || !p.InModule(f.Pkg.Pkg.Path()) || len(f.Params) == 0 || f.Signature.Results().Len() != 1 {
		return ""
	}
	o := p.OriginsOf(f)
	field := ""
	rets := Returns(f)
	for _, r := range rets {
		e := o.Of(r.Results[0])
		if e == nil || e.K != "acc" || e.S != "+" || len(e.Args) != 2 || !isConst(e.Args[0], "0") || e.Args[1].K != "field" ||
			!exprIs(e.Args[1].Args[0], "elem(P:"+f.Params[0].Name()+")") {
			return ""
		}
		if field != "" && field != e.Args[1].S {
			return ""
		}
		field = e.Args[1].S
	}
	if len(rets) == 0 {
		return ""
	}
	sumFuncMemo[f] = field
	return field
}

var _ ssa.Value
