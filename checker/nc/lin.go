package nc

import (
	"sort"
	"strconv"
	"strings"

	"golang.org/x/tools/go/ssa"
)

// Lin is a linear form over opaque atoms (provenance expressions), in mathematical integers:
// sum(Coef[a]*a) + Const. Raw records machine additions/subtractions that were folded in
// (they may wrap); Checked records calls of the repository's checked helpers whose result was
// used (exact only on the edge where their overflow flag is false).
type Lin struct {
	Coef    map[string]int
	Atom    map[string]*Ex
	Const   int64
	Raw     []*Ex // bin + / - expressions folded (with the sign under which they occur)
	RawSign []int
	Checked []*Ex // helper call expressions (result #0) folded
	Strict  bool
}

const (
	fnOverflowAdd  = "cashu.OverflowAddUint64"
	fnUnderflowSub = "cashu.UnderflowSubUint64"
)

func newLin() *Lin { return &Lin{Coef: map[string]int{}, Atom: map[string]*Ex{}} }

func (l *Lin) add(e *Ex, sign int) {
	if e == nil {
		return
	}
	switch {
	case e.K == "const":
		if v, err := strconv.ParseInt(e.S, 10, 64); err == nil {
			l.Const += int64(sign) * v
			return
		}
	case e.K == "bin" && e.S == "+":
		l.Raw = append(l.Raw, e)
		l.RawSign = append(l.RawSign, sign)
		l.add(e.Args[0], sign)
		l.add(e.Args[1], sign)
		return
	case e.K == "bin" && e.S == "-":
		l.Raw = append(l.Raw, e)
		l.RawSign = append(l.RawSign, sign)
		l.add(e.Args[0], sign)
		l.add(e.Args[1], -sign)
		return
	case e.K == "call" && e.S == fnOverflowAdd && e.Idx == 0 && len(e.Args) == 2:
		l.Checked = append(l.Checked, e)
		l.add(e.Args[0], sign)
		l.add(e.Args[1], sign)
		return
	case e.K == "call" && e.S == fnUnderflowSub && e.Idx == 0 && len(e.Args) == 2:
		l.Checked = append(l.Checked, e)
		l.add(e.Args[0], sign)
		l.add(e.Args[1], -sign)
		return
	}
	k := e.String()
	l.Coef[k] += sign
	l.Atom[k] = e
	if l.Coef[k] == 0 {
		delete(l.Coef, k)
	}
}

// linOfFact turns a comparison fact into "form >= 0" (Strict: form > 0). Returns nil for other facts.
func linOfFact(f *Fact) *Lin {
	if f == nil || f.Kind != "cmp" || !f.Pos {
		return nil
	}
	l := newLin()
	switch f.Op.String() {
	case "<=": // A <= B  ==>  B - A >= 0
		l.add(f.B, 1)
		l.add(f.A, -1)
	case "<":
		l.add(f.B, 1)
		l.add(f.A, -1)
		l.Strict = true
	default:
		return nil
	}
	return l
}

type atomReq struct {
	name string
	coef int
	pred func(*Ex) bool
}

// match reports whether the form consists exactly of the required atoms with the required
// coefficients and a constant that does not weaken the inequality (form >= 0 with Const <= 0).
func (l *Lin) match(reqs []atomReq) (bool, map[string]*Ex) {
	if l == nil || len(l.Coef) != len(reqs) {
		return false, nil
	}
	used := map[string]bool{}
	bound := map[string]*Ex{}
	for _, r := range reqs {
		found := false
		var keys []string
		for k := range l.Coef {
			keys = append(keys, k)
		}
		sort.Strings(keys)
		for _, k := range keys {
			if used[k] || l.Coef[k] != r.coef || !r.pred(l.Atom[k]) {
				continue
			}
			used[k] = true
			bound[r.name] = l.Atom[k]
			found = true
			break
		}
		if !found {
			return false, nil
		}
	}
	// form + Const >= 0 must imply form_required >= 0: Const <= 0 (or strict with Const <= 1)
	if l.Const > 0 && !(l.Strict && l.Const <= 1) {
		return false, nil
	}
	return true, bound
}

func (l *Lin) String() string {
	var ks []string
	for k, c := range l.Coef {
		ks = append(ks, strconv.Itoa(c)+"*"+k)
	}
	sort.Strings(ks)
	op := ">="
	if l.Strict {
		op = ">"
	}
	return strings.Join(ks, " + ") + " + " + strconv.FormatInt(l.Const, 10) + " " + op + " 0"
}

// isWholeSum recognises acc(+; 0; elem(X).field): the raw sum of a field over the whole range of X.
func isWholeSum(e *Ex, x, field string) bool {
	if e != nil && e.K == "call" && e.Call != nil && (e.Idx == 0 || e.Idx == -1) {
		// a call of a module function that is itself the whole-list sum of that field over its first parameter
		// (cashu.Proofs.Amount): the call stands for the sum over its argument
		if f := e.Call.Common().StaticCallee(); f != nil && sumFuncField(f) == field && field != "" {
			return exprIs(arg(e, 0), x)
		}
		return false
	}
	if e == nil || e.K != "acc" || e.S != "+" || len(e.Args) != 2 {
		return false
	}
	if !isConst(e.Args[0], "0") {
		return false
	}
	return isField(e.Args[1], field) && exprIs(e.Args[1].Args[0], "elem("+x+")")
}

// flagFalseCond: the overflow/underflow flag (result #1) of the given checked-helper call is false.
func flagFalseCond(helper *Ex) *Cond {
	want := helper.Call
	return &Cond{Name: "no overflow/underflow in " + short(helper.String(), 70), Match: func(f *Fact, o *Origins) bool {
		return f.Kind == "bool" && !f.Pos && f.A.K == "call" && f.A.Call == want && f.A.Idx == 1
	}}
}

// theProgram is the program under analysis (set by Load).
var theProgram *Program

var sumFuncMemo = map[*ssa.Function]string{}

// sumFuncField returns F when every return of the module function f yields 0 + sum of elem(first parameter).F
// over the whole list (a plain summing helper), else "".
func sumFuncField(f *ssa.Function) string {
	if v, ok := sumFuncMemo[f]; ok {
		return v
	}
	sumFuncMemo[f] = ""
	p := theProgram
	if p == nil || f.Blocks == nil || f.Pkg == nil || !p.InModule(f.Pkg.Pkg.Path()) || len(f.Params) == 0 || f.Signature.Results().Len() != 1 {
		return ""
	}
	o := p.OriginsOf(f)
	field := ""
	rets := Returns(f)
	for _, r := range rets {
		e := o.Of(r.Results[0])
		if e == nil || e.K != "acc" || e.S != "+" || len(e.Args) != 2 || !isConst(e.Args[0], "0") || e.Args[1].K != "field" ||
			!exprIs(e.Args[1].Args[0], "elem(P:"+f.Params[0].Name()+")") {
			return ""
		}
		if field != "" && field != e.Args[1].S {
			return ""
		}
		field = e.Args[1].S
	}
	if len(rets) == 0 {
		return ""
	}
	sumFuncMemo[f] = field
	return field
}

var _ ssa.Value

// ruleCheckedArithmetic verifies the three helpers whose success edges the balance guards (C02.R1-R3, C03.R8)
// take as exact arithmetic:
//   - OverflowAddUint64(a, b): a return with flag false returns a+b and lies behind "the sum did not wrap"
//     (!(a+b < a) or !(a+b < b), or the carry of bits.Add64(a, b, 0) is zero);
//   - UnderflowSubUint64(a, b): a return with flag false returns a-b and lies behind !(a < b);
//   - AmountChecked: whole-range loop over the list, the running total is only ever the checked sum of the
//     previous total and the element's amount, and the next element (or the success return) is reached only when
//     THAT addition's overflow flag was false - the flag is tested once per addition, not once after the loop.
func (c *Ctx) ruleCheckedArithmetic(rule string) {
	R := c.R
	if f := c.fn(rule, "cashu.OverflowAddUint64"); f != nil {
		fk := c.P.FuncKey(f)
		o := c.P.OriginsOf(f)
		a, b := "P:"+f.Params[0].Name(), "P:"+f.Params[1].Name()
		sum1, sum2 := "("+a+" + "+b+")", "("+b+" + "+a+")"
		isSum := func(e *Ex) bool { return e != nil && (e.String() == sum1 || e.String() == sum2) }
		isAdd64 := func(e *Ex, idx int) bool {
			return e != nil && isCall(e, "math/bits.Add64") && e.Idx == idx &&
				((exprIs(arg(e, 0), a) && exprIs(arg(e, 1), b)) || (exprIs(arg(e, 0), b) && exprIs(arg(e, 1), a))) && isConst(arg(e, 2), "0")
		}
		noWrap := &Cond{Name: "the sum did not wrap", Match: func(ft *Fact, _ *Origins) bool {
			if ft.Kind != "cmp" {
				return false
			}
			op := ft.Op.String()
			// sum < a (or b): false edge; a <= sum: true edge (the engine normalises operand order)
			if isSum(ft.A) && (exprIs(ft.B, a) || exprIs(ft.B, b)) {
				return (op == "<" && !ft.Pos) || (op == ">=" && ft.Pos)
			}
			if isSum(ft.B) && (exprIs(ft.A, a) || exprIs(ft.A, b)) {
				return (op == ">" && !ft.Pos) || (op == "<=" && ft.Pos)
			}
			if isAdd64(ft.A, 1) && isConst(ft.B, "0") {
				return (op == "==" && ft.Pos) || (op == "!=" && !ft.Pos)
			}
			return false
		}}
		n := 0
		for _, r := range Returns(f) {
			if len(r.Results) != 2 || !isConst(o.Of(r.Results[1]), "false") {
				if len(r.Results) == 2 && !isConst(o.Of(r.Results[1]), "true") {
					R.Undecided(rule, fk, "overflow flag is a constant per return", c.P.InstrPos(r), "checked addition", "flag is "+short(o.Of(r.Results[1]).String(), 80))
				}
				continue
			}
			n++
			v := o.Of(r.Results[0])
			okV := isSum(v) || isAdd64(v, 0)
			R.Check(rule, fk, "no-overflow answer returns a + b", c.P.InstrPos(r), okV, "the value returned with flag false is the sum of the two arguments", short(v.String(), 100))
			ok, why := o.Requires(r, noWrap)
			R.Check(rule, fk, "no-overflow answer <= the sum did not wrap", c.P.InstrPos(r), ok, "flag false is returned only when a + b did not wrap around", why)
		}
		if n == 0 {
			R.Check(rule, fk, "no-overflow answer exists", c.P.Pos(f.Pos()), false, "the helper can answer 'no overflow'", "no return with flag false")
		}
	}
	if f := c.fn(rule, "cashu.UnderflowSubUint64"); f != nil {
		fk := c.P.FuncKey(f)
		o := c.P.OriginsOf(f)
		a, b := "P:"+f.Params[0].Name(), "P:"+f.Params[1].Name()
		noUnder := &Cond{Name: "b <= a", Match: func(ft *Fact, _ *Origins) bool {
			if ft.Kind != "cmp" {
				return false
			}
			op := ft.Op.String()
			if exprIs(ft.A, a) && exprIs(ft.B, b) {
				return (op == "<" && !ft.Pos) || (op == ">=" && ft.Pos)
			}
			if exprIs(ft.A, b) && exprIs(ft.B, a) {
				return (op == ">" && !ft.Pos) || (op == "<=" && ft.Pos)
			}
			return false
		}}
		n := 0
		for _, r := range Returns(f) {
			if len(r.Results) != 2 || !isConst(o.Of(r.Results[1]), "false") {
				continue
			}
			n++
			v := o.Of(r.Results[0])
			R.Check(rule, fk, "no-underflow answer returns a - b", c.P.InstrPos(r), v.String() == "("+a+" - "+b+")", "the value returned with flag false is the difference of the two arguments", short(v.String(), 100))
			ok, why := o.Requires(r, noUnder)
			R.Check(rule, fk, "no-underflow answer <= b <= a", c.P.InstrPos(r), ok, "flag false is returned only when b <= a", why)
		}
		if n == 0 {
			R.Check(rule, fk, "no-underflow answer exists", c.P.Pos(f.Pos()), false, "the helper can answer 'no underflow'", "no return with flag false")
		}
	}
	if f := c.fn(rule, fnAmountChecked); f != nil {
		fk := c.P.FuncKey(f)
		o := c.P.OriginsOf(f)
		list := "P:" + f.Params[0].Name()
		el := "elem(" + list + ").Amount"
		// the running total: 0, then the checked sum of (itself, element amount)
		var addCall ssa.CallInstruction
		for _, ci := range Calls(f) {
			if c.P.Describe(ci).Name == "cashu.OverflowAddUint64" {
				if addCall != nil {
					addCall = nil
					break
				}
				addCall = ci
			}
		}
		if addCall == nil {
			R.Check(rule, fk, "sum built with the checked addition", c.P.Pos(f.Pos()), false, "the total is accumulated with exactly one OverflowAddUint64 call per element", "no (or more than one) OverflowAddUint64 call")
			return
		}
		d := c.P.Describe(addCall)
		a0, a1 := o.Of(d.Args[0]), o.Of(d.Args[1])
		okAcc := a1.String() == el && strings.Contains(a0.String(), "phi{#0 | cashu.OverflowAddUint64#0(self:") && o.Loops.InnermostContaining(addCall.Block()) != nil
		R.Check(rule, fk, "running total = checked sum of the previous total and the element's amount", c.P.InstrPos(addCall), okAcc,
			"each element's amount is added to the running total (starting at 0) with the checked addition", "adds "+short(a1.String(), 60)+" to "+short(a0.String(), 100))
		// per element: the flag of that addition is false before the next element / the success return
		flagFalse := &Cond{Name: "overflow flag of the addition is false", ForAll: list, Match: func(ft *Fact, _ *Origins) bool {
			return ft.Kind == "bool" && !ft.Pos && ft.A != nil && ft.A.K == "call" && ft.A.Call == addCall && ft.A.Idx == 1
		}}
		R.Check(rule, fk, "every addition's overflow flag is tested before the next element", c.P.InstrPos(addCall), o.SuccessCut(flagFalse),
			"success is returned only when, for every element of the whole list, the addition of that element reported no overflow", "a success return is reachable without the per-element flag test")
		for _, r := range o.SuccessReturns() {
			v := o.Of(r.Results[0])
			okR := strings.Contains(v.String(), "cashu.OverflowAddUint64#0(self:") && strings.Contains(v.String(), el)
			R.Check(rule, fk, "success returns the running total", c.P.InstrPos(r), okR, "the value returned with a nil error is the accumulated checked sum", short(v.String(), 120))
		}
	}
}
