package nc

import (
	"fmt"
	"go/ast"
	"go/constant"
	"go/token"
	"go/types"
	"sort"
	"strconv"
	"strings"

	"golang.org/x/tools/go/packages"

	"golang.org/x/tools/go/ssa"
)

func init() {
	register("C20", "Decides (R1) JSON addressability: every json.Marshal in a route handler, the error writer and the websocket notifier reaches "+
		"the pointer-receiver marshalers of the state-carrying types (a value in a non-addressable position would silently be encoded with "+
		"numeric states); (R2) the String()/StringToState tables of the three state enums are inverse and every case returns a distinct "+
		"constant; key maps are emitted sorted; (R3) error provenance: (a) every error an operation can return to a handler that forwards "+
		"it is a repository error value or BuildCashuError result — no driver/foreign error reaches the response; (b) internal codes "+
		"(storage, Lightning) are only ever created through BuildCashuError (a pointer, so the handlers' type assertion sees them) and every "+
		"handler masks each internal code its operation can produce before forwarding an error; (c) the reject edge of each validation "+
		"guard returns the repository's error value for that cause, and the values' numeric codes equal the reference table of the pinned "+
		"tree; (R4) NUT-19 cache: only the swap and mint handlers use a body-derived key, the look-up precedes the operation and a hit "+
		"returns without calling it, look-up and store use the same key Method + URL + raw body, the store happens only after the operation "+
		"and the marshalling succeeded and stores the very bytes written; (R5) the error writer sends status 400 before the body and success "+
		"paths never set a status. Byte-level bodies and key-space disjointness between the two caches are not decided.", rulesC20)
}

// ptrMarshalers: named module types whose MarshalJSON has a pointer receiver only.
func (c *Ctx) ptrMarshalers() map[*types.Named]bool {
	out := map[*types.Named]bool{}
	for _, pkg := range c.P.Pkgs {
		sc := pkg.Types.Scope()
		for _, name := range sc.Names() {
			tn, ok := sc.Lookup(name).(*types.TypeName)
			if !ok {
				continue
			}
			n, ok := tn.Type().(*types.Named)
			if !ok {
				continue
			}
			valHas, ptrHas := false, false
			ms := types.NewMethodSet(n)
			for i := 0; i < ms.Len(); i++ {
				if ms.At(i).Obj().Name() == "MarshalJSON" {
					valHas = true
				}
			}
			ps := types.NewMethodSet(types.NewPointer(n))
			for i := 0; i < ps.Len(); i++ {
				if ps.At(i).Obj().Name() == "MarshalJSON" {
					ptrHas = true
				}
			}
			if ptrHas && !valHas {
				out[n] = true
			}
		}
	}
	return out
}

// unaddressable walks a static type the way encoding/json does and reports pointer-receiver marshaler
// types reached through non-addressable positions.
func unaddressable(t types.Type, addressable bool, path string, pm map[*types.Named]bool, seen map[string]bool, hit func(string)) {
	key := fmt.Sprintf("%s/%v", t.String(), addressable)
	if seen[key] {
		return
	}
	seen[key] = true
	if n, ok := t.(*types.Named); ok && pm[n] && !addressable {
		hit(path + " (" + n.Obj().Name() + ")")
	}
	switch u := t.Underlying().(type) {
	case *types.Pointer:
		unaddressable(u.Elem(), true, path, pm, seen, hit)
	case *types.Slice:
		unaddressable(u.Elem(), true, path+"[]", pm, seen, hit)
	case *types.Array:
		unaddressable(u.Elem(), addressable, path+"[]", pm, seen, hit)
	case *types.Map:
		unaddressable(u.Elem(), false, path+"[k]", pm, seen, hit)
	case *types.Struct:
		for i := 0; i < u.NumFields(); i++ {
			if !u.Field(i).Exported() {
				continue
			}
			unaddressable(u.Field(i).Type(), addressable, path+"."+u.Field(i).Name(), pm, seen, hit)
		}
	case *types.Interface:
	}
}

func rulesC20(c *Ctx) {
	R := c.R
	R.Rule("R1", "every json.Marshal on the response paths reaches the pointer-receiver marshalers", 14)
	R.Rule("R2", "state enum tables inverse; key maps sorted", 4)
	R.Rule("R3", "error provenance: no foreign error forwarded, internal codes only via BuildCashuError and masked, cause -> error value -> code", 40)
	R.Rule("R4", "NUT-19 cache discipline", 12)
	R.Rule("R5", "status 400 before the body in the error writer; no status on success paths", 2)
	R.Rule("R7", "list-valued answers are JSON arrays, never null: the lists the restore and state-check operations return on success are built on an allocated (possibly empty) slice", 3)
	R.Rule("R6", "a refusal is never answered with success: in the mint, its storage and Lightning layers and the protocol packages the error of every call is tested nil, classified or handed on before any return that may report success (sites where continuing is intended are a frozen table)", 100)
	R.Rule("R9", "a refusal carries an error: a return of the mint that hands out nothing takes its error from a constant, a variable tested non-nil or a function that never returns nil", 1)
	c.ruleRefusalCarriesError("R9", []string{"mint", "mint/storage/sqlite", "mint/lightning", "cashu"}, 0)
	R.Rule("R8", "optional members stay optional: a stored signature without DLEQ columns (NULL) is restored without a dleq member - the readers set a DLEQ only behind Valid of both nullable columns", 4)
	c.ruleNullableDLEQ("R8")
	c.c20ListsNeverNull()
	c.ruleErrorDisciplinePkgs("R6", []string{"mint", "mint/storage/*", "mint/lightning", "mint/manager", "mint/pubsub", "cashu", "cashu/*", "crypto"}, errToleratedMint, 100)
	c.vocabProblems("R1")
	pm := c.ptrMarshalers()

	// ---- R1
	var scope []*ssa.Function
	for _, r := range c.V.Routes {
		scope = append(scope, r.Handler)
	}
	for _, f := range c.P.Funcs {
		if f.Pkg == nil || c.V.CoreType == nil || f.Pkg.Pkg != c.V.CoreType.Obj().Pkg() {
			continue
		}
		n := f.Name()
		if n == "writeErr" || strings.Contains(strings.ToLower(c.P.Pos(f.Pos())), "websocket") || strings.HasPrefix(n, "publish") {
			scope = append(scope, f)
		}
	}
	// core operations publish JSON too
	for _, f := range c.P.Funcs {
		if f.Signature.Recv() != nil && c.V.CoreType != nil {
			rt := f.Signature.Recv().Type()
			if pt, ok := rt.(*types.Pointer); ok {
				rt = pt.Elem()
			}
			if rt == types.Type(c.V.CoreType) {
				scope = append(scope, f)
			}
		}
	}
	seenFn := map[*ssa.Function]bool{}
	for _, f := range scope {
		for _, g := range WithClosures(f) {
			if seenFn[g] {
				continue
			}
			seenFn[g] = true
			for _, ci := range Calls(g) {
				d := c.P.Describe(ci)
				if d.Name != "encoding/json.Marshal" && d.Name != "encoding/json.(*Encoder).Encode" && !strings.HasSuffix(d.Name, ").WriteJSON") {
					continue
				}
				v := UnwrapConv(d.Args[len(d.Args)-1])
				t := v.Type()
				if _, isIface := t.Underlying().(*types.Interface); isIface {
					// marshalling an interface value (the error writer): dynamic type; covered by R3 (only cashu errors arrive)
					R.Trivial("R1", c.P.FuncKey(g), "json.Marshal of interface value", c.P.InstrPos(ci), "dynamic type decided by the error provenance rule")
					continue
				}
				var bad []string
				unaddressable(t, false, typeShort(c.P, t), pm, map[string]bool{}, func(p string) { bad = append(bad, p) })
				R.Check("R1", c.P.FuncKey(g), "json.Marshal("+typeShort(c.P, t)+") addressability", c.P.InstrPos(ci), len(bad) == 0,
					"every pointer-receiver MarshalJSON reachable from the marshalled type sits in an addressable position (pointer, slice element)", "not addressable: "+strings.Join(bad, ", "))
			}
		}
	}

	// ---- R2
	for _, pkg := range []string{"cashu/nuts/nut04", "cashu/nuts/nut05", "cashu/nuts/nut07"} {
		c.ruleEnumTables("R2", pkg)
	}
	if f := c.fn("R2", "crypto.(PublicKeys).MarshalJSON"); f != nil {
		okSort := false
		for _, g := range c.OpFuncs(f) {
			for _, ci := range Calls(g) {
				n := c.P.Describe(ci).Name
				if strings.HasPrefix(n, "slices.Sort") || strings.HasPrefix(n, "sort.") {
					okSort = true
				}
			}
		}
		R.Check("R2", c.P.FuncKey(f), "amounts sorted before emission", c.P.Pos(f.Pos()), okSort, "the key map is emitted in ascending order of amount", "")
	}

	c.c20Errors()
	c.c20Cache()
	c.c20CacheStore()
	c.c20Status()
}

// ruleEnumTables: String() and StringToState of a state enum are inverse tables (shared: C20.R2, C03.R9, C05).
func (c *Ctx) ruleEnumTables(rule, pkg string) {
	R := c.R
	str := c.P.Func(pkg + ".(State).String")
	parse := c.P.Func(pkg + ".StringToState")
	if str == nil || parse == nil {
		R.Unresolved(rule, pkg+" state tables", "String or StringToState not found")
		return
	}
	// String: state == c -> "S"
	so := c.P.OriginsOf(str)
	fwd := map[string]string{}
	for _, e := range so.AllEdges() {
		ft := so.EdgeFact(e)
		if ft == nil || ft.Kind != "cmp" || !ft.Pos || ft.Op.String() != "==" || ft.B.K != "const" {
			continue
		}
		if r, ok := e.To().Instrs[len(e.To().Instrs)-1].(*ssa.Return); ok {
			if cst, ok := r.Results[0].(*ssa.Const); ok {
				fwd[ft.B.S] = ConstString(cst)
			}
		}
	}
	po := c.P.OriginsOf(parse)
	back := map[string]string{}
	for _, e := range po.AllEdges() {
		ft := po.EdgeFact(e)
		if ft == nil || ft.Kind != "cmp" || !ft.Pos || ft.Op.String() != "==" || ft.B.K != "const" {
			continue
		}
		if r, ok := e.To().Instrs[len(e.To().Instrs)-1].(*ssa.Return); ok {
			if cst, ok := r.Results[0].(*ssa.Const); ok {
				back[ft.B.S] = ConstString(cst)
			}
		}
	}
	// table form: one package-level array / slice of names indexed by the state; String indexes it, StringToState
	// scans it and hands back the index of the first match
	if len(fwd) == 0 && len(back) == 0 {
		if tf, tb, ok := c.enumNameTable(str, parse); ok {
			fwd, back = tf, tb
		}
	}
	ok := len(fwd) >= 3
	why := ""
	seen := map[string]bool{}
	for k, v := range fwd {
		if seen[v] {
			ok, why = false, "two states print as "+v
		}
		seen[v] = true
		if back[v] != k {
			ok = false
			why = fmt.Sprintf("state %s prints as %s but %s parses as %q", k, v, v, back[v])
		}
	}
	R.Check(rule, pkg, "String / StringToState inverse", pkg, ok, fmt.Sprintf("the %d state names round-trip through StringToState", len(fwd)), why)
}

// opErrorOrigins collects the alternatives of the error an operation may return, looking through module callees.
func (c *Ctx) errorAlts(f *ssa.Function, depth int, seen map[*ssa.Function]bool) []*Ex {
	return c.errorAltsIn(c.P.OriginsOf(f), depth, seen)
}

// errorAltsIn: the error origins of o.Fn read in the context o (a helper that hands back an error it was given is
// read with the argument of the call that reached it).
func (c *Ctx) errorAltsIn(o *Origins, depth int, seen map[*ssa.Function]bool) []*Ex {
	f := o.Fn
	if seen[f] || depth > 5 {
		return nil
	}
	seen[f] = true
	defer delete(seen, f)
	var out []*Ex
	for _, r := range Returns(f) {
		n := len(r.Results)
		if n == 0 || !IsErrorType(r.Results[n-1].Type()) {
			continue
		}
		e := o.Of(r.Results[n-1])
		for _, a := range e.Alts() {
			if isConst(a, "nil") {
				continue
			}
			if a.K == "call" && a.Call != nil && !strings.HasSuffix(a.S, "BuildCashuError") {
				callee := a.Call.Common().StaticCallee()
				if mc, ok := a.Call.Common().Value.(*ssa.MakeClosure); ok {
					callee, _ = mc.Fn.(*ssa.Function)
				}
				if callee != nil && c.moduleFn(callee) && (callee.Signature.Results().Len() > 0 && IsErrorType(callee.Signature.Results().At(callee.Signature.Results().Len()-1).Type())) {
					if a.Call.Parent() == f && c.P.IsNewFunc(callee) && callee.Parent() == nil {
						out = append(out, c.errorAltsIn(o.Enter(callee, a.Call), depth+1, seen)...)
					} else {
						out = append(out, c.errorAlts(callee, depth+1, seen)...)
					}
					continue
				}
			}
			out = append(out, a)
		}
	}
	return out
}

// isRepoErrorValue: a package-level error value of the repository whose type is cashu.Error (it marshals to
// {detail, code}); a plain errors.New value of the repository marshals to {} and counts as foreign.
func isRepoErrorValue(a *Ex) bool {
	if a.K == "gval" && (strings.HasPrefix(a.S, "cashu.") || strings.HasPrefix(a.S, "cashu/nuts/")) {
		if a.V != nil {
			t := a.V.Type().String()
			if !strings.HasSuffix(t, "cashu.Error") {
				return false
			}
		}
		return true
	}
	return false
}

func (c *Ctx) c20Errors() {
	R := c.R
	db, _ := c.P.ConstVal("cashu", "DBErrCode")
	ln, _ := c.P.ConstVal("cashu", "LightningBackendErrCode")
	// (b') internal codes only via BuildCashuError: no composite literal of cashu.Error with an internal code
	var lits []string
	for _, f := range c.P.Funcs {
		top := EnclosingTop(f)
		if top.Pkg == nil || c.P.Rel(top.Pkg.Pkg.Path()) == "testutils" {
			continue
		}
		for _, b := range f.Blocks {
			for _, in := range b.Instrs {
				st, ok := in.(*ssa.Store)
				if !ok {
					continue
				}
				fa, ok := st.Addr.(*ssa.FieldAddr)
				if !ok || fieldName(fa) != "Code" {
					continue
				}
				if n, ok := fa.X.Type().Underlying().(*types.Pointer).Elem().(*types.Named); ok && n.Obj().Name() == "Error" && n.Obj().Pkg().Name() == "cashu" {
					if cst, ok := st.Val.(*ssa.Const); ok && cst.Value != nil && (cst.Value.ExactString() == db || cst.Value.ExactString() == ln) {
						lits = append(lits, c.P.InstrPos(in))
					}
				}
			}
		}
	}
	R.Check("R3", "module", "internal error codes only through BuildCashuError", "cashu/cashu.go", len(lits) == 0,
		"storage/Lightning errors are created by BuildCashuError (a *cashu.Error, which the handlers' type assertion recognises), never as a cashu.Error literal", "cashu.Error literal with an internal code at "+strings.Join(lits, ", "))
	if f := c.P.Func("cashu.BuildCashuError"); f != nil {
		okPtr := returnsFreshPointer(f)
		R.Check("R3", "cashu.BuildCashuError", "returns a pointer", c.P.Pos(f.Pos()), okPtr, "BuildCashuError returns *cashu.Error", "")
	}

	for _, rt := range c.V.Routes {
		if len(rt.Ops) != 1 {
			continue
		}
		op := rt.Ops[0]
		res := op.Signature.Results()
		if res.Len() == 0 || !IsErrorType(res.At(res.Len()-1).Type()) {
			continue
		}
		h := rt.Handler
		hk := c.P.FuncKey(h)
		ho := c.P.OriginsOf(h)
		alts := c.errorAlts(op, 0, map[*ssa.Function]bool{})
		internal := map[string]bool{}
		var foreign []string
		for _, a := range alts {
			switch {
			case isRepoErrorValue(a):
			case isCall(a, "cashu.BuildCashuError") && len(a.Args) == 2:
				if isConst(a.Args[1], db) || isConst(a.Args[1], ln) {
					internal[a.Args[1].S] = true
				}
			default:
				foreign = append(foreign, short(a.String(), 90))
			}
		}
		sort.Strings(foreign)
		// which writeErr calls forward the operation's error itself?
		var forwards []ssa.CallInstruction
		var opErr string
		for _, oc := range rt.OpCalls {
			if v, ok := oc.(ssa.Value); ok {
				e := ho.Of(v)
				_ = e
			}
		}
		for _, ci := range Calls(h) {
			d := c.P.Describe(ci)
			if d.Static == nil || d.Static.Name() != "writeErr" || len(d.Args) < 3 {
				continue
			}
			e := ho.Of(d.Args[2])
			if e.K == "call" && e.Call != nil {
				for _, oc := range rt.OpCalls {
					if e.Call == oc {
						forwards = append(forwards, ci)
						opErr = e.String()
					}
				}
			}
		}
		if len(forwards) == 0 {
			// the handler never forwards the operation's error (it always answers generically)
			R.Trivial("R3", hk, "operation error never forwarded", c.P.Pos(h.Pos()), "handler answers every failure with the generic error")
			continue
		}
		R.Check("R3", hk, "no foreign error can be forwarded", c.P.InstrPos(forwards[0]), len(foreign) == 0,
			fmt.Sprintf("every one of the %d error origins of %s is a repository error value or a BuildCashuError result", len(alts), c.P.FuncKey(op)),
			"foreign error origins (would be marshalled into the response): "+strings.Join(uniq(foreign), " ; "))
		for _, w := range forwards {
			for code := range internal {
				name := "storage"
				if code == ln {
					name = "Lightning"
				}
				cd := &Cond{Name: "error is not a " + name + " error", Match: func(ft *Fact, _ *Origins) bool {
					// !(assert(err).Code == code)  or the assertion failed
					if ft.Kind == "cmp" && !ft.Pos && ft.Op.String() == "==" && isConst(ft.B, code) && strings.HasSuffix(ft.A.String(), ".Code") && strings.Contains(ft.A.String(), opErr) {
						return true
					}
					if ft.Kind == "bool" && !ft.Pos && ft.A.K == "ok" && strings.Contains(ft.A.String(), opErr) {
						return true
					}
					return false
				}}
				ok, why := ho.Requires(w, cd)
				R.Check("R3", hk, "forwarded error <= not a "+name+" error", c.P.InstrPos(w), ok,
					"the operation can produce a "+name+" error; the handler forwards an error only after excluding that code", why)
			}
		}
	}
	c.c20CauseTable()
}

func uniq(ss []string) []string {
	var out []string
	seen := map[string]bool{}
	for _, s := range ss {
		if !seen[s] {
			seen[s] = true
			out = append(out, s)
		}
	}
	return out
}

// c20CauseTable: R3(c).
func (c *Ctx) c20CauseTable() {
	R := c.R
	// numeric codes of the error values: reference table of the pinned tree
	ref := map[string]string{
		"StandardErr": "10000", "UnknownKeysetErr": "12001", "InactiveKeysetSignatureRequest": "12002", "BlindedMessageAlreadySigned": "10002",
		"InvalidProofErr": "10003", "SecretTooLongErr": "10004", "ProofAlreadyUsedErr": "11001", "ProofPendingErr": "11001",
		"InsufficientProofsAmount": "11002", "PaymentMethodNotSupportedErr": "11003", "UnitNotSupportedErr": "11005", "MintAmountExceededErr": "11006",
		"MeltAmountExceededErr": "11006", "DuplicateProofs": "11007", "DuplicateOutputs": "11008", "MintQuoteRequestNotPaid": "20001",
		"MintQuoteAlreadyIssued": "20002", "MintingDisabled": "20003", "QuotePending": "20005", "MeltQuoteAlreadyPaid": "20006",
		"MintQuoteInvalidSigErr": "20008", "QuoteNotExistErr": "20009", "NoProofsProvided": "10003",
	}
	codes := map[string]string{}
	if sp := c.P.SSAPkg[c.P.abs("cashu")]; sp != nil {
		if init := sp.Func("init"); init != nil {
			o := c.P.OriginsOf(init)
			for _, b := range init.Blocks {
				for _, in := range b.Instrs {
					st, ok := in.(*ssa.Store)
					if !ok {
						continue
					}
					// stores into fields of a global: G.Code = const
					if fa, ok := st.Addr.(*ssa.FieldAddr); ok && fieldName(fa) == "Code" {
						if g, ok := fa.X.(*ssa.Global); ok {
							codes[g.Name()] = o.Of(st.Val).S
						}
					}
					if g, ok := st.Addr.(*ssa.Global); ok {
						e := o.Of(st.Val)
						if e.K == "with" {
							if cv := fieldsOfWith(e)["Code"]; cv != nil {
								codes[g.Name()] = cv.S
							}
						}
					}
				}
			}
		}
	}
	var names []string
	for n := range ref {
		names = append(names, n)
	}
	sort.Strings(names)
	for _, n := range names {
		got, ok := codes[n]
		R.Check("R3", "cashu", "code of "+n, "cashu/cashu.go", ok && got == ref[n], "error value "+n+" carries NUT code "+ref[n], "code is "+got)
	}
	// reject edges
	type row struct {
		fn    string
		cause string
		fact  func(ft *Fact) bool
		want  string
	}
	hasCallRole := func(e *Ex, role string) bool {
		return e != nil && e.Has(func(x *Ex) bool { return x.K == "call" && c.dbCallWithRole(x, role) })
	}
	rows := []row{
		{"mint.(*Mint).verifyProofs", "Y found in the pending table", func(ft *Fact) bool { x := lenPositive(ft); return x != nil && hasCallRole(x, roleReadLocked) }, "ProofPendingErr"},
		{"mint.(*Mint).verifyProofs", "Y found in the spent table", func(ft *Fact) bool { x := lenPositive(ft); return x != nil && hasCallRole(x, roleReadSpent) }, "ProofAlreadyUsedErr"},
		{"mint.(*Mint).verifyProofs", "duplicate inputs", func(ft *Fact) bool { return ft.Kind == "bool" && ft.Pos && isCall(ft.A, fnDupProofs) }, "DuplicateProofs"},
		{"mint.(*Mint).verifyProofs", "secret too long", func(ft *Fact) bool {
			return ft.Kind == "cmp" && ft.Pos && ft.Op.String() == "<" && ft.B.K == "len" && strings.HasSuffix(ft.B.Args[0].String(), ".Secret")
		}, "SecretTooLongErr"},
		{"mint.(*Mint).verifyProofs", "unknown keyset", func(ft *Fact) bool {
			return ft.Kind == "bool" && !ft.Pos && ft.A.K == "ok" && strings.HasSuffix(ft.A.Args[0].String(), ".Id]")
		}, "UnknownKeysetErr"},
		{"mint.(*Mint).verifyProofs", "signature does not verify", func(ft *Fact) bool { return ft.Kind == "bool" && !ft.Pos && isCall(ft.A, fnVerify) }, "InvalidProofErr"},
		{"mint.(*Mint).signBlindedMessages", "output names an unknown keyset", func(ft *Fact) bool {
			return ft.Kind == "bool" && !ft.Pos && ft.A.K == "ok" && strings.HasSuffix(ft.A.Args[0].String(), ".Id]")
		}, "UnknownKeysetErr"},
		{"mint.(*Mint).signBlindedMessages", "output names an inactive keyset", func(ft *Fact) bool {
			return ft.Kind == "cmp" && !ft.Pos && ft.Op.String() == "==" && strings.Contains(ft.String(), "activeKeyset.Id")
		}, "InactiveKeysetSignatureRequest"},
		{"mint.(*Mint).Swap", "duplicate outputs", func(ft *Fact) bool { return ft.Kind == "bool" && ft.Pos && isCall(ft.A, fnDupOutputs) }, "DuplicateOutputs"},
		{"mint.(*Mint).Swap", "outputs exceed inputs minus fees", func(ft *Fact) bool {
			return ft.Kind == "cmp" && ft.Pos && ft.Op.String() == "<" && strings.Contains(ft.B.String(), "AmountChecked#0")
		}, "InsufficientProofsAmount"},
		{"mint.(*Mint).Swap", "output already signed", func(ft *Fact) bool { x := lenPositive(ft); return x != nil && hasCallRole(x, roleReadSigs) }, "BlindedMessageAlreadySigned"},
		{"mint.(*Mint).MeltTokens", "inputs below amount + reserve + fees", func(ft *Fact) bool {
			return ft.Kind == "cmp" && ft.Pos && ft.Op.String() == "<" && strings.Contains(ft.B.String(), ".FeeReserve")
		}, "InsufficientProofsAmount"},
		{"mint.(*Mint).RequestMintQuote", "amount above the mint maximum", func(ft *Fact) bool {
			return ft.Kind == "cmp" && ft.Pos && ft.Op.String() == "<" && strings.HasSuffix(ft.A.String(), "MintingSettings.MaxAmount") && strings.HasSuffix(ft.B.String(), ".Amount")
		}, "MintAmountExceededErr"},
		{"mint.(*Mint).RequestMeltQuote", "amount above the melt maximum", func(ft *Fact) bool {
			return ft.Kind == "cmp" && ft.Pos && ft.Op.String() == "<" && strings.HasSuffix(ft.A.String(), "MeltingSettings.MaxAmount")
		}, "MeltAmountExceededErr"},
	}
	for _, rw := range rows {
		f := c.P.Func(rw.fn)
		if f == nil {
			R.Unresolved("R3", rw.fn, "function not found")
			continue
		}
		found := false
		// the guard may sit in the function itself or in a helper that is new on this tree (read in the
		// calling context); a helper's rejection must be handed on unchanged by the caller
		for _, o := range c.OpContexts(f) {
			for _, e := range o.AllEdges() {
				ft := o.EdgeFact(e)
				if ft == nil || !rw.fact(ft) {
					continue
				}
				r, ok := e.To().Instrs[len(e.To().Instrs)-1].(*ssa.Return)
				if !ok {
					continue
				}
				found = true
				ev := o.Of(r.Results[len(r.Results)-1])
				okE := ev.K == "gval" && strings.HasSuffix(ev.S, "."+rw.want)
				why := "returns " + short(ev.String(), 100)
				if okE && o.call != nil {
					// the call site hands the helper's error on
					co := o.caller
					okE = false
					why = "the caller of the new helper does not return the helper's error on its failure edge"
					for _, ce := range co.AllEdges() {
						cf := co.EdgeFact(ce)
						if cf == nil || cf.Kind != "errnil" || cf.Pos || !exIsCallResult(cf.A, o.call) {
							continue
						}
						if cr, ok := ce.To().Instrs[len(ce.To().Instrs)-1].(*ssa.Return); ok && exIsCallResult(co.Of(cr.Results[len(cr.Results)-1]), o.call) {
							okE = true
						}
					}
					// a wrapper that does something between the call and its single way out (metrics, a log line) and
					// then returns the helper's results as they are: every return behind the call hands on that very error
					{
						anyRet, allOn := false, true
						start := PointOf(o.call)
						start.Idx++
						for _, cr := range Returns(co.Fn) {
							if reach, _ := Reach(start, PointOf(cr), NewCut()); !reach {
								continue
							}
							anyRet = true
							n := len(cr.Results)
							ex, isEx := cr.Results[n-1].(*ssa.Extract)
							if n == 0 || !isEx || ex.Tuple != o.call.Value() {
								allOn = false
							}
						}
						if anyRet && allOn {
							okE = true
						}
					}
					for _, cr := range Returns(co.Fn) {
						// tail call: return helper(...)
						if n := len(cr.Results); n > 0 && exIsCallResult(co.Of(cr.Results[n-1]), o.call) && cr.Block() == o.call.Block() {
							okE = true
						}
					}
				}
				R.Check("R3", rw.fn, "cause '"+rw.cause+"' -> "+rw.want, c.P.InstrPos(r), okE, "a request refused because of '"+rw.cause+"' is answered with "+rw.want, why)
			}
		}
		if !found {
			R.Check("R3", rw.fn, "cause '"+rw.cause+"' -> "+rw.want, c.P.Pos(f.Pos()), false, "the guard for '"+rw.cause+"' rejects with "+rw.want, "no reject edge of that guard leads directly to a return")
		}
	}
	// mint quote state switch
	if f := c.P.Func("mint.(*Mint).MintTokens"); f != nil {
		o := c.P.OriginsOf(f)
		st := c.mintStateConsts("R3")
		want := map[string]string{}
		if st != nil {
			want[st["Unpaid"]] = "MintQuoteRequestNotPaid"
			want[st["Issued"]] = "MintQuoteAlreadyIssued"
			want[st["Pending"]] = "QuotePending"
		}
		for _, e := range o.AllEdges() {
			ft := o.EdgeFact(e)
			if ft == nil || ft.Kind != "cmp" || !ft.Pos || ft.Op.String() != "==" || !strings.HasSuffix(ft.A.String(), ".State") {
				continue
			}
			w, ok := want[ft.B.S]
			if !ok {
				continue
			}
			if r, isRet := e.To().Instrs[len(e.To().Instrs)-1].(*ssa.Return); isRet {
				ev := o.Of(r.Results[len(r.Results)-1])
				R.Check("R3", c.P.FuncKey(f), "quote state -> "+w, c.P.InstrPos(r), ev.K == "gval" && strings.HasSuffix(ev.S, "."+w), "a mint request on a quote in that state is answered with "+w, "returns "+short(ev.String(), 100))
			}
		}
	}
}

// negate flips the polarity of a fact (copy).
func negate(f *Fact) *Fact {
	if f == nil {
		return nil
	}
	g := *f
	g.Pos = !g.Pos
	g.str = ""
	return &g
}

// c20Cache: R4.
func (c *Ctx) c20Cache() {
	R := c.R
	cached := map[string]bool{"/v1/swap": true, "/v1/mint/{method}": true}
	keyExempt := map[string]bool{"/v1/keys": true, "/v1/keys/{id}": true} // the key-set cache (not NUT-19)
	for _, rt := range c.V.Routes {
		h := rt.Handler
		hk := c.P.FuncKey(h)
		o := c.P.OriginsOf(h)
		var gets, sets []ssa.CallInstruction
		for _, ci := range c.opCalls(h) {
			switch c.P.Describe(ci).Name {
			case "mint.(*Cache).Get":
				gets = append(gets, ci)
			case "mint.(*Cache).Set":
				sets = append(sets, ci)
			}
		}
		if !cached[rt.Path] {
			if keyExempt[rt.Path] {
				continue
			}
			R.Check("R4", hk, "no request cache on "+rt.Path, c.P.Pos(h.Pos()), len(gets) == 0 && len(sets) == 0, "only the swap and mint endpoints are served from the NUT-19 cache", "handler uses the cache")
			continue
		}
		if len(gets) != 1 || len(sets) != 1 {
			R.Check("R4", hk, "one cache look-up and one store", c.P.Pos(h.Pos()), false, "the handler looks the request up once and stores the response once", fmt.Sprintf("gets=%d sets=%d", len(gets), len(sets)))
			continue
		}
		g, s := c.P.Describe(gets[0]), c.P.Describe(sets[0])
		kg, ks := c.CtxOf(gets[0]).Of(g.Args[0]), c.CtxOf(sets[0]).Of(s.Args[0])
		// the instruction of the handler through which the store happens (the store itself, or the call of the
		// helper that is new on this tree and contains it)
		setSite := c.siteIn(h, sets[0])
		want := "((P:" + h.Params[2].Name() + ".Method + net/url.(*URL).String(P:" + h.Params[2].Name() + ".URL)) + io.ReadAll#0(P:" + h.Params[2].Name() + ".Body))"
		R.Check("R4", hk, "cache key = Method + URL + raw body", c.P.InstrPos(gets[0]), kg.String() == want, "the key is the request method, the URL and the complete raw body", "key is "+short(kg.String(), 200))
		R.Check("R4", hk, "look-up and store use the same key", c.P.InstrPos(sets[0]), kg.String() == ks.String(), "the response is stored under the key it is looked up with", "store key is "+short(ks.String(), 200))
		// look-up precedes the operation; a hit returns without calling it
		for _, oc := range rt.OpCalls {
			miss := &Cond{Name: "cache miss", Match: func(ft *Fact, _ *Origins) bool {
				return ft.Kind == "bool" && !ft.Pos && ft.A.K == "call" && ft.A.Call == gets[0] && ft.A.Idx == 1
			}}
			ok, why := o.Requires(oc, miss)
			R.Check("R4", hk, "operation <= cache miss", c.P.InstrPos(oc), ok, "the operation runs only after a cache miss (a replay is not executed again)", why)
			// store only after op and marshal succeeded
			okOp := &Cond{Name: "operation succeeded", Match: func(ft *Fact, _ *Origins) bool {
				return ft.Kind == "errnil" && ft.Pos && ft.A.K == "call" && ft.A.Call == oc
			}}
			ok2, why2 := c.RequireAt(sets[0], okOp)
			R.Check("R4", hk, "store <= operation succeeded", c.P.InstrPos(sets[0]), ok2, "only successful responses are cached", why2)
		}
		val := c.CtxOf(sets[0]).Of(s.Args[1])
		okM := isCall(val, "encoding/json.Marshal") && val.Idx == 0
		marshalOK := &Cond{Name: "marshalling succeeded", Match: func(ft *Fact, _ *Origins) bool {
			return ft.Kind == "errnil" && ft.Pos && ft.A.K == "call" && ft.A.Call == val.Call
		}}
		if okM {
			ok3, why3 := c.RequireAt(sets[0], marshalOK)
			R.Check("R4", hk, "store <= marshalling succeeded", c.P.InstrPos(sets[0]), ok3, "the cached bytes are a successfully marshalled response", why3)
		}
		// the bytes stored are the bytes written after the store
		okW := false
		for _, ci := range Calls(h) {
			d := c.P.Describe(ci)
			if d.Iface != nil && d.Iface.Name() == "Write" {
				if setSite == nil {
					continue
				}
				if reach, _ := o.ReachAvoiding(setSite, ci, NewCut()); reach {
					okW = o.Of(d.Args[0]).String() == val.String()
				}
			}
		}
		R.Check("R4", hk, "stored bytes are the bytes written", c.P.InstrPos(sets[0]), okM && okW, "the cache holds exactly the response body that was sent", "stored "+short(val.String(), 100))
		// a hit writes the cached bytes
		okHit := false
		for _, ci := range Calls(h) {
			d := c.P.Describe(ci)
			if d.Iface != nil && d.Iface.Name() == "Write" {
				e := o.Of(d.Args[0])
				if e.K == "call" && e.Call == gets[0] && e.Idx == 0 {
					okHit = true
				}
			}
		}
		R.Check("R4", hk, "a hit answers with the cached bytes", c.P.InstrPos(gets[0]), okHit, "on a hit the cached body is written unchanged", "")
		// lifetime of the entry: the duration that reaches time.Now().Add in the store is at least a second (the
		// advertised NUT-19 ttl is in seconds; a bare number of seconds read as a Duration is nanoseconds)
		okT, whyT := c.c20CacheLifetime(sets[0])
		R.Check("R4", hk, "cached response lives for the advertised time", c.P.InstrPos(sets[0]), okT, "the entry expires after a whole number of seconds (a constant duration of at least one second), not after nanoseconds", whyT)
	}
}

// c20CacheStore: the cache itself. Get answers (value, true) only behind a hit of the very key asked for and hands
// back that entry's value; Set stores the bytes given under the key given. ("no other request is ever served from
// that cache" rests on the map being keyed and read by the full key.)
func (c *Ctx) c20CacheStore() {
	R := c.R
	if f := c.P.Func("mint.(*Cache).Get"); f != nil && len(f.Params) >= 2 {
		fk := c.P.FuncKey(f)
		o := c.P.OriginsOf(f)
		recv, key := "P:"+f.Params[0].Name(), "P:"+f.Params[1].Name()
		entry := recv + ".items[" + key + "]"
		hit := &Cond{Name: "the key is in the cache", Match: func(ft *Fact, _ *Origins) bool {
			return ft.Kind == "bool" && ft.Pos && ft.A != nil && ft.A.String() == "ok("+entry+")"
		}}
		n := 0
		for _, r := range Returns(f) {
			if len(r.Results) != 2 || isConst(o.Of(r.Results[1]), "false") {
				continue
			}
			n++
			v := o.Of(r.Results[0])
			R.Check("R4", fk, "a hit returns the entry stored under the key asked for", c.P.InstrPos(r), v.String() == entry+".value" && isConst(o.Of(r.Results[1]), "true"),
				"Get returns the value of items[key]", "returns "+short(v.String(), 100)+" ; "+short(o.Of(r.Results[1]).String(), 40))
			ok, why := o.Requires(r, hit)
			R.Check("R4", fk, "found <= key present", c.P.InstrPos(r), ok, "Get reports a hit only when the key is in the map", why)
		}
		if n == 0 {
			R.Check("R4", fk, "a hit returns the entry stored under the key asked for", c.P.Pos(f.Pos()), false, "Get can report a hit", "no return with found = true")
		}
	} else {
		R.Unresolved("R4", "mint.(*Cache).Get", "not found")
	}
	if f := c.P.Func("mint.(*Cache).Set"); f != nil && len(f.Params) >= 3 {
		fk := c.P.FuncKey(f)
		o := c.P.OriginsOf(f)
		key, item := "P:"+f.Params[1].Name(), "P:"+f.Params[2].Name()
		ok, why := false, "no store into the map"
		for _, b := range f.Blocks {
			for _, in := range b.Instrs {
				if mu, isMu := in.(*ssa.MapUpdate); isMu {
					k, v := o.Of(mu.Key), project(o.Of(mu.Value), "value")
					ok = k.String() == key && v.String() == item
					why = "stores " + short(v.String(), 60) + " under " + short(k.String(), 60)
				}
			}
		}
		R.Check("R4", fk, "Set stores the given bytes under the given key", c.P.Pos(f.Pos()), ok, "items[key] = {value: item, ...}", why)
	} else {
		R.Unresolved("R4", "mint.(*Cache).Set", "not found")
	}
}

// c20CacheLifetime: the third argument of the store call is a constant; inside the store it reaches time.Time.Add
// either unchanged (then the constant is >= 1e9 ns) or multiplied by time.Second (then it is >= 1).
func (c *Ctx) c20CacheLifetime(set ssa.CallInstruction) (bool, string) {
	d := c.P.Describe(set)
	callee := set.Common().StaticCallee()
	if callee == nil || len(d.Args) < 3 || len(callee.Params) < 4 {
		return false, "store call not resolvable"
	}
	arg := c.CtxOf(set).Of(d.Args[2])
	if arg.K != "const" {
		return false, "lifetime argument is not a constant: " + short(arg.String(), 80)
	}
	var add ssa.CallInstruction
	for _, ci := range Calls(callee) {
		if c.P.Describe(ci).Name == "time.(Time).Add" {
			add = ci
		}
	}
	if add == nil {
		return false, "no time.Now().Add in the store"
	}
	p := "P:" + callee.Params[3].Name()
	e := c.P.OriginsOf(callee).Of(c.P.Describe(add).Args[0])
	big := func(s string, min int) bool {
		return len(strings.TrimLeft(s, "0")) >= min && !strings.HasPrefix(s, "-")
	}
	switch es := e.String(); {
	case es == p:
		return big(arg.S, 10), "expiry = now + " + arg.S + " ns"
	case strings.Contains(es, p) && strings.Contains(es, "#1000000000") && e.K == "bin" && e.S == "*":
		return big(arg.S, 1), "expiry = now + " + arg.S + " s"
	}
	return false, "the lifetime parameter reaches the expiry as " + short(e.String(), 100) + " with argument " + arg.S
}

// c20Status: R5.
func (c *Ctx) c20Status() {
	R := c.R
	var we *ssa.Function
	for _, f := range c.P.Funcs {
		if f.Name() == "writeErr" && f.Pkg != nil && c.V.CoreType != nil && f.Pkg.Pkg == c.V.CoreType.Obj().Pkg() {
			we = f
		}
	}
	if we == nil {
		R.Unresolved("R5", "error writer", "writeErr not found")
		return
	}
	o := c.P.OriginsOf(we)
	var wh, wr ssa.CallInstruction
	for _, ci := range Calls(we) {
		d := c.P.Describe(ci)
		if d.Iface != nil && d.Iface.Name() == "WriteHeader" {
			wh = ci
		}
		if d.Iface != nil && d.Iface.Name() == "Write" {
			wr = ci
		}
	}
	ok := wh != nil && wr != nil
	if ok {
		code := o.Of(c.P.Describe(wh).Args[0])
		before, _ := o.ReachAvoiding(wh, wr, NewCut())
		after, _ := o.ReachAvoiding(wr, wh, NewCut())
		ok = isConst(code, "400") && before && !after
	}
	R.Check("R5", c.P.FuncKey(we), "status 400 written before the body", c.P.Pos(we.Pos()), ok, "the error writer sends status 400 and then the body", "")
	n := 0
	var bad []string
	for _, rt := range c.V.Routes {
		for _, ci := range Calls(rt.Handler) {
			d := c.P.Describe(ci)
			n++
			if d.Iface != nil && d.Iface.Name() == "WriteHeader" {
				bad = append(bad, c.P.InstrPos(ci))
			}
		}
	}
	R.Check("R5", "handlers", "no explicit status on success paths", "mint/server.go", len(bad) == 0, "handlers never set a status themselves (success is the implicit 200, failures go through the error writer)", strings.Join(bad, ", "))
}

// lenPositive recognises facts equivalent to len(X) >= 1 holding on the edge, returning X.
func lenPositive(f *Fact) *Ex {
	if f == nil || f.Kind != "cmp" {
		return nil
	}
	switch f.Op.String() {
	case "==":
		if !f.Pos && f.A != nil && f.A.K == "len" && isConst(f.B, "0") {
			return f.A.Args[0]
		}
	case "<":
		if f.Pos && isConst(f.A, "0") && f.B != nil && f.B.K == "len" {
			return f.B.Args[0]
		}
	case "<=":
		if f.Pos && isConst(f.A, "1") && f.B != nil && f.B.K == "len" {
			return f.B.Args[0]
		}
	}
	return nil
}

// siteIn returns the instruction of fn through which in is executed: in itself, or the call (in fn) of the
// helper chain that is new on this tree and contains it; nil when there is no unique such call.
func (c *Ctx) siteIn(fn *ssa.Function, in ssa.Instruction) ssa.Instruction {
	for i := 0; i < 4 && in != nil; i++ {
		if in.Parent() == fn {
			return in
		}
		g := in.Parent()
		if g.Parent() != nil || !c.P.IsNewFunc(g) {
			return nil
		}
		sites := c.sitesInScope(c.callersOf(g))
		if len(sites) != 1 {
			return nil
		}
		in = sites[0]
	}
	return nil
}

// c20ListsNeverNull: R7. encoding/json writes a nil slice as null; NUT-07 / NUT-09 answers carry arrays. For the two
// operations whose answer can legitimately be empty, every slice result of a success return is an allocated list:
// make(...), the element-wise image of a list built with make, or appends onto such a list.
func (c *Ctx) c20ListsNeverNull() {
	R := c.R
	for _, path := range []string{"/v1/restore", "/v1/checkstate"} {
		op := c.op("R7", path)
		if op == nil {
			continue
		}
		fk := c.P.FuncKey(op)
		o := c.P.OriginsOf(op)
		var allocated func(e *Ex) bool
		allocated = func(e *Ex) bool {
			if e == nil {
				return false
			}
			switch e.K {
			case "make", "map":
				return true
			case "acc":
				return strings.HasPrefix(e.S, "append") && len(e.Args) > 0 && allocated(e.Args[0])
			case "phi":
				for _, a := range e.Args {
					if !allocated(a) {
						return false
					}
				}
				return len(e.Args) > 0
			}
			return strings.HasPrefix(e.String(), "make:") || strings.HasPrefix(e.String(), "append:(make:")
		}
		n := 0
		for _, r := range o.SuccessReturns() {
			for i, rv := range r.Results {
				if _, isSlice := rv.Type().Underlying().(*types.Slice); !isSlice {
					continue
				}
				n++
				e := o.Of(rv)
				R.Check("R7", fk, fmt.Sprintf("result %d is an allocated list", i), c.P.InstrPos(r), allocated(e),
					"a list returned with a nil error is never the nil slice (it would be sent as JSON null instead of an array)", short(e.String(), 120))
			}
		}
		if n == 0 {
			R.Unresolved("R7", "list results of "+fk, "no slice-typed result on a success return")
		}
	}
}

// enumNameTable reads the table form of a String / StringToState pair: String returns G[state] for a package-level
// array or slice G of constant strings that nothing but its initialiser writes; StringToState ranges over the same
// G and returns the index of the element that equals its parameter. fwd maps state value -> name (entries with a
// name), back maps name -> the first index holding it.
func (c *Ctx) enumNameTable(str, parse *ssa.Function) (map[string]string, map[string]string, bool) {
	globalOf := func(v ssa.Value) *ssa.Global {
		for {
			switch x := v.(type) {
			case *ssa.Global:
				return x
			case *ssa.UnOp:
				if x.Op.String() != "*" {
					return nil
				}
				v = x.X
			default:
				return nil
			}
		}
	}
	stripConv := func(v ssa.Value) ssa.Value {
		for {
			switch x := v.(type) {
			case *ssa.Convert:
				v = x.X
			case *ssa.ChangeType:
				v = x.X
			default:
				return v
			}
		}
	}
	// String: some return hands out G[param]
	var g *ssa.Global
	for _, r := range Returns(str) {
		if len(r.Results) != 1 {
			continue
		}
		ld, ok := r.Results[0].(*ssa.UnOp)
		if !ok || ld.Op.String() != "*" {
			continue
		}
		ia, ok := ld.X.(*ssa.IndexAddr)
		if !ok || stripConv(ia.Index) != ssa.Value(str.Params[0]) {
			continue
		}
		if g = globalOf(ia.X); g != nil {
			break
		}
	}
	if g == nil {
		return nil, nil, false
	}
	table, ok := c.globalStringTable(g)
	if !ok {
		return nil, nil, false
	}
	// every other return of String is a constant that is not a name of the table (the out-of-range answer)
	names := map[string]bool{}
	for _, n := range table {
		names[n] = true
	}
	for _, r := range Returns(str) {
		if cst, ok := r.Results[0].(*ssa.Const); ok {
			if names[ConstString(cst)] && ConstString(cst) != "" {
				return nil, nil, false
			}
		} else if ld, ok := r.Results[0].(*ssa.UnOp); !ok || globalOf(func() ssa.Value {
			if ia, ok := ld.X.(*ssa.IndexAddr); ok {
				return ia.X
			}
			return nil
		}()) != g {
			return nil, nil, false
		}
	}
	// StringToState: a whole-range loop over G; the edge "element == parameter" leads to a return of the loop index
	po := c.P.OriginsOf(parse)
	scans := false
	for _, l := range po.Loops.Loops {
		if l.RangeOf == nil || l.Index == nil || globalOf(l.RangeOf) != g {
			continue
		}
		for _, e := range po.AllEdges() {
			if !l.Blocks[e.From] {
				continue
			}
			ft := po.EdgeFact(e)
			if ft == nil || ft.Kind != "cmp" || !ft.Pos || ft.Op.String() != "==" {
				continue
			}
			prm := "P:" + parse.Params[0].Name()
			var el *Ex
			switch {
			case ft.A.String() == prm:
				el = ft.B
			case ft.B.String() == prm:
				el = ft.A
			}
			if el == nil || !strings.HasPrefix(el.String(), "G:") && !strings.HasPrefix(el.String(), "elem(") {
				continue
			}
			if r, ok := e.To().Instrs[len(e.To().Instrs)-1].(*ssa.Return); ok && len(r.Results) == 1 && stripConv(r.Results[0]) == l.Index {
				scans = true
			}
		}
	}
	if !scans {
		// an array has a static length: the range loop compares its index with that constant
		n := staticArrayLen(g.Type().(*types.Pointer).Elem())
		for _, e := range po.AllEdges() {
			ft := po.EdgeFact(e)
			if n < 0 || ft == nil || ft.Kind != "cmp" || !ft.Pos || ft.Op.String() != "==" {
				continue
			}
			prm := "P:" + parse.Params[0].Name()
			if ft.A.String() != prm && ft.B.String() != prm {
				continue
			}
			r, ok := e.To().Instrs[len(e.To().Instrs)-1].(*ssa.Return)
			if !ok || len(r.Results) != 1 {
				continue
			}
			iv := stripConv(r.Results[0])
			ie := po.Of(iv).String()
			if ie != "(acc(+; #-1; #1) + #1)" && ie != "acc(+; #0; #1)" {
				continue
			}
			// the compared element is G[that index]
			elemOK := false
			for _, b := range parse.Blocks {
				for _, in := range b.Instrs {
					if ia, ok := in.(*ssa.IndexAddr); ok && globalOf(ia.X) == g && ia.Index == iv {
						elemOK = true
					}
					if ix, ok := in.(*ssa.Index); ok && globalOf(ix.X) == g && ix.Index == iv {
						elemOK = true
					}
				}
			}
			// the loop runs while index < N
			bounded := false
			for _, e2 := range po.AllEdges() {
				f2 := po.EdgeFact(e2)
				if f2 != nil && f2.Kind == "cmp" && f2.Pos && f2.Op.String() == "<" && f2.A.String() == ie && isConst(f2.B, strconv.FormatInt(n, 10)) {
					bounded = true
				}
			}
			if elemOK && bounded {
				scans = true
			}
		}
	}
	if !scans {
		return nil, nil, false
	}
	fwd, back := map[string]string{}, map[string]string{}
	idx := make([]int64, 0, len(table))
	for k := range table {
		idx = append(idx, k)
	}
	sort.Slice(idx, func(i, j int) bool { return idx[i] < idx[j] })
	for _, k := range idx {
		n := table[k]
		if n == "" {
			continue
		}
		ks := strconv.FormatInt(k, 10)
		fwd[ks] = n
		if _, dup := back[n]; !dup {
			back[n] = ks
		}
	}
	return fwd, back, true
}

// globalStringTable evaluates the initialiser of a package-level array / slice of strings written as a composite
// literal of constants (index: name, or positional); false when the variable is written anywhere else.
func (c *Ctx) globalStringTable(g *ssa.Global) (map[int64]string, bool) {
	var pkg *packages.Package
	for _, p := range c.P.Pkgs {
		if p.Types == g.Pkg.Pkg {
			pkg = p
		}
	}
	if pkg == nil {
		return nil, false
	}
	// no write outside the package initialiser
	for _, f := range c.P.Funcs {
		if f.Pkg != g.Pkg || f.Name() == "init" {
			continue
		}
		for _, b := range f.Blocks {
			for _, in := range b.Instrs {
				switch x := in.(type) {
				case *ssa.Store:
					if r, _ := addrRoot(x.Addr); r == ssa.Value(g) {
						return nil, false
					}
				case ssa.CallInstruction:
					for _, a := range x.Common().Args {
						if r, _ := addrRoot(a); r == ssa.Value(g) {
							return nil, false
						}
					}
				}
			}
		}
	}
	var lit *ast.CompositeLit
	for _, file := range pkg.Syntax {
		for _, d := range file.Decls {
			gd, ok := d.(*ast.GenDecl)
			if !ok || gd.Tok != token.VAR {
				continue
			}
			for _, sp := range gd.Specs {
				vs := sp.(*ast.ValueSpec)
				for i, nm := range vs.Names {
					if pkg.TypesInfo.Defs[nm] == g.Object() && i < len(vs.Values) {
						lit, _ = vs.Values[i].(*ast.CompositeLit)
					}
				}
			}
		}
	}
	if lit == nil {
		return nil, false
	}
	out := map[int64]string{}
	next := int64(0)
	for _, el := range lit.Elts {
		val := el
		if kv, ok := el.(*ast.KeyValueExpr); ok {
			tv := pkg.TypesInfo.Types[kv.Key]
			if tv.Value == nil {
				return nil, false
			}
			k, exact := constant.Int64Val(constant.ToInt(tv.Value))
			if !exact {
				return nil, false
			}
			next = k
			val = kv.Value
		}
		tv := pkg.TypesInfo.Types[val]
		if tv.Value == nil || tv.Value.Kind() != constant.String {
			return nil, false
		}
		out[next] = constant.StringVal(tv.Value)
		next++
	}
	return out, true
}
