package nc

import (
	"fmt"
	"go/types"
	"sort"
	"strings"

	"golang.org/x/tools/go/ssa"
)

func init() {
	register("C08", "Decides (R1, type screening) for every request body that the wallet's network layer marshals and sends to a mint: the only "+
		"position of its static type that can hold a blinding factor is Proof.DLEQ (request types that carry input proofs); no request type "+
		"contains a private key, and output types (BlindedMessage) carry no secret and no r; (R2, taint with sanitiser summaries) at every "+
		"call that sends input proofs (swap, melt) the Inputs value is clean on all paths: it is the result of a sanitiser whose every "+
		"element has DLEQ = nil (established over a whole-range loop on ALL returns), or a list of literals without a DLEQ, or — when it "+
		"comes from a parameter — clean at every caller; proofs read from the store, taken from a token or produced by unblinding are "+
		"tainted; (R3) the network layer (client, subscription manager) never touches the r field. Side channels and what a mint can infer "+
		"from timing/amounts are not decided.", rulesC08)
}

// containsTypes reports which "dangerous" named types are reachable from t, with the access path.
func reachTypes(t types.Type, path string, seen map[types.Type]bool, hit func(path string, n *types.Named)) {
	if t == nil || seen[t] {
		return
	}
	seen[t] = true
	defer delete(seen, t)
	if n, ok := t.(*types.Named); ok {
		hit(path, n)
	}
	switch u := t.Underlying().(type) {
	case *types.Pointer:
		reachTypes(u.Elem(), path, seen, hit)
	case *types.Slice:
		reachTypes(u.Elem(), path+"[]", seen, hit)
	case *types.Array:
		reachTypes(u.Elem(), path+"[]", seen, hit)
	case *types.Map:
		reachTypes(u.Elem(), path+"[]", seen, hit)
	case *types.Struct:
		for i := 0; i < u.NumFields(); i++ {
			reachTypes(u.Field(i).Type(), path+"."+u.Field(i).Name(), seen, hit)
		}
	}
}

func rulesC08(c *Ctx) {
	R := c.R
	R.Rule("R1", "request types sent to a mint: blinding factors only possible inside Proof.DLEQ of input-carrying requests; no private keys", 8)
	R.Rule("R2", "Inputs of every swap/melt request are clean (DLEQ stripped) on all paths, through sanitiser summaries and callers", 4)
	R.Rule("R3", "the network layer never reads or writes the r field", 1)
	R.Rule("R4", "a blinding factor is a fresh key or the NUT-13 derivation and the secret of the same output is not computed from it (the secret is shown to the mint when the output is spent)", 4)
	c.c08BlindingFactorIndependent("R4")

	// ---- R1: every json.Marshal in the network layer
	netPkgs := map[string]bool{"wallet/client": true, "wallet/submanager": true}
	type sink struct {
		fn    *ssa.Function
		call  ssa.CallInstruction
		t     types.Type
		param int // index of the function parameter that is marshalled (-1 if local)
	}
	var sinks []sink
	for _, f := range c.P.Funcs {
		top := EnclosingTop(f)
		if top.Pkg == nil || !netPkgs[c.P.Rel(top.Pkg.Pkg.Path())] {
			continue
		}
		o := c.P.OriginsOf(f)
		for _, ci := range Calls(f) {
			d := c.P.Describe(ci)
			if d.Name != "encoding/json.Marshal" && !strings.HasSuffix(d.Name, ").WriteJSON") && d.Name != "encoding/json.(*Encoder).Encode" {
				continue
			}
			a := d.Args[len(d.Args)-1]
			v := UnwrapConv(a)
			pi := -1
			e := o.Of(a)
			for i, prm := range f.Params {
				if e.K == "param" && e.S == prm.Name() {
					pi = i
				}
			}
			sinks = append(sinks, sink{f, ci, v.Type(), pi})
		}
	}
	// a sink that marshals an interface-typed parameter (a generic "post this as JSON" helper) stands for its
	// call sites: each passes a value of a concrete request type
	for i := 0; i < len(sinks) && len(sinks) < 200; i++ {
		s := sinks[i]
		if s.param < 0 {
			continue
		}
		if _, isIface := s.t.Underlying().(*types.Interface); !isIface {
			continue
		}
		sites := c.callersOf(s.fn)
		if len(sites) == 0 {
			continue
		}
		for _, site := range sites {
			args := site.Common().Args
			if s.param >= len(args) {
				continue
			}
			a := args[s.param]
			if mi, ok := a.(*ssa.MakeInterface); ok {
				a = mi.X
			}
			v := UnwrapConv(a)
			cf := site.Parent()
			pi := -1
			e := c.P.OriginsOf(cf).Of(a)
			for k, prm := range cf.Params {
				if e.K == "param" && e.S == prm.Name() {
					pi = k
				}
			}
			sinks = append(sinks, sink{cf, site, v.Type(), pi})
		}
		sinks[i].t = nil // replaced by its call sites
	}
	{
		kept := sinks[:0]
		for _, s := range sinks {
			if s.t != nil {
				kept = append(kept, s)
			}
		}
		sinks = kept
	}
	if len(sinks) == 0 {
		R.Unresolved("R1", "request marshalling in the network layer", "no json.Marshal call found in wallet/client or wallet/submanager")
	}
	inputCarriers := map[*ssa.Function]int{} // client function -> parameter index carrying proofs
	for _, s := range sinks {
		fk := c.P.FuncKey(s.fn)
		var bad []string
		var dleq []string
		reachTypes(s.t, typeShort(c.P, s.t), map[types.Type]bool{}, func(path string, n *types.Named) {
			name := n.Obj().Name()
			switch {
			case name == "PrivateKey" || name == "ExtendedKey" || name == "ModNScalar":
				bad = append(bad, path+" ("+name+")")
			case name == "DLEQProof":
				dleq = append(dleq, path)
			}
		})
		// fields literally named/tagged like a secret or blinding factor outside Proof
		reachStructFields(s.t, typeShort(c.P, s.t), map[types.Type]bool{}, func(path, owner, field, tag string) {
			lf := strings.ToLower(field)
			if owner == "Proof" || owner == "DLEQProof" {
				return
			}
			if lf == "r" || lf == "rs" || lf == "secret" || lf == "secrets" || lf == "blindingfactor" || tag == "r" || tag == "secret" {
				bad = append(bad, path+"."+field)
			}
		})
		R.Check("R1", fk, "no private key / secret field in "+typeShort(c.P, s.t), c.P.InstrPos(s.call), len(bad) == 0,
			"the marshalled request type has no position for a private key, an output secret or a blinding factor outside Proof", strings.Join(bad, ", "))
		if len(dleq) > 0 {
			// allowed only through Proof (inputs being spent); those are the tainted-capable sinks
			okPath := true
			for _, p := range dleq {
				if !strings.Contains(p, "Inputs") {
					okPath = false
				}
			}
			R.Check("R1", fk, "DLEQ reachable only through Inputs in "+typeShort(c.P, s.t), c.P.InstrPos(s.call), okPath,
				"a DLEQ (which can carry r) is reachable only through the input proofs of the request", strings.Join(dleq, ", "))
			if s.param >= 0 {
				inputCarriers[EnclosingTop(s.fn)] = s.param
			}
		}
	}

	// ---- R2: taint at every call of an input-carrying client function
	var carriers []*ssa.Function
	for f := range inputCarriers {
		carriers = append(carriers, f)
	}
	sort.Slice(carriers, func(i, j int) bool { return c.P.FuncKey(carriers[i]) < c.P.FuncKey(carriers[j]) })
	if len(carriers) < 2 {
		R.Unresolved("R2", "client functions that send input proofs", fmt.Sprintf("expected the swap and melt senders, found %d", len(carriers)))
	}
	for _, cf := range carriers {
		pi := inputCarriers[cf]
		for _, cs := range c.callersOf(cf) {
			top := EnclosingTop(cs.Parent())
			if top.Pkg != nil && (c.P.Rel(top.Pkg.Pkg.Path()) == "testutils" || strings.HasPrefix(c.P.Rel(top.Pkg.Pkg.Path()), "mint")) {
				continue
			}
			o := c.P.OriginsOf(cs.Parent())
			req := o.Of(cs.Common().Args[pi])
			in := project(req, "Inputs")
			ok, why := c.cleanInputs(o, cs.Parent(), in, 0)
			R.Check("R2", c.P.FuncKey(cs.Parent()), "Inputs of "+c.P.FuncKey(cf)+" request are DLEQ-free", c.P.InstrPos(cs), ok,
				"the input proofs put into the request carry no DLEQ (hence no blinding factor) on any path", why)
		}
	}

	// ---- R3: the network layer does not touch r
	n := 0
	var offenders []string
	for _, f := range c.P.Funcs {
		top := EnclosingTop(f)
		if top.Pkg == nil || !netPkgs[c.P.Rel(top.Pkg.Pkg.Path())] {
			continue
		}
		n++
		for _, b := range f.Blocks {
			for _, in := range b.Instrs {
				if fa, ok := in.(*ssa.FieldAddr); ok {
					st := fa.X.Type().Underlying().(*types.Pointer).Elem()
					if nn, ok := st.(*types.Named); ok && nn.Obj().Name() == "DLEQProof" && fieldName(fa) == "R" {
						offenders = append(offenders, c.P.InstrPos(in))
					}
				}
				if fl, ok := in.(*ssa.Field); ok {
					if nn, ok := fl.X.Type().(*types.Named); ok && nn.Obj().Name() == "DLEQProof" {
						if nn.Underlying().(*types.Struct).Field(fl.Field).Name() == "R" {
							offenders = append(offenders, c.P.InstrPos(in))
						}
					}
				}
			}
		}
	}
	R.Check("R3", "wallet network layer", "no access to DLEQProof.R", "wallet/client", len(offenders) == 0 && n > 0,
		fmt.Sprintf("none of the %d functions of the network layer reads or writes the blinding factor field", n), strings.Join(offenders, ", "))
}

func reachStructFields(t types.Type, path string, seen map[types.Type]bool, hit func(path, owner, field, tag string)) {
	if t == nil || seen[t] {
		return
	}
	seen[t] = true
	defer delete(seen, t)
	owner := ""
	if n, ok := t.(*types.Named); ok {
		owner = n.Obj().Name()
	}
	switch u := t.Underlying().(type) {
	case *types.Pointer:
		reachStructFields(u.Elem(), path, seen, hit)
	case *types.Slice:
		reachStructFields(u.Elem(), path+"[]", seen, hit)
	case *types.Map:
		reachStructFields(u.Elem(), path+"[]", seen, hit)
	case *types.Struct:
		for i := 0; i < u.NumFields(); i++ {
			tag := ""
			if tg := u.Tag(i); tg != "" {
				if j := strings.Index(tg, `json:"`); j >= 0 {
					rest := tg[j+6:]
					if k := strings.IndexAny(rest, `",`); k >= 0 {
						tag = rest[:k]
					}
				}
			}
			hit(path, owner, u.Field(i).Name(), tag)
			reachStructFields(u.Field(i).Type(), path+"."+u.Field(i).Name(), seen, hit)
		}
	}
}

// cleanInputs: every element of the list expression has DLEQ == nil on all paths.
func (c *Ctx) cleanInputs(o *Origins, fn *ssa.Function, e *Ex, depth int) (bool, string) {
	if e == nil {
		return false, "no Inputs value"
	}
	if depth > 5 {
		return false, "caller chain too deep"
	}
	for _, a := range e.Alts() {
		ok, why := c.cleanOne(o, fn, a, depth)
		if !ok {
			return false, why
		}
	}
	return true, ""
}

func dleqIsNil(el *Ex) bool {
	if el == nil {
		return false
	}
	d := project(el, "DLEQ")
	for _, a := range d.Alts() {
		if !(isConst(a, "nil") || a.K == "zero") {
			return false
		}
	}
	return true
}

func (c *Ctx) cleanOne(o *Origins, fn *ssa.Function, a *Ex, depth int) (bool, string) {
	switch a.K {
	case "zero":
		return true, "" // empty list
	case "const":
		return true, ""
	case "map":
		// new list whose element expression has DLEQ nil / absent in a literal
		el := a.Args[1]
		if el.K == "with" && dleqIsNil(el) && (el.Args[0].K == "zero" || hasNilDLEQOverride(el)) {
			return true, ""
		}
		return false, "elements are " + short(el.String(), 120) + " (DLEQ not cleared)"
	case "acc":
		if strings.HasPrefix(a.S, "append") {
			ok, why := c.cleanInputs(o, fn, a.Args[0], depth)
			if !ok {
				return false, why
			}
			for _, st := range a.Args[1:] {
				if st.K == "with" && st.Args[0].K == "zero" && dleqIsNil(st) {
					continue
				}
				return false, "appended element " + short(st.String(), 120) + " may carry a DLEQ"
			}
			return true, ""
		}
	case "make":
		return strings.HasSuffix(a.S, "}") == false, "list built element-wise: " + short(a.String(), 100)
	case "call":
		if a.Call == nil {
			break
		}
		f := a.Call.Common().StaticCallee()
		if f == nil || !c.moduleFn(f) {
			break
		}
		// sanitiser summary: every success return of the callee is clean (in the callee's own terms)
		fo := c.P.OriginsOf(f)
		idx := a.Idx
		if idx < 0 {
			idx = 0
		}
		rets := fo.SuccessReturns()
		if len(rets) == 0 {
			return false, "callee " + c.P.FuncKey(f) + " has no success return"
		}
		for _, r := range rets {
			if idx >= len(r.Results) {
				return false, "result index"
			}
			re := fo.Of(r.Results[idx])
			for _, alt := range re.Alts() {
				if alt.K == "param" || (alt.K == "field" && paramRoot(alt) != "") {
					return false, "callee " + c.P.FuncKey(f) + " can return its argument unchanged at " + c.P.InstrPos(r)
				}
				ok, why := c.cleanOne(fo, f, alt, depth+1)
				if !ok {
					return false, "callee " + c.P.FuncKey(f) + " is not a sanitiser on the return at " + c.P.InstrPos(r) + ": " + why
				}
			}
		}
		return true, ""
	case "param", "field":
		if root := paramRoot(a); root != "" && fn.Parent() == nil {
			callers := c.callersOf(fn)
			if len(callers) == 0 {
				return false, "tainted: " + short(a.String(), 80) + " comes from the caller of exported " + c.P.FuncKey(fn)
			}
			for _, cs := range callers {
				co := c.P.OriginsOf(cs.Parent())
				en := co.Enter(fn, cs)
				// evaluate the same expression in the caller's terms
				var v ssa.Value
				for _, prm := range fn.Params {
					if prm.Name() == root {
						v = prm
					}
				}
				if v == nil {
					return false, "cannot resolve parameter " + root
				}
				arg := en.Of(v)
				// re-apply the field path
				cur := arg
				for _, f := range fieldPath(a) {
					cur = project(cur, f)
				}
				ok, why := c.cleanInputs(co, cs.Parent(), cur, depth+1)
				if !ok {
					return false, "via caller " + c.P.FuncKey(cs.Parent()) + " at " + c.P.InstrPos(cs) + ": " + why
				}
			}
			return true, ""
		}
	}
	return false, "tainted: " + short(a.String(), 140) + " (stored, received or unblinded proofs carry their DLEQ)"
}

func hasNilDLEQOverride(el *Ex) bool {
	for _, s := range el.Args[1:] {
		if s.K == "set" && s.S == "DLEQ" && isConst(s.Args[0], "nil") {
			return true
		}
	}
	return false
}

func fieldPath(e *Ex) []string {
	var rev []string
	for e != nil && e.K == "field" {
		rev = append(rev, e.S)
		e = e.Args[0]
	}
	for i, j := 0, len(rev)-1; i < j; i, j = i+1, j-1 {
		rev[i], rev[j] = rev[j], rev[i]
	}
	return rev
}

// c08BlindingFactorIndependent: R4. A secret reaches the mint when the output is spent, so a blinding factor must not be
// recoverable from its own secret. Decided structurally at every wallet call of crypto.BlindMessage: each alternative of
// the r argument is a value of a generator of the reference tree - a fresh key (secp256k1.GeneratePrivateKey), the NUT-13
// blinding factor (DeriveBlindingFactor), or result #1 of the wallet's two secret generators, which are held to the same
// rule - and the secret argument is not computed from that value or from the bytes it was made of.
func (c *Ctx) c08BlindingFactorIndependent(rule string) {
	R := c.R
	isGen := func(e *Ex) bool {
		if e == nil || e.K != "call" {
			return false
		}
		switch {
		case e.S == "secp256k1.GeneratePrivateKey" && e.Idx == 0:
			return true
		case strings.HasSuffix(e.S, "nut13.DeriveBlindingFactor") && e.Idx == 0:
			return true
		case (e.S == "wallet.generateRandomSecret" || e.S == "wallet.generateDeterministicSecret") && e.Idx == 1:
			return true
		}
		return false
	}
	// the secret is not made from r: no node of the secret's provenance is the r value itself, and no call result
	// or buffer feeds both
	shares := func(sec, r *Ex) string {
		atoms := map[string]bool{}
		// r is a generator result (checked by the caller): the only thing the secret must not contain is that value
		if r.Call != nil {
			atoms[fmt.Sprintf("%p#%d", r.Call, r.Idx)] = true
		}
		hit := ""
		var look func(e *Ex)
		look = func(e *Ex) {
			if e == nil || hit != "" {
				return
			}
			switch e.K {
			case "call":
				if e.Call != nil && atoms[fmt.Sprintf("%p#%d", e.Call, e.Idx)] {
					hit = e.String()
				}
			case "addr", "local", "make", "alloc", "out":
				if atoms[e.String()] {
					hit = e.String()
				}
			}
			for _, a := range e.Args {
				look(a)
			}
		}
		look(sec)
		return hit
	}
	n := 0
	for _, f := range c.P.Funcs {
		top := EnclosingTop(f)
		if top.Pkg == nil {
			continue
		}
		rel := c.P.Rel(top.Pkg.Pkg.Path())
		if rel != "wallet" {
			continue
		}
		o := c.P.OriginsOf(f)
		for _, ci := range Calls(f) {
			d := c.P.Describe(ci)
			if d.Name != "crypto.BlindMessage" || len(d.Args) != 2 {
				continue
			}
			n++
			sec, r := o.Of(d.Args[0]), o.Of(d.Args[1])
			ok, why := true, ""
			for _, ra := range r.Alts() {
				if !isGen(ra) {
					ok, why = false, "blinding factor is "+short(ra.String(), 160)+", not a fresh key or the NUT-13 blinding factor"
					continue
				}
				if h := shares(sec, ra); h != "" {
					ok, why = false, "the secret is computed from what the blinding factor is made of: "+short(h, 160)
				}
			}
			R.Check(rule, c.P.FuncKey(f), "blinding factor is fresh / derived and independent of the secret", c.P.InstrPos(ci), ok,
				"r is a fresh key or the NUT-13 blinding factor, and the secret of the same output is not computed from it", why)
		}
	}
	for _, key := range []string{"wallet.generateRandomSecret", "wallet.generateDeterministicSecret"} {
		f := c.P.Func(key)
		if f == nil {
			continue
		}
		o := c.P.OriginsOf(f)
		for _, ret := range o.SuccessReturns() {
			if len(ret.Results) < 2 {
				continue
			}
			n++
			sec, r := o.Of(ret.Results[0]), o.Of(ret.Results[1])
			ok, why := true, ""
			for _, ra := range r.Alts() {
				if !isGen(ra) || ra.S == key {
					ok, why = false, "blinding factor is "+short(ra.String(), 160)
					continue
				}
				if h := shares(sec, ra); h != "" {
					ok, why = false, "the secret is computed from what the blinding factor is made of: "+short(h, 160)
				}
			}
			R.Check(rule, c.P.FuncKey(f), "generator: blinding factor independent of the secret", c.P.InstrPos(ret), ok,
				"the generator hands back a fresh / NUT-13 blinding factor and a secret that is not computed from it", why)
		}
	}
	if n < 3 {
		R.Unresolved(rule, "wallet calls of crypto.BlindMessage", fmt.Sprintf("found %d sites, expected at least 3", n))
	}
}
