package nc

import (
	"fmt"
	"sort"
	"strings"
	"unicode"
)

// ---- a small SQL reader: enough for the statements and migrations of this repository ----

type sqlTok struct {
	k string // "id", "str", "num", "sym"
	s string
}

func sqlLex(src string) []sqlTok {
	var out []sqlTok
	i := 0
	for i < len(src) {
		c := src[i]
		switch {
		case c == '-' && i+1 < len(src) && src[i+1] == '-':
			for i < len(src) && src[i] != '\n' {
				i++
			}
		case unicode.IsSpace(rune(c)):
			i++
		case c == '\'':
			j := i + 1
			for j < len(src) && src[j] != '\'' {
				j++
			}
			out = append(out, sqlTok{"str", src[i+1 : min(j, len(src))]})
			i = j + 1
		case c == '"' || c == '`':
			j := i + 1
			for j < len(src) && src[j] != c {
				j++
			}
			out = append(out, sqlTok{"id", src[i+1 : min(j, len(src))]})
			i = j + 1
		case unicode.IsLetter(rune(c)) || c == '_':
			j := i
			for j < len(src) && (unicode.IsLetter(rune(src[j])) || unicode.IsDigit(rune(src[j])) || src[j] == '_') {
				j++
			}
			out = append(out, sqlTok{"id", src[i:j]})
			i = j
		case unicode.IsDigit(rune(c)):
			j := i
			for j < len(src) && unicode.IsDigit(rune(src[j])) {
				j++
			}
			out = append(out, sqlTok{"num", src[i:j]})
			i = j
		default:
			out = append(out, sqlTok{"sym", string(c)})
			i++
		}
	}
	return out
}

func (t sqlTok) is(kw string) bool { return t.k == "id" && strings.EqualFold(t.s, kw) }

// SQLStmt is a parsed data statement.
type SQLStmt struct {
	Verb       string   // SELECT INSERT UPDATE DELETE
	Table      string   // main table / view
	Cols       []string // INSERT column list, SELECT list (["*"] for star), UPDATE set columns
	Where      []string // columns compared in WHERE
	WhereOps   []string // operator per where column ("=", "in", ...)
	Conflict   string   // "OR IGNORE", "OR REPLACE", "ON CONFLICT", "" ...
	NParams    int      // number of ? placeholders
	Limit      bool
	Raw        string
	Incomplete bool // statement continues with run-time text (IN-list builders)
}

func (s *SQLStmt) Role() string { return s.Verb + " " + s.Table }

// ParseSQL parses one data statement (possibly a prefix when Incomplete).
func ParseSQL(src string) (*SQLStmt, error) {
	toks := sqlLex(src)
	st := &SQLStmt{Raw: strings.Join(strings.Fields(src), " ")}
	if len(toks) == 0 {
		return nil, fmt.Errorf("empty statement")
	}
	for _, t := range toks {
		if t.k == "sym" && t.s == "?" {
			st.NParams++
		}
		if t.is("LIMIT") {
			st.Limit = true
		}
	}
	i := 0
	next := func() sqlTok {
		if i < len(toks) {
			t := toks[i]
			i++
			return t
		}
		return sqlTok{}
	}
	peek := func() sqlTok {
		if i < len(toks) {
			return toks[i]
		}
		return sqlTok{}
	}
	parseWhere := func() {
		for i < len(toks) {
			if toks[i].is("WHERE") {
				i++
				break
			}
			i++
		}
		for i < len(toks) {
			t := next()
			if t.k != "id" || t.is("AND") || t.is("OR") || t.is("NOT") {
				continue
			}
			if t.is("LIMIT") || t.is("ORDER") || t.is("GROUP") {
				break
			}
			op := peek()
			switch {
			case op.k == "sym" && (op.s == "=" || op.s == "<" || op.s == ">" || op.s == "!"):
				st.Where = append(st.Where, strings.ToLower(t.s))
				st.WhereOps = append(st.WhereOps, op.s)
				i++
				// skip the right-hand side token
				if i < len(toks) {
					i++
				}
			case op.is("IN"):
				st.Where = append(st.Where, strings.ToLower(t.s))
				st.WhereOps = append(st.WhereOps, "in")
				i++
			case op.is("IS") || op.is("LIKE"):
				st.Where = append(st.Where, strings.ToLower(t.s))
				st.WhereOps = append(st.WhereOps, strings.ToLower(op.s))
				i++
			}
		}
	}
	t := next()
	switch {
	case t.is("SELECT"):
		st.Verb = "SELECT"
		for i < len(toks) && !peek().is("FROM") {
			c := next()
			if c.k == "sym" && c.s == "*" {
				st.Cols = append(st.Cols, "*")
			} else if c.k == "id" && c.is("AS") {
				next() // alias of the expression before it
			} else if c.k == "id" {
				if p := peek(); p.k == "sym" && p.s == "(" {
					// an expression over columns - COUNT(*), SUM(amount), COALESCE(x, 0): one result column that is
					// not a column of the table (named "fn(...)")
					depth := 0
					for i < len(toks) {
						t2 := next()
						if t2.k == "sym" && t2.s == "(" {
							depth++
						} else if t2.k == "sym" && t2.s == ")" {
							depth--
							if depth == 0 {
								break
							}
						}
					}
					st.Cols = append(st.Cols, strings.ToLower(c.s)+"(...)")
				} else {
					st.Cols = append(st.Cols, strings.ToLower(c.s))
				}
			}
		}
		next() // FROM
		st.Table = strings.ToLower(next().s)
		parseWhere()
	case t.is("INSERT"):
		st.Verb = "INSERT"
		if peek().is("OR") {
			next()
			st.Conflict = "OR " + strings.ToUpper(next().s)
		}
		if !next().is("INTO") {
			return nil, fmt.Errorf("INSERT without INTO: %q", st.Raw)
		}
		st.Table = strings.ToLower(next().s)
		if p := peek(); p.k == "sym" && p.s == "(" {
			next()
			for i < len(toks) {
				c := next()
				if c.k == "sym" && c.s == ")" {
					break
				}
				if c.k == "id" {
					st.Cols = append(st.Cols, strings.ToLower(c.s))
				}
			}
		}
		for j := i; j+1 < len(toks); j++ {
			if toks[j].is("ON") && toks[j+1].is("CONFLICT") {
				st.Conflict = "ON CONFLICT"
			}
		}
	case t.is("REPLACE"):
		st.Verb = "INSERT"
		st.Conflict = "OR REPLACE"
		next()
		st.Table = strings.ToLower(next().s)
	case t.is("UPDATE"):
		st.Verb = "UPDATE"
		if peek().is("OR") {
			next()
			st.Conflict = "OR " + strings.ToUpper(next().s)
		}
		st.Table = strings.ToLower(next().s)
		if !next().is("SET") {
			return nil, fmt.Errorf("UPDATE without SET: %q", st.Raw)
		}
		for i < len(toks) && !peek().is("WHERE") {
			c := next()
			if c.k == "id" && peek().k == "sym" && peek().s == "=" {
				st.Cols = append(st.Cols, strings.ToLower(c.s))
			}
		}
		parseWhere()
	case t.is("DELETE"):
		st.Verb = "DELETE"
		if !next().is("FROM") {
			return nil, fmt.Errorf("DELETE without FROM: %q", st.Raw)
		}
		st.Table = strings.ToLower(next().s)
		parseWhere()
	case t.is("DROP"), t.is("CREATE"), t.is("ALTER"), t.is("PRAGMA"), t.is("VACUUM"), t.is("ATTACH"):
		st.Verb = strings.ToUpper(t.s)
		// DDL outside migrations: table name after the object kind
		for i < len(toks) {
			c := next()
			if c.is("TABLE") || c.is("VIEW") || c.is("INDEX") {
				for peek().is("IF") || peek().is("NOT") || peek().is("EXISTS") {
					next()
				}
				st.Table = strings.ToLower(next().s)
				break
			}
		}
	default:
		return nil, fmt.Errorf("unrecognised SQL statement: %q", st.Raw)
	}
	if st.Table == "" && st.Verb != "PRAGMA" && st.Verb != "VACUUM" {
		return nil, fmt.Errorf("no table in statement: %q", st.Raw)
	}
	return st, nil
}

// ---- schema folding ------------------------------------------------------

type SQLColumn struct {
	Name    string
	Type    string
	PK      bool
	Unique  bool
	NotNull bool
}

type SQLTable struct {
	Name    string
	Cols    []SQLColumn
	IsView  bool
	ViewSQL string
	// for views of the shape SELECT k, agg AS v FROM (SELECT k, SUM(col) AS a FROM base GROUP BY k)
	ViewBase    string
	ViewSumCol  string
	ViewGroupBy string
	ViewCols    []string
	Origin      string // migration file that created it
}

func (t *SQLTable) Col(name string) *SQLColumn {
	for i := range t.Cols {
		if t.Cols[i].Name == name {
			return &t.Cols[i]
		}
	}
	return nil
}

func (t *SQLTable) ColNames() []string {
	if t.IsView {
		return t.ViewCols
	}
	out := make([]string, len(t.Cols))
	for i, c := range t.Cols {
		out[i] = c.Name
	}
	return out
}

type SQLSchema struct {
	Tables      map[string]*SQLTable
	Dropped     []string
	Files       []string
	Destructive []string // statements in migrations that delete data from ledger tables
	OddKeys     []string // unique indexes / key columns that compare under a collation or over an expression
}

func splitStatements(src string) []string {
	// strip comments first
	var b strings.Builder
	for _, line := range strings.Split(src, "\n") {
		if i := strings.Index(line, "--"); i >= 0 {
			line = line[:i]
		}
		b.WriteString(line)
		b.WriteString("\n")
	}
	var out []string
	for _, s := range strings.Split(b.String(), ";") {
		if strings.TrimSpace(s) != "" {
			out = append(out, s)
		}
	}
	return out
}

// FoldMigrations applies the up-migrations in file-name order.
func FoldMigrations(files map[string]string) (*SQLSchema, error) {
	sc := &SQLSchema{Tables: map[string]*SQLTable{}}
	names := make([]string, 0, len(files))
	for n := range files {
		names = append(names, n)
	}
	sort.Strings(names)
	sc.Files = names
	for _, n := range names {
		for _, stmt := range splitStatements(files[n]) {
			if err := sc.apply(n, stmt); err != nil {
				return nil, fmt.Errorf("%s: %v", n, err)
			}
		}
	}
	return sc, nil
}

func (sc *SQLSchema) apply(file, stmt string) error {
	toks := sqlLex(stmt)
	if len(toks) == 0 {
		return nil
	}
	i := 0
	skipIfNotExists := func() {
		for i < len(toks) && (toks[i].is("IF") || toks[i].is("NOT") || toks[i].is("EXISTS")) {
			i++
		}
	}
	switch {
	case toks[0].is("CREATE") && len(toks) > 1 && toks[1].is("TABLE"):
		i = 2
		skipIfNotExists()
		name := strings.ToLower(toks[i].s)
		i++
		if _, exists := sc.Tables[name]; exists {
			return nil // IF NOT EXISTS on an existing table
		}
		t := &SQLTable{Name: name, Origin: file}
		if i >= len(toks) || toks[i].s != "(" {
			return fmt.Errorf("CREATE TABLE %s: expected (", name)
		}
		i++
		depth := 1
		var cur []sqlTok
		flush := func() {
			if len(cur) == 0 {
				return
			}
			defer func() { cur = nil }()
			if cur[0].is("PRIMARY") || cur[0].is("UNIQUE") || cur[0].is("FOREIGN") || cur[0].is("CONSTRAINT") || cur[0].is("CHECK") {
				// table constraint: PRIMARY KEY (a, b) / UNIQUE (a)
				kind := strings.ToUpper(cur[0].s)
				var cols []string
				in := false
				for _, c := range cur {
					if c.s == "(" {
						in = true
						continue
					}
					if c.s == ")" {
						in = false
					}
					if in && c.k == "id" {
						cols = append(cols, strings.ToLower(c.s))
					}
				}
				if len(cols) == 1 {
					if col := t.Col(cols[0]); col != nil {
						if kind == "PRIMARY" {
							col.PK = true
						}
						if kind == "UNIQUE" {
							col.Unique = true
						}
					}
				}
				return
			}
			col := SQLColumn{Name: strings.ToLower(cur[0].s)}
			for j := 1; j < len(cur); j++ {
				switch {
				case j == 1 && cur[j].k == "id" && !cur[j].is("PRIMARY") && !cur[j].is("NOT") && !cur[j].is("UNIQUE"):
					col.Type = strings.ToUpper(cur[j].s)
				case cur[j].is("PRIMARY"):
					col.PK = true
				case cur[j].is("UNIQUE"):
					col.Unique = true
				case cur[j].is("NOT") && j+1 < len(cur) && cur[j+1].is("NULL"):
					col.NotNull = true
				}
			}
			t.Cols = append(t.Cols, col)
		}
		for i < len(toks) && depth > 0 {
			c := toks[i]
			i++
			if c.k == "sym" && c.s == "(" {
				depth++
			}
			if c.k == "sym" && c.s == ")" {
				depth--
				if depth == 0 {
					break
				}
			}
			if c.k == "sym" && c.s == "," && depth == 1 {
				flush()
				continue
			}
			cur = append(cur, c)
		}
		flush()
		sc.Tables[name] = t
	case toks[0].is("ALTER") && len(toks) > 2 && toks[1].is("TABLE"):
		name := strings.ToLower(toks[2].s)
		t := sc.Tables[name]
		if t == nil {
			return fmt.Errorf("ALTER of unknown table %s", name)
		}
		i = 3
		switch {
		case i < len(toks) && toks[i].is("ADD"):
			i++
			if i < len(toks) && toks[i].is("COLUMN") {
				i++
			}
			col := SQLColumn{Name: strings.ToLower(toks[i].s)}
			for j := i + 1; j < len(toks); j++ {
				switch {
				case j == i+1 && toks[j].k == "id":
					col.Type = strings.ToUpper(toks[j].s)
				case toks[j].is("UNIQUE"):
					col.Unique = true
				case toks[j].is("NOT") && j+1 < len(toks) && toks[j+1].is("NULL"):
					col.NotNull = true
				}
			}
			t.Cols = append(t.Cols, col)
		case i < len(toks) && toks[i].is("DROP"):
			i++
			if i < len(toks) && toks[i].is("COLUMN") {
				i++
			}
			cn := strings.ToLower(toks[i].s)
			var keep []SQLColumn
			for _, c := range t.Cols {
				if c.Name != cn {
					keep = append(keep, c)
				}
			}
			t.Cols = keep
		case i < len(toks) && toks[i].is("RENAME"):
			return fmt.Errorf("ALTER TABLE RENAME is not modelled: %s", strings.Join(strings.Fields(stmt), " "))
		}
	case toks[0].is("CREATE") && len(toks) > 1 && toks[1].is("VIEW"):
		i = 2
		skipIfNotExists()
		name := strings.ToLower(toks[i].s)
		i++
		if _, exists := sc.Tables[name]; exists {
			return nil
		}
		v := &SQLTable{Name: name, IsView: true, Origin: file, ViewSQL: strings.Join(strings.Fields(stmt), " ")}
		// optional column list
		if i < len(toks) && toks[i].s == "(" {
			i++
			for i < len(toks) && toks[i].s != ")" {
				if toks[i].k == "id" {
					v.ViewCols = append(v.ViewCols, strings.ToLower(toks[i].s))
				}
				i++
			}
			i++
		}
		parseViewBody(v, toks[i:])
		sc.Tables[name] = v
	case toks[0].is("DROP") && len(toks) > 2 && (toks[1].is("VIEW") || toks[1].is("TABLE")):
		i = 2
		skipIfNotExists()
		name := strings.ToLower(toks[i].s)
		if t := sc.Tables[name]; t != nil && !t.IsView {
			sc.Destructive = append(sc.Destructive, file+": "+strings.Join(strings.Fields(stmt), " "))
		}
		delete(sc.Tables, name)
		sc.Dropped = append(sc.Dropped, name)
	case toks[0].is("CREATE") && len(toks) > 1 && (toks[1].is("INDEX") || toks[1].is("UNIQUE")):
		// CREATE [UNIQUE] INDEX name ON table(col)
		unique := toks[1].is("UNIQUE")
		for j := 0; j+1 < len(toks); j++ {
			if toks[j].is("ON") {
				tn := strings.ToLower(toks[j+1].s)
				var cols []string
				for k := j + 2; k < len(toks); k++ {
					if toks[k].k == "id" {
						cols = append(cols, strings.ToLower(toks[k].s))
					}
				}
				if unique {
					// a uniqueness that compares otherwise than byte for byte (COLLATE NOCASE, lower(x), a partial
					// index) refuses rows the Go-side pre-checks consider distinct
					for k := j + 2; k < len(toks); k++ {
						if toks[k].is("COLLATE") || toks[k].is("WHERE") || (toks[k].k == "id" && k+1 < len(toks) && toks[k+1].s == "(" && k > j+2) {
							sc.OddKeys = append(sc.OddKeys, file+": "+strings.Join(strings.Fields(stmt), " "))
							break
						}
					}
				}
				if unique && len(cols) == 1 {
					if t := sc.Tables[tn]; t != nil {
						if c := t.Col(cols[0]); c != nil {
							c.Unique = true
						}
					}
				}
				break
			}
		}
	case toks[0].is("DELETE") || toks[0].is("UPDATE") || toks[0].is("INSERT"):
		st, err := ParseSQL(stmt)
		if err != nil {
			return err
		}
		if st.Verb == "DELETE" || st.Verb == "UPDATE" {
			sc.Destructive = append(sc.Destructive, file+": "+st.Raw)
		}
	case toks[0].is("DROP") && len(toks) > 1 && toks[1].is("INDEX"):
		// dropping an index never weakens a column constraint declared in CREATE TABLE
	case toks[0].is("PRAGMA"):
	default:
		return fmt.Errorf("unmodelled migration statement: %s", strings.Join(strings.Fields(stmt), " "))
	}
	return nil
}

// parseViewBody recognises
//
//	AS SELECT k, COALESCE(a, 0) AS v FROM ( SELECT k, SUM(col) AS a FROM base GROUP BY k )
//
// and plain "AS SELECT ... FROM base".
func parseViewBody(v *SQLTable, toks []sqlTok) {
	// outer select list -> column names (alias wins)
	i := 0
	for i < len(toks) && !toks[i].is("SELECT") {
		i++
	}
	i++
	var cols []string
	depth := 0
	var cur []sqlTok
	flush := func() {
		if len(cur) == 0 {
			return
		}
		name := ""
		for j := 0; j < len(cur); j++ {
			if cur[j].is("AS") && j+1 < len(cur) {
				name = strings.ToLower(cur[j+1].s)
			}
		}
		if name == "" && len(cur) == 1 && cur[0].k == "id" {
			name = strings.ToLower(cur[0].s)
		}
		cols = append(cols, name)
		cur = nil
	}
	for i < len(toks) {
		c := toks[i]
		if depth == 0 && c.is("FROM") {
			break
		}
		if c.s == "(" {
			depth++
		}
		if c.s == ")" {
			depth--
		}
		if c.s == "," && depth == 0 {
			flush()
		} else {
			cur = append(cur, c)
		}
		i++
	}
	flush()
	if len(v.ViewCols) == 0 {
		v.ViewCols = cols
	}
	// find SUM(col), the innermost FROM table and GROUP BY
	for j := 0; j+2 < len(toks); j++ {
		if toks[j].is("SUM") && toks[j+1].s == "(" {
			v.ViewSumCol = strings.ToLower(toks[j+2].s)
		}
		if toks[j].is("GROUP") && toks[j+1].is("BY") {
			v.ViewGroupBy = strings.ToLower(toks[j+2].s)
		}
	}
	for j := len(toks) - 2; j >= 0; j-- {
		if toks[j].is("FROM") && toks[j+1].k == "id" {
			v.ViewBase = strings.ToLower(toks[j+1].s)
			break
		}
	}
}
