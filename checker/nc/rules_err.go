package nc

import (
	"fmt"
	"sort"
	"strings"

	"golang.org/x/tools/go/ssa"
)

// Error discipline (shared rule): in a function that itself returns an error, the error of every call it makes
// is either tested and found nil, classified (errors.Is / errors.As / status.Code), or handed on, on every path
// from the call to a return that may report success. Formally: with the edges removed on which the call's error
// is known to be nil or classified, no return that may carry a nil error is reachable from just after the call,
// except returns that return that very error value.
//
// The rule is an Engler-style "errors are not dropped" rule instantiated from the code itself; the call sites
// where today's tree deliberately continues after a failed call are frozen in a table (function + callee, one
// line of reason each) given by the caller.

type errSite struct {
	Fn     *ssa.Function
	Call   ssa.CallInstruction
	Callee string
	Ret    *ssa.Return
	Path   string
	Kind   string // "ignored" (never tested) | "bypass" (a path reaches success without the nil test)
}

// errorResultIndex returns the index of the error result of a call's signature, or -2 when it has none.
// -1 means the call's single result is the error.
func errorResultIndex(ci ssa.CallInstruction) int {
	sig := ci.Common().Signature()
	if sig == nil {
		return -2
	}
	res := sig.Results()
	n := res.Len()
	if n == 0 || !IsErrorType(res.At(n-1).Type()) {
		return -2
	}
	if n == 1 {
		return -1
	}
	return n - 1
}

func exIsCallResult(e *Ex, ci ssa.CallInstruction) bool {
	for _, a := range e.Alts() {
		if a != nil && a.K == "call" && a.Call == ci {
			return true
		}
	}
	return false
}

// errorDisciplineSites lists the violations of the rule in fn (not descending into closures).
func (c *Ctx) errorDisciplineSites(fn *ssa.Function) (sites []errSite, nCalls int) {
	res := fn.Signature.Results()
	if res.Len() == 0 || !IsErrorType(res.At(res.Len()-1).Type()) {
		return nil, 0
	}
	o := c.P.OriginsOf(fn)
	succ := o.SuccessReturns()
	edges := o.AllEdges()
	for _, ci := range Calls(fn) {
		call, ok := ci.(*ssa.Call)
		if !ok {
			continue // defer / go: the result is not available to the function
		}
		idx := errorResultIndex(ci)
		if idx == -2 {
			continue
		}
		switch c.P.Describe(ci).Name {
		case "errors.New", "fmt.Errorf", "errors.Join", "errors.Unwrap", "status.Error", "status.Errorf":
			continue // these produce an error value, they do not fail
		}
		nCalls++
		cut := NewCut()
		tested := false
		for _, e := range edges {
			f := o.EdgeFact(e)
			if f == nil {
				continue
			}
			switch f.Kind {
			case "errnil":
				if exIsCallResult(f.A, ci) {
					tested = true
					if f.Pos {
						cut.Edges[e] = true
					}
				}
			case "bool":
				// errors.Is(err, X) / errors.As(err, &t): the failure was classified on the true edge
				if f.Pos && f.A != nil && f.A.K == "call" && (f.A.S == "errors.Is" || f.A.S == "errors.As") && len(f.A.Args) > 0 && exIsCallResult(f.A.Args[0], ci) {
					cut.Edges[e] = true
				}
			case "cmp":
				// status.Code(err) == codes.X
				for _, side := range []*Ex{f.A, f.B} {
					if f.Pos && side != nil && side.K == "call" && side.S == "status.Code" && len(side.Args) > 0 && exIsCallResult(side.Args[0], ci) {
						cut.Edges[e] = true
					}
				}
			}
		}
		for _, r := range succ {
			n := len(r.Results)
			if exIsCallResult(o.Of(r.Results[n-1]), ci) {
				continue // the error itself is handed on
			}
			start := PointOf(call)
			start.Idx++
			if reach, path := Reach(start, PointOf(r), cut); reach {
				kind := "bypass"
				if !tested {
					kind = "ignored"
				}
				sites = append(sites, errSite{Fn: fn, Call: ci, Callee: c.P.Describe(ci).Name, Ret: r, Path: c.P.PathString(path), Kind: kind})
				break
			}
		}
	}
	return sites, nCalls
}

// ruleErrorDiscipline checks the rule over the given functions (with their closures). tolerated maps
// "<function key>|<callee name>" to the reason why continuing after that call's failure is intended.
func (c *Ctx) ruleErrorDiscipline(rule string, scope []*ssa.Function, tolerated map[string]string) {
	seen := map[*ssa.Function]bool{}
	used := map[string]bool{}
	for _, top := range scope {
		for _, fn := range WithClosures(top) {
			if seen[fn] || fn.Blocks == nil {
				continue
			}
			seen[fn] = true
			sites, n := c.errorDisciplineSites(fn)
			if n == 0 {
				continue
			}
			fk := c.P.FuncKey(fn)
			bad := map[string]errSite{}
			for _, s := range sites {
				k := fk + "|" + s.Callee
				if _, ok := tolerated[k]; ok {
					used[k] = true
					continue
				}
				if _, dup := bad[s.Callee]; !dup {
					bad[s.Callee] = s
				}
			}
			if len(bad) == 0 {
				c.R.Check(rule, fk, "no failed call is answered with success", c.P.Pos(fn.Pos()), true,
					"the error of every call is tested nil, classified or handed on before a success return",
					fmt.Sprintf("%d error-returning calls", n))
				continue
			}
			var names []string
			for k := range bad {
				names = append(names, k)
			}
			sort.Strings(names)
			for _, k := range names {
				s := bad[k]
				c.R.Check(rule, fk, "error of "+k+" not dropped", c.P.InstrPos(s.Call), false,
					"the error of every call is tested nil, classified or handed on before a success return",
					fmt.Sprintf("%s: a return that may report success (%s) is reachable after a failure of %s: %s", s.Kind, c.P.InstrPos(s.Ret), k, s.Path))
			}
		}
	}
	var stale []string
	for k := range tolerated {
		if !used[k] {
			stale = append(stale, k)
		}
	}
	sort.Strings(stale)
	if len(stale) > 0 {
		c.R.Note("%s: tolerated entries without a matching site on this tree (harmless): %s", rule, strings.Join(stale, ", "))
	}
}

// DumpErrorDiscipline prints the census of the rule over every module function (debug aid).
func DumpErrorDiscipline(p *Program) {
	c := &Ctx{P: p, R: NewReport("dbg", "quick")}
	for _, fn := range p.Funcs {
		sites, _ := c.errorDisciplineSites(fn)
		for _, s := range sites {
			fmt.Printf("%s|%s\t%s\t%s -> %s\n", p.FuncKey(fn), s.Callee, s.Kind, p.InstrPos(s.Call), p.InstrPos(s.Ret))
		}
	}
}
