package nc

import (
	"fmt"
	"go/types"
	"sort"
	"strings"

	"golang.org/x/tools/go/ssa"
)

// Error discipline (shared rule): in a function that itself returns an error, the error of every call it makes
// is either tested and found nil, classified (errors.Is / errors.As / status.Code), or handed on, on every path
// from the call to a return that may report success. Formally: with the edges removed on which the call's error
// is known to be nil or classified, no return that may carry a nil error is reachable from just after the call,
// except returns that return that very error value.
//
// The rule is an Engler-style "errors are not dropped" rule instantiated from the code itself; the call sites
// where today's tree deliberately continues after a failed call are frozen in a table (function + callee, one
// line of reason each) given by the caller.

type errSite struct {
	Fn     *ssa.Function
	Call   ssa.CallInstruction
	Callee string
	Ret    *ssa.Return
	Path   string
	Kind   string // "ignored" (never tested) | "bypass" (a path reaches success without the nil test)
}

// errorResultIndex returns the index of the error result of a call's signature, or -2 when it has none.
// -1 means the call's single result is the error.
func errorResultIndex(ci ssa.CallInstruction) int {
	sig := ci.Common().Signature()
	if sig == nil {
		return -2
	}
	res := sig.Results()
	n := res.Len()
	if n == 0 || !IsErrorType(res.At(n-1).Type()) {
		return -2
	}
	if n == 1 {
		return -1
	}
	return n - 1
}

// errNotAFailingCall: callees whose error result is not the failure of a step of the operation - constructors of
// error values, accessors, and writes to in-memory buffers / diagnostics / JSON encoding of the repo's own values.
func errNotAFailingCall(name string) bool {
	switch name {
	case "errors.New", "fmt.Errorf", "errors.Join", "errors.Unwrap", "status.Error", "status.Errorf",
		"(context.Context).Err", "encoding/json.Marshal", "encoding/json.MarshalIndent":
		return true
	}
	for _, p := range []string{"fmt.Print", "fmt.Fprint", "bytes.(*Buffer).Write", "strings.(*Builder).Write", "(hash.Hash).Write", "log.", "log/slog."} {
		if strings.HasPrefix(name, p) {
			return true
		}
	}
	return false
}

func exIsCallResult(e *Ex, ci ssa.CallInstruction) bool {
	for _, a := range e.Alts() {
		if a != nil && a.K == "call" && a.Call == ci {
			return true
		}
	}
	return false
}

// errorDisciplineSites lists the violations of the rule in fn (not descending into closures).
func (c *Ctx) errorDisciplineSites(fn *ssa.Function) (sites []errSite, nCalls int) {
	res := fn.Signature.Results()
	if res.Len() == 0 || !IsErrorType(res.At(res.Len()-1).Type()) {
		return nil, 0
	}
	o := c.P.OriginsOf(fn)
	succ := o.SuccessReturns()
	edges := o.AllEdges()
	for _, ci := range Calls(fn) {
		call, ok := ci.(*ssa.Call)
		if !ok {
			continue // defer / go: the result is not available to the function
		}
		idx := errorResultIndex(ci)
		if idx == -2 {
			continue
		}
		if errNotAFailingCall(c.P.Describe(ci).Name) {
			continue
		}
		nCalls++
		cut := NewCut()
		tested := false
		for _, e := range edges {
			f := o.EdgeFact(e)
			if f == nil {
				continue
			}
			switch f.Kind {
			case "errnil":
				if exIsCallResult(f.A, ci) {
					tested = true
					if f.Pos {
						cut.Edges[e] = true
					}
				}
			case "bool":
				// errors.Is(err, X) / errors.As(err, &t): the failure was classified on the true edge
				if f.Pos && f.A != nil && f.A.K == "call" && (f.A.S == "errors.Is" || f.A.S == "errors.As") && len(f.A.Args) > 0 && exIsCallResult(f.A.Args[0], ci) {
					cut.Edges[e] = true
				}
			case "cmp":
				// err == Sentinel (a package-level error value): the failure was classified
				if f.Op.String() == "==" && f.Pos && f.A != nil && f.B != nil {
					if (exIsCallResult(f.A, ci) && f.B.K == "gval") || (exIsCallResult(f.B, ci) && f.A.K == "gval") {
						cut.Edges[e] = true
					}
				}
				// status.Code(err) == codes.X
				for _, side := range []*Ex{f.A, f.B} {
					if f.Pos && side != nil && side.K == "call" && side.S == "status.Code" && len(side.Args) > 0 && exIsCallResult(side.Args[0], ci) {
						cut.Edges[e] = true
					}
				}
			}
		}
		for _, r := range succ {
			n := len(r.Results)
			if exIsCallResult(o.Of(r.Results[n-1]), ci) || passedThrough(r.Results[n-1], ci, idx) {
				continue // the error itself is handed on
			}
			start := PointOf(call)
			start.Idx++
			if reach, path := Reach(start, PointOf(r), cut); reach {
				kind := "bypass"
				if !tested {
					kind = "ignored"
				}
				sites = append(sites, errSite{Fn: fn, Call: ci, Callee: c.P.Describe(ci).Name, Ret: r, Path: c.P.PathString(path), Kind: kind})
				break
			}
		}
	}
	return sites, nCalls
}

// ruleErrorDiscipline checks the rule over the given functions (with their closures). tolerated maps
// "<function key>|<callee name>" to the reason why continuing after that call's failure is intended.
func (c *Ctx) ruleErrorDiscipline(rule string, scope []*ssa.Function, tolerated map[string]string) {
	seen := map[*ssa.Function]bool{}
	used := map[string]bool{}
	for _, top := range scope {
		for _, fn := range WithClosures(top) {
			if seen[fn] || fn.Blocks == nil {
				continue
			}
			seen[fn] = true
			sites, n := c.errorDisciplineSites(fn)
			if n == 0 {
				continue
			}
			fk := c.P.FuncKey(fn)
			bad := map[string]errSite{}
			for _, s := range sites {
				k := fk + "|" + s.Callee
				if _, ok := tolerated[k]; ok {
					used[k] = true
					continue
				}
				if _, dup := bad[s.Callee]; !dup {
					bad[s.Callee] = s
				}
			}
			if len(bad) == 0 {
				c.R.Check(rule, fk, "no failed call is answered with success", c.P.Pos(fn.Pos()), true,
					"the error of every call is tested nil, classified or handed on before a success return",
					fmt.Sprintf("%d error-returning calls", n))
				continue
			}
			var names []string
			for k := range bad {
				names = append(names, k)
			}
			sort.Strings(names)
			for _, k := range names {
				s := bad[k]
				c.R.Check(rule, fk, "error of "+k+" not dropped", c.P.InstrPos(s.Call), false,
					"the error of every call is tested nil, classified or handed on before a success return",
					fmt.Sprintf("%s: a return that may report success (%s) is reachable after a failure of %s: %s", s.Kind, c.P.InstrPos(s.Ret), k, s.Path))
			}
		}
	}
	var stale []string
	for k := range tolerated {
		if !used[k] {
			stale = append(stale, k)
		}
	}
	sort.Strings(stale)
	if len(stale) > 0 {
		c.R.Note("%s: tolerated entries without a matching site on this tree (harmless): %s", rule, strings.Join(stale, ", "))
	}
}

// DumpErrorDiscipline prints the census of the rule over every module function (debug aid).
func DumpErrorDiscipline(p *Program) {
	c := &Ctx{P: p, R: NewReport("dbg", "quick")}
	for _, top := range p.Funcs {
		if top.Parent() != nil {
			continue
		}
		for _, fn := range WithClosures(top) {
			sites, _ := c.errorDisciplineSites(fn)
			for _, s := range sites {
				fmt.Printf("%s|%s\t%s\t%s -> %s\n", p.FuncKey(top), s.Callee, s.Kind, p.InstrPos(s.Call), p.InstrPos(s.Ret))
			}
		}
	}
}

// ruleErrorDisciplinePkgs applies the rule to every function of the given module packages (relative paths).
// A function that does not exist on the reference tree is examined as part of each reference function that
// reaches it (OpFuncs), so the frozen table is keyed by reference function + callee and survives helper
// extraction, closures being added or removed, and renames.
func (c *Ctx) ruleErrorDisciplinePkgs(rule string, pkgs []string, tolerated map[string]string, minFuncs int) {
	inPkg := func(f *ssa.Function) bool {
		top := EnclosingTop(f)
		if top.Pkg == nil {
			return false
		}
		rel := c.P.Rel(top.Pkg.Pkg.Path())
		for _, p := range pkgs {
			if rel == p || (strings.HasSuffix(p, "/*") && strings.HasPrefix(rel, strings.TrimSuffix(p, "*"))) {
				return true
			}
		}
		return false
	}
	used := map[string]bool{}
	covered := map[*ssa.Function]bool{}
	nFuncs, nCalls := 0, 0
	check := func(top *ssa.Function, fns []*ssa.Function) {
		fk := c.P.FuncKey(top)
		bad := map[string]errSite{}
		n := 0
		for _, fn := range fns {
			if fn.Blocks == nil {
				continue
			}
			covered[fn] = true
			sites, k := c.errorDisciplineSites(fn)
			n += k
			for _, s := range sites {
				key := fk + "|" + s.Callee
				if why, ok := tolerated[key]; ok {
					used[key] = true
					// "fallback:<callee>|reason": continuing is intended only because another call decides
					// instead - every success return after the failure lies behind that call's success
					if strings.HasPrefix(why, "fallback:") {
						fb := strings.SplitN(strings.TrimPrefix(why, "fallback:"), "|", 2)[0]
						if okFb, path := c.errHandledByFallback(fn, s.Call, fb); !okFb {
							s.Kind = "fallback " + fb + " bypassed"
							s.Path = path
							if _, dup := bad[s.Callee]; !dup {
								bad[s.Callee] = s
							}
						}
					}
					continue
				}
				// a helper new on this tree that only hands on the error of calls tolerated here (the pay call moved
				// into payQuote(): its error is the pay call's error)
				if g := s.Call.Common().StaticCallee(); g != nil && g.Blocks != nil && c.P.IsNewFunc(g) {
					names := tailErrorCallees(c, g)
					allTol := len(names) > 0
					for _, nm := range names {
						if _, ok := tolerated[fk+"|"+nm]; !ok {
							allTol = false
						} else {
							used[fk+"|"+nm] = true
						}
					}
					if allTol {
						continue
					}
				}
				if _, dup := bad[s.Callee]; !dup {
					bad[s.Callee] = s
				}
			}
		}
		if n == 0 {
			return
		}
		nFuncs++
		nCalls += n
		if len(bad) == 0 {
			c.R.Check(rule, fk, "no failed call is answered with success", c.P.Pos(top.Pos()), true,
				"the error of every call is tested nil, classified or handed on before a return that may report success",
				fmt.Sprintf("%d error-returning calls", n))
			return
		}
		var names []string
		for k := range bad {
			names = append(names, k)
		}
		sort.Strings(names)
		for _, k := range names {
			s := bad[k]
			c.R.Check(rule, fk, "error of "+k+" not dropped", c.P.InstrPos(s.Call), false,
				"the error of every call is tested nil, classified or handed on before a return that may report success",
				fmt.Sprintf("%s: a return that may report success (%s) is reachable after a failure of %s in %s: %s", s.Kind, c.P.InstrPos(s.Ret), k, s.Fn.String(), s.Path))
		}
	}
	saved := c.scope
	for _, f := range c.P.Funcs {
		if f.Parent() != nil || !inPkg(f) || c.P.IsNewFunc(f) {
			continue
		}
		check(f, c.OpFuncs(f))
	}
	// functions new on this tree that no reference function reaches are examined on their own
	for _, f := range c.P.Funcs {
		if f.Parent() != nil || !inPkg(f) || covered[f] {
			continue
		}
		if !c.touchesState(f, 0, map[*ssa.Function]bool{}) {
			continue // pure / read-only addition that no reference function calls
		}
		check(f, WithClosures(f))
	}
	c.scope = saved
	c.R.Check(rule, "-", "census", "", nFuncs >= minFuncs, "the rule examined the expected number of functions",
		fmt.Sprintf("%d functions with %d error-returning calls (minimum %d functions)", nFuncs, nCalls, minFuncs))
	var stale []string
	for k := range tolerated {
		if !used[k] {
			stale = append(stale, k)
		}
	}
	sort.Strings(stale)
	if len(stale) > 0 {
		c.R.Note("%s: tolerated entries without a matching site on this tree (harmless): %s", rule, strings.Join(stale, ", "))
	}
}

// errToleratedMint: the sites of the mint side where today's tree deliberately continues after a failed call
// (reference function + callee; each confirmed by reading).
var errToleratedMint = map[string]string{
	"cashu.DecodeToken|cashu.DecodeTokenV4":                                                          "fallback:cashu.DecodeTokenV3|V4 is tried first; on failure the V3 decoder decides and its error is returned",
	"cashu.DecodeTokenV3|encoding/base64.(*Encoding).DecodeString":                                   "fallback:encoding/base64.(*Encoding).DecodeString|the padded URL-safe alphabet failed: the raw alphabet is tried, whose error is returned",
	"cashu.DecodeTokenV4|encoding/base64.(*Encoding).DecodeString":                                   "fallback:encoding/base64.(*Encoding).DecodeString|the padded URL-safe alphabet failed: the raw alphabet is tried, whose error is returned",
	"cashu/nuts/nut01.(*GetKeysResponse).UnmarshalJSON|encoding/json.Unmarshal":                      "keysets with a non-hex id or undecodable keys are skipped by design (foreign-unit keysets)",
	"cashu/nuts/nut06.(*MintInfo).UnmarshalJSON|encoding/json.Unmarshal":                             "optional info fields: an undecodable optional field is left at its zero value",
	"cashu/nuts/nut06.(*Nuts).UnmarshalJSON|encoding/json.Unmarshal":                                 "NUT-15 settings come in two historical shapes; the second is tried when the first fails",
	"cashu/nuts/nut11.VerifyP2PKLockedProof|encoding/json.Unmarshal":                                 "an undecodable witness is an empty witness: the signature count below then fails (C12.R1 decides that)",
	"cashu/nuts/nut14.VerifyHTLCProof|encoding/json.Unmarshal":                                       "an undecodable witness is an empty witness: the preimage test below then fails (C13.R1 decides that)",
	"mint.(*Client).close|websocket.(*Conn).Close":                                                   "closing a websocket that is already gone",
	"mint.(*Mint).GetMeltQuoteState|(mint/lightning.Client).OutgoingPaymentStatus":                   "a failed look-up is classified (not found => release, other => stay pending); C05 decision table decides the handling",
	"mint.(*Mint).MeltTokens|(mint/lightning.Client).OutgoingPaymentStatus":                          "as above (C05 decision table)",
	"mint.(*Mint).MeltTokens|(mint/lightning.Client).PayPartialAmount":                               "a failed pay call is turned into status Failed and followed by the look-up (C05 decision table)",
	"mint.(*Mint).MeltTokens|(mint/lightning.Client).SendPayment":                                    "as above (C05 decision table)",
	"mint.(*Mint).MeltTokens|(mint/storage.MintDB).GetMintQuoteByPaymentHash":                        "a miss means 'not an invoice of this mint': the external payment branch is taken",
	"mint.(*Mint).RequestMeltQuote|(mint/storage.MintDB).GetMintQuoteByPaymentHash":                  "a miss means 'not an invoice of this mint' (C02.R7 decides what follows)",
	"mint.(*Mint).RequestMeltQuote|(mint/storage.MintDB).GetMeltQuoteByPaymentRequest":               "existence probe: only a non-nil quote matters",
	"mint.(*Mint).verifyProofs|cashu/nuts/nut10.DeserializeSecret":                                   "a secret that is not a NUT-10 secret is a plain secret (C12.R8 decides the parser)",
	"mint.decodeJsonReqBody|encoding/json.(*Decoder).Decode":                                         "the decoder error is classified by type and always turned into a cashu error (C20.R3 decides that)",
	"mint/lightning.(*LndClient).OutgoingPaymentStatus|(routerrpc.RouterClient).TrackPaymentV2":      "a context deadline is answered as Pending, every other error returned",
	"mint/lightning.(*LndClient).OutgoingPaymentStatus|(routerrpc.Router_TrackPaymentV2Client).Recv": "a context deadline is answered as Pending, every other error returned",
	"mint/lightning.(*LndClient).SendPayment|(lnrpc.LightningClient).SendPaymentSync":                "a context deadline is answered as Pending, every other error returned",
}

// errToleratedWallet: the same for the wallet side.
var errToleratedWallet = map[string]string{
	"wallet.(*Wallet).Receive|cashu/nuts/nut10.DeserializeSecret":               "a secret that is not a NUT-10 secret is a plain secret",
	"wallet.(*Wallet).swapToTrusted|cashu/nuts/nut10.DeserializeSecret":         "as above",
	"wallet.(*Wallet).getActiveKeyset|encoding/hex.DecodeString":                "keysets with a non-hex id are skipped by design",
	"wallet.(*Wallet).loadWalletMints|encoding/hex.DecodeString":                "as above",
	"wallet.GetMintInactiveKeysets|encoding/hex.DecodeString":                   "as above",
	"wallet.Restore|encoding/hex.DecodeString":                                  "as above",
	"wallet.Restore|os.Stat":                                                    "existence probe: success of Stat is the refusal",
	"wallet.(*Wallet).selectProofsForAmount|wallet.selectProofsToSend":          "called only when the bucket holds at least the amount, the one condition under which it fails (C18.R1 decides the selection)",
	"wallet.(*Wallet).getProofsForAmount|(wallet/storage.WalletDB).DeleteProof": "storage fault of the wallet's own file: outside the quantifier of C17 (no wallet storage faults); today's code does not test it",
	"wallet.(*Wallet).swapToSend|(wallet/storage.WalletDB).DeleteProof":         "as above",
	"wallet.(*Wallet).loadWalletMints|(wallet/storage.WalletDB).SaveKeyset":     "as above (caching fetched public keys)",
	"wallet/storage.(*BoltDB).GetInvoices|encoding/json.Unmarshal":              "an undecodable stored record is skipped when listing",
	"wallet/storage.(*BoltDB).GetInvoice|encoding/json.Unmarshal":               "an undecodable stored record reads as absent",
	"wallet/storage.(*BoltDB).GetMeltQuoteById|encoding/json.Unmarshal":         "an undecodable stored record reads as absent",
	"wallet/storage.(*BoltDB).GetMeltQuotes|encoding/json.Unmarshal":            "an undecodable stored record is skipped when listing",
	"wallet/storage.(*BoltDB).GetMintQuotes|encoding/json.Unmarshal":            "an undecodable stored record is skipped when listing",
	"wallet/storage.(*BoltDB).GetPendingProofs|encoding/json.Unmarshal":         "an undecodable stored record is skipped when listing (C17.R6 decides that every stored entry is visited)",
	"wallet/storage.(*BoltDB).GetProofs|encoding/json.Unmarshal":                "as above",
	"wallet/storage.(*BoltDB).MigrateInvoicesToQuotes|bbolt.(*DB).Update":       "one-off migration clean-up of the old bucket",
	"wallet/storage.(*BoltDB).MigrateInvoicesToQuotes|bbolt.(*Tx).DeleteBucket": "one-off migration clean-up of the old bucket",
	"wallet/storage.(*BoltDB).SaveMnemonicSeed|bbolt.(*Bucket).Put":             "written once at wallet creation inside one Update whose own error is returned",
}

// errHandledByFallback: after a failure of call, every return of fn that may report success is reached only
// through the success of a call to the named fallback callee (or of call itself).
func (c *Ctx) errHandledByFallback(fn *ssa.Function, call ssa.CallInstruction, fallback string) (bool, string) {
	o := c.P.OriginsOf(fn)
	cut := NewCut()
	for _, e := range o.AllEdges() {
		f := o.EdgeFact(e)
		if f == nil || f.Kind != "errnil" || !f.Pos {
			continue
		}
		for _, a := range f.A.Alts() {
			if a != nil && a.K == "call" && a.Call != nil && (a.Call == call || c.P.Describe(a.Call).Name == fallback) {
				cut.Edges[e] = true
			}
		}
	}
	start := PointOf(call)
	start.Idx++
	for _, r := range o.SuccessReturns() {
		if reach, path := Reach(start, PointOf(r), cut); reach {
			return false, c.P.PathString(path)
		}
	}
	return true, ""
}

// passedThrough: v is result k of a call g(..., err, ...) whose argument is the error result of ci, and every return
// of the module function g hands back that very parameter as result k (`return countFailed(parse(resp))`, a logging /
// counting wrapper around an error): the error is handed on, not dropped.
func passedThrough(v ssa.Value, ci ssa.CallInstruction, errIdx int) bool {
	k := 0
	var outer *ssa.Call
	switch x := v.(type) {
	case *ssa.Extract:
		outer, _ = x.Tuple.(*ssa.Call)
		k = x.Index
	case *ssa.Call:
		outer = x
	}
	if outer == nil {
		return false
	}
	g := outer.Call.StaticCallee()
	if g == nil || g.Blocks == nil {
		return false
	}
	isErrOfCi := func(a ssa.Value) bool {
		if ex, ok := a.(*ssa.Extract); ok {
			if c2, ok := ex.Tuple.(*ssa.Call); ok && ssa.CallInstruction(c2) == ci && ex.Index == errIdx {
				return true
			}
		}
		if c2, ok := a.(*ssa.Call); ok && ssa.CallInstruction(c2) == ci && errIdx == -1 {
			return true
		}
		return false
	}
	for j, a := range outer.Call.Args {
		if !isErrOfCi(a) || j >= len(g.Params) {
			continue
		}
		all := true
		for _, r := range Returns(g) {
			if k >= len(r.Results) || r.Results[k] != ssa.Value(g.Params[j]) {
				all = false
			}
		}
		if all {
			return true
		}
	}
	return false
}

// touchesState: fn (with its closures and the module functions it calls, three levels) calls something that can change
// persistent state or reach the network: a storage / Lightning / wallet-client interface or function, a SQL Exec, a
// bolt write. A function new on the tree that does none of this - a formatter, a read-only report - is outside the
// error-discipline rule when no reference function reaches it.
func (c *Ctx) touchesState(fn *ssa.Function, depth int, seen map[*ssa.Function]bool) bool {
	if seen[fn] || depth > 3 {
		return false
	}
	seen[fn] = true
	for _, g := range WithClosures(fn) {
		for _, ci := range Calls(g) {
			d := c.P.Describe(ci)
			n := d.Name
			switch {
			case strings.HasPrefix(n, "database/sql.") && (strings.Contains(n, "Exec") || strings.Contains(n, "Begin") || strings.Contains(n, "Prepare")):
				return true
			case strings.Contains(n, "bbolt") && (strings.HasSuffix(n, ".Update") || strings.HasSuffix(n, ".Put") || strings.HasSuffix(n, ".Delete") || strings.HasSuffix(n, ".DeleteBucket") || strings.HasSuffix(n, ".Batch")):
				return true
			case strings.HasPrefix(n, "wallet/client.Post") || strings.HasPrefix(n, "net/http.Post") || strings.Contains(n, "net/http.(*Client)"):
				return true
			}
			if d.Iface != nil {
				recv := d.Iface.Type().(*types.Signature).Recv()
				rt := ""
				if recv != nil {
					rt = recv.Type().String()
				}
				mn := d.Iface.Name()
				readOnly := strings.HasPrefix(mn, "Get") || strings.HasPrefix(mn, "List") || strings.HasPrefix(mn, "Count")
				if (strings.HasSuffix(rt, "storage.MintDB") || strings.HasSuffix(rt, "storage.WalletDB")) && !readOnly {
					return true
				}
				if strings.HasSuffix(rt, "lightning.Client") {
					return true
				}
			}
			if callee := ci.Common().StaticCallee(); callee != nil && callee.Blocks != nil && c.moduleFn(callee) {
				if c.touchesState(callee, depth+1, seen) {
					return true
				}
			}
		}
	}
	return false
}

// tailErrorCallees: when every return of g takes its error directly from a call made in g (`return f(x)`,
// `r, err := f(x); return r, err`), the names of those calls; nil otherwise.
func tailErrorCallees(c *Ctx, g *ssa.Function) []string {
	var names []string
	for _, r := range Returns(g) {
		n := len(r.Results)
		if n == 0 {
			return nil
		}
		var call *ssa.Call
		switch x := r.Results[n-1].(type) {
		case *ssa.Extract:
			call, _ = x.Tuple.(*ssa.Call)
		case *ssa.Call:
			call = x
		}
		if call == nil {
			return nil
		}
		names = append(names, c.P.Describe(call).Name)
	}
	return names
}

// tailErrorCalls: the calls whose error every return of g hands on directly; nil when some return does not.
func tailErrorCalls(g *ssa.Function) []*ssa.Call {
	var out []*ssa.Call
	for _, r := range Returns(g) {
		n := len(r.Results)
		if n == 0 {
			return nil
		}
		var call *ssa.Call
		switch x := r.Results[n-1].(type) {
		case *ssa.Extract:
			call, _ = x.Tuple.(*ssa.Call)
		case *ssa.Call:
			call = x
		}
		if call == nil {
			return nil
		}
		out = append(out, call)
	}
	return out
}
