package nc

import (
	"fmt"
	"go/constant"
	"go/types"
	"reflect"
	"strings"

	"golang.org/x/tools/go/ssa"
)

func init() {
	register("C02", "Decides the per-operation inequalities the ledger statement rests on, on every path: (R1) swap signs only behind a "+
		"guard implying OUT <= IN - FEES with OUT the overflow-checked output sum of the very outputs that are signed, IN the sum over the "+
		"whole input list, FEES the fee operation applied to those inputs, checked-helper flags honoured; (R2) mint signs only behind "+
		"OUT <= stored quote amount (checked sum); (R3) melt pays / settles internally only behind IN >= quote.Amount + quote.FeeReserve + "+
		"FEES; (R4) the fee operation is ceil(sum over inputs of keysets[proof.Id].InputFeePpk / 1000); (R5) the signer uses the active "+
		"keyset's key for the message's own amount and emits that amount and the active id; (R6) the fee limit handed to every Lightning "+
		"pay call is the stored fee reserve (or its recomputation FeeReserve(AmountMsat/1000) for MPP) and each real backend forwards its "+
		"maxFee parameter into the request; (R7) a melt quote stores Amount from the decoded invoice (or the MPP amount proven smaller) "+
		"and FeeReserve = FeeReserve(Amount) or 0. Linear guards are compared syntactically over provenance atoms, no solver. The ledger "+
		"identity over whole histories is not mechanised.", rulesC02)
}

// feeOpCall recognises a call of a core-type method taking exactly the inputs and returning an unsigned integer.
func (c *Ctx) isFeeCall(e *Ex, recv, inputs string) bool {
	if e == nil || e.K != "call" || e.Call == nil || len(e.Args) != 2 {
		return false
	}
	f := e.Call.Common().StaticCallee()
	if f == nil || f.Signature.Recv() == nil || !c.moduleFn(f) {
		return false
	}
	rt := f.Signature.Recv().Type()
	if pt, ok := rt.(*types.Pointer); ok {
		rt = pt.Elem()
	}
	if n, ok := rt.(*types.Named); !ok || n != c.V.CoreType {
		return false
	}
	// the fee operation yields a number (a method that merely takes the inputs - a storage helper - is not it)
	if res := f.Signature.Results(); res.Len() != 1 {
		return false
	} else if b, ok := res.At(0).Type().Underlying().(*types.Basic); !ok || b.Info()&types.IsInteger == 0 {
		return false
	}
	return exprIs(e.Args[0], recv) && exprIs(e.Args[1], inputs)
}

func (c *Ctx) outputsOf(rule string, op *ssa.Function) string {
	t := c.P.NamedType("cashu", "BlindedMessages")
	if t == nil {
		c.R.Unresolved(rule, "type cashu.BlindedMessages", "not found")
		return ""
	}
	paths := paramPathsOfType(op, t)
	if len(paths) != 1 {
		c.R.Unresolved(rule, "outputs of "+c.P.FuncKey(op), fmt.Sprintf("expected one parameter (field) of type cashu.BlindedMessages, found %v", paths))
		return ""
	}
	return paths[0]
}

func isCheckedSum(e *Ex, outputs string) bool {
	return isCall(e, fnAmountChecked) && e.Idx == 0 && exprIs(arg(e, 0), outputs)
}

// linCond builds a condition from required atoms; it collects the facts that matched so that
// side conditions (helper flags, raw arithmetic) can be derived from them.
type linCond struct {
	cond    *Cond
	matched []*Lin
}

func newLinCond(name string, reqs []atomReq) *linCond {
	lc := &linCond{}
	lc.cond = &Cond{Name: name, Match: func(f *Fact, o *Origins) bool {
		l := linOfFact(f)
		if l == nil {
			return false
		}
		ok, _ := l.match(reqs)
		if ok {
			lc.matched = append(lc.matched, l)
		}
		return ok
	}}
	return lc
}

// sideConditions checks helper flags of all matched forms at the target and reports raw arithmetic.
func (c *Ctx) linSideConditions(rule, fk string, s EffectSite, lc *linCond, smallSide func(*Ex) bool) {
	seen := map[string]bool{}
	for _, l := range lc.matched {
		for _, h := range l.Checked {
			k := h.String()
			if seen[k] {
				continue
			}
			seen[k] = true
			ok, why := c.RequireAt(s.Instr, flagFalseCond(h))
			c.R.Check(rule, fk, siteDesc(c, s)+" <= flag of "+short(h.S, 40)+" honoured", c.P.InstrPos(s.Instr), ok,
				"the result of "+h.S+" is used in the balance guard only where its overflow/underflow flag is false", why)
		}
		for i, r := range l.Raw {
			k := "raw:" + r.String()
			if seen[k] {
				continue
			}
			seen[k] = true
			// a raw machine + on the side that must be small (negative sign) may wrap to a smaller value
			if r.S == "+" && l.RawSign[i] < 0 {
				// every leaf operand must be a bounded quantity, otherwise the sum can wrap below the other side
				bounded := true
				var leaves func(e *Ex)
				leaves = func(e *Ex) {
					if e.K == "bin" && (e.S == "+") {
						leaves(e.Args[0])
						leaves(e.Args[1])
						return
					}
					if e.K == "const" {
						return
					}
					if smallSide == nil || !smallSide(e) {
						bounded = false
					}
				}
				leaves(r)
				if bounded {
					c.R.Assume("%s: raw uint64 addition %s on the must-be-small side of the guard is assumed not to wrap (operands are a stored quote amount <= 2^63/1000, its fee reserve and an input-fee total)", rule, short(r.String(), 120))
				} else {
					c.R.Check(rule, fk, siteDesc(c, s)+" unchecked addition in guard", c.P.InstrPos(s.Instr), false,
						"additions on the must-be-small side of a balance guard are overflow-checked", "raw '+' over request-controlled amounts can wrap: "+short(r.String(), 160))
				}
			}
			if r.S == "-" {
				c.R.Check(rule, fk, siteDesc(c, s)+" raw subtraction in guard", c.P.InstrPos(s.Instr), false,
					"subtractions in balance guards use the checked helper", "raw '-' in "+short(r.String(), 160))
			}
		}
	}
	_ = smallSide
}

func rulesC02(c *Ctx) {
	R := c.R
	R.Rule("R1", "swap: signing is cut by OUT <= IN - FEES (checked OUT over the signed outputs, IN over the whole inputs, FEES = fee op of the inputs)", 4)
	R.Rule("R2", "mint: signing is cut by checked OUT <= stored quote amount", 3)
	R.Rule("R3", "melt: paying/settling is cut by IN >= quote.Amount + quote.FeeReserve + FEES", 3)
	R.Rule("R4", "fee op = ceil(sum keysets[proof.Id].InputFeePpk / 1000) over the whole list", 1)
	R.Rule("R5", "signer: key = activeKeyset.Keys[msg.Amount], emitted Amount = msg.Amount, Id = active id; per-message guards", 6)
	R.Rule("R6", "fee limit argument of every pay call = stored FeeReserve or FeeReserve(AmountMsat/1000); backends forward maxFee", 4)
	R.Rule("R7", "melt quote creation: Amount from the decoded invoice / MPP option, FeeReserve = FeeReserve(Amount) or 0", 3)
	R.Rule("R8", "every input is counted once: the spent-table insert is a plain INSERT inside one transaction (a repeated secret fails the whole request)", 4)
	R.Rule("R17", "a refused swap creates no ecash: swap stores its signatures only after the spent-table insert succeeded (shared with C01.R3) - the loser of a double-spend race would otherwise leave restorable signatures behind", 1)
	c.ruleSigsAfterSpent("R17")
	R.Rule("R16", "who signs: every call of the blind-signing primitive lies in the swap or the mint operation (or helpers only they reach); no other operation creates ecash", 3)
	c.ruleWhoSigns("R16")
	R.Rule("R14", "which pay call: the call that pays the whole invoice is made only for a quote that is not MPP, the partial call only for an MPP quote and with the stored AmountMsat; at creation the MPP flag is set exactly on the paths that store the partial amount", 4)
	R.Rule("R13", "melt decision table (shared with C05.R1 / C01.R5): inputs are released and the quote reset only on a definitive failure, spent only on success - a release while the payment can still go out lets the same value be swapped and paid", 20)
	R.Rule("R12", "the checked-arithmetic helpers are what the guards take them for: OverflowAddUint64 / UnderflowSubUint64 answer 'ok' only when the operation did not wrap, AmountChecked tests the overflow flag of every single addition (shared with C03.R12)", 7)
	R.Rule("R11", "an invoice is requested only for an amount proven to fit in millisats as a signed 64-bit number (the backends multiply by 1000 / convert to int64; a wrapped product gives an invoice for less than the quote)", 1)
	R.Rule("R10", "internal settlement: the melt operation writes a mint quote's state only behind 'the melt quote's invoice equals the mint quote's stored payment request'", 1)
	R.Rule("R9", "a mint quote becomes PAID only behind stored state == UNPAID and a settled invoice of that quote (shared with C03.R2): a PENDING or ISSUED quote is never re-opened by a poll", 4)
	c.vocabProblems("R1")
	c.checkAtomicMultiRow("R8", roleMarkSpent)
	R.Rule("R15", "the spent / pending look-ups behind the melt and swap guards see every input: the list readers bind every value of their parameter and return every row (shared with C01.R10; an input that is never looked up is burned twice)", 2)
	c.readersReturnEveryRow("R15", "GetProofsUsed", "GetPendingProofs")
	c.ruleSQLAgreement("R15", map[string]bool{"proofs": true, "pending_proofs": true})
	c.ruleQuotePaidWrite("R9")

	swap := c.op("R1", "/v1/swap")
	mint := c.op("R2", "/v1/mint/{method}")
	melt := c.op("R3", "/v1/melt/{method}")
	var feeOps = map[*ssa.Function]bool{}
	noteFee := func(l *Lin) {
		for _, a := range l.Atom {
			if a.K == "call" && a.Call != nil {
				if f := a.Call.Common().StaticCallee(); f != nil && f.Signature.Recv() != nil && c.moduleFn(f) && len(a.Args) == 2 {
					if b, ok := f.Signature.Results().At(0).Type().Underlying().(*types.Basic); ok && b.Info()&types.IsUnsigned != 0 && f.Signature.Results().Len() == 1 {
						feeOps[f] = true
					}
				}
			}
		}
	}

	// ---- R1 swap
	if swap != nil {
		inputs, outputs, recv := c.inputsOf("R1", swap), c.outputsOf("R1", swap), coreRecv(swap)
		if inputs != "" && outputs != "" {
			fk := c.P.FuncKey(swap)
			lc := newLinCond("OUT <= IN - FEES", []atomReq{
				{"IN", 1, func(e *Ex) bool { return isWholeSum(e, inputs, "Amount") }},
				{"FEES", -1, func(e *Ex) bool { return c.isFeeCall(e, recv, inputs) }},
				{"OUT", -1, func(e *Ex) bool { return isCheckedSum(e, outputs) }},
			})
			sumOK := &Cond{Name: "output sum did not overflow", Match: func(f *Fact, o *Origins) bool {
				return f.Kind == "errnil" && f.Pos && isCall(f.A, fnAmountChecked) && f.A.Idx == 1 && exprIs(arg(f.A, 0), outputs)
			}}
			for _, s := range c.signerSites(swap) {
				ok, why := c.RequireAt(s.Instr, lc.cond)
				R.Check("R1", fk, siteDesc(c, s)+" <= OUT <= IN - FEES", c.P.InstrPos(s.Instr), ok, "swap signs only behind a guard implying outputs <= inputs - fees", why)
				ok, why = c.RequireAt(s.Instr, sumOK)
				R.Check("R1", fk, siteDesc(c, s)+" <= checked output sum", c.P.InstrPos(s.Instr), ok, "the output sum used in the guard is the overflow-checked one on its no-error edge", why)
				c.linSideConditions("R1", fk, s, lc, nil)
				// the value signed is the value summed
				d := c.P.Describe(s.Instr)
				o := c.P.OriginsOf(s.Instr.Parent())
				signed := ""
				if len(d.Args) > 0 {
					signed = o.Of(d.Args[len(d.Args)-1]).String()
				}
				R.Check("R1", fk, siteDesc(c, s)+" signs the summed outputs", c.P.InstrPos(s.Instr), signed == outputs,
					"the list handed to the signer is the list whose amounts were summed", "signer receives "+short(signed, 120)+", guard sums "+outputs)
			}
			for _, l := range lc.matched {
				noteFee(l)
			}
		}
	}

	// ---- R2 mint
	c.ruleMintAmount("R2", mint)

	// ---- R3 melt
	var meltQuoteIs func(e *Ex) bool
	if melt != nil {
		inputs, recv := c.inputsOf("R3", melt), coreRecv(melt)
		meltQuoteIs = func(e *Ex) bool {
			return e != nil && e.K == "call" && e.Idx == 0 && c.dbCallWithRole(e, roleReadMelt) &&
				arg(e, 1) != nil && arg(e, 1).K == "field" && strings.HasPrefix(arg(e, 1).String(), "P:")
		}
		if inputs != "" {
			fk := c.P.FuncKey(melt)
			lc := newLinCond("IN >= quote.Amount + quote.FeeReserve + FEES", []atomReq{
				{"IN", 1, func(e *Ex) bool { return isWholeSum(e, inputs, "Amount") }},
				{"QAMT", -1, func(e *Ex) bool { return isField(e, "Amount") && meltQuoteIs(e.Args[0]) }},
				{"QFEE", -1, func(e *Ex) bool { return isField(e, "FeeReserve") && meltQuoteIs(e.Args[0]) }},
				{"FEES", -1, func(e *Ex) bool { return c.isFeeCall(e, recv, inputs) }},
			})
			sites := append(c.paySites(melt), c.roleSites(melt, roleSetMint)...)
			for _, s := range sites {
				ok, why := c.RequireAt(s.Instr, lc.cond)
				R.Check("R3", fk, siteDesc(c, s)+" <= IN >= amount + reserve + fees", c.P.InstrPos(s.Instr), ok,
					"melt pays / settles only behind inputs >= quote amount + fee reserve + input fees", why)
				c.linSideConditions("R3", fk, s, lc, func(e *Ex) bool {
					return (isField(e, "Amount") || isField(e, "FeeReserve")) && meltQuoteIs(e.Args[0]) || c.isFeeCall(e, recv, inputs)
				})
			}
			for _, l := range lc.matched {
				noteFee(l)
			}
		}
	}

	// ---- R10 internal settlement credits a mint quote only for its own invoice
	if melt != nil && meltQuoteIs != nil {
		fk := c.P.FuncKey(melt)
		mintQuoteIs := func(e *Ex) bool {
			return e != nil && e.K == "call" && e.Idx == 0 && c.dbCallWithRole(e, roleReadMint)
		}
		isOwn := func(a, b *Ex) bool {
			return isField(a, "PaymentRequest") && mintQuoteIs(a.Args[0]) && isField(b, "InvoiceRequest") && meltQuoteIs(b.Args[0])
		}
		own := &Cond{Name: "the melt quote's invoice is the mint quote's own payment request", Match: func(f *Fact, _ *Origins) bool {
			switch f.Kind {
			case "bool":
				if f.Pos && (isCall(f.A, "strings.EqualFold") || isCall(f.A, "strings.Compare")) {
					return isCall(f.A, "strings.EqualFold") && (isOwn(arg(f.A, 0), arg(f.A, 1)) || isOwn(arg(f.A, 1), arg(f.A, 0)))
				}
			case "cmp":
				if f.Pos && f.Op.String() == "==" {
					return isOwn(f.A, f.B) || isOwn(f.B, f.A)
				}
			}
			return false
		}}
		sites := c.roleSites(melt, roleSetMint)
		if len(sites) == 0 {
			R.Unresolved("R10", "internal settlement in "+fk, "the melt operation does not write a mint quote state")
		}
		for _, s := range sites {
			ok, why := c.RequireAt(s.Instr, own)
			R.Check("R10", fk, siteDesc(c, s)+" <= invoice identity", c.P.InstrPos(s.Instr), ok,
				"a mint quote is credited by a melt only when the melted invoice is that quote's own invoice (the payment hash alone does not identify it: anyone can encode another amount around the same hash)", why)
		}
	}

	// ---- R13 melt decision table (shared)
	c.meltDecisionTable("R13", false)

	// ---- R12 the checked-arithmetic helpers the guards rely on
	c.ruleCheckedArithmetic("R12")

	// ---- R11 the amount of a mint quote fits the units of the Lightning backends
	c.c02InvoiceAmountBounded()

	// ---- R4 fee formula
	ks := c.keysetsMapField("R4")
	if len(feeOps) == 0 {
		R.Unresolved("R4", "fee operation", "no fee call was found in the balance guards")
	}
	for f := range feeOps {
		c.c02FeeFormula(f, ks)
	}

	// ---- R5 signer wiring
	c.c02Signer(ks)

	// ---- R6 fee limit
	if melt != nil && meltQuoteIs != nil {
		fk := c.P.FuncKey(melt)
		for _, s := range c.paySites(melt) {
			if !s.Direct {
				R.Undecided("R6", fk, "pay call through helper "+strings.Join(s.Chain, ","), c.P.InstrPos(s.Instr), "fee limit wiring", "pay call is not made directly by the operation")
				continue
			}
			d := c.P.Describe(s.Instr)
			m, _ := c.V.IsLNCall(d)
			idx := c.V.PayMeths[m]
			o := c.CtxOf(s.Instr)
			lim := o.Of(d.Args[idx])
			okLim := false
			switch {
			case isField(lim, "FeeReserve") && meltQuoteIs(lim.Args[0]):
				okLim = true
			case lim.K == "call" && strings.HasSuffix(lim.S, ")."+c.V.FeeReserveMeth) && len(lim.Args) == 2:
				a := lim.Args[1]
				if a.K == "bin" && a.S == "/" && isConst(a.Args[1], "1000") && isField(a.Args[0], "AmountMsat") && meltQuoteIs(a.Args[0].Args[0]) {
					okLim = true
				}
			}
			R.Check("R6", fk, "maxFee of "+d.Name, c.P.InstrPos(s.Instr), okLim,
				"the fee limit handed to the backend is the quote's stored fee reserve (or FeeReserve(AmountMsat/1000) for MPP)",
				"maxFee argument is "+short(lim.String(), 200))
		}
	}
	// ---- R14 which pay call: the whole invoice is paid only for a quote that charged the whole invoice
	if melt != nil && meltQuoteIs != nil {
		fk := c.P.FuncKey(melt)
		for _, s := range c.paySites(melt) {
			if !s.Direct {
				continue // R6 reports the indirection
			}
			d := c.P.Describe(s.Instr)
			m, _ := c.V.IsLNCall(d)
			feeIdx := c.V.PayMeths[m]
			o := c.CtxOf(s.Instr)
			// the integer arguments other than the fee limit: a partial-payment call names its amount
			var amounts []int
			for i, a := range d.Args {
				if bt, ok := a.Type().Underlying().(*types.Basic); ok && bt.Info()&types.IsInteger != 0 && i != feeIdx {
					amounts = append(amounts, i)
				}
			}
			isMpp := func(pos bool) *Cond {
				name := "the quote is a partial-payment (MPP) quote"
				if !pos {
					name = "the quote is not a partial-payment (MPP) quote"
				}
				return &Cond{Name: name, Match: func(f *Fact, o2 *Origins) bool {
					return f.Kind == "bool" && f.Pos == pos && isField(f.A, "IsMpp") && meltQuoteIs(f.A.Args[0])
				}}
			}
			if len(amounts) == 0 {
				ok, why := c.RequireAt(s.Instr, isMpp(false))
				R.Check("R14", fk, "whole-invoice pay call "+d.Name+" <= quote not MPP", c.P.InstrPos(s.Instr), ok,
					"a call that pays the invoice's full amount is made only for a quote that is not a partial payment (such a quote charged the full amount)", why)
				continue
			}
			ok, why := c.RequireAt(s.Instr, isMpp(true))
			R.Check("R14", fk, "partial pay call "+d.Name+" <= quote is MPP", c.P.InstrPos(s.Instr), ok,
				"a partial payment is made only for a quote stored as a partial payment", why)
			for _, i := range amounts {
				a := o.Of(d.Args[i])
				okA := isField(a, "AmountMsat") && meltQuoteIs(a.Args[0])
				R.Check("R14", fk, "partial pay call "+d.Name+" pays the stored partial amount", c.P.InstrPos(s.Instr), okA,
					"the amount of a partial payment is the quote's stored AmountMsat (whose /1000 was charged, R7)", "amount argument is "+short(a.String(), 160))
			}
		}
	}
	c.c02Backends()
	c.c02MeltQuoteCreation()
	c.c02InternalNeverPartial()
}

func (c *Ctx) c02FeeFormula(f *ssa.Function, ks string) {
	R := c.R
	fk := c.P.FuncKey(f)
	rets := Returns(f)
	if len(rets) != 1 || len(f.Params) != 2 || ks == "" {
		R.Undecided("R4", fk, "fee formula", c.P.Pos(f.Pos()), "fee op shape", "expected one return and (receiver, inputs)")
		return
	}
	o := c.P.OriginsOf(f)
	e := o.Of(rets[0].Results[0])
	recv, in := "P:"+f.Params[0].Name(), "P:"+f.Params[1].Name()
	isSum := func(s *Ex) bool {
		if s == nil || s.K != "acc" || s.S != "+" || len(s.Args) != 2 || !isConst(s.Args[0], "0") {
			return false
		}
		return exprIs(s.Args[1], recv+"."+ks+"[elem("+in+").Id].InputFeePpk")
	}
	ok := false
	// (S + 999) / 1000 and (S + 1000 - 1) / 1000
	if e.K == "bin" && e.S == "/" && isConst(e.Args[1], "1000") {
		l := newLin()
		l.add(e.Args[0], 1)
		if len(l.Coef) == 1 && l.Const == 999 {
			for k, cf := range l.Coef {
				if cf == 1 && isSum(l.Atom[k]) {
					ok = true
				}
			}
		}
	}
	R.Check("R4", fk, "fee = ceil(sum ppk / 1000)", c.P.InstrPos(rets[0]), ok,
		"fee op returns (sum over the whole list of "+ks+"[proof.Id].InputFeePpk + 999) / 1000", "return value is "+short(e.String(), 200))
}

func (c *Ctx) activeKeysetField(rule string) string {
	if c.V.CoreType == nil {
		return ""
	}
	st := c.V.CoreType.Underlying().(*types.Struct)
	var names []string
	for i := 0; i < st.NumFields(); i++ {
		if pt, ok := st.Field(i).Type().(*types.Pointer); ok {
			if n, ok := pt.Elem().(*types.Named); ok && n.Obj().Name() == "MintKeyset" {
				names = append(names, st.Field(i).Name())
			}
		}
	}
	if len(names) != 1 {
		c.R.Unresolved(rule, "active keyset pointer field", fmt.Sprintf("found %v", names))
		return ""
	}
	return names[0]
}

func (c *Ctx) c02Signer(ks string) {
	R := c.R
	ak := c.activeKeysetField("R5")
	if ak == "" || ks == "" {
		return
	}
	n := 0
	for _, f0 := range c.P.Funcs {
		if f0.Pkg == nil || c.P.Rel(f0.Pkg.Pkg.Path()) != c.P.Rel(c.V.CoreType.Obj().Pkg().Path()) {
			continue
		}
		for _, ci := range Calls(f0) {
			d := c.P.Describe(ci)
			if d.Name != fnSignBlinded {
				continue
			}
			n++
			// the signer is the function of the reference tree the call belongs to: a helper that is new on this
			// tree is a piece of its (single) caller; its parameters are read as that caller's arguments
			f := f0
			for i := 0; i < 4 && f.Parent() == nil && c.P.IsNewFunc(f); i++ {
				sites := c.callersOf(f)
				if len(sites) != 1 {
					break
				}
				f = EnclosingTop(sites[0].Parent())
			}
			c.OpFuncs(f) // scope for the helper call sites
			fk := c.P.FuncKey(f)
			o := c.CtxOf(ci)
			if len(f.Params) < 2 {
				R.Undecided("R5", fk, "signer shape", c.P.InstrPos(ci), "signer wiring", "signer has no message-list parameter")
				continue
			}
			recv, msgs := "P:"+f.Params[0].Name(), "P:"+f.Params[1].Name()
			el := "elem(" + msgs + ")"
			wantKey := recv + "." + ak + ".Keys[" + el + ".Amount].PrivateKey"
			k := o.Of(d.Args[1])
			R.Check("R5", fk, "signing key", c.P.InstrPos(ci), exprIs(k, wantKey), "the signing key is the active keyset's key for the message's own amount", "key is "+short(k.String(), 160)+", expected "+wantKey)
			// one view of the active keyset per message: the reads of the active-keyset pointer that decide the id check,
			// the key and the emitted id are all made per message (inside the loop) or all once before it - a mix labels
			// signatures made with one keyset's key with another keyset's id when a rotation lands in between
			if l := c.P.OriginsOf(f0).Loops.InnermostContaining(ci.Block()); l != nil {
				in, out := 0, 0
				for _, bb := range f0.Blocks {
					for _, ins := range bb.Instrs {
						ld, ok := ins.(*ssa.UnOp)
						if !ok || ld.Op.String() != "*" {
							continue
						}
						fa, ok := ld.X.(*ssa.FieldAddr)
						if !ok || fieldName(fa) != ak {
							continue
						}
						if l.Blocks[bb] {
							in++
						} else {
							out++
						}
					}
				}
				R.Check("R5", fk, "active keyset read consistently per message", c.P.InstrPos(ci), in == 0 || out == 0,
					"the id compared, the key used and the id emitted come from reads of the active keyset made at the same place (all per message, or one snapshot before the loop)",
					fmt.Sprintf("%d reads of the active keyset inside the signing loop and %d before it", in, out))
			}
			b := o.Of(d.Args[0])
			okB := (isCallSuffix(b, "btcec.ParsePubKey") || isCallSuffix(b, "secp256k1.ParsePubKey")) && b.Idx == 0 &&
				isCall(arg(b, 0), fnHexDecode) && exprIs(arg(arg(b, 0), 0), el+".B_")
			R.Check("R5", fk, "signed point", c.P.InstrPos(ci), okB, "the point signed is the parsed B_ of that message", "B_ is "+short(b.String(), 160))
			// per-message guards
			guards := []struct {
				name string
				m    func(*Fact, *Origins) bool
			}{
				{"keyset id known", func(f2 *Fact, _ *Origins) bool {
					return f2.Kind == "bool" && f2.Pos && exprIs(f2.A, "ok("+recv+"."+ks+"["+el+".Id])")
				}},
				{"keyset id is the active one", func(f2 *Fact, _ *Origins) bool {
					if f2.Kind != "cmp" || !f2.Pos || f2.Op.String() != "==" {
						return false
					}
					a, b := f2.A.String(), f2.B.String()
					w1, w2 := recv+"."+ak+".Id", el+".Id"
					return (a == w1 && b == w2) || (a == w2 && b == w1)
				}},
				{"amount is a key of the active keyset", func(f2 *Fact, _ *Origins) bool {
					return f2.Kind == "bool" && f2.Pos && exprIs(f2.A, "ok("+recv+"."+ak+".Keys["+el+".Amount])")
				}},
			}
			for _, g := range guards {
				ok, why := c.RequireAt(ci, &Cond{Name: g.name, PerIteration: true, Match: g.m})
				R.Check("R5", fk, "sign <= "+g.name, c.P.InstrPos(ci), ok, "every signature is preceded, for that very message, by ["+g.name+"]", why)
			}
			// emitted signature fields
			var ret *Ex
			fo := c.P.OriginsOf(f)
			for _, r := range fo.SuccessReturns() {
				if len(r.Results) > 0 {
					ret = fo.Of(r.Results[0])
				}
			}
			okRet := false
			detail := "no success return"
			if ret != nil {
				detail = short(ret.String(), 200)
				if ret.K == "map" && exprIs(ret.Args[0], msgs) {
					el2 := ret.Args[1]
					am, id := project(el2, "Amount"), project(el2, "Id")
					okRet = exprIs(am, el+".Amount") && exprIs(id, recv+"."+ak+".Id")
					if !okRet {
						detail = "Amount=" + short(am.String(), 80) + " Id=" + short(id.String(), 80)
					}
				}
			}
			R.Check("R5", fk, "emitted signature fields", c.P.InstrPos(ci), okRet, "signature i carries message i's amount and the active keyset id", detail)
		}
	}
	if n == 0 {
		R.Unresolved("R5", "signer", "no call of "+fnSignBlinded+" in the core package")
	}
}

// c02Backends: each Lightning implementation that talks to a node forwards maxFee.
func (c *Ctx) c02Backends() {
	R := c.R
	for _, t := range c.V.LNImpls {
		for m, idx := range c.V.PayMeths {
			f := c.P.MethodOf(t, m)
			if f == nil || f.Blocks == nil {
				continue
			}
			fk := c.P.FuncKey(f)
			// does this implementation reach the network? (calls outside the module other than pure helpers)
			network := false
			for _, ci := range Calls(f) {
				d := c.P.Describe(ci)
				if d.Iface != nil && !c.P.InModule(pkgOfIface(d)) {
					network = true
				}
				if d.Static != nil && (strings.HasPrefix(d.Name, "net/http.") || strings.Contains(d.Name, "grpc")) {
					network = true
				}
				if d.Static != nil && c.moduleFn(d.Static) && d.Static.Signature.Recv() != nil && types.Identical(d.Static.Signature.Recv().Type(), t) && reachesHTTP(c, d.Static, 0) {
					network = true
				}
			}
			if !network {
				R.Trivial("R6", fk, "maxFee forwarded (no node behind this implementation)", c.P.Pos(f.Pos()), "implementation does not talk to a Lightning node")
				continue
			}
			prm := f.Params[idx+1]
			ok, how := flowsToRequest(c, f, prm)
			R.Check("R6", fk, "maxFee forwarded into the request", c.P.Pos(f.Pos()), ok,
				"the maxFee parameter reaches the request sent to the node (fee-limit field / body entry)", how)
		}
	}
}

func pkgOfIface(d *CallDesc) string {
	if d.Iface != nil && d.Iface.Pkg() != nil {
		return d.Iface.Pkg().Path()
	}
	return ""
}

func reachesHTTP(c *Ctx, f *ssa.Function, depth int) bool {
	if depth > 2 {
		return false
	}
	for _, ci := range Calls(f) {
		d := c.P.Describe(ci)
		if strings.HasPrefix(d.Name, "net/http.") {
			return true
		}
		if d.Static != nil && c.moduleFn(d.Static) && reachesHTTP(c, d.Static, depth+1) {
			return true
		}
	}
	return false
}

// flowsToRequest: forward def-use closure of the parameter reaches a store into a struct field,
// a map update or a call argument that leaves the function.
func flowsToRequest(c *Ctx, f *ssa.Function, prm *ssa.Parameter) (bool, string) {
	ok, _, how := flowsToRequestD(c, f, prm, 0)
	return ok, how
}

// flowsToRequestD follows the uses of a parameter: into a fee-limit field / body entry (fee), or into a value
// the function returns (ret). A module helper that receives the value is entered (two levels): its result is
// followed in the caller only when the value reaches a fee field or the result inside the helper.
func flowsToRequestD(c *Ctx, f *ssa.Function, prm *ssa.Parameter, depth int) (fee bool, ret bool, how string) {
	seen := map[ssa.Value]bool{}
	work := []ssa.Value{prm}
	for len(work) > 0 {
		v := work[len(work)-1]
		work = work[:len(work)-1]
		if seen[v] {
			continue
		}
		seen[v] = true
		refs := v.Referrers()
		if refs == nil {
			continue
		}
		for _, r := range *refs {
			switch x := r.(type) {
			case *ssa.Convert, *ssa.ChangeType, *ssa.MakeInterface, *ssa.BinOp, *ssa.Phi, *ssa.UnOp:
				work = append(work, x.(ssa.Value))
			case *ssa.Store:
				if x.Val == v {
					if fa, ok := x.Addr.(*ssa.FieldAddr); ok {
						st := fa.X.Type().Underlying().(*types.Pointer).Elem().Underlying().(*types.Struct)
						name := st.Field(fa.Field).Name()
						if strings.Contains(strings.ToLower(name), "fee") || name == "Fixed" || name == "FixedMsat" {
							// a limit of 0 is a limit: a JSON field that is left out when zero hands the decision to the
							// node's default (CLN: 0.5 % / 5 sat)
							_, scalar := st.Field(fa.Field).Type().Underlying().(*types.Basic)
							if tag := reflect.StructTag(st.Tag(fa.Field)).Get("json"); scalar && (strings.Contains(tag, ",omitempty") || strings.Contains(tag, ",omitzero")) {
								return false, ret, "fee limit field " + name + " is tagged `" + tag + "`: a limit of 0 is not sent and the node applies its default"
							}
							return true, ret, "stored into field " + name
						}
						// spilled parameter: follow loads of the cell
						work = append(work, fa.X)
					}
					if al, ok := x.Addr.(*ssa.Alloc); ok {
						for _, r2 := range *al.Referrers() {
							if ld, ok := r2.(*ssa.UnOp); ok {
								work = append(work, ld)
							}
						}
					}
				}
			case *ssa.MapUpdate:
				if x.Value == v {
					if k, ok := x.Key.(*ssa.Const); ok {
						ks := strings.ToLower(ConstString(k))
						if strings.Contains(ks, "fee") {
							return true, ret, "stored under map key " + ConstString(k)
						}
					}
				}
			case *ssa.Return:
				ret = true
			case ssa.CallInstruction:
				d := c.P.Describe(x)
				if d.Static != nil && c.moduleFn(d.Static) && d.Static.Blocks != nil && depth < 2 {
					// helper (e.g. feeLimit(maxFee)): the value must reach a fee field or the result inside it;
					// then its result is followed here
					for i, a := range x.Common().Args {
						if a != v || i >= len(d.Static.Params) {
							continue
						}
						f2, r2, how2 := flowsToRequestD(c, d.Static, d.Static.Params[i], depth+1)
						if f2 && c.P.IsNewFunc(d.Static) {
							// the body that builds and sends the request moved into a helper that is new on this tree
							return true, ret, how2 + " (in " + c.P.FuncKey(d.Static) + ")"
						}
						if f2 || r2 {
							if cv, ok := x.(ssa.Value); ok {
								work = append(work, cv)
							}
						}
					}
				}
			}
		}
	}
	return false, ret, "no use of " + prm.Name() + " reaches a fee-limit field or body entry of the request"
}

// c02MeltQuoteCreation: R7.
func (c *Ctx) c02MeltQuoteCreation() {
	R := c.R
	op := c.op("R7", "/v1/melt/quote/{method}")
	if op == nil {
		return
	}
	fk := c.P.FuncKey(op)
	sites := c.roleSites(op, roleNewMelt)
	if len(sites) == 0 {
		R.Unresolved("R7", "melt quote insert in "+fk, "no call with role "+roleNewMelt)
		return
	}
	for _, s := range sites {
		if !s.Direct {
			continue
		}
		o := c.P.OriginsOf(s.Instr.Parent())
		d := c.P.Describe(s.Instr)
		q := o.Of(d.Args[0])
		amt, fee, amsat := project(q, "Amount"), project(q, "FeeReserve"), project(q, "AmountMsat")
		// Amount alternatives: invoice msat / 1000, mpp amount msat / 1000
		okAmt := true
		var why []string
		for _, a := range amt.Alts() {
			if !(a.K == "bin" && a.S == "/" && isConst(a.Args[1], "1000")) {
				okAmt = false
				why = append(why, short(a.String(), 100))
				continue
			}
			src := a.Args[0].String()
			if !(strings.Contains(src, "MSatoshi") || strings.Contains(src, "AmountMsat")) {
				okAmt = false
				why = append(why, short(a.String(), 100))
			}
		}
		R.Check("R7", fk, "stored Amount = msat / 1000", c.P.InstrPos(s.Instr), okAmt, "the quote amount derives from the decoded invoice's (or the MPP option's) millisatoshi amount / 1000", strings.Join(why, " | "))
		// FeeReserve alternatives: 0 or LN.FeeReserve(Amount)
		okFee := true
		why = nil
		for _, a := range fee.Alts() {
			if isConst(a, "0") {
				continue
			}
			if a.K == "call" && strings.HasSuffix(a.S, ")."+c.V.FeeReserveMeth) && len(a.Args) == 2 && a.Args[1].String() == amt.String() {
				continue
			}
			okFee = false
			why = append(why, short(a.String(), 120))
		}
		R.Check("R7", fk, "stored FeeReserve = FeeReserve(Amount) or 0", c.P.InstrPos(s.Instr), okFee, "the fee reserve is the backend's reserve for exactly the stored amount (0 only for internal settlement)", strings.Join(why, " | "))
		// AmountMsat: 0 or the MPP option amount, and Amount = AmountMsat/1000 on that branch
		okMsat := true
		for _, a := range amsat.Alts() {
			if isConst(a, "0") {
				continue
			}
			found := false
			for _, b := range amt.Alts() {
				if b.K == "bin" && b.Args[0].String() == a.String() {
					found = true
				}
			}
			if !found {
				okMsat = false
			}
		}
		R.Check("R7", fk, "stored AmountMsat consistent with Amount", c.P.InstrPos(s.Instr), okMsat, "AmountMsat is 0 or the value whose /1000 is the stored amount", short(amsat.String(), 160))
		// R14: the MPP flag goes with the partial amount. The flag is a boolean set on some paths; with the
		// paths that set it removed the stored amount is the invoice's, with the others removed it is the
		// option's (the pay side chooses the call by this flag)
		flag := project(q, "IsMpp")
		partial := func(e *Ex) bool { return strings.Contains(e.String(), "AmountMsat") }
		switch {
		case isConst(flag, "false"):
			ok := true
			for _, a := range amt.Alts() {
				if partial(a) {
					ok = false
				}
			}
			R.Check("R14", fk, "quote never MPP => Amount is the invoice's", c.P.InstrPos(s.Instr), ok, "a quote that is not stored as MPP charges the whole invoice (it is paid with the whole-invoice call)", "Amount: "+short(amt.String(), 200))
		default:
			tEdges, fEdges, okForm := boolPhiEdges(flag.V, 0)
			if !okForm || len(tEdges) == 0 || len(fEdges) == 0 {
				R.Undecided("R14", fk, "MPP flag of the stored quote", c.P.InstrPos(s.Instr), "flag and amount go together", "the stored IsMpp is not a flag set to constants on the paths: "+short(flag.String(), 160))
				break
			}
			for _, side := range []struct {
				cut  map[Edge]bool
				want string
				mpp  bool
			}{{tEdges, "false", false}, {fEdges, "true", true}} {
				q2 := o.WithCut(side.cut).Of(d.Args[0])
				f2, a2 := project(q2, "IsMpp"), project(q2, "Amount")
				ok := isConst(f2, side.want)
				for _, a := range a2.Alts() {
					if partial(a) != side.mpp {
						ok = false
					}
				}
				what := "not MPP => Amount is the invoice's"
				if side.mpp {
					what = "MPP => Amount is the option's partial amount"
				}
				R.Check("R14", fk, what, c.P.InstrPos(s.Instr), ok, "the MPP flag is stored exactly on the paths that store the partial amount (the pay side picks the whole-invoice or the partial call by it)",
					fmt.Sprintf("on these paths IsMpp = %s, Amount = %s", short(f2.String(), 60), short(a2.String(), 200)))
			}
		}
		// MPP amount proven smaller than the invoice amount
		mpp := &Cond{Name: "mpp amount < invoice amount", Match: func(f *Fact, o2 *Origins) bool {
			return f.Kind == "cmp" && f.Pos && f.Op.String() == "<" && strings.Contains(f.A.String(), "AmountMsat") && strings.Contains(f.B.String(), "MSatoshi")
		}}
		// only paths on which the MPP amount is stored need it: the store site of IsMpp = true
		for _, b := range op.Blocks {
			for _, in := range b.Instrs {
				st, ok := in.(*ssa.Store)
				if !ok {
					continue
				}
				if cst, ok := st.Val.(*ssa.Const); ok && cst.Value != nil && cst.Value.ExactString() == "true" {
					if al, ok := st.Addr.(*ssa.Alloc); ok && strings.Contains(strings.ToLower(al.Comment), "mpp") {
						ok2, w := o.Requires(st, mpp)
						R.Check("R7", fk, "MPP accepted <= mpp amount < invoice amount", c.P.InstrPos(st), ok2, "a partial amount is accepted only when smaller than the invoice amount", w)
					}
				}
			}
		}
	}
}

// c02InternalNeverPartial: R7. A melt quote for an invoice of one of the mint's own mint quotes is settled
// internally by crediting that mint quote for its full amount, so such a quote must never be stored as a
// partial (MPP) payment. Decided by a path condition: with the branch edges of "the mint-quote look-up
// by payment hash failed" removed (and the branches that become constant with them), the value stored
// has IsMpp == false and an amount derived from the invoice only.
func (c *Ctx) c02InternalNeverPartial() {
	R := c.R
	op := c.op("R7", "/v1/melt/quote/{method}")
	if op == nil {
		return
	}
	fk := c.P.FuncKey(op)
	o := c.P.OriginsOf(op)
	var lookups, saves []ssa.CallInstruction
	for _, ci := range Calls(op) {
		d := c.P.Describe(ci)
		if c.V.DBRole(d, roleReadMint) {
			lookups = append(lookups, ci)
		}
		if c.V.DBRole(d, roleNewMelt) {
			saves = append(saves, ci)
		}
	}
	if len(lookups) != 1 || len(saves) == 0 {
		R.Unresolved("R7", "internal-invoice detection in "+fk, fmt.Sprintf("mint-quote look-ups=%d melt-quote inserts=%d", len(lookups), len(saves)))
		return
	}
	lk := lookups[0]
	pos := o.TestEdges(errNilOf(lk, "a mint quote with the same payment hash exists"))
	if len(pos) == 0 {
		R.Check("R7", fk, "internal invoice => not partial", c.P.InstrPos(lk), false, "an invoice of the mint's own mint quote is never accepted as a partial payment", "the result of the mint-quote look-up is not tested")
		return
	}
	cut := NewCut()
	for e := range pos {
		for i := range e.From.Succs {
			if i != e.Succ {
				cut.Edges[Edge{e.From, i}] = true
			}
		}
	}
	if o.Loops.InnermostContaining(lk.Block()) != nil {
		R.Undecided("R7", fk, "internal invoice => not partial", c.P.InstrPos(lk), "an invoice of the mint's own mint quote is never accepted as a partial payment", "the look-up sits in a loop; the path condition is not decided")
		return
	}
	pruneInfeasible(o, op, cut)
	oc := o.WithCut(cut.Edges)
	n := 0
	for _, sv := range saves {
		// only inserts that can follow a successful look-up
		if reach, _ := Reach(Point{lk.Block(), instrIndex(lk) + 1}, PointOf(sv), cut); !reach {
			continue
		}
		n++
		q := oc.Of(c.P.Describe(sv).Args[0])
		mpp, amt, fee := project(q, "IsMpp"), project(q, "Amount"), project(q, "FeeReserve")
		ok := isConst(mpp, "false") && !strings.Contains(amt.String(), "AmountMsat") && !strings.Contains(amt.String(), "Options") && strings.Contains(amt.String(), "MSatoshi")
		R.Check("R7", fk, "internal invoice => stored quote is not partial", c.P.InstrPos(sv), ok,
			"when a mint quote with the same payment hash exists the stored melt quote has IsMpp == false and the invoice's full amount (internal settlement credits the mint quote in full)",
			fmt.Sprintf("on the paths after a successful look-up: IsMpp=%s Amount=%s", short(mpp.String(), 60), short(amt.String(), 120)))
		R.Check("R7", fk, "internal invoice => fee reserve 0", c.P.InstrPos(sv), isConst(fee, "0"), "an internally settled quote reserves no Lightning fee", "FeeReserve="+short(fee.String(), 100))
	}
	if n == 0 {
		R.Check("R7", fk, "internal invoice => stored quote is not partial", c.P.InstrPos(lk), false, "a melt quote can be stored after a successful look-up", "no insert is reachable after the look-up succeeded")
	}
}

// ruleMintAmount: the mint op signs only behind checked OUT <= stored quote amount (shared by C02.R2 and C03.R8).
func (c *Ctx) ruleMintAmount(rule string, mint *ssa.Function) {
	R := c.R
	if mint != nil {
		outputs := c.outputsOf(rule, mint)
		quoteOp := c.op(rule, "/v1/mint/quote/{method}/{quote_id}")
		if outputs != "" {
			fk := c.P.FuncKey(mint)
			isQuote := func(e *Ex) bool {
				if e == nil || e.K != "call" || e.Idx != 0 || e.Call == nil {
					return false
				}
				okCallee := c.dbCallWithRole(e, roleReadMint) || (quoteOp != nil && e.Call.Common().StaticCallee() == quoteOp)
				last := arg(e, len(e.Args)-1)
				return okCallee && last != nil && last.K == "field" && strings.HasPrefix(last.String(), "P:")
			}
			lc := newLinCond("OUT <= quote.Amount", []atomReq{
				{"QAMT", 1, func(e *Ex) bool { return isField(e, "Amount") && isQuote(e.Args[0]) }},
				{"OUT", -1, func(e *Ex) bool { return isCheckedSum(e, outputs) }},
			})
			sumOK := &Cond{Name: "output sum did not overflow", Match: func(f *Fact, o *Origins) bool {
				return f.Kind == "errnil" && f.Pos && isCall(f.A, fnAmountChecked) && f.A.Idx == 1 && exprIs(arg(f.A, 0), outputs)
			}}
			sites := c.signerSites(mint)
			if len(sites) == 0 {
				R.Unresolved(rule, "signature production in mint op", "none found")
			}
			for _, s := range sites {
				ok, why := c.RequireAt(s.Instr, lc.cond)
				R.Check(rule, fk, siteDesc(c, s)+" <= OUT <= quote.Amount", c.P.InstrPos(s.Instr), ok, "mint signs only behind outputs <= stored quote amount", why)
				ok, why = c.RequireAt(s.Instr, sumOK)
				R.Check(rule, fk, siteDesc(c, s)+" <= checked output sum", c.P.InstrPos(s.Instr), ok, "the output sum is the overflow-checked one on its no-error edge", why)
				c.linSideConditions(rule, fk, s, lc, nil)
				d := c.P.Describe(s.Instr)
				o := c.P.OriginsOf(s.Instr.Parent())
				signed := ""
				if len(d.Args) > 0 {
					signed = o.Of(d.Args[len(d.Args)-1]).String()
				}
				R.Check(rule, fk, siteDesc(c, s)+" signs the summed outputs", c.P.InstrPos(s.Instr), signed == outputs,
					"the list handed to the signer is the list whose amounts were summed", "signer receives "+short(signed, 120)+", guard sums "+outputs)
			}
		}
	}

}

// c02InvoiceAmountBounded: R11. Every CreateInvoice call of the mint-quote operation is reached only behind
// amount <= K with K*1000 <= MaxInt64, for the very amount handed to the backend (and stored in the quote).
func (c *Ctx) c02InvoiceAmountBounded() {
	R := c.R
	op := c.op("R11", "/v1/mint/quote/{method}")
	if op == nil {
		return
	}
	fk := c.P.FuncKey(op)
	o := c.P.OriginsOf(op)
	sites := c.Effects(op, func(d *CallDesc) bool {
		m, ok := c.V.IsLNCall(d)
		return ok && m == "CreateInvoice"
	})
	if len(sites) == 0 {
		R.Unresolved("R11", "invoice request in "+fk, "no CreateInvoice call reachable from the mint-quote operation")
		return
	}
	const limit = "9223372036854775" // MaxInt64 / 1000
	leq := func(k string, strict bool) bool {
		// k <= limit (or k-1 <= limit for a strict comparison), on decimal strings of non-negative integers
		if strings.HasPrefix(k, "-") {
			return false
		}
		cmp := func(a, b string) int {
			a, b = strings.TrimLeft(a, "0"), strings.TrimLeft(b, "0")
			if len(a) != len(b) {
				if len(a) < len(b) {
					return -1
				}
				return 1
			}
			return strings.Compare(a, b)
		}
		if strict {
			return cmp(k, limit) <= 0 || k == "9223372036854776"
		}
		return cmp(k, limit) <= 0
	}
	for _, s := range sites {
		inner := c.P.Describe(s.Inner)
		if len(inner.Args) < 1 {
			R.Undecided("R11", fk, siteDesc(c, s)+" <= amount bounded", c.P.InstrPos(s.Instr), "amount fits in millisats", "CreateInvoice call without an amount argument")
			continue
		}
		var amt *Ex
		if s.Direct {
			amt = o.Of(inner.Args[0])
		} else {
			// one helper level: the backend's argument is a parameter of the helper, read at the call in the operation
			callee := s.Inner.Parent()
			ia := c.P.OriginsOf(callee).Of(inner.Args[0])
			d := c.P.Describe(s.Instr)
			if len(s.Chain) == 1 && strings.HasPrefix(ia.String(), "P:") && s.Instr.Common().StaticCallee() == callee {
				for i, p := range callee.Params {
					if "P:"+p.Name() == ia.String() {
						all := s.Instr.Common().Args
						if i < len(all) {
							amt = o.Of(all[i])
						}
					}
				}
			}
			_ = d
		}
		if amt == nil {
			R.Undecided("R11", fk, siteDesc(c, s)+" <= amount bounded", c.P.InstrPos(s.Instr), "amount fits in millisats", "the amount handed to the backend is not a parameter of a single helper")
			continue
		}
		want := amt.String()
		bounded := &Cond{Name: "amount <= MaxInt64/1000", Match: func(f *Fact, _ *Origins) bool {
			if f.Kind != "cmp" || f.A == nil || f.B == nil {
				return false
			}
			a, b, op2, pos := f.A, f.B, f.Op.String(), f.Pos
			if b.String() == want && a.K == "const" {
				a, b = b, a
				switch op2 {
				case "<":
					op2 = ">"
				case "<=":
					op2 = ">="
				case ">":
					op2 = "<"
				case ">=":
					op2 = "<="
				}
			}
			if a.String() != want || b.K != "const" {
				return false
			}
			switch {
			case op2 == "<=" && pos, op2 == ">" && !pos:
				return leq(b.S, false)
			case op2 == "<" && pos, op2 == ">=" && !pos:
				return leq(b.S, true)
			}
			return false
		}}
		ok, why := c.RequireAt(s.Instr, bounded)
		R.Check("R11", fk, siteDesc(c, s)+" <= amount bounded", c.P.InstrPos(s.Instr), ok,
			"the amount for which an invoice is requested was compared against a constant bound of at most MaxInt64/1000 sats", why)
	}
}

// boolPhiEdges lists the CFG edges over which a boolean phi (of phis) receives the constants true and false.
func boolPhiEdges(v ssa.Value, depth int) (t, f map[Edge]bool, ok bool) {
	t, f = map[Edge]bool{}, map[Edge]bool{}
	ph, isPhi := v.(*ssa.Phi)
	if !isPhi || depth > 3 {
		return t, f, false
	}
	b := ph.Block()
	for i, e := range ph.Edges {
		pred := b.Preds[i]
		var edges []Edge
		for si, sc := range pred.Succs {
			if sc == b {
				edges = append(edges, Edge{pred, si})
			}
		}
		switch x := e.(type) {
		case *ssa.Const:
			if x.Value == nil || x.Value.Kind() != constant.Bool {
				return t, f, false
			}
			for _, ed := range edges {
				if constant.BoolVal(x.Value) {
					t[ed] = true
				} else {
					f[ed] = true
				}
			}
		case *ssa.Phi:
			t2, f2, ok2 := boolPhiEdges(x, depth+1)
			if !ok2 {
				return t, f, false
			}
			for k := range t2 {
				t[k] = true
			}
			for k := range f2 {
				f[k] = true
			}
		default:
			return t, f, false
		}
	}
	return t, f, true
}

// ruleWhoSigns: ecash comes into existence only where the amount guards of the swap and mint operations stand.
// Every call of the blind-signing primitive in the mint lies in the swap operation, the mint operation, the signing
// helper of the reference tree, or a helper new on this tree all of whose callers do (who-may-call; a new operation
// that signs - change of a melt, a batch variant - is an outflow none of the amount rules has examined).
func (c *Ctx) ruleWhoSigns(rule string) {
	R := c.R
	swap, mintOp := c.V.Op("/v1/swap"), c.V.Op("/v1/mint/{method}")
	if swap == nil || mintOp == nil {
		R.Unresolved(rule, "swap / mint operation", "not resolved from the routes")
		return
	}
	allowed := map[*ssa.Function]bool{swap: true, mintOp: true}
	var okFn func(f *ssa.Function, depth int) bool
	okFn = func(f *ssa.Function, depth int) bool {
		f = EnclosingTop(f)
		if allowed[f] {
			return true
		}
		if depth > 4 || !c.P.IsNewFunc(f) && c.P.FuncKey(f) != "mint.(*Mint).signBlindedMessages" {
			return false
		}
		callers := c.callersOf(f)
		if len(callers) == 0 {
			return false
		}
		for _, s := range callers {
			if !okFn(s.Parent(), depth+1) {
				return false
			}
		}
		return true
	}
	n := 0
	for _, f := range c.P.Funcs {
		top := EnclosingTop(f)
		if top.Pkg == nil || !strings.HasPrefix(c.P.Rel(top.Pkg.Pkg.Path()), "mint") {
			continue
		}
		for _, ci := range Calls(f) {
			d := c.P.Describe(ci)
			if d.Name != fnSignBlinded && d.Name != "mint.(*Mint).signBlindedMessages" {
				continue
			}
			n++
			ok := okFn(f, 0)
			R.Check(rule, c.P.FuncKey(top), "signing call belongs to the swap or mint operation ("+d.Name+")", c.P.InstrPos(ci), ok,
				"blind signatures are produced only inside the swap and mint operations", "this function signs outputs but is reached from outside the swap and mint operations")
		}
	}
	if n < 3 {
		R.Unresolved(rule, "signing call sites", fmt.Sprintf("found %d, expected at least 3", n))
	}
}
