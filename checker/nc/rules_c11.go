package nc

import (
	"go/types"
	"regexp"
	"strconv"
	"strings"

	"golang.org/x/tools/go/ssa"
)

func init() {
	register("C11", "Bit-for-bit agreement with the NUT-00/02/13 specifications for every input is a numerical statement and is NOT decided "+
		"statically; the pinned vectors kill almost every edit of these functions. Decided is a monotone census: each anchored function must "+
		"contain the specified calls with the specified constant-folded arguments and data flow — (R1) hash_to_curve: sha256 over the "+
		"domain separator constant followed by the WHOLE message, a 4-byte little-endian counter appended to that digest and hashed again, "+
		"prefix byte 0x02, point parsing, at most 2^16 iterations; (R2) keyset id: every key of the map, sorted ascending by amount with a "+
		"total order on uint64, compressed serialisation, SHA-256, \"00\" + first 14 hex characters; (R3) NUT-13: purpose 129372', coin 0', "+
		"keyset index = big-endian uint64 of the hex-decoded id mod (2^31-1), hardened, counter hardened, leaf 0 for the secret and 1 for "+
		"the blinding factor, standard BIP-32 derivation, the secret being the hex of the 32-byte key; (R4) mint keyset path 0'/0'/idx'; "+
		"(R5) wallet P2PK key path 129372'/0'/1'/0. Adding code never fires the census; replacing one of these constructs does.", rulesC11)
}

func (c *Ctx) callsNamed(f *ssa.Function, name string) []ssa.CallInstruction {
	var out []ssa.CallInstruction
	for _, g := range WithClosures(f) {
		for _, ci := range Calls(g) {
			if c.P.Describe(ci).Name == name {
				out = append(out, ci)
			}
		}
	}
	return out
}

// ruleHashToCurveCensus: R1 (shared with C10).
func (c *Ctx) ruleHashToCurveCensus(rule string) {
	R := c.R
	f := c.fn(rule, fnHashToCurve)
	if f == nil {
		return
	}
	fk := c.P.FuncKey(f)
	o := c.P.OriginsOf(f)
	msg := "P:" + f.Params[0].Name()
	ds, ok := c.P.ConstVal("crypto", "DomainSeparator")
	R.Check(rule, "crypto", "DomainSeparator constant", "crypto/bdhke.go", ok && ds == "\"Secp256k1_HashToCurve_Cashu_\"", "the domain separator is Secp256k1_HashToCurve_Cashu_", "constant is "+ds)
	sums := c.callsNamed(f, fnSha256)
	var first, second ssa.CallInstruction
	for _, s := range sums {
		e := o.Of(c.P.Describe(s).Args[0])
		if e.K == "append" && len(e.Args) == 2 && e.Args[0].String() == "#"+ds && e.Args[1].String() == msg {
			first = s
		}
	}
	// the same question asked of the bytes themselves (however they were assembled)
	be := &bytesEval{p: c.P, fn: f}
	dsBytes, _ := strconv.Unquote(ds)
	if first == nil {
		for _, s := range sums {
			segs := be.bytesAt(c.P.Describe(s).Args[0], s)
			if len(segs) == 2 && segs[0].K == "const" && segs[0].S == dsBytes && segs[1].K == "param" && segs[1].V == ssa.Value(f.Params[0]) {
				first = s
			}
		}
	}
	R.Check(rule, fk, "first digest = sha256(domain separator || whole message)", c.P.Pos(f.Pos()), first != nil,
		"the first digest is taken over the domain separator followed by the complete message parameter", func() string {
			var got []string
			for _, s := range sums {
				got = append(got, short(o.Of(c.P.Describe(s).Args[0]).String(), 120))
			}
			return "sha256 inputs found: " + strings.Join(got, " ; ")
		}())
	// counter: little endian, 4 bytes. Buffers are identified by the allocation behind the slice, digests by
	// the call that produced the array the slice is taken of (value identity, not printed provenance).
	base := func(v ssa.Value) ssa.Value {
		for {
			switch x := v.(type) {
			case *ssa.Slice:
				v = x.X
			case *ssa.Convert:
				v = x.X
			case *ssa.ChangeType:
				v = x.X
			default:
				return v
			}
		}
	}
	fourBytes := func(v ssa.Value) bool {
		switch x := v.(type) {
		case *ssa.MakeSlice:
			n, ok := constInt(x.Len)
			return ok && n == 4
		case *ssa.Alloc:
			if a, ok := x.Type().Underlying().(*types.Pointer).Elem().Underlying().(*types.Array); ok {
				return a.Len() == 4
			}
		}
		return false
	}
	holdsFirst := func(v ssa.Value) bool {
		al, ok := base(v).(*ssa.Alloc)
		if !ok || first == nil {
			return false
		}
		n := 0
		for _, ref := range *al.Referrers() {
			if st, ok := ref.(*ssa.Store); ok && st.Addr == al {
				n++
				if cv, ok := st.Val.(*ssa.Call); !ok || ssa.CallInstruction(cv) != first {
					return false
				}
			}
		}
		return n == 1
	}
	isCounter := func(v ssa.Value) bool {
		e := o.Of(v)
		return e.K == "acc" && strings.HasPrefix(e.S, "+") && len(e.Args) == 2 && isConst(e.Args[0], "0") && isConst(e.Args[1], "1")
	}
	okLE := false
	var bufAlloc ssa.Value
	var appended ssa.Value // result of LittleEndian.AppendUint32(first digest, counter)
	for _, p := range c.callsNamed(f, "encoding/binary.(littleEndian).PutUint32") {
		d := c.P.Describe(p)
		if b := base(d.Args[0]); fourBytes(b) && isCounter(d.Args[1]) {
			okLE, bufAlloc = true, b
		}
	}
	for _, p := range c.callsNamed(f, "encoding/binary.(littleEndian).AppendUint32") {
		d := c.P.Describe(p)
		if holdsFirst(d.Args[0]) && isCounter(d.Args[1]) {
			okLE, appended = true, p.Value()
		}
	}
	// byte view: some later sha256 call hashes exactly digest(first) || le32(counter)
	var secondBytes ssa.CallInstruction
	if first != nil {
		for _, s := range sums {
			if s == first {
				continue
			}
			segs := be.bytesAt(c.P.Describe(s).Args[0], s)
			if len(segs) == 2 && segs[0].K == "digest" && segs[0].Call == first && segs[1].K == "le32" && isCounter(segs[1].V) {
				secondBytes = s
				okLE = true
			}
		}
	}
	// the per-attempt work moved into a helper that is new on this tree: the same questions are asked of the
	// bytes the helper hashes and parses, its parameters being what the loop passes - the first digest and the counter
	helperPrefix := false
	if first != nil && secondBytes == nil {
		for _, site := range Calls(f) {
			h := site.Common().StaticCallee()
			if h == nil || h.Blocks == nil || h.Parent() != nil || !c.P.IsNewFunc(h) {
				continue
			}
			argOf := func(prm ssa.Value) ssa.Value {
				for i, hp := range h.Params {
					if ssa.Value(hp) == prm && i < len(site.Common().Args) {
						return site.Common().Args[i]
					}
				}
				return nil
			}
			isFirstDigest := func(v ssa.Value) bool {
				if v == nil {
					return false
				}
				if cv, ok := v.(*ssa.Call); ok && ssa.CallInstruction(cv) == first {
					return true
				}
				if u, ok := v.(*ssa.UnOp); ok && u.Op.String() == "*" {
					return holdsFirst(u.X)
				}
				return false
			}
			bh := &bytesEval{p: c.P, fn: h}
			var hSecond ssa.CallInstruction
			for _, s := range c.callsNamed(h, fnSha256) {
				segs := bh.bytesAt(c.P.Describe(s).Args[0], s)
				if len(segs) == 2 && segs[0].K == "param" && segs[0].N == 32 && isFirstDigest(argOf(segs[0].V)) && segs[1].K == "le32" {
					if cv := argOf(segs[1].V); cv != nil && isCounter(cv) {
						hSecond = s
					}
				}
			}
			if hSecond == nil {
				continue
			}
			okLE, secondBytes = true, hSecond
			for _, p := range c.callsNamed(h, "secp256k1.ParsePubKey") {
				segs := bh.bytesAt(c.P.Describe(p).Args[0], p)
				if len(segs) == 2 && segs[0].K == "const" && segs[0].S == "\x02" && segs[1].K == "digest" && segs[1].Call == hSecond {
					// the parsed candidate is what the helper hands back
					for _, r := range Returns(h) {
						if len(r.Results) > 0 {
							if ex, ok := r.Results[0].(*ssa.Extract); ok && ex.Tuple == p.Value() {
								helperPrefix = true
							} else if r.Results[0] == p.Value() {
								helperPrefix = true
							}
						}
					}
				}
			}
		}
	}
	R.Check(rule, fk, "counter encoded little-endian in 4 bytes", c.P.Pos(f.Pos()), okLE, "the counter is appended as a 4-byte little-endian value", "no binary.LittleEndian.PutUint32 into a 4-byte buffer / AppendUint32 of the loop counter")
	for _, s := range sums {
		if s == first {
			continue
		}
		arg0 := c.P.Describe(s).Args[0]
		if appended != nil && arg0 == appended {
			second = s
			continue
		}
		if ap, ok := arg0.(*ssa.Call); ok && c.P.Describe(ap).Name == "builtin.append" && len(ap.Call.Args) == 2 {
			if holdsFirst(ap.Call.Args[0]) && bufAlloc != nil && base(ap.Call.Args[1]) == bufAlloc {
				second = s
			}
		}
	}
	if second == nil {
		second = secondBytes
	}
	R.Check(rule, fk, "second digest = sha256(first digest || counter)", c.P.Pos(f.Pos()), second != nil, "each attempt hashes the first digest followed by the counter bytes", "")
	okPrefix := false
	for _, p := range c.callsNamed(f, "secp256k1.ParsePubKey") {
		e := o.Of(c.P.Describe(p).Args[0])
		if e.K == "append" && len(e.Args) == 2 && strings.Contains(e.Args[0].String(), "[]=#2") && second != nil && e.Args[1].K == "call" && e.Args[1].Call == second {
			okPrefix = true
		}
	}
	if !okPrefix && second != nil {
		for _, p := range c.callsNamed(f, "secp256k1.ParsePubKey") {
			segs := be.bytesAt(c.P.Describe(p).Args[0], p)
			if len(segs) == 2 && segs[0].K == "const" && segs[0].S == "\x02" && segs[1].K == "digest" && segs[1].Call == second {
				okPrefix = true
			}
		}
	}
	okPrefix = okPrefix || helperPrefix
	R.Check(rule, fk, "candidate = 0x02 || second digest, parsed as a point", c.P.Pos(f.Pos()), okPrefix, "the candidate point is the compressed encoding 02 || digest", "")
	okBound := false
	for _, e := range o.AllEdges() {
		ft := o.EdgeFact(e)
		if ft != nil && ft.Kind == "cmp" && ft.Pos && ft.Op.String() == "<" && (strings.Contains(ft.B.String(), "math.Exp2(#16)") || isConst(ft.B, "65536")) {
			okBound = true
		}
	}
	R.Check(rule, fk, "at most 2^16 iterations", c.P.Pos(f.Pos()), okBound, "the counter loop is bounded by 2^16", "")
}

func rulesC11(c *Ctx) {
	R := c.R
	R.Rule("R1", "hash_to_curve census", 6)
	R.Rule("R2", "keyset id census", 5)
	R.Rule("R3", "NUT-13 derivation census", 6)
	R.Rule("R4", "mint keyset path census", 1)
	R.Rule("R5", "wallet P2PK key path census", 1)
	c.ruleHashToCurveCensus("R1")

	// ---- R2
	if f := c.fn("R2", "crypto.DeriveKeysetId"); f != nil {
		c.c11KeysetId(f)
	}

	// ---- R3
	const derive = "hdkeychain.(*ExtendedKey).Derive"
	// The derivation functions are read off the provenance of what they return on success: a chain of
	// standard BIP-32 Derive calls from the key parameter with constant-folded indices (the same whether the
	// steps are written inline, passed on with `return f()`, or moved into a helper that is new on this tree).
	chain := func(root string, idx ...string) string {
		s := root
		for _, i := range idx {
			s = derive + "#0(" + s + ", " + i + ")"
		}
		return s
	}
	returned := func(f *ssa.Function) (string, bool) {
		o := c.P.OriginsOf(f)
		rs := o.SuccessReturns()
		got := ""
		for _, r := range rs {
			ex := o.Of(r.Results[0])
			// a path walked by a loop over its written-out components is the same chain of derivations
			if fx := o.FoldAtExit(r.Results[0], r); fx != nil {
				ex = fx
			}
			ex = rewriteEx(ex, func(x *Ex) *Ex {
				if x.K == "loopvar" && x.V != nil {
					return o.FoldAtExit(x.V, r)
				}
				return nil
			})
			e := ex.String()
			if got != "" && e != got {
				return got + " | " + e, false
			}
			got = e
		}
		return got, len(rs) > 0
	}
	if f := c.fn("R3", "cashu/nuts/nut13.DeriveKeysetPath"); f != nil {
		id := "P:" + f.Params[1].Name()
		want3 := "(#2147483648 + uint32((encoding/binary.(bigEndian).Uint64(G:encoding/binary.BigEndian, " + fnHexDecode + "#0(" + id + ")) % #2147483647)))"
		got, one := returned(f)
		ok := one && got == chain("P:"+f.Params[0].Name(), "#2147613020", "#2147483648", want3)
		R.Check("R3", c.P.FuncKey(f), "m/129372'/0'/(big-endian uint64 of the id mod 2^31-1)'", c.P.Pos(f.Pos()), ok,
			"the keyset path is purpose 129372', coin type 0', then the hardened keyset index derived from the hex-decoded id", short(got, 300))
	}
	for _, v := range []struct {
		key, leaf, what string
	}{{"cashu/nuts/nut13.DeriveSecret", "#0", "secret"}, {"cashu/nuts/nut13.DeriveBlindingFactor", "#1", "blinding factor"}} {
		f := c.fn("R3", v.key)
		if f == nil {
			continue
		}
		counter := "P:" + f.Params[1].Name()
		key := "hdkeychain.(*ExtendedKey).ECPrivKey#0(" + chain("P:"+f.Params[0].Name(), "(#2147483648 + "+counter+")", v.leaf) + ")"
		want := key
		if v.leaf == "#0" {
			want = fnHexEncode + "(secp256k1.(PrivateKey).Serialize(" + key + "))"
		}
		got, one := returned(f)
		R.Check("R3", c.P.FuncKey(f), "counter' then leaf "+strings.TrimPrefix(v.leaf, "#"), c.P.Pos(f.Pos()), one && got == want, "the "+v.what+" is at <keyset path>/counter'/"+strings.TrimPrefix(v.leaf, "#")+" with standard BIP-32 derivation", short(got, 300))
		R.Check("R3", c.P.FuncKey(f), v.what+" is the derived private key", c.P.Pos(f.Pos()), one && got == want, "the "+v.what+" is the private key at that path (hex of its 32 bytes for the secret)", "")
	}
	// the wallet derives secret and r from the same counter and path
	if f := c.fn("R3", "wallet.generateDeterministicSecret"); f != nil {
		o := c.P.OriginsOf(f)
		path, ctr := "P:"+f.Params[0].Name(), "P:"+f.Params[1].Name()
		n := 0
		ok := true
		for _, ci := range Calls(f) {
			d := c.P.Describe(ci)
			if d.Name == "cashu/nuts/nut13.DeriveSecret" || d.Name == "cashu/nuts/nut13.DeriveBlindingFactor" {
				n++
				if o.Of(d.Args[0]).String() != path || o.Of(d.Args[1]).String() != ctr {
					ok = false
				}
			}
		}
		R.Check("R3", c.P.FuncKey(f), "secret and r derived from the same path and counter", c.P.Pos(f.Pos()), ok && n == 2, "both derivations receive the same keyset path and counter", "")
	}

	// ---- R4, R5
	if f := c.fn("R4", "crypto.DeriveKeysetPath"); f != nil {
		got, one := returned(f)
		ok := one && got == chain("P:"+f.Params[0].Name(), "#2147483648", "#2147483648", "(#2147483648 + P:"+f.Params[1].Name()+")")
		R.Check("R4", c.P.FuncKey(f), "m/0'/0'/index'", c.P.Pos(f.Pos()), ok, "the mint's keyset path is 0'/0'/index'", short(got, 300))
	}
	if f := c.fn("R5", "wallet.DeriveP2PK"); f != nil {
		got, one := returned(f)
		ok := one && got == "hdkeychain.(*ExtendedKey).ECPrivKey#0("+chain("P:"+f.Params[0].Name(), "#2147613020", "#2147483648", "#2147483649", "#0")+")"
		R.Check("R5", c.P.FuncKey(f), "m/129372'/0'/1'/0", c.P.Pos(f.Pos()), ok, "the wallet's P2PK key path is 129372'/0'/1'/0", short(got, 300))
	}
}

// c11KeysetId: R2, stated over the data flow instead of one coding of it. The digest input is the compressed
// serialisation of every key of the map, in ascending order of amount:
//   - the serialised keys are taken from a list R that ranges over all entries of the map (a slice of
//     (amount, key) structs, or a list of the amounts with the key looked up in the same map);
//   - R is in ascending order of amount (slices.Sorted(maps.Keys(m)), or sorted in place with slices.Sort /
//     sort.Slice / slices.SortFunc by the amount, in the function or in a helper that is new on this tree);
//   - the bytes reach SHA-256 in list order: concatenated and hashed, or written to the hash once per
//     iteration of the whole-range loop over R;
//   - the id is "00" followed by the first 14 hex characters of the digest.
func (c *Ctx) c11KeysetId(f *ssa.Function) {
	R := c.R
	fk := c.P.FuncKey(f)
	o := c.P.OriginsOf(f)
	ks := "P:" + f.Params[0].Name()
	pos := c.P.Pos(f.Pos())
	// the serialisation call and the list it ranges over
	var ser ssa.CallInstruction
	var list *Ex
	keysForm := false
	for _, ci := range c.callsNamed(f, "secp256k1.(PublicKey).SerializeCompressed") {
		d := c.P.Describe(ci)
		if d.Recv == nil {
			continue
		}
		e := o.Of(d.Recv)
		switch {
		case e.K == "field" && e.Args[0].K == "elem": // elem(R).pk
			ser, list = ci, e.Args[0].Args[0]
		case (e.K == "lookup" || e.K == "index") && e.Args[0].String() == ks && e.Args[1].K == "elem": // m[elem(R)]
			ser, list, keysForm = ci, e.Args[1].Args[0], true
		}
	}
	if ser == nil {
		R.Check("R2", fk, "every key of the map takes part", pos, false, "the sorted list is built from every (amount, key) entry of the map", "no SerializeCompressed of a key taken from a list over the map")
		return
	}
	ls := list.String()
	// the names of the (amount, key) fields of the list's element type are read from the list itself:
	// F=key(map) is the amount field, G=elem(map) the key field (struct form only)
	amtField, keyField := "", ""
	if !keysForm {
		if m := regexp.MustCompile(`(\w+)=key\(` + regexp.QuoteMeta(ks) + `\)`).FindStringSubmatch(ls); m != nil {
			amtField = m[1]
		}
		if m := regexp.MustCompile(`(\w+)=elem\(` + regexp.QuoteMeta(ks) + `\)`).FindStringSubmatch(ls); m != nil {
			keyField = m[1]
		}
	}
	// sortedness
	okSort, why := false, "no sort of the list found"
	if ls == "slices.Sorted(maps.Keys("+ks+"))" {
		okSort = true
	}
	for _, og := range c.OpContexts(f) {
		for _, ci := range Calls(og.Fn) {
			d := c.P.Describe(ci)
			switch d.Name {
			case "slices.Sort":
				if keysForm && og.Of(d.Args[0]).String() == ls {
					okSort = true
				}
			case "sort.Slice", "sort.SliceStable", "slices.SortFunc", "slices.SortStableFunc":
				if og.Of(d.Args[0]).String() != ls {
					continue
				}
				cmpFn := resolveFuncValue(d.Args[1])
				if cmpFn == nil {
					why = "comparator not resolvable"
					continue
				}
				co := c.P.OriginsOf(cmpFn)
				for _, r := range Returns(cmpFn) {
					e := co.Of(r.Results[0])
					var okc bool
					if len(cmpFn.Params) != 2 {
						why = "comparator does not take two parameters"
						continue
					}
					p0, p1 := "P:"+cmpFn.Params[0].Name(), "P:"+cmpFn.Params[1].Name()
					byAmount := func(x, y *Ex) bool {
						return keysForm || (amtField != "" && strings.HasSuffix(x.String(), "."+amtField) && strings.HasSuffix(y.String(), "."+amtField))
					}
					if strings.HasPrefix(d.Name, "sort.") {
						okc = e.K == "bin" && e.S == "<" && strings.Contains(e.Args[0].String(), "["+p0+"]") && strings.Contains(e.Args[1].String(), "["+p1+"]") &&
							byAmount(e.Args[0], e.Args[1])
					} else {
						okc = isCall(e, "cmp.Compare") && strings.HasPrefix(arg(e, 0).String(), p0) && strings.HasPrefix(arg(e, 1).String(), p1) &&
							byAmount(arg(e, 0), arg(e, 1))
					}
					if okc {
						okSort = true
					} else {
						why = "comparator returns " + short(e.String(), 140)
					}
				}
			}
		}
	}
	R.Check("R2", fk, "keys sorted ascending by amount (total order on uint64)", pos, okSort, "the keys are sorted by amount with a comparison that is a total order on uint64", why)
	// completeness of the list
	okAll := false
	switch {
	case keysForm:
		okAll = ls == "slices.Sorted(maps.Keys("+ks+"))" || ls == "map("+ks+" => key("+ks+"))" || ls == "make:[]uint64{key("+ks+")}"
	default:
		// the serialised field is the key field of the element, filled from the map's values
		serField := ""
		if e := o.Of(c.P.Describe(ser).Recv); e.K == "field" {
			serField = e.S
		}
		okAll = amtField != "" && keyField != "" && serField == keyField
	}
	R.Check("R2", fk, "every key of the map takes part", pos, okAll, "the sorted list is built from every (amount, key) entry of the map", short(ls, 160))
	// the bytes reach SHA-256 in list order
	okSer, okHash := false, false
	serEx := o.Of(ser.Value()).String()
	isConcat := func(e *Ex) bool {
		return e.K == "acc" && e.S == "append" && len(e.Args) == 2 && e.Args[1].K == "spread" && e.Args[1].Args[0].String() == serEx
	}
	for _, ci := range c.callsNamed(f, "(hash.Hash).Write") {
		d := c.P.Describe(ci)
		e := o.Of(d.Args[0])
		isSha := isCall(o.Of(d.Recv), "crypto/sha256.New")
		if isConcat(e) {
			okSer, okHash = true, isSha
		}
		// streaming: one Write of the serialised key per iteration of the whole-range loop over the list
		if e.String() == serEx {
			if l := o.Loops.InnermostContaining(ci.Block()); l != nil && l.RangeOf != nil && o.Of(l.RangeOf).String() == ls {
				cut := NewCut()
				cut.Barriers[ci] = true
				for b := range l.Blocks {
					for i, sb := range b.Succs {
						if !l.Blocks[sb] {
							cut.Edges[Edge{b, i}] = true
						}
					}
				}
				body := l.Header.Succs[l.BodySucc]
				if reach, _ := Reach(Point{body, 0}, Point{l.Header, 0}, cut); !reach {
					okSer, okHash = true, isSha
				}
			}
		}
	}
	for _, ci := range c.callsNamed(f, fnSha256) {
		if isConcat(o.Of(c.P.Describe(ci).Args[0])) {
			okSer, okHash = true, true
		}
	}
	R.Check("R2", fk, "compressed keys of the whole sorted list are concatenated", pos, okSer, "the digest input is the concatenation of the compressed serialisation of every sorted key", "")
	R.Check("R2", fk, "SHA-256", pos, okHash, "the digest is SHA-256", "")
	okRes := false
	for _, r := range Returns(f) {
		e := o.Of(r.Results[0])
		okRes = e.K == "bin" && e.S == "+" && isConst(e.Args[0], "\"00\"") && e.Args[1].K == "slice" && isConst(e.Args[1].Args[2], "14") && isCall(e.Args[1].Args[0], fnHexEncode)
	}
	R.Check("R2", fk, "id = \"00\" + first 14 hex characters", pos, okRes, "the id is the version prefix 00 followed by the first 14 characters of the hex digest", "")
}
