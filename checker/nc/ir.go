package nc

import (
	"go/constant"
	"go/types"
	"strings"

	"golang.org/x/tools/go/ssa"
)

// CallDesc describes one call instruction in resolved form.
type CallDesc struct {
	Instr  ssa.CallInstruction
	Common *ssa.CallCommon
	Static *ssa.Function // statically known callee (nil for interface/dynamic calls)
	Iface  *types.Func   // interface method for invoke-mode calls
	Name   string        // printable callee name: "crypto.Verify", "(MintDB).SaveProofs", "hex.DecodeString"
	Args   []ssa.Value   // arguments excluding the receiver
	Recv   ssa.Value     // receiver (method calls / invoke), else nil
}

// Describe resolves a call instruction.
func (p *Program) Describe(ci ssa.CallInstruction) *CallDesc {
	c := ci.Common()
	d := &CallDesc{Instr: ci, Common: c}
	if c.IsInvoke() {
		d.Iface = c.Method
		d.Recv = c.Value
		d.Args = c.Args
		d.Name = "(" + typeShort(p, c.Value.Type()) + ")." + c.Method.Name()
		return d
	}
	if f := c.StaticCallee(); f != nil {
		d.Static = f
		d.Name = p.calleeName(f)
		if f.Signature.Recv() != nil && len(c.Args) > 0 {
			d.Recv = c.Args[0]
			d.Args = c.Args[1:]
		} else {
			d.Args = c.Args
		}
		return d
	}
	if b, ok := c.Value.(*ssa.Builtin); ok {
		d.Name = "builtin." + b.Name()
		d.Args = c.Args
		return d
	}
	d.Name = "dynamic"
	d.Args = c.Args
	return d
}

func (p *Program) calleeName(f *ssa.Function) string {
	// instantiations of generic functions are named after their origin (slices.IndexFunc, not slices.IndexFunc[...])
	if o := f.Origin(); o != nil && o != f {
		return p.calleeName(o)
	}
	if f.Pkg != nil && p.InModule(f.Pkg.Pkg.Path()) {
		return p.FuncKey(f)
	}
	if f.Parent() != nil {
		return p.FuncKey(f)
	}
	// external: pkgname.Func or pkgname.(T).Method
	obj := f.Object()
	if obj == nil {
		// instantiated generic or synthetic: fall back to origin
		if o := f.Origin(); o != nil && o != f {
			return p.calleeName(o)
		}
		return f.String()
	}
	pk := ""
	if obj.Pkg() != nil {
		pk = shortPkg(obj.Pkg().Path())
	}
	if recv := f.Signature.Recv(); recv != nil {
		t := recv.Type()
		star := ""
		if pt, ok := t.(*types.Pointer); ok {
			t = pt.Elem()
			star = "*"
		}
		name := t.String()
		if n, ok := t.(*types.Named); ok {
			name = n.Obj().Name()
		}
		return pk + ".(" + star + name + ")." + f.Name()
	}
	return pk + "." + f.Name()
}

func typeShort(p *Program, t types.Type) string {
	return types.TypeString(t, func(pk *types.Package) string {
		if p.InModule(pk.Path()) {
			return p.Rel(pk.Path())
		}
		return pk.Name()
	})
}

// Calls enumerates the call instructions of a function (not descending into closures).
func Calls(f *ssa.Function) []ssa.CallInstruction {
	var out []ssa.CallInstruction
	for _, b := range f.Blocks {
		for _, in := range b.Instrs {
			if ci, ok := in.(ssa.CallInstruction); ok {
				out = append(out, ci)
			}
		}
	}
	return out
}

// IsErrorType reports whether t is the predeclared error interface.
func IsErrorType(t types.Type) bool {
	return types.Identical(t, types.Universe.Lookup("error").Type())
}

// ConstString renders a constant value.
func ConstString(c *ssa.Const) string {
	if c.Value == nil {
		return "nil"
	}
	if c.Value.Kind() == constant.String {
		return "\"" + constant.StringVal(c.Value) + "\""
	}
	return c.Value.ExactString()
}

// UnwrapConv strips conversions that do not change the value's identity for the analysis.
func UnwrapConv(v ssa.Value) ssa.Value {
	for {
		switch x := v.(type) {
		case *ssa.ChangeType:
			v = x.X
		case *ssa.ChangeInterface:
			v = x.X
		case *ssa.MakeInterface:
			v = x.X
		case *ssa.Convert:
			v = x.X
		default:
			return v
		}
	}
}

// EnclosingTop returns the outermost function enclosing f.
func EnclosingTop(f *ssa.Function) *ssa.Function {
	for f.Parent() != nil {
		f = f.Parent()
	}
	return f
}

// FindMakeClosure finds the MakeClosure instruction in the parent that creates fn.
func FindMakeClosure(fn *ssa.Function) *ssa.MakeClosure {
	par := fn.Parent()
	if par == nil {
		return nil
	}
	for _, b := range par.Blocks {
		for _, in := range b.Instrs {
			if mc, ok := in.(*ssa.MakeClosure); ok && mc.Fn == fn {
				return mc
			}
		}
	}
	return nil
}

// ClosureCallSites returns call instructions in the parent that call the closure value directly
// (immediately-invoked closures and go/defer of a literal).
func ClosureCallSites(mc *ssa.MakeClosure) []ssa.CallInstruction {
	var out []ssa.CallInstruction
	if mc == nil {
		return nil
	}
	for _, r := range *mc.Referrers() {
		if ci, ok := r.(ssa.CallInstruction); ok && ci.Common().Value == mc {
			out = append(out, ci)
		}
	}
	return out
}

// instrIndex returns the index of an instruction in its block.
func instrIndex(in ssa.Instruction) int {
	for i, x := range in.Block().Instrs {
		if x == in {
			return i
		}
	}
	return -1
}

func hasPrefixAny(s string, ps ...string) bool {
	for _, p := range ps {
		if strings.HasPrefix(s, p) {
			return true
		}
	}
	return false
}

// ImplementsIn lists the named module types (T or *T) implementing iface.
func (p *Program) ImplementsIn(iface *types.Interface) []types.Type {
	var out []types.Type
	for _, pkg := range p.Pkgs {
		sc := pkg.Types.Scope()
		for _, name := range sc.Names() {
			tn, ok := sc.Lookup(name).(*types.TypeName)
			if !ok || tn.IsAlias() {
				continue
			}
			t := tn.Type()
			if _, isIface := t.Underlying().(*types.Interface); isIface {
				continue
			}
			if types.Implements(t, iface) {
				out = append(out, t)
			} else if pt := types.NewPointer(t); types.Implements(pt, iface) {
				out = append(out, pt)
			}
		}
	}
	return out
}

// MethodOf returns the SSA function for method name of type t (nil when absent).
func (p *Program) MethodOf(t types.Type, name string) *ssa.Function {
	ms := p.SSA.MethodSets.MethodSet(t)
	for i := 0; i < ms.Len(); i++ {
		if ms.At(i).Obj().Name() == name {
			return p.SSA.MethodValue(ms.At(i))
		}
	}
	return nil
}

// shortPkg abbreviates third-party import paths (host/org/repo/.../name[/vN]) to their last
// element; standard-library paths are kept whole (so crypto/rand and math/rand stay distinct).
func shortPkg(path string) string {
	first := path
	if i := strings.IndexByte(path, '/'); i >= 0 {
		first = path[:i]
	}
	if !strings.Contains(first, ".") {
		return path
	}
	parts := strings.Split(path, "/")
	last := parts[len(parts)-1]
	if len(parts) > 1 && len(last) >= 2 && last[0] == 'v' && last[1] >= '0' && last[1] <= '9' {
		last = parts[len(parts)-2]
	}
	return last
}
