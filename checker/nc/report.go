package nc

import (
	"encoding/json"
	"fmt"
	"os"
	"path/filepath"
	"sort"
	"strings"
	"time"
)

// Obligation is one rule instance decided by a run.
type Obligation struct {
	Key        string `json:"key"`  // <property>.<rule>|<function>|<construct>  (no line numbers)
	Rule       string `json:"rule"` // C01.R1
	Desc       string `json:"what"`
	Site       string `json:"site"`   // file:line of the construct
	Status     string `json:"status"` // discharged | violated | known | undecided | unresolved
	Detail     string `json:"detail,omitempty"`
	Nontrivial bool   `json:"nontrivial"`
}

// Report collects the obligations of one property.
type Report struct {
	Prop        string
	Tier        string
	Obls        []*Obligation
	Notes       []string
	Assumptions []string
	Trusted     []string
	RuleMin     map[string]int    // vacuity guard: minimum number of instances per rule
	RuleDoc     map[string]string // one line per rule: what it decides
	Explanation string
	Analysed    map[string]int
	SelfTest    *SelfTestResult
	start       time.Time
	keys        map[string]int
}

type SelfTestResult struct {
	Seeds      int      `json:"seeds_applied"`
	Caught     int      `json:"seeds_caught"`
	Skipped    int      `json:"seeds_not_applicable"`
	Benign     int      `json:"benign_edits"`
	BenignOK   int      `json:"benign_silent"`
	Failures   []string `json:"failures,omitempty"`
	SkippedIDs []string `json:"skipped,omitempty"`
	Detail     []string `json:"reported_by,omitempty"`
}

func NewReport(prop, tier string) *Report {
	return &Report{Prop: prop, Tier: tier, RuleMin: map[string]int{}, RuleDoc: map[string]string{},
		Analysed: map[string]int{}, start: time.Now(), keys: map[string]int{}}
}

// Rule declares a rule: its documentation and the minimum number of instances expected.
func (r *Report) Rule(rule, doc string, minInstances int) {
	r.RuleDoc[rule] = doc
	r.RuleMin[rule] = minInstances
}

func (r *Report) add(rule, fn, construct, site, status, desc, detail string, nontrivial bool) *Obligation {
	key := fmt.Sprintf("%s.%s|%s|%s", r.Prop, rule, fn, construct)
	// keys must be unique within a run; disambiguate repeated constructs by ordinal
	r.keys[key]++
	if n := r.keys[key]; n > 1 {
		key = fmt.Sprintf("%s#%d", key, n)
	}
	o := &Obligation{Key: key, Rule: r.Prop + "." + rule, Desc: desc, Site: site, Status: status, Detail: detail, Nontrivial: nontrivial}
	r.Obls = append(r.Obls, o)
	return o
}

// Check records a decided obligation.
func (r *Report) Check(rule, fn, construct, site string, ok bool, desc, detail string) *Obligation {
	st := "discharged"
	if !ok {
		st = "violated"
	}
	if ok {
		detail = ""
	}
	return r.add(rule, fn, construct, site, st, desc, detail, true)
}

// Trivial records an obligation discharged without any guard or flow step.
func (r *Report) Trivial(rule, fn, construct, site, desc string) *Obligation {
	return r.add(rule, fn, construct, site, "discharged", desc, "", false)
}

// Undecided records an obligation whose shape the analysis does not recognise (fails the check).
func (r *Report) Undecided(rule, fn, construct, site, desc, why string) *Obligation {
	return r.add(rule, fn, construct, site, "undecided", desc, why, true)
}

// Unresolved records an anchor that could not be found (fails the check).
func (r *Report) Unresolved(rule, what, why string) *Obligation {
	return r.add(rule, "-", what, "-", "unresolved", "anchor resolution: "+what, why, true)
}

func (r *Report) Note(format string, a ...any) { r.Notes = append(r.Notes, fmt.Sprintf(format, a...)) }
func (r *Report) Assume(format string, a ...any) {
	r.Assumptions = append(r.Assumptions, fmt.Sprintf(format, a...))
}
func (r *Report) Trust(format string, a ...any) {
	r.Trusted = append(r.Trusted, fmt.Sprintf(format, a...))
}

// ---- known findings -------------------------------------------------------

type KnownFinding struct {
	Property string `json:"property"`
	Key      string `json:"key"`
	What     string `json:"what"`
	Defect   string `json:"defect,omitempty"`
}

type FixedFinding struct {
	Property string `json:"property"`
	Commit   string `json:"commit"`
	Key      string `json:"key,omitempty"`
	What     string `json:"what"`
	Defect   string `json:"defect,omitempty"`
}

type KnownFile struct {
	Comment string         `json:"comment,omitempty"`
	Known   []KnownFinding `json:"known"`
	Fixed   []FixedFinding `json:"fixed"`
}

func LoadKnown(path string) (*KnownFile, error) {
	b, err := os.ReadFile(path)
	if err != nil {
		if os.IsNotExist(err) {
			return &KnownFile{}, nil
		}
		return nil, err
	}
	var k KnownFile
	if err := json.Unmarshal(b, &k); err != nil {
		return nil, fmt.Errorf("%s: %v", path, err)
	}
	return &k, nil
}

// ---- finishing a run ------------------------------------------------------

// Finish applies the vacuity guard and known findings, prints the verdict lines, writes the
// evidence file and returns the exit code.
func (r *Report) Finish(opt Options, known *KnownFile) int {
	// vacuity guard
	perRule := map[string]int{}
	for _, o := range r.Obls {
		perRule[strings.TrimPrefix(o.Rule, r.Prop+".")]++
	}
	var rules []string
	for rule := range r.RuleMin {
		rules = append(rules, rule)
	}
	sort.Strings(rules)
	for _, rule := range rules {
		if perRule[rule] < r.RuleMin[rule] {
			r.add(rule, "-", "instance-count", "-", "undecided", "vacuity guard",
				fmt.Sprintf("rule matched %d instances, at least %d were confirmed by hand on the reference tree", perRule[rule], r.RuleMin[rule]), true)
		}
	}
	knownKeys := map[string]KnownFinding{}
	for _, k := range known.Known {
		if k.Property == r.Prop {
			knownKeys[k.Key] = k
		}
	}
	sort.SliceStable(r.Obls, func(i, j int) bool { return r.Obls[i].Key < r.Obls[j].Key })
	violations := 0
	nKnown := 0
	replayDir := filepath.Join(opt.Verif, "evidence", "replay")
	if !opt.NoEvidence {
		os.MkdirAll(replayDir, 0o755)
		// remove stale replay files of this property
		old, _ := filepath.Glob(filepath.Join(replayDir, r.Prop+"-*.json"))
		for _, f := range old {
			os.Remove(f)
		}
	}
	for _, o := range r.Obls {
		if opt.Verbose {
			fmt.Printf("  [%s] %s @ %s\n", o.Status, o.Key, o.Site)
		}
		if o.Status == "discharged" {
			continue
		}
		if k, ok := knownKeys[o.Key]; ok && o.Status == "violated" {
			o.Status = "known"
			nKnown++
			fmt.Printf("KNOWN-FINDING: property=%s %s [%s at %s]\n", r.Prop, k.What, o.Key, o.Site)
			continue
		}
		violations++
		path := filepath.Join(replayDir, fmt.Sprintf("%s-%d.json", r.Prop, violations))
		if opt.NoEvidence {
			path = "(not written)"
		} else {
			b, _ := json.MarshalIndent(map[string]any{"property": r.Prop, "obligation": o, "repo": opt.Repo, "tier": r.Tier}, "", " ")
			os.WriteFile(path, b, 0o644)
		}
		fmt.Printf("VIOLATION property=%s replay=%s\n", r.Prop, path)
		fmt.Printf("  rule=%s kind=%s site=%s\n  key=%s\n  what: %s\n  why:  %s\n", o.Rule, o.Status, o.Site, o.Key, o.Desc, o.Detail)
	}
	discharged, nontrivial := 0, 0
	distinct := map[string]bool{}
	for _, o := range r.Obls {
		if o.Status == "discharged" || o.Status == "known" {
			if o.Status == "discharged" {
				discharged++
			}
		}
		if o.Nontrivial {
			if !distinct[o.Key] {
				distinct[o.Key] = true
				nontrivial++
			}
		}
	}
	wall := time.Since(r.start).Seconds()
	fmt.Printf("%s %s: obligations=%d discharged=%d known=%d violations=%d (%.2fs)\n", r.Prop, r.Tier, len(r.Obls), discharged, nKnown, violations, wall)
	if !opt.NoEvidence {
		r.writeEvidence(opt, discharged, nontrivial, nKnown, violations, perRule, wall)
	}
	if violations > 0 {
		return 1
	}
	return 0
}

func (r *Report) writeEvidence(opt Options, discharged, nontrivial, nKnown, violations int, perRule map[string]int, wall float64) {
	type ruleStat struct {
		Rule       string `json:"rule"`
		Decides    string `json:"decides"`
		Instances  int    `json:"instances"`
		MinExpect  int    `json:"min_expected"`
		Discharged int    `json:"discharged"`
		Known      int    `json:"known"`
		Violated   int    `json:"violated"`
	}
	stats := map[string]*ruleStat{}
	for rule, doc := range r.RuleDoc {
		stats[rule] = &ruleStat{Rule: r.Prop + "." + rule, Decides: doc, MinExpect: r.RuleMin[rule]}
	}
	for _, o := range r.Obls {
		rule := strings.TrimPrefix(o.Rule, r.Prop+".")
		s := stats[rule]
		if s == nil {
			s = &ruleStat{Rule: o.Rule}
			stats[rule] = s
		}
		s.Instances++
		switch o.Status {
		case "discharged":
			s.Discharged++
		case "known":
			s.Known++
		default:
			s.Violated++
		}
	}
	var rs []*ruleStat
	for _, s := range stats {
		rs = append(rs, s)
	}
	sort.Slice(rs, func(i, j int) bool { return rs[i].Rule < rs[j].Rule })
	// samples: every non-discharged obligation plus up to 3 discharged per rule
	var samples []any
	perRuleSample := map[string]int{}
	for _, o := range r.Obls {
		if o.Status != "discharged" {
			samples = append(samples, o)
			continue
		}
		if perRuleSample[o.Rule] < 3 {
			perRuleSample[o.Rule]++
			samples = append(samples, o)
		}
	}
	cov := map[string]any{
		"explanation":         r.Explanation,
		"obligations":         len(r.Obls),
		"discharged":          discharged,
		"known_findings":      nKnown,
		"evaluations":         len(r.Obls),
		"distinct_nontrivial": nontrivial,
		"rule":                "one case = one obligation (rule instance at a construct of the current source); non-trivial = its decision needed at least one guard edge, flow step, table comparison or path enumeration; distinct = distinct obligation key",
		"samples":             samples,
		"rules":               rs,
		"analysed":            r.Analysed,
		"checker_cmd":         fmt.Sprintf("bin/nutcheck -property %s -tier %s -repo %s", r.Prop, r.Tier, opt.Repo),
		"trusted_base":        r.Trusted,
		"notes":               r.Notes,
		"exhaustive":          true,
	}
	if r.SelfTest != nil {
		cov["self_test"] = r.SelfTest
		cov["programs"] = r.SelfTest.Seeds + r.SelfTest.Benign
		cov["disagreements_checked"] = r.SelfTest.Seeds + r.SelfTest.Benign
	}
	if r.Assumptions == nil {
		r.Assumptions = []string{}
	}
	if r.Trusted == nil {
		cov["trusted_base"] = []string{}
	}
	if r.Notes == nil {
		cov["notes"] = []string{}
	}
	seed := 0
	fmt.Sscanf(os.Getenv("VERIF_SEED"), "%d", &seed)
	ev := map[string]any{
		"property_id": r.Prop,
		"tier":        r.Tier,
		"seed":        seed,
		"level":       "other",
		"coverage":    cov,
		"assumptions": r.Assumptions,
		"wall_s":      wall,
		"violations":  violations,
	}
	b, _ := json.MarshalIndent(ev, "", " ")
	path := filepath.Join(opt.Verif, "evidence", r.Prop+".json")
	os.MkdirAll(filepath.Dir(path), 0o755)
	if err := os.WriteFile(path, b, 0o644); err != nil {
		fmt.Fprintln(os.Stderr, "cannot write evidence:", err)
	}
}
