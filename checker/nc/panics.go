package nc

import (
	"fmt"
	"go/constant"
	"go/token"
	"go/types"
	"sort"
	"strconv"
	"strings"

	"golang.org/x/tools/go/ssa"
)

// ---- reachability over the module call graph --------------------------------

// ModuleReach computes the module functions reachable from the roots: static callees, closures
// created in reached functions, and for invoke-mode calls on module interfaces every module
// implementation (class-hierarchy resolution restricted to the module).
func (c *Ctx) ModuleReach(roots []*ssa.Function) map[*ssa.Function]bool {
	seen := map[*ssa.Function]bool{}
	var work []*ssa.Function
	push := func(f *ssa.Function) {
		if f == nil || f.Blocks == nil || seen[f] || !c.moduleFn(f) {
			return
		}
		seen[f] = true
		work = append(work, f)
	}
	for _, r := range roots {
		push(r)
	}
	for len(work) > 0 {
		f := work[len(work)-1]
		work = work[:len(work)-1]
		for _, a := range f.AnonFuncs {
			push(a)
		}
		for _, b := range f.Blocks {
			for _, in := range b.Instrs {
				ci, ok := in.(ssa.CallInstruction)
				if !ok {
					// function values passed around (method values, callbacks)
					if mc, ok := in.(*ssa.MakeClosure); ok {
						if fn, ok := mc.Fn.(*ssa.Function); ok {
							push(unwrapBound(fn))
						}
					}
					continue
				}
				cc := ci.Common()
				if cc.IsInvoke() {
					it, ok := cc.Value.Type().Underlying().(*types.Interface)
					if !ok {
						continue
					}
					if n, ok := cc.Value.Type().(*types.Named); ok && n.Obj().Pkg() != nil && c.P.InModule(n.Obj().Pkg().Path()) {
						for _, t := range c.P.ImplementsIn(it) {
							push(c.P.MethodOf(t, cc.Method.Name()))
						}
					} else if cc.Method.Name() == "MarshalJSON" || cc.Method.Name() == "UnmarshalJSON" || cc.Method.Name() == "Error" || cc.Method.Name() == "String" {
						// standard interfaces implemented by module types are reached through library code; handled by the JSON rule
					}
					continue
				}
				if sc := cc.StaticCallee(); sc != nil {
					push(unwrapBound(sc))
				}
				for _, a := range cc.Args {
					if fn := resolveFuncValue(a); fn != nil {
						push(fn)
					}
				}
			}
		}
	}
	return seen
}

// jsonMethodsOf adds the (Un)MarshalJSON / String methods of module types that encoding/json or fmt may call
// for values of the given static types (transitively through fields, elements and pointers).
func (c *Ctx) jsonMethodsOf(ts []types.Type, names ...string) []*ssa.Function {
	var out []*ssa.Function
	seen := map[types.Type]bool{}
	var visit func(t types.Type)
	visit = func(t types.Type) {
		if t == nil || seen[t] {
			return
		}
		seen[t] = true
		for _, cand := range []types.Type{t, types.NewPointer(t)} {
			for _, n := range names {
				if f := c.P.MethodOf(cand, n); f != nil && c.moduleFn(f) {
					out = append(out, f)
				}
			}
		}
		switch u := t.Underlying().(type) {
		case *types.Pointer:
			visit(u.Elem())
		case *types.Slice:
			visit(u.Elem())
		case *types.Array:
			visit(u.Elem())
		case *types.Map:
			visit(u.Key())
			visit(u.Elem())
		case *types.Struct:
			for i := 0; i < u.NumFields(); i++ {
				visit(u.Field(i).Type())
			}
		}
	}
	for _, t := range ts {
		visit(t)
	}
	return out
}

// ---- panic sites -------------------------------------------------------------

type PanicSite struct {
	Fn    *ssa.Function
	Instr ssa.Instruction
	Kind  string // index, slice, assert, div, repeat, makelen, nilfield, panic
	Desc  string // construct text for the key (no line numbers)
	X     ssa.Value
	Idx   ssa.Value // index / high bound / divisor / count
	Low   ssa.Value
}

// PanicSites enumerates the source-level panic sites of fn.
func (c *Ctx) PanicSites(fn *ssa.Function) []*PanicSite {
	var out []*PanicSite
	o := c.P.OriginsOf(fn)
	add := func(in ssa.Instruction, kind string, x, idx, low ssa.Value, desc string) {
		out = append(out, &PanicSite{Fn: fn, Instr: in, Kind: kind, X: x, Idx: idx, Low: low, Desc: desc})
	}
	ex := func(v ssa.Value) string {
		if v == nil {
			return ""
		}
		return short(o.Of(v).String(), 90)
	}
	for _, b := range fn.Blocks {
		if b == fn.Recover {
			continue
		}
		for _, in := range b.Instrs {
			switch x := in.(type) {
			case *ssa.IndexAddr:
				// compiler-generated varargs arrays and composite literals index with constants in range
				if pt, ok := x.X.Type().Underlying().(*types.Pointer); ok {
					if arr, ok := pt.Elem().Underlying().(*types.Array); ok {
						if k, ok := constInt(x.Index); ok && k >= 0 && k < arr.Len() {
							continue
						}
					}
				}
				add(in, "index", x.X, x.Index, nil, ex(x.X)+"["+ex(x.Index)+"]")
			case *ssa.Index:
				if arr, ok := x.X.Type().Underlying().(*types.Array); ok {
					if k, ok := constInt(x.Index); ok && k >= 0 && k < arr.Len() {
						continue
					}
				}
				add(in, "index", x.X, x.Index, nil, ex(x.X)+"["+ex(x.Index)+"]")
			case *ssa.Lookup:
				if _, isMap := x.X.Type().Underlying().(*types.Map); isMap {
					continue
				}
				add(in, "index", x.X, x.Index, nil, ex(x.X)+"["+ex(x.Index)+"]")
			case *ssa.Slice:
				if x.Low == nil && x.High == nil && x.Max == nil {
					continue
				}
				// slicing an array pointer with constants in range
				if pt, ok := x.X.Type().Underlying().(*types.Pointer); ok {
					if arr, ok := pt.Elem().Underlying().(*types.Array); ok {
						okc := true
						for _, bnd := range []ssa.Value{x.Low, x.High} {
							if bnd == nil {
								continue
							}
							if k, ok := constInt(bnd); !ok || k < 0 || k > arr.Len() {
								okc = false
							}
						}
						if okc {
							continue
						}
					}
				}
				add(in, "slice", x.X, x.High, x.Low, ex(x.X)+"["+ex(x.Low)+":"+ex(x.High)+"]")
			case *ssa.TypeAssert:
				// an assertion of an interface value to its own type is the nil check the compiler emits for a method
				// value (`m.db.Get` passed as a function): it fails exactly when calling the method would
				if !x.CommaOk && !types.Identical(x.X.Type(), x.AssertedType) {
					add(in, "assert", x.X, nil, nil, ex(x.X)+".("+typeShort(c.P, x.AssertedType)+")")
				}
			case *ssa.BinOp:
				if x.Op == token.QUO || x.Op == token.REM {
					if bt, ok := x.X.Type().Underlying().(*types.Basic); ok && bt.Info()&types.IsInteger != 0 {
						if k, ok := constInt(x.Y); ok && k != 0 {
							continue
						}
						add(in, "div", x.X, x.Y, nil, ex(x.X)+" "+x.Op.String()+" "+ex(x.Y))
					}
				}
			case *ssa.Panic:
				if mi, ok := x.X.(*ssa.MakeInterface); ok {
					if cst, ok := mi.X.(*ssa.Const); ok && cst.Value != nil && strings.Contains(cst.Value.ExactString(), "blocking select matched no case") {
						continue // compiler-generated, unreachable: a blocking select always matches a case
					}
					if cst, ok := mi.X.(*ssa.Const); ok && cst.Value != nil && (strings.Contains(cst.Value.ExactString(), "yield function called after range loop exit") ||
						strings.Contains(cst.Value.ExactString(), "iterator call did not preserve panic")) {
						continue // protocol checks the SSA builder inserts around a range-over-func loop; they guard the iterator, which here is a standard-library one
					}
				}
				add(in, "panic", x.X, nil, nil, "panic("+ex(x.X)+")")
			case *ssa.MakeSlice:
				if _, ok := constInt(x.Len); ok {
					continue
				}
				if lenArg(x.Len) != nil {
					continue
				}
				add(in, "makelen", nil, x.Len, nil, "make(len="+ex(x.Len)+")")
			case *ssa.Call:
				d := c.P.Describe(x)
				switch d.Name {
				case "strings.Repeat":
					if _, ok := constInt(d.Args[1]); !ok {
						add(in, "repeat", d.Args[0], d.Args[1], nil, "strings.Repeat(_, "+ex(d.Args[1])+")")
					}
				case "slices.Delete":
					// slices.Delete(s, i, j) panics when the bounds are out of range
					add(in, "delete", d.Args[0], d.Args[2], d.Args[1], "slices.Delete("+ex(d.Args[0])+", "+ex(d.Args[1])+", "+ex(d.Args[2])+")")
				case "slices.Insert":
					add(in, "delete", d.Args[0], d.Args[1], d.Args[1], "slices.Insert("+ex(d.Args[0])+", "+ex(d.Args[1])+")")
				}
			case *ssa.FieldAddr:
				// dereference of a pointer that came out of data (struct field, map/slice element, call result):
				// pointer-typed struct fields can be nil after JSON decoding or a database read
				if c.pointerFromData(o, x.X) {
					add(in, "nilfield", x.X, nil, nil, "("+ex(x.X)+")."+fieldName(x))
				}
				// dereference of an errors.As target: the variable is nil unless that errors.As call returned true
				if cell := asTargetCell(x.X); cell != nil {
					add(in, "astarget", cell, nil, nil, "("+cell.Comment+")."+fieldName(x)+" (errors.As target)")
				}
			case *ssa.UnOp:
				if x.Op == token.MUL && c.pointerFromData(o, x.X) {
					if _, isStruct := x.X.Type().Underlying().(*types.Pointer).Elem().Underlying().(*types.Struct); isStruct {
						add(in, "nilfield", x.X, nil, nil, "*("+ex(x.X)+")")
					}
				}
			}
		}
	}
	return out
}

// asTargetCell: p is loaded from a local pointer variable whose address is handed to errors.As and which is
// never assigned otherwise (it is nil unless an errors.As call filled it).
func asTargetCell(p ssa.Value) *ssa.Alloc {
	ld, ok := p.(*ssa.UnOp)
	if !ok || ld.Op != token.MUL {
		return nil
	}
	cell, ok := ld.X.(*ssa.Alloc)
	if !ok || cell.Referrers() == nil {
		return nil
	}
	isTarget := false
	for _, r := range *cell.Referrers() {
		switch y := r.(type) {
		case *ssa.MakeInterface:
			if y.Referrers() != nil {
				for _, r2 := range *y.Referrers() {
					if call, ok := r2.(*ssa.Call); ok {
						if f := call.Call.StaticCallee(); f != nil && f.Pkg != nil && f.Pkg.Pkg.Path() == "errors" && f.Name() == "As" {
							isTarget = true
						}
					}
				}
			}
		case *ssa.Store:
			if y.Addr == ssa.Value(cell) {
				if k, isConst := y.Val.(*ssa.Const); !isConst || !k.IsNil() {
					return nil // assigned explicitly somewhere: not only an errors.As target
				}
			}
		}
	}
	if !isTarget {
		return nil
	}
	return cell
}

func fieldName(fa *ssa.FieldAddr) string {
	st := fa.X.Type().Underlying().(*types.Pointer).Elem().Underlying().(*types.Struct)
	return st.Field(fa.Field).Name()
}

// pointerFromData: the pointer value was loaded from a struct field / element (not a parameter,
// receiver, local address or fresh allocation).
func (c *Ctx) pointerFromData(o *Origins, p ssa.Value) bool {
	if _, ok := p.Type().Underlying().(*types.Pointer); !ok {
		return false
	}
	switch v := p.(type) {
	case *ssa.UnOp:
		if v.Op != token.MUL {
			return false
		}
		switch a := v.X.(type) {
		case *ssa.FieldAddr:
			// field of pointer type loaded from a struct
			_ = a
			return true
		case *ssa.IndexAddr:
			return true
		}
		return false
	case *ssa.Field:
		return true
	case *ssa.Lookup:
		return true
	case *ssa.Extract:
		if _, ok := v.Tuple.(*ssa.Lookup); ok {
			return true
		}
	}
	return false
}

// ---- discharging -------------------------------------------------------------

// lenAtLeast builds the condition "len(X) >= n" for X given by its provenance string.
func lenAtLeast(x string, n int64) *Cond {
	return &Cond{Name: fmt.Sprintf("len(%s) >= %d", short(x, 60), n), Match: func(f *Fact, o *Origins) bool {
		return factLenAtLeast(f, x) >= n
	}}
}

// factLenAtLeast returns the lower bound on len(X) implied by a fact (0 when none).
func factLenAtLeast(f *Fact, x string) int64 {
	if f == nil {
		return 0
	}
	isLenX := func(e *Ex) bool { return e != nil && e.K == "len" && e.Args[0].String() == x }
	num := func(e *Ex) (int64, bool) {
		if e == nil || e.K != "const" {
			return 0, false
		}
		v, err := strconv.ParseInt(e.S, 10, 64)
		return v, err == nil
	}
	switch f.Kind {
	case "cmp":
		switch f.Op.String() {
		case "<=":
			if f.Pos && isLenX(f.B) {
				if k, ok := num(f.A); ok {
					return k
				}
			}
		case "<":
			if f.Pos && isLenX(f.B) {
				if k, ok := num(f.A); ok {
					return k + 1
				}
			}
		case "==":
			if isLenX(f.A) {
				if k, ok := num(f.B); ok {
					if f.Pos {
						return k
					}
					if k == 0 {
						return 1
					}
				}
			}
		}
	case "bool":
		if f.Pos && isCall(f.A, "strings.HasPrefix") && exprIs(arg(f.A, 0), x) {
			if p := arg(f.A, 1); p != nil && p.K == "const" {
				return int64(len(strings.Trim(p.S, "\"")))
			}
		}
	}
	return 0
}

// knownLen gives a lower bound on the length of a value from how it was produced.
func (c *Ctx) knownLen(e *Ex) int64 {
	if e == nil {
		return 0
	}
	switch {
	case isCall(e, "strings.Split") || isCall(e, "strings.SplitN") || isCall(e, "bytes.Split"):
		// with a non-empty separator at least one element is returned
		if sep := arg(e, 1); sep != nil && sep.K == "const" && sep.S != "\"\"" {
			return 1
		}
	case isCall(e, "crypto/sha256.Sum256"):
		return 32
	case isCall(e, fnHexEncode):
		return 2 * c.knownLen(arg(e, 0))
	case e.K == "const" && strings.HasPrefix(e.S, "\""):
		return int64(len(e.S) - 2)
	}
	return 0
}

// Discharge decides a panic site; it returns (ok, how-or-why, trivial).
func (c *Ctx) Discharge(s *PanicSite, depth int) (bool, string) {
	o := c.P.OriginsOf(s.Fn)
	switch s.Kind {
	case "panic":
		return false, "explicit panic reachable from a request"
	case "astarget":
		cell := s.X
		filled := &Cond{Name: "errors.As filled the target", Match: func(f *Fact, _ *Origins) bool {
			if f.Kind != "bool" || !f.Pos || f.A == nil || f.A.K != "call" || f.A.Call == nil {
				return false
			}
			cc := f.A.Call.Common()
			if fn := cc.StaticCallee(); fn == nil || fn.Pkg == nil || fn.Pkg.Pkg.Path() != "errors" || fn.Name() != "As" || len(cc.Args) != 2 {
				return false
			}
			mi, ok := cc.Args[1].(*ssa.MakeInterface)
			return ok && mi.X == cell
		}}
		if ok, _ := o.Requires(s.Instr, filled); ok {
			return true, "behind errors.As(err, &target) == true"
		}
		return false, "the errors.As target may still be nil here: the dereference is reachable without that errors.As call having returned true"
	case "assert":
		return false, "unchecked type assertion"
	case "div":
		return false, "integer division by a value not known to be non-zero"
	case "repeat":
		// count must be >= 0: count = len(X) - 1 needs len(X) >= 1
		e := o.Of(s.Idx)
		if e.K == "bin" && e.S == "-" && e.Args[0].K == "len" && e.Args[1].K == "const" {
			k, _ := strconv.ParseInt(e.Args[1].S, 10, 64)
			return c.requireLen(s, e.Args[0].Args[0], k, depth)
		}
		// count = X - k behind a test that says k <= X (X > k-1, !(X <= k-1), X >= k, in either operand order)
		if e.K == "bin" && e.S == "-" && e.Args[1].K == "const" {
			if k, err := strconv.ParseInt(e.Args[1].S, 10, 64); err == nil && k >= 0 {
				x := e.Args[0].String()
				atLeast := &Cond{Name: "operand >= subtrahend", Match: func(f *Fact, _ *Origins) bool {
					if f.Kind != "cmp" || f.A == nil || f.B == nil {
						return false
					}
					a, b, op, pos := f.A, f.B, f.Op.String(), f.Pos
					if b.String() == x && a.K == "const" {
						a, b = b, a
						op = map[string]string{"<": ">", "<=": ">=", ">": "<", ">=": "<=", "==": "==", "!=": "!="}[op]
					}
					if a.String() != x || b.K != "const" {
						return false
					}
					v, err := strconv.ParseInt(b.S, 10, 64)
					if err != nil {
						return false
					}
					switch op {
					case ">":
						return (pos && v >= k-1)
					case ">=":
						return (pos && v >= k)
					case "<=":
						return (!pos && v >= k-1)
					case "<":
						return (!pos && v >= k)
					}
					return false
				}}
				if ok, _ := o.Requires(s.Instr, atLeast); ok {
					return true, "count is X - k behind a test that X >= k"
				}
			}
		}
		return false, "strings.Repeat count not known to be non-negative: " + short(e.String(), 100)
	case "makelen":
		e := o.Of(s.Idx)
		if e.K == "bin" && e.S == "-" && e.Args[0].K == "len" && e.Args[1].K == "const" {
			k, _ := strconv.ParseInt(e.Args[1].S, 10, 64)
			return c.requireLen(s, e.Args[0].Args[0], k, depth)
		}
		if e.K == "len" || e.K == "const" || nonNegative(e) {
			return true, "length is non-negative by construction"
		}
		if e.K == "call" || e.K == "param" || e.K == "field" || e.K == "conv" {
			// unsigned / parsed counts are the caller's business; negative make length panics only for signed negatives
			if bt, ok := s.Idx.Type().Underlying().(*types.Basic); ok && bt.Info()&types.IsUnsigned != 0 {
				return true, "unsigned length"
			}
		}
		return false, "make length not known to be non-negative: " + short(e.String(), 100)
	case "nilfield":
		return c.dischargeNil(s, depth)
	case "index":
		return c.dischargeIndex(s, depth)
	case "slice":
		return c.dischargeSlice(s, depth)
	case "delete":
		return c.dischargeDelete(s, depth)
	}
	return false, "unknown site kind"
}

// requireLen: len(X) >= n at the site, from a dominating fact in the function, from how X was produced,
// or (X a parameter) from a fact at every call site.
func (c *Ctx) requireLen(s *PanicSite, x *Ex, n int64, depth int) (bool, string) {
	if n <= 0 {
		return true, "no length needed"
	}
	if c.knownLen(x) >= n {
		return true, "producer guarantees the length"
	}
	o := c.P.OriginsOf(s.Fn)
	if ok, _ := o.Requires(s.Instr, lenAtLeast(x.String(), n)); ok {
		return true, "dominating length test"
	}
	// closures: fact established before the closure was created/called
	if s.Fn.Parent() != nil {
		if ok, _ := c.RequireAt(s.Instr, lenAtLeast(x.String(), n)); ok {
			return true, "length test before the closure"
		}
	}
	// parameter: every caller must establish the fact
	if root := paramRoot(x); root != "" && depth < 3 && s.Fn.Parent() == nil {
		callers := c.callersOf(s.Fn)
		if len(callers) == 0 {
			return false, fmt.Sprintf("needs len(%s) >= %d; no dominating test and no module caller to establish it", short(x.String(), 60), n)
		}
		for _, cs := range callers {
			co := c.P.OriginsOf(cs.Parent())
			xs := co.Enter(s.Fn, cs).substitute(x, s.Fn)
			if xs == "" {
				return false, "cannot express " + x.String() + " at caller " + c.P.InstrPos(cs)
			}
			okc, why := c.requireLenAtCall(cs, xs, n, depth)
			if !okc {
				// the caller's own callers (one more level) when the value is again a parameter
				return false, fmt.Sprintf("needs len(%s) >= %d; caller %s at %s does not establish it (%s)", short(x.String(), 60), n, c.P.FuncKey(cs.Parent()), c.P.InstrPos(cs), short(why, 120))
			}
		}
		return true, "every caller establishes the length"
	}
	return false, fmt.Sprintf("needs len(%s) >= %d; no dominating test", short(x.String(), 80), n)
}

// requireLenAtCall: len(xs) >= n holds at the call site cs - established in the calling function or, when
// xs is written over that function's own parameters, at every one of its call sites (up to three levels).
func (c *Ctx) requireLenAtCall(cs ssa.CallInstruction, xs string, n int64, depth int) (bool, string) {
	okc, why := c.RequireAt(cs, lenAtLeast(xs, n))
	if okc {
		return true, ""
	}
	fn := cs.Parent()
	if depth >= 3 || fn.Parent() != nil || !strings.Contains(xs, "P:") {
		return false, why
	}
	callers := c.callersOf(fn)
	if len(callers) == 0 {
		return false, why
	}
	for _, up := range callers {
		uo := c.P.OriginsOf(up.Parent())
		ys := uo.Enter(fn, up).substituteStr(xs, fn)
		if ys == "" {
			return false, why
		}
		if ok2, why2 := c.requireLenAtCall(up, ys, n, depth+1); !ok2 {
			return false, why + "; and its caller " + c.P.FuncKey(up.Parent()) + ": " + short(why2, 100)
		}
	}
	return true, ""
}

// substitute re-expresses an expression over the callee's parameters in the caller's terms.
func (o *Origins) substitute(x *Ex, callee *ssa.Function) string {
	return o.substituteStr(x.String(), callee)
}

func (o *Origins) substituteStr(s string, callee *ssa.Function) string {
	// replace "P:name" leaves by the caller-side provenance of the corresponding argument
	for _, prm := range callee.Params {
		from := "P:" + prm.Name()
		if !strings.Contains(s, from) {
			continue
		}
		to := o.Of(prm).String()
		s = replaceToken(s, from, to)
	}
	return s
}

func replaceToken(s, from, to string) string {
	var b strings.Builder
	for i := 0; i < len(s); {
		if strings.HasPrefix(s[i:], from) {
			j := i + len(from)
			if j >= len(s) || !(isIdentChar(s[j])) {
				b.WriteString(to)
				i = j
				continue
			}
		}
		b.WriteByte(s[i])
		i++
	}
	return b.String()
}

func isIdentChar(c byte) bool {
	return c == '_' || (c >= '0' && c <= '9') || (c >= 'a' && c <= 'z') || (c >= 'A' && c <= 'Z')
}

func paramRoot(x *Ex) string {
	for x != nil {
		switch x.K {
		case "param":
			return x.S
		case "field", "elem", "index", "slice", "deref", "anyof":
			x = x.Args[0]
		default:
			return ""
		}
	}
	return ""
}

// callersOf lists the static call sites of fn in the module.
func (c *Ctx) callersOf(fn *ssa.Function) []ssa.CallInstruction {
	var out []ssa.CallInstruction
	for _, f := range c.P.Funcs {
		top := EnclosingTop(f)
		if top.Pkg != nil && c.P.Rel(top.Pkg.Pkg.Path()) == "testutils" {
			continue
		}
		for _, ci := range Calls(f) {
			// (a call of an instance of a generic function is a call of that function)
			if callee := ci.Common().StaticCallee(); callee != nil && (callee == fn || callee.Origin() == fn || (fn.Origin() != nil && callee.Origin() == fn.Origin())) {
				out = append(out, ci)
			}
		}
	}
	return out
}

func (c *Ctx) dischargeIndex(s *PanicSite, depth int) (bool, string) {
	o := c.P.OriginsOf(s.Fn)
	// (a) range index of a whole-range loop over X
	if l := o.Loops.byIndex[s.Idx]; l != nil {
		if o.sameValue(l.RangeOf, s.X) {
			return true, "range index over the indexed value"
		}
		// (b) X was made with len(RangeOf)
		if ms := makeSliceOf(s.X); ms != nil {
			if y := lenArg(ms.Len); y != nil && o.sameValue(y, l.RangeOf) {
				return true, "slice made with the length of the ranged value"
			}
		}
		// (b') X was made with len(T)-k and the loop ranges over T[k:]
		if ms := makeSliceOf(s.X); ms != nil {
			if sl, ok := l.RangeOf.(*ssa.Slice); ok && sl.High == nil && sl.Max == nil && sl.Low != nil {
				if k, ok := constInt(sl.Low); ok && k >= 0 {
					if bo, ok := ms.Len.(*ssa.BinOp); ok && bo.Op == token.SUB {
						if k2, ok := constInt(bo.Y); ok && k2 == k {
							if y := lenArg(bo.X); y != nil && o.sameValue(y, sl.X) {
								return true, "slice made with len(T)-k, ranged over T[k:]"
							}
						}
					}
				}
			}
		}
		// the two collections were compared for equal length on the way
		eq := &Cond{Name: "equal lengths", Match: func(f *Fact, o2 *Origins) bool {
			if f.Kind != "cmp" || f.Op.String() != "==" || !f.Pos {
				return false
			}
			a, b := "len("+o.Of(l.RangeOf).String()+")", "len("+o.Of(s.X).String()+")"
			return (f.A.String() == a && f.B.String() == b) || (f.A.String() == b && f.B.String() == a)
		}}
		if ok, _ := o.Requires(s.Instr, eq); ok {
			return true, "lengths compared equal"
		}
	}
	xe := o.Of(s.X)
	if fromExternalService(xe) {
		return true, "value comes from an external service's answer, not from request content (out of the property's quantifier)"
	}
	// (a') index of a suffix loop  for i := k; i < len(X); i++
	if l := o.Loops.byPartial[s.Idx]; l != nil && o.sameValue(l.PartialOf, s.X) {
		return true, "loop index bounded by len of the indexed value"
	}
	// (g) counter idiom: X = make(len(M) [- k]); j := 0; for ... range M / for i := k'..len(M) { X[j] = ..; j++ }
	if ok, how := c.counterIdiom(s, o); ok {
		return true, how
	}
	// (h) range index over another parameter whose length equals len(X) at every caller
	if l := o.Loops.byIndex[s.Idx]; l != nil {
		if ok, how := c.equalLenAtCallers(s, o, l); ok {
			return true, how
		}
	}
	// (c) constant index
	if k, ok := constInt(s.Idx); ok && k >= 0 {
		return c.requireLen(s, xe, k+1, depth)
	}
	// (d) index from an IndexFunc-style search guarded by i >= 0
	ie := o.Of(s.Idx)
	if ie.K == "call" && (strings.HasSuffix(ie.S, ".IndexFunc") || strings.HasSuffix(ie.S, ".Index")) && len(ie.Args) >= 1 && ie.Args[0].String() == xe.String() {
		if ok, _ := o.Requires(s.Instr, searchHitCond(ie)); ok {
			return true, "search result tested >= 0 / != -1 (the search returns -1 or a valid index)"
		}
	}
	// (e) loop index bounded by len(X): dominating fact idx < len(X) with a non-negative start
	bound := &Cond{Name: "index < len", Match: func(f *Fact, o2 *Origins) bool {
		return f.Kind == "cmp" && f.Pos && f.Op.String() == "<" && f.A.String() == ie.String() && f.B.String() == "len("+xe.String()+")"
	}}
	if ok, _ := o.Requires(s.Instr, bound); ok && nonNegative(ie) {
		return true, "index tested < len"
	}
	// (f) len(X)-1 with len(X) >= 1
	if ie.K == "bin" && ie.S == "-" && ie.Args[0].String() == "len("+xe.String()+")" && isConst(ie.Args[1], "1") {
		return c.requireLen(s, xe, 1, depth)
	}
	// (e') an array has a static length N: index tested < K for a constant K <= N, and not negative (unsigned,
	// a counter from 0, or tested 0 <= index)
	if n := staticArrayLen(s.X.Type()); n >= 0 {
		below := &Cond{Name: "index < constant <= array length", Match: func(f *Fact, o2 *Origins) bool {
			if f.Kind != "cmp" || !f.Pos || f.A.String() != ie.String() || f.B.K != "const" {
				return false
			}
			k, err := strconv.ParseInt(f.B.S, 10, 64)
			if err != nil {
				return false
			}
			return (f.Op.String() == "<" && k <= n) || (f.Op.String() == "<=" && k < n)
		}}
		if ok, _ := o.Requires(s.Instr, below); ok {
			nn := nonNegative(ie)
			if b, isB := s.Idx.Type().Underlying().(*types.Basic); isB && b.Info()&types.IsUnsigned != 0 {
				nn = true
			}
			if !nn {
				lower := &Cond{Name: "0 <= index", Match: func(f *Fact, o2 *Origins) bool {
					if f.Kind != "cmp" || !f.Pos {
						return false
					}
					return (f.Op.String() == "<=" && isConst(f.A, "0") && f.B.String() == ie.String()) ||
						(f.Op.String() == ">=" && f.A.String() == ie.String() && isConst(f.B, "0")) ||
						(f.Op.String() == "<" && isConst(f.A, "-1") && f.B.String() == ie.String()) ||
						(f.Op.String() == ">" && f.A.String() == ie.String() && isConst(f.B, "-1"))
				}}
				nn, _ = o.Requires(s.Instr, lower)
			}
			if nn {
				return true, "index tested within the static length of the array"
			}
		}
	}
	// (e'') a parameter that every caller passes as a constant within the static length of the array (an
	// enum-indexed table of counters)
	if n := staticArrayLen(s.X.Type()); n >= 0 {
		v := s.Idx
		for {
			if cv, ok := v.(*ssa.Convert); ok {
				v = cv.X
				continue
			}
			if ct, ok := v.(*ssa.ChangeType); ok {
				v = ct.X
				continue
			}
			break
		}
		if prm, ok := v.(*ssa.Parameter); ok && s.Fn.Parent() == nil {
			pi := -1
			for i, p := range s.Fn.Params {
				if p == prm {
					pi = i
				}
			}
			sites := c.callersOf(s.Fn)
			okAll := pi >= 0 && len(sites) > 0
			for _, site := range sites {
				args := site.Common().Args
				if site.Common().IsInvoke() || pi >= len(args) {
					okAll = false
					break
				}
				k, isC := constInt(args[pi])
				if !isC || k < 0 || k >= n {
					okAll = false
					break
				}
			}
			if okAll {
				return true, "every caller passes a constant within the array's static length"
			}
		}
	}
	return false, "index " + short(ie.String(), 80) + " into " + short(xe.String(), 80) + " not proven in range"
}

// searchHitCond: the result ie of an Index / IndexFunc style search is a valid index (the search returns
// -1 or an index): ie >= 0, 0 <= ie, !(ie < 0), ie > -1, ie != -1, !(ie == -1), in any operand order.
func searchHitCond(ie *Ex) *Cond {
	want := ie.String()
	// the printed form of a loop-carried value depends on where its cycle was entered: compare calls by identity
	same := func(e *Ex) bool {
		if ie.Call != nil && e.K == "call" && e.Call == ie.Call && e.Idx == ie.Idx {
			return true
		}
		return e.String() == want
	}
	return &Cond{Name: "search result is a hit (>= 0)", Match: func(f *Fact, _ *Origins) bool {
		if f.Kind != "cmp" {
			return false
		}
		a, b, op := f.A, f.B, f.Op.String()
		if same(b) && a.K == "const" {
			// mirror so that the search result is on the left
			a, b = b, a
			switch op {
			case "<":
				op = ">"
			case "<=":
				op = ">="
			case ">":
				op = "<"
			case ">=":
				op = "<="
			}
		}
		if !same(a) || b.K != "const" {
			return false
		}
		switch {
		case op == ">=" && b.S == "0", op == ">" && b.S == "-1", op == "!=" && b.S == "-1":
			return f.Pos
		case op == "<" && b.S == "0", op == "<=" && b.S == "-1", op == "==" && b.S == "-1":
			return !f.Pos
		}
		return false
	}}
}

func nonNegative(e *Ex) bool {
	switch e.K {
	case "acc":
		// counter starting at a non-negative constant and only increased by non-negative amounts
		if strings.HasPrefix(e.S, "+") && len(e.Args) >= 1 && e.Args[0].K == "const" && !strings.HasPrefix(e.Args[0].S, "-") {
			for _, st := range e.Args[1:] {
				if !nonNegative(st) {
					return false
				}
			}
			return true
		}
	case "loopvar":
		return false
	case "const":
		return !strings.HasPrefix(e.S, "-")
	case "len":
		return true
	case "call":
		// library functions that map a non-negative size to a non-negative size
		switch e.S {
		case "encoding/hex.EncodedLen", "encoding/hex.DecodedLen":
			return len(e.Args) == 1 && nonNegative(e.Args[0])
		}
		if strings.HasSuffix(e.S, ".EncodedLen") || strings.HasSuffix(e.S, ".DecodedLen") {
			return len(e.Args) >= 1 && nonNegative(e.Args[len(e.Args)-1])
		}
	case "bin":
		if e.S == "*" {
			return nonNegative(e.Args[0]) && nonNegative(e.Args[1])
		}
		if e.S == "+" {
			return nonNegative(e.Args[0]) && nonNegative(e.Args[1]) || (e.Args[0].K == "acc" && isConst(e.Args[0].Args[0], "-1") && isConst(e.Args[1], "1"))
		}
	}
	return false
}

func makeSliceOf(v ssa.Value) *ssa.MakeSlice {
	switch x := v.(type) {
	case *ssa.MakeSlice:
		return x
	case *ssa.UnOp:
		if x.Op == token.MUL {
			if cell, ok := x.X.(*ssa.Alloc); ok && singleStoreCell(cell) {
				for _, r := range *cell.Referrers() {
					if st, ok := r.(*ssa.Store); ok && st.Addr == ssa.Value(cell) {
						return makeSliceOf(st.Val)
					}
				}
			}
		}
	}
	return nil
}

func (c *Ctx) dischargeSlice(s *PanicSite, depth int) (bool, string) {
	o := c.P.OriginsOf(s.Fn)
	xe := o.Of(s.X)
	need := int64(0)
	for _, b := range []ssa.Value{s.Low, s.Idx} {
		if b == nil {
			continue
		}
		k, ok := constInt(b)
		if !ok {
			be := o.Of(b)
			// x[:len(y)] style bounds with a proven relation are rare here; accept len(X) itself and min-style guards
			if be.String() == "len("+xe.String()+")" {
				continue
			}
			// bound proven <= len(X) by a dominating fact
			le := &Cond{Name: "bound <= len", Match: func(f *Fact, o2 *Origins) bool {
				if f.Kind != "cmp" || !f.Pos {
					return false
				}
				return (f.Op.String() == "<=" || f.Op.String() == "<") && f.A.String() == be.String() && f.B.String() == "len("+xe.String()+")"
			}}
			if ok2, _ := o.Requires(s.Instr, le); ok2 {
				continue
			}
			return false, "slice bound " + short(be.String(), 80) + " of " + short(xe.String(), 60) + " not proven <= len"
		}
		if k > need {
			need = k
		}
	}
	if lk, ok1 := constInt(s.Low); ok1 && s.Idx != nil {
		if hk, ok2 := constInt(s.Idx); ok2 && lk > hk {
			return false, "constant slice bounds inverted"
		}
	}
	// arrays (pointer to array) have a static length
	if pt, ok := s.X.Type().Underlying().(*types.Pointer); ok {
		if arr, ok := pt.Elem().Underlying().(*types.Array); ok && need <= arr.Len() {
			return true, "within the array length"
		}
	}
	// a slice made with a constant length (make([]byte, 36), never re-sliced on the way here)
	if ms := makeSliceOf(s.X); ms != nil {
		if k, ok := constInt(ms.Len); ok && need <= k {
			if v, isMS := s.X.(*ssa.MakeSlice); isMS && v == ms {
				return true, "within the constant length the slice was made with"
			}
		}
	}
	// ... which the compiler writes as a slice [:k] of a fresh array
	if sl, ok := s.X.(*ssa.Slice); ok && sl.Low == nil && sl.High != nil {
		if _, isAlloc := sl.X.(*ssa.Alloc); isAlloc {
			if k, ok := constInt(sl.High); ok && need <= k {
				return true, "within the constant length the slice was made with"
			}
		}
	}
	return c.requireLen(s, xe, need, depth)
}

func (c *Ctx) dischargeDelete(s *PanicSite, depth int) (bool, string) {
	o := c.P.OriginsOf(s.Fn)
	// slices.Delete(X, i, i+1) with i a range index over X
	lo := s.Low
	if l := o.Loops.byIndex[lo]; l != nil && o.sameValue(l.RangeOf, s.X) {
		hi := o.Of(s.Idx)
		if hi.K == "bin" && hi.S == "+" && hi.Args[0].String() == o.Of(lo).String() && isConst(hi.Args[1], "1") {
			return true, "delete of the element at the range index"
		}
	}
	// slices.Delete(X, i, i+1) with i the result of a search over X that was tested to be a hit
	if ie := o.Of(lo); ie.K == "call" && (strings.HasSuffix(ie.S, ".IndexFunc") || strings.HasSuffix(ie.S, ".Index")) && ie.Call != nil && len(ie.Call.Common().Args) >= 1 && o.sameValue(ie.Call.Common().Args[0], s.X) {
		if hb, ok := s.Idx.(*ssa.BinOp); ok && hb.Op.String() == "+" && hb.X == lo && isConst(o.Of(hb.Y), "1") {
			if ok, _ := o.Requires(s.Instr, searchHitCond(ie)); ok {
				return true, "delete of the element found by a search that was tested to be a hit"
			}
		}
	}
	// constants with a length fact
	if lk, ok := constInt(lo); ok {
		if hk, ok := constInt(s.Idx); ok && lk <= hk {
			return c.requireLen(s, o.Of(s.X), hk, depth)
		}
	}
	return false, "bounds of " + s.Desc + " not proven in range"
}

func (c *Ctx) dischargeNil(s *PanicSite, depth int) (bool, string) {
	o := c.P.OriginsOf(s.Fn)
	pe := o.Of(s.X)
	// provenance says it is an address of a local / fresh allocation
	allAddr := true
	for _, a := range pe.Alts() {
		if !(a.K == "addr" || a.K == "alloc" || a.K == "new") {
			allAddr = false
		}
	}
	if allAddr {
		return true, "pointer is the address of a local composite"
	}
	nn := &Cond{Name: "pointer non-nil", Match: func(f *Fact, o2 *Origins) bool {
		return f.Kind == "nil" && !f.Pos && f.A.String() == pe.String()
	}}
	if ok, _ := c.RequireAt(s.Instr, nn); ok {
		return true, "dominating nil test"
	}
	// fields of the program's own long-lived objects (receiver configuration) are set at construction
	top := EnclosingTop(s.Fn)
	if root := paramRoot(pe); root != "" && len(top.Params) > 0 && root == top.Params[0].Name() && top.Signature.Recv() != nil {
		return true, "field of the receiver object (set at construction)"
	}
	// values handed back by an external service client (Lightning node answers) are not request content
	if fromExternalService(pe) {
		return true, "value comes from an external service's answer, not from request content (out of the property's quantifier)"
	}
	// field of an element of a parameter list: every caller passes a list whose elements carry a fresh pointer there
	if pe.K == "field" && pe.Args[0].K == "elem" && pe.Args[0].Args[0].K == "param" && depth < 3 && s.Fn.Parent() == nil {
		rows, okAll := c.argsAtCallers(s.Fn, []string{pe.Args[0].Args[0].S}, 0)
		for _, row := range rows {
			argEx := row[0].Ex
			el := c.elementExpr(argEx)
			if el == nil {
				okAll = false
				break
			}
			f := project(el, pe.S)
			for _, a := range f.Alts() {
				if !(a.K == "addr" || a.K == "alloc" || a.K == "new") {
					okAll = false
				}
			}
		}
		if okAll {
			return true, "every caller passes elements whose " + pe.S + " is a fresh allocation"
		}
	}
	return false, "pointer " + short(pe.String(), 100) + " may be nil (no test, not a fresh allocation)"
}

var _ = constant.MakeInt64
var _ = sort.Strings

// argAt is an argument expression at a call site together with the provenance context of the calling function.
type argAt struct {
	Ex *Ex
	O  *Origins
}

// argsAtCallers resolves, for every call site of fn, the arguments bound to the named parameters. A caller
// that merely hands its own parameters on (a pass-through helper) is replaced by its own callers, up to
// three levels. ok is false when fn has no caller in the module.
func (c *Ctx) argsAtCallers(fn *ssa.Function, names []string, depth int) (out [][]argAt, ok bool) {
	callers := c.callersOrImplCallers(fn)
	if len(callers) == 0 {
		return nil, false
	}
	for _, cs := range callers {
		co := c.P.OriginsOf(cs.Parent())
		en := co.Enter(fn, cs)
		row := make([]argAt, len(names))
		allParam := true
		var upNames []string
		for i, n := range names {
			prm := paramByName(fn, n)
			if prm == nil {
				return nil, false
			}
			row[i] = argAt{en.Of(prm), co}
			if row[i].Ex.K != "param" {
				allParam = false
			} else {
				upNames = append(upNames, row[i].Ex.S)
			}
		}
		if allParam && depth < 3 && cs.Parent().Parent() == nil && cs.Parent() != fn {
			if up, ok2 := c.argsAtCallers(cs.Parent(), upNames, depth+1); ok2 {
				out = append(out, up...)
				continue
			}
		}
		out = append(out, row)
	}
	return out, true
}

func paramByName(f *ssa.Function, name string) *ssa.Parameter {
	for _, p := range f.Params {
		if p.Name() == name {
			return p
		}
	}
	return nil
}

// callersOrImplCallers: call sites of fn, including invoke-mode calls of the interface method it implements.
func (c *Ctx) callersOrImplCallers(fn *ssa.Function) []ssa.CallInstruction {
	out := c.callersOf(fn)
	if fn.Signature.Recv() == nil {
		return out
	}
	for _, f := range c.P.Funcs {
		top := EnclosingTop(f)
		if top.Pkg != nil && c.P.Rel(top.Pkg.Pkg.Path()) == "testutils" {
			continue
		}
		for _, ci := range Calls(f) {
			cc := ci.Common()
			if !cc.IsInvoke() || cc.Method.Name() != fn.Name() {
				continue
			}
			if it, ok := cc.Value.Type().Underlying().(*types.Interface); ok && types.Implements(fn.Signature.Recv().Type(), it) {
				out = append(out, ci)
			}
		}
	}
	return out
}

// elementExpr gives the expression of the elements of a list value: map(X => E) directly, or the success
// return of the module function that produced it.
func (c *Ctx) elementExpr(e *Ex) *Ex {
	if e == nil {
		return nil
	}
	if e.K == "map" {
		return e.Args[1]
	}
	if e.K == "call" && e.Call != nil {
		if f := e.Call.Common().StaticCallee(); f != nil && c.moduleFn(f) {
			o := c.P.OriginsOf(f)
			idx := e.Idx
			if idx < 0 {
				idx = 0
			}
			var el *Ex
			for _, r := range o.SuccessReturns() {
				if idx >= len(r.Results) {
					return nil
				}
				re := o.Of(r.Results[idx])
				if re.K != "map" {
					return nil
				}
				el = re.Args[1]
			}
			return el
		}
	}
	return nil
}

// lenExprOf gives a canonical "length" for list expressions whose length is tied to another list.
func (c *Ctx) lenExprOf(e *Ex, o *Origins) string {
	if e == nil {
		return ""
	}
	if e.K == "map" {
		return "len(" + e.Args[0].String() + ")"
	}
	if e.K == "call" && e.Call != nil {
		if f := e.Call.Common().StaticCallee(); f != nil && c.moduleFn(f) {
			fo := c.P.OriginsOf(f)
			idx := e.Idx
			if idx < 0 {
				idx = 0
			}
			res := ""
			for _, r := range fo.SuccessReturns() {
				if idx >= len(r.Results) {
					return ""
				}
				re := fo.Of(r.Results[idx])
				if re.K != "map" || re.Args[0].K != "param" {
					return ""
				}
				// which argument of the call is that parameter?
				for i, prm := range f.Params {
					if prm.Name() == re.Args[0].S && i < len(e.Args) {
						res = "len(" + e.Args[i].String() + ")"
					}
				}
			}
			return res
		}
	}
	return "len(" + e.String() + ")"
}

// equalLenAtCallers: the site indexes parameter X with the range index over parameter Y; at every
// caller both arguments have the same derived length.
func (c *Ctx) equalLenAtCallers(s *PanicSite, o *Origins, l *Loop) (bool, string) {
	xe, ye := o.Of(s.X), o.Of(l.RangeOf)
	if xe.K != "param" || ye.K != "param" || s.Fn.Parent() != nil {
		return false, ""
	}
	callers := c.callersOrImplCallers(s.Fn)
	if len(callers) == 0 {
		return false, ""
	}
	rows, ok := c.argsAtCallers(s.Fn, []string{xe.S, ye.S}, 0)
	if !ok {
		return false, ""
	}
	for _, row := range rows {
		lx, ly := c.lenExprOf(row[0].Ex, row[0].O), c.lenExprOf(row[1].Ex, row[1].O)
		if lx == "" || lx != ly {
			return false, ""
		}
	}
	return true, "both lists have the same derived length at every caller"
}

// counterIdiom: X = make([]T, len(M) - k) (k >= 0 constant) indexed by a counter that starts at 0 and is
// incremented exactly once per iteration of a loop over M that starts at index >= k.
func (c *Ctx) counterIdiom(s *PanicSite, o *Origins) (bool, string) {
	ms := makeSliceOf(s.X)
	if ms == nil {
		return false, ""
	}
	var m ssa.Value
	k := int64(0)
	if y := lenArg(ms.Len); y != nil {
		m = y
	} else if b, ok := ms.Len.(*ssa.BinOp); ok && b.Op == token.SUB {
		if y := lenArg(b.X); y != nil {
			if kk, ok := constInt(b.Y); ok && kk >= 0 {
				m, k = y, kk
			}
		}
	}
	if m == nil {
		return false, ""
	}
	ph, ok := s.Idx.(*ssa.Phi)
	if !ok {
		return false, ""
	}
	l := o.loopOfHeader(ph.Block())
	if l == nil {
		return false, ""
	}
	// the loop iterates over M (whole range, map range, or suffix starting at >= k)
	switch {
	case l.RangeOf != nil && o.sameValue(l.RangeOf, m) && k == 0:
	case l.PartialOf != nil && o.sameValue(l.PartialOf, m) && l.Start >= k:
	default:
		return false, ""
	}
	// counter: starts at 0 outside, every in-loop edge carries phi+1 (exactly one increment per iteration)
	for i, e := range ph.Edges {
		if l.Blocks[ph.Block().Preds[i]] {
			b, ok := e.(*ssa.BinOp)
			if !ok || b.Op != token.ADD || b.X != ssa.Value(ph) {
				return false, ""
			}
			if one, ok := constInt(b.Y); !ok || one != 1 {
				return false, ""
			}
		} else if z, ok := constInt(e); !ok || z != 0 {
			return false, ""
		}
	}
	if !l.Blocks[s.Instr.Block()] {
		return false, ""
	}
	return true, "slice made with the loop's iteration count, indexed by a once-per-iteration counter"
}

// fromExternalService: the expression is rooted in the result of an invoke-mode call on an interface that
// is not defined in the module (gRPC clients of the Lightning node).
func fromExternalService(e *Ex) bool {
	for e != nil {
		switch e.K {
		case "call":
			return strings.HasPrefix(e.S, "(lnrpc.") || strings.HasPrefix(e.S, "(routerrpc.") || strings.HasPrefix(e.S, "(invoicesrpc.")
		case "field", "elem", "index", "slice", "deref", "lookup":
			e = e.Args[0]
		default:
			return false
		}
	}
	return false
}

// staticArrayLen: the length of an array type (or pointer to array), -1 for anything else.
func staticArrayLen(t types.Type) int64 {
	if p, ok := t.Underlying().(*types.Pointer); ok {
		t = p.Elem()
	}
	if a, ok := t.Underlying().(*types.Array); ok {
		return a.Len()
	}
	return -1
}
