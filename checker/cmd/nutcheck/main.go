package main

import (
	"os"

	"nutcheck/nc"
)

func main() { os.Exit(nc.Main(os.Args[1:])) }
