import sys,os
sys.path.insert(0,'/verif/tools')
import regress, multiprocessing as mp
names=sys.argv[1:]
os.makedirs('/tmp/scratch',exist_ok=True)
import subprocess,tempfile,shutil,atexit
src=subprocess.run(['go','env','GOCACHE'],capture_output=True,text=True).stdout.strip()
tmpc=tempfile.mkdtemp(prefix='rg_gocache_',dir='/tmp/scratch'); os.rmdir(tmpc)
subprocess.run(['cp','-al',src,tmpc])
regress.ENV['GOCACHE']=tmpc
atexit.register(lambda: shutil.rmtree(tmpc,ignore_errors=True))
jobs=[('benign',n) for n in names]
with mp.Pool(10) as p: res=p.map(regress.run,jobs)
for r in res:
    if r[2]!='silent':
        print('ALARM',r[1],len(r[3]))
        for k in r[3][:8]: print('     ',k[:170])
print('done',len(res),'silent',sum(1 for r in res if r[2]=='silent'))
