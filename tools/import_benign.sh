#!/bin/bash
# usage: tools/import_benign.sh <worktree> <Cxx>  -- re-verify (applies, builds, baseline suite passes) and copy the
# behaviour-preserving edits of an agent's worktree into /verif/benign/<Cxx>-<n>/
WT="$1"; ID="$2"
export GOFLAGS=-mod=mod GOPROXY=off
for d in "$WT"/OUT/*/; do
  n=$(basename "$d"); [ -f "$d/patch.diff" ] || continue
  cd "$WT"; git checkout -q -- .; git clean -qfd -e OUT -e PROPERTY.json -e TASK.md
  [ -n "$ONLY" ] && [ "$ONLY" != "$n" ] && continue
  mv OUT /tmp/OUT.$$.b
  ok=1
  git apply /tmp/OUT.$$.b/$n/patch.diff 2>/dev/null || ok=0
  if [ $ok = 1 ]; then go build ./... >/dev/null 2>&1 || ok=0; fi
  if [ $ok = 1 ]; then go test -vet=off -count=1 ./... >/dev/null 2>&1 || ok=0; fi
  git checkout -q -- .; git clean -qfd -e OUT -e PROPERTY.json -e TASK.md; mv /tmp/OUT.$$.b OUT
  if [ $ok = 1 ]; then
    k=1; while [ -d /verif/benign/$ID-$k ]; do k=$((k+1)); done
    mkdir -p /verif/benign/$ID-$k; cp "$d/patch.diff" "$d/meta.json" /verif/benign/$ID-$k/
    echo "$ID OUT/$n -> benign/$ID-$k"
  else echo "$ID OUT/$n: NOT VERIFIED (apply/build/test failed)"; fi
done
