#!/bin/bash
# usage: tools/benignrun.sh <patch.diff> [props...]  -- apply a (claimed) behaviour-preserving patch in the
# scratch worktree and run the checks (default: all); prints every violation key raised.
SCR=/tmp/wt/scratch
if [ ! -d "$SCR" ]; then git -C /repo worktree add -q --detach "$SCR" HEAD || exit 2; fi
git -C "$SCR" checkout -q --detach "$(git -C /repo rev-parse HEAD)" 2>/dev/null
git -C "$SCR" checkout -q -- . ; git -C "$SCR" clean -qfd
patch="$1"; shift
props="$*"; [ -z "$props" ] && props="all"
if ! git -C "$SCR" apply "$patch" 2>/dev/null; then echo "PATCH-DOES-NOT-APPLY $patch"; exit 0; fi
out=$(/verif/bin/nutcheck -repo "$SCR" -property $props -no-evidence 2>&1)
n=$(echo "$out" | grep -c '^VIOLATION')
if [ "$n" -eq 0 ]; then echo "silent: $patch"; else echo "ALARMS ($n): $patch"; echo "$out" | grep -A1 '  key=' | grep -v '^--' | cut -c1-330; fi
git -C "$SCR" checkout -q -- . ; git -C "$SCR" clean -qfd
