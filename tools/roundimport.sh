#!/bin/bash
# usage: tools/roundimport.sh <worktree> <Cxx>  -- import the confirmed seeds of a seeding worktree, run the checks of
# the property on each, print CAUGHT/missed (arrival verdict), then remove the worktree.
WT="$1"; ID="$2"
before=$(ls /verif/seeded | grep "^$ID-" | sort -t- -k2 -n | tail -1)
/verif/tools/import_seeds.sh "$WT" "$ID" 2>&1 | grep -E "confirmed|CONFIRMED" 
for d in $(ls /verif/seeded | grep "^$ID-" | sort -t- -k2 -n); do
  n=${d#*-}; b=${before#*-}
  if [ "$n" -gt "${b:-0}" ]; then /verif/tools/seedrun.sh "$d" | tee -a /verif/tools/arrival_r10.log; fi
done
