#!/usr/bin/env python3
"""Development aid (not a registered check): applies every mutant listed by tools/mutgen to a scratch copy of /repo,
keeps those that compile, runs all static checks on them and, for the ones no rule reports, the baseline test suite.
Output: JSONL with status nocompile | caught(keys) | killed-by-tests | survivor.  Survivors are triaged by hand:
either the edit does not break any property (fine) or a rule is missing.
usage: mutsweep.py <mutants.jsonl> <out.jsonl> [workers] [filter-substring]"""
import json, os, shutil, subprocess, sys, multiprocessing as mp
REPO = '/repo'
NOTEST = os.environ.get('MUT_NOTEST') == '1'
ENV = dict(os.environ, GOFLAGS='-mod=mod', GOPROXY='off')
for k in ('GOWORK', 'GOTOOLCHAIN', 'GOSUMDB'):
    ENV.pop(k, None)
def worker(args):
    k, muts = args
    scr = '/tmp/scratch/mw%d' % k
    shutil.rmtree(scr, ignore_errors=True)
    shutil.copytree(REPO, scr, ignore=shutil.ignore_patterns('.git'))
    res = []
    for m in muts:
        path = os.path.join(scr, m['file'])
        src = open(os.path.join(REPO, m['file']), 'rb').read()
        new = src[:m['start']] + m['repl'].encode() + src[m['end']:]
        open(path, 'wb').write(new)
        r = dict(m)
        try:
            pk = './' + os.path.dirname(m['file']) + '/'
            b = subprocess.run(['go', 'build', pk], cwd=scr, env=ENV, capture_output=True, text=True)
            if b.returncode != 0:
                r['status'] = 'nocompile'
            else:
                c = subprocess.run(['/verif/bin/nutcheck', '-repo', scr, '-property', 'all', '-no-evidence'], capture_output=True, text=True, env=ENV)
                outp = c.stdout + c.stderr
                keys = [l.split('key=', 1)[1].strip()[:160] for l in outp.splitlines() if 'key=' in l and not l.startswith('KNOWN')]
                nviol = sum(1 for l in outp.splitlines() if l.startswith('VIOLATION'))
                if nviol > 0 or c.returncode != 0:
                    r['status'] = 'caught'; r['keys'] = keys[:4]; r['nviol'] = nviol
                else:
                    if NOTEST:
                        r['status'] = 'silent'
                    else:
                        base = m['file'].split('/')[0]
                        tp = './...' if base in ('cashu', 'crypto') else './' + base + '/...'
                        t = subprocess.run(['go', 'test', '-vet=off', '-count=1', tp], cwd=scr, env=ENV, capture_output=True, text=True)
                        r['status'] = 'survivor' if t.returncode == 0 else 'killed-by-tests'
        except Exception as e:
            r['status'] = 'error'; r['err'] = str(e)
        open(path, 'wb').write(src)
        res.append(r)
        with open('/tmp/scratch/mw%d.progress' % k, 'a') as f:
            f.write(json.dumps(r) + '\n')
    shutil.rmtree(scr, ignore_errors=True)
    return res
if __name__ == '__main__':
    muts = [json.loads(l) for l in open(sys.argv[1])]
    n = int(sys.argv[3]) if len(sys.argv) > 3 else 10
    if len(sys.argv) > 4:
        muts = [m for m in muts if sys.argv[4] in m['file']]
    chunks = [(k, muts[k::n]) for k in range(n)]
    for k in range(n):
        try: os.remove('/tmp/scratch/mw%d.progress' % k)
        except FileNotFoundError: pass
    with mp.Pool(n) as p:
        allr = p.map(worker, chunks)
    with open(sys.argv[2], 'w') as f:
        for rs in allr:
            for r in rs:
                f.write(json.dumps(r) + '\n')
    import collections
    c = collections.Counter(r['status'] for rs in allr for r in rs)
    print(dict(c))
