#!/bin/bash
# usage: tools/seedall.sh <seed-name> [dir]  -- apply a kept seed to a scratch copy and run every property on it
n="$1"; scr="${2:-/tmp/scratch/sa_$n}"
rm -rf "$scr"; mkdir -p "$scr"; git -C /repo archive HEAD | tar x -C "$scr"
patch -p1 -s -d "$scr" -i /verif/seeded/$n/patch.diff || echo NOAPPLY
/verif/bin/nutcheck -repo "$scr" -property all -no-evidence 2>&1 | grep "key=" | cut -c1-240
[ -z "$2" ] && rm -rf "$scr"
